#!/usr/bin/env python3
"""Regenerates MANIFEST.json from props.py (claimed checks) and properties.jsonl (ids)."""
import json, os, sys
ROOT = os.path.dirname(os.path.abspath(__file__))
sys.path.insert(0, ROOT)
from props import PROPS, NOT_APPLICABLE

ids = [json.loads(l)["id"] for l in open(os.path.join(ROOT, "properties.jsonl"))]
checks = []
for pid in ids:
    if pid not in PROPS:
        continue
    c = PROPS[pid]
    checks.append({
        "property_id": pid,
        "quick_cmd": "./check %s --tier quick" % pid,
        "thorough_cmd": "./check %s --tier thorough" % pid,
        "evidence_file": "evidence/%s.json" % pid,
        "replay_cmd_template": "./check %s --replay {path}" % pid,
        "engine": "lean4-proof+correspondence",
        "level_claimed": {"category": "proof", "text": c["level_text"], "design_ref": c.get("design_ref", "DESIGN.md §5 " + pid)},
        "level_note": c["level_note"],
        "technique": c.get("technique", "Lean 4 theorems about an executable model of the code (kernel-checked, axioms audited) + differential correspondence of the model against the real Go code on generated histories; a Lean spec monitor judges the implementation's traces"),
    })
na = [{"property_id": pid, "reason": NOT_APPLICABLE.get(pid, "check not built yet in this session (machinery under construction); no claim is made")} for pid in ids if pid not in PROPS]
m = {
    "version": 1,
    "setup_cmd": "./check --setup",
    "hooks": {
        "guard": "verif",
        "enable": "go build -tags verif (the harness module in /verif/harness replaces github.com/anoideaopen/foundation by /repo)",
        "baseline_off_cmd": "for m in . ./fixture/gost ./test/integration; do (cd /repo/$m && GOFLAGS=-mod=mod GOPROXY=off go test -json -vet=off -count=1 -timeout 25m ./...); done",
        "source_commits": json.load(open(os.path.join(ROOT, "hooks.json")))["source_commits"],
        "add_only": True,
    },
    "engines": [{"name": "lean4-proof+correspondence", "path": "check", "serves_properties": [c["property_id"] for c in checks],
                 "kind_free_text": "Lean 4 model+theorems (lean/), Go harness with simulated Fabric peer (harness/), line-protocol differential check and Lean spec monitor"}],
    "checks": checks,
    "not_applicable": na,
    "notes": "See DESIGN.md. Known findings are listed in known_findings.json.",
}
json.dump(m, open(os.path.join(ROOT, "MANIFEST.json"), "w"), indent=1)
print("checks:", len(checks), "not claimed:", len(na))
