#!/bin/bash
# runs every claimed check at the given tier (default quick), 4 at a time; prints the summary lines
cd "$(dirname "$0")"
tier=${1:-quick}
ids=$(python3 -c "import json;print(' '.join(c['property_id'] for c in json.load(open('MANIFEST.json'))['checks']))")
printf '%s\n' $ids | xargs -P ${PAR:-4} -I{} sh -c "./check {} --tier $tier > .work/out_{}.txt 2>&1; echo rc=\$? \$(tail -1 .work/out_{}.txt)"
