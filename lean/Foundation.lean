import Foundation.Basic.Store
import Foundation.Basic.Search
import Foundation.Model.Cache
import Foundation.Lemmas.Cache
import Foundation.Proofs.C12
import Foundation.Gen.Facts
import Foundation.Proofs.C02
import Foundation.Proofs.C20
