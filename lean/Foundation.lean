import Foundation.Basic.Store
import Foundation.Basic.Search
import Foundation.Model.Cache
import Foundation.Lemmas.Cache
import Foundation.Proofs.C12
