import Driver.Batch
import Foundation.Model.FullBatch
/-! Machine for the shared workload FBATCH: whole batches — listed transactions plus the robot's
    four lists — on one ledger. The model runs `fullBatchProg` on the layered cache, the judge on
    the plain map (the serial reading), plus judge clauses of its own on the implementation's dumps. -/
namespace Driver.FBatch
open Foundation Foundation.Cache Foundation.Batch Foundation.FullBatch Foundation.Dispatch Driver

structure S where
  b : Driver.Batch.S
  swapsOff : Bool
  mswapsOff : Bool

def init : S := ⟨Driver.Batch.init, false, false⟩

def cfgOf (s : S) : Config := ⟨"ROBOT", "admin", true, [], s.swapsOff, s.mswapsOff⟩

def parseAssetsM (s : String) : Option (List (String × Int)) :=
  if s = "-" then some [] else
  (s.splitOn "+").mapM (fun ga => match ga.splitOn "=" with
    | [g, a] => a.toInt?.map (fun n => (g, n))
    | _ => none)

/-- `id:owner:token:src:dst:keysym:assets` (a swap: assets = its amount) -/
def parseRec (multi : Bool) (creatorOwner : Bool) (it : String) : Option (String × Rec) :=
  match it.splitOn ":" with
  | [id, o, t, f, d, k, as] =>
    let assets := if multi then parseAssetsM as else as.toInt?.map (fun n => [("", n)])
    assets.map (fun as => (id, ⟨o, t, f, d, hashOf k, if creatorOwner then o else "0000", as⟩))
  | _ => none

def parseList {α} (f : String → Option α) (s : String) : Option (List α) :=
  if s = "-" then some [] else (s.splitOn ";").mapM f

def parseKey (it : String) : Option (String × String) :=
  match it.splitOn ":" with
  | [id, k] => some (id, k)
  | _ => none

def showI : IResp → String
  | .err c => "err:" ++ c
  | .ok ws => "ok w=" ++ joinOr ";" (ws.map Driver.Batch.showW)

def runFull (useCache : Bool) (ledger : Key → Val) (p : Prog Reply) : (Key → Val) × Reply :=
  if useCache then
    let r := runCache (Cache.init ledger) p
    (batchCommit r.1, r.2)
  else
    let r := runSpec ⟨ledger, fun _ => none, []⟩ p
    (r.1.c, r.2)

def recKeys (multi : Bool) (x : String × Rec) : List String :=
  [recKey multi x.1, givenKey x.2.src, givenKey x.2.dst]

def step (useCache : Bool) (s : S) : List String → S × String
  | ["reset"] => (init, "ok")
  | ["cfg", a, b] => ({ s with swapsOff := a = "1", mswapsOff := b = "1" }, "ok")
  | ["given", ch, n] => match n.toInt? with
    | some n => ({ s with b := { s.b with ledger := upd s.b.ledger (givenKey ch) (showBal n), keys := Driver.Batch.addKeys s.b [givenKey ch] } }, "ok")
    | none => (s, "bad-op")
  -- a record begun here earlier (creator = owner), as a begin would have stored it
  | ["putrec", kind, it] =>
    match parseRec (kind = "m") true it with
    | some x => ({ s with b := { s.b with ledger := upd s.b.ledger (recKey (kind = "m") x.1) (FullBatch.enc x.2),
                                           keys := Driver.Batch.addKeys s.b (recKeys (kind = "m") x) } }, "ok")
    | none => (s, "bad-op")
  | ["fbatch", ids, sw, k, ms, mk] =>
    match parseList (parseRec false false) sw, parseList parseKey k, parseList (parseRec true false) ms, parseList parseKey mk with
    | some sw, some k, some ms, some mk =>
      let syms := if ids = "-" then [] else ids.splitOn ","
      let content : Content := ⟨syms, sw, k, ms, mk⟩
      let p := fullBatchProg (cfgOf s) Driver.Batch.decode Driver.Batch.known content
      let scKeys := syms.flatMap (fun sym => match Driver.Batch.decode (s.b.ledger (pendKey sym)) with
        | some pd => Driver.Batch.scriptKeys pd.script | none => [])
      let r := runFull useCache s.b.ledger p
      let ks := scKeys ++ sw.flatMap (recKeys false) ++ ms.flatMap (recKeys true)
      ({ s with b := { s.b with ledger := r.1, keys := Driver.Batch.addKeys s.b ks } },
        joinOr " | " (r.2.txs.map Driver.Batch.showResp) ++ " || " ++ joinOr " | " (r.2.answers.map showI) ++ " || " ++
        joinOr " | " (r.2.keyResps.map showI))
    | _, _, _, _ => (s, "bad-op")
  | ws =>
    -- fund / submit / ledger as in the batch workload
    match ws with
    | "batch" :: _ | "tasks" :: _ => (s, "bad-op")
    | _ => let r := Driver.Batch.step useCache s.b ws; ({ s with b := r.1 }, r.2)

def machine : Machine := ⟨S, init, step true⟩

def clause : List String → String
  | "fbatch" :: _ => "whole_batch_refines_serial"
  | "ledger" :: _ => "reply_matches_ledger"
  | _ => "setup"

def judge : Machine := judgeOf ⟨S, init, step false⟩ clause

end Driver.FBatch
