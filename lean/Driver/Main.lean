import Driver.Common
import Driver.C12
import Driver.C02
import Driver.C20
import Driver.C19
import Driver.Auth
import Driver.C11
import Driver.C15
import Driver.C13
import Driver.C16
import Driver.C06
import Driver.Batch
import Driver.C10
import Driver.C08
import Driver.C09
import Driver.C07
import Driver.C14
import Driver.C17
import Driver.C18
import Driver.Sys
import Driver.Lapi
import Driver.FBatch
open Driver

def machines : List (String × Machine × Machine) :=
  [("C12", C12.machine, C12.judge),
   ("C02", C02.machine, C02.judge),
   ("C20", C20.machine, C20.judge),
   ("C19", C19.machine, C19.judge),
   ("C01", Auth.machine, Auth.judgeC01),
   ("C03", Auth.machine, Auth.judgeC03),
   ("C11", C11.machine, C11.judge),
   ("C15", C15.machine, C15.judge),
   ("C13", C13.machine, C13.judge),
   ("C16", C16.machine, C16.judge),
   ("C06", C06.machine, C06.judge),
   ("C04", Batch.machine, Batch.judge04),
   ("C05", Batch.machine, Batch.judge05),
   ("C10", C10.machine, C10.judge),
   ("C08", C08.machine, C08.judge),
   ("C09", C09.machine, C09.judge),
   ("C07", C07.machine, C07.judge),
   ("C14", C14.machine, C14.judge),
   ("C17", C17.machine, C17.judge),
   ("C18", C18.machine, C18.judge),
   ("SYS", Sys.machine, Sys.judge),
   ("LAPI", Lapi.machine, Lapi.judge),
   ("FBATCH", FBatch.machine, FBatch.judge)]

def main (args : List String) : IO UInt32 := do
  match args with
  | [mode, prop] =>
    match machines.find? (·.1 = prop) with
    | some (_, m, j) =>
      let stdin ← IO.getStdin
      let stdout ← IO.getStdout
      if mode = "model" then loop m stdin stdout m.init
      else if mode = "judge" then loop j stdin stdout j.init
      else IO.eprintln "mode must be model|judge"; return 2
      return 0
    | none => IO.eprintln s!"unknown property {prop}"; return 2
  | _ => IO.eprintln "usage: driver model|judge <property>"; return 2
