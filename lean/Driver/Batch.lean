import Driver.Common
import Foundation.Model.Batch
/-! Machines for C04 / C05: the model runs programs on the layered cache (`runCache`), the judge on
    the plain map (`runSpec`, the serial reading of the property). -/
namespace Driver.Batch
open Foundation Foundation.Cache Foundation.Batch Driver

structure S where
  ledger : Key → Val
  keys : List String                 -- key universe for dumps (sorted)
  subs : List (String × Bool)        -- submitted syms (true = record stored)
  disabled : List String := []       -- methods the configuration in force disables (Go names)

def init : S := ⟨fun _ => "", [], [], []⟩

def goName (m : String) : String :=
  if m = "script" then "TxScript" else if m = "scriptNS" then "TxScriptNS" else if m = "transfer" then "TxTransfer" else m

def parseStep (st : String) : Option Step :=
  match st.splitOn ":" with
  | ["put", k, v] => some (.put k v)
  | ["put", k] => some (.put k "")
  | ["del", k] => some (.del k)
  | ["get", k] => some (.get k)
  | ["evt", n, v] => some (.evt n v)
  | ["fail"] => some .fail
  | ["failx"] => some .fail      -- a failure whose error text is not valid UTF-8: a failure like any other
  | ["faill", _] => some .fail   -- a failure with a very long text of multi-byte characters: a failure like any other
  | ["panic"] => some .panic
  | ["nop"] => some .nop
  | ["mv", a, b, n] => n.toInt?.map (fun n => .mv a b n)
  | _ => none

def parseScript (s : String) : List Step :=
  if s = "-" then [] else (s.splitOn ";").filterMap parseStep

/-- the library's TxTransfer as a script: refuses self-transfers and zero amounts, then moves -/
def transferScript (sender spec : String) : List Step :=
  match spec.splitOn ":" with
  | [to, n] => match n.toInt? with
    | some n => if sender = to ∨ n = 0 then [.fail] else [.mv sender to n]
    | none => [.fail]
  | _ => [.fail]

def bodyOf (method sender script : String) : List Step :=
  if method = "transfer" then transferScript sender script else parseScript script

def decode (v : Val) : Option Pending :=
  match v.splitOn "|" with
  | [m, sender, sc] => some ⟨m, bodyOf m sender sc⟩
  | _ => none

def known (m : String) : Bool := m = "script" || m = "scriptNS" || m = "transfer"

def scriptKeys (sc : List Step) : List String :=
  sc.flatMap (fun st => match st with
    | .put k _ => [k] | .del k => [k] | .get k => [k]
    | .mv a b _ => [balKey a, balKey b] | _ => [])

def showW : Key × W → String
  | (k, .put v) => s!"{k}={enc v}"
  | (k, .del) => s!"{k}=DEL"

def insDup (k : String) : List String → List String
  | [] => [k]
  | x :: xs => if k ≤ x then k :: x :: xs else x :: insDup k xs

/-- sort keeping duplicates (accounting records are a multiset) -/
def sortStrs (l : List String) : List String := l.foldl (fun acc x => insDup x acc) []

def showResp : Resp → String
  | .err c => "err:" ++ c
  | .ok ws o =>
    "ok w=" ++ joinOr ";" (ws.map showW) ++ " e=" ++ joinOr ";" (sortStrs (o.events.map (fun p => s!"{p.1}={p.2}"))) ++
    " a=" ++ joinOr ";" (sortStrs o.acct) ++ " r=" ++ joinOr ";" (o.reads.map enc)

def dump (s : S) : String :=
  joinOr "," ((s.keys.filter (fun k => s.ledger k ≠ "")).map (fun k =>
    if k.startsWith "P:" then s!"{k}=1" else s!"{k}={s.ledger k}"))

def addKeys (s : S) (ks : List String) : List String := ks.foldl (fun acc k => insertSorted k acc) s.keys

/-- run a program with the cache (`useCache`) or on the plain map -/
def runProg (useCache : Bool) (ledger : Key → Val) (p : Prog (List Resp)) : (Key → Val) × List Resp :=
  if useCache then
    let r := runCache (Cache.init ledger) p
    (batchCommit r.1, r.2)
  else
    let r := runSpec ⟨ledger, fun _ => none, []⟩ p
    (r.1.c, r.2)

def step (useCache : Bool) (s : S) : List String → S × String
  | ["reset"] => (init, "ok")
  | ["fund", u, n] => match n.toInt? with
    | some n =>
      let k := balKey u
      ({ s with ledger := upd s.ledger k (showBal (readBal (s.ledger k) + n)), keys := addKeys s [k] }, "ok")
    | none => (s, "bad-op")
  | ["submit", sym, method, sender, script] =>
    if s.subs.any (·.1 = sym) then (s, "bad-op") else
    -- an id with an odd number of hex digits is no transaction id: refused, nothing recorded
    if sym.startsWith "O" then ({ s with subs := (sym, false) :: s.subs }, "err keys=0") else
    -- a disabled method is refused like an unknown one
    if s.disabled.contains (goName method) then ({ s with subs := (sym, false) :: s.subs }, "err keys=0") else
    if known method then
      -- an id submitted in upper-case hex is stored under that spelling; batches look ids up in
      -- lower case, so the record is never found: it is kept under a key no batch computes
      let k := if sym.startsWith "U" then pendKey ("^" ++ sym) else pendKey sym
      ({ s with ledger := upd s.ledger k (method ++ "|" ++ sender ++ "|" ++ script), keys := addKeys s [k], subs := (sym, true) :: s.subs }, "ok keys=1")
    else ({ s with subs := (sym, false) :: s.subs }, "err keys=0")
  | "batch" :: syms =>
    let p := batchProg decode known syms
    let scKeys := syms.flatMap (fun sym => match decode (s.ledger (pendKey sym)) with
      | some pd => scriptKeys pd.script | none => [])
    let r := runProg useCache s.ledger p
    ({ s with ledger := r.1, keys := addKeys s scKeys }, joinOr " | " (r.2.map showResp))
  | "tasks" :: ts =>
    let parsed := ts.filterMap (fun t => match t.splitOn "," with
      | [_id, method, sender, script] => some (method, bodyOf method sender script)
      | _ => none)
    if parsed.length ≠ ts.length then (s, "bad-op") else
    -- a method without a sender parameter cannot be a task: refused before anything runs
    let p := tasksProg (fun m => (m = "script" || m = "transfer") && !s.disabled.contains (goName m)) parsed
    let r := runProg useCache s.ledger p
    let fix := (parsed.zip r.2).map (fun (t, resp) => if t.1 = "scriptNS" then Resp.err "nosender" else resp)
    ({ s with ledger := r.1, keys := addKeys s (parsed.flatMap (fun t => scriptKeys t.2)) }, joinOr " | " (fix.map showResp))
  -- re-initialisation with some methods disabled: pending requests stay; a batch listing them
  -- consumes them all the same
  | ["disable", ms] => ({ s with disabled := if ms = "-" then [] else ms.splitOn "+" }, "ok")
  | ["ledger"] => (s, dump s)
  | _ => (s, "bad-op")

def machine : Machine := ⟨S, init, step true⟩

def clause04 : List String → String
  | "batch" :: _ => "batch_refines_serial"
  | "tasks" :: _ => "tasks_refine_serial"
  | "ledger" :: _ => "reply_matches_ledger"
  | "submit" :: _ => "submit_only_records"
  | _ => "setup"

/-- the judge runs the *serial* semantics (plain map, one transaction after the other) -/
def judge04 : Machine := judgeOf ⟨S, init, step false⟩ clause04

def clause05 : List String → String
  | "batch" :: _ => "executed_at_most_once"
  | "tasks" :: _ => "tasks_refine_serial"
  | "ledger" :: _ => "always_consumed"
  | "submit" :: _ => "submit_only_records"
  | _ => "setup"

def judge05 : Machine := judgeOf ⟨S, init, step false⟩ clause05

end Driver.Batch
