import Driver.Common
import Foundation.Model.Cache
namespace Driver.C12
open Foundation Foundation.Cache Driver

structure S where
  st : St
  keys : List String      -- key universe seen so far (sorted)

def init : S := ⟨Cache.init (fun _ => ""), []⟩

def showW : Key × W → String
  | (k, .put v) => s!"{k}={enc v}"
  | (k, .del) => s!"{k}=DEL"

def dump (m : Key → Val) (keys : List String) : String :=
  joinOr "," ((keys.filter (fun k => m k ≠ "")).map (fun k => s!"{k}={m k}"))

def get (s : S) (op : Op) (k : String) : S × String :=
  let r := Cache.step s.st op
  (⟨r.1, insertSorted k s.keys⟩, "v:" ++ enc (r.2.getD ""))

def step (s : S) : List String → S × String
  | ["reset", kvs] =>
    let l := parseKVs kvs
    (⟨Cache.init (ofKVs l), l.foldl (fun ks kv => insertSorted kv.1 ks) []⟩, "ok")
  | ["tx"] => (⟨txDiscard s.st, s.keys⟩, "ok")
  | ["tget", k] => get s (.tget k) k
  | ["bget", k] => get s (.bget k) k
  | ["tput", k, v] => (⟨(Cache.step s.st (.tput k (dec v))).1, insertSorted k s.keys⟩, "ok")
  | ["tdel", k] => (⟨(Cache.step s.st (.tdel k)).1, insertSorted k s.keys⟩, "ok")
  | ["bput", k, v] => (⟨(Cache.step s.st (.bput k (dec v))).1, insertSorted k s.keys⟩, "ok")
  | ["bdel", k] => (⟨(Cache.step s.st (.bdel k)).1, insertSorted k s.keys⟩, "ok")
  | ["tcommit"] =>
    let ws := txWrites s.st
    (⟨txCommit s.st, s.keys⟩, joinOr ";" (ws.map showW))
  | ["tdiscard"] => (⟨txDiscard s.st, s.keys⟩, "ok")
  | ["bcommit"] => (s, dump (batchCommit s.st) s.keys)
  | _ => (s, "bad-op")

def machine : Machine := ⟨S, init, step⟩

/-! judge: the property's own monitor — the plain-map spec, fed with the implementation's outputs -/
structure J where
  m : Spec
  ow : List (String × Option String)   -- own writes of the current tx in order (ghost, for the write list)
  keys : List String

def jinit : J := ⟨⟨fun _ => "", fun _ => none, []⟩, [], []⟩

def lastWins (ow : List (String × Option String)) : List String :=
  let ks := ow.foldl (fun acc kv => insertSorted kv.1 acc) []
  ks.map (fun k => match (ow.reverse.find? (·.1 = k)) with
    | some (_, some v) => s!"{k}={enc v}"
    | _ => s!"{k}=DEL")

def verdict (ok : Bool) (name detail : String) : String :=
  if ok then "pass" else s!"violation {name} {detail}"

/-- input: op words, then "=>", then the observed output -/
def jstep (j : J) (ws : List String) : J × String :=
  match ws with
  | ["reset", kvs, "=>", _] =>
    let l := parseKVs kvs
    (⟨⟨ofKVs l, fun _ => none, []⟩, [], l.foldl (fun ks kv => insertSorted kv.1 ks) []⟩, "pass")
  | ["tx", "=>", _] => (⟨j.m.discard, [], j.keys⟩, "pass")
  | ["tdiscard", "=>", _] => (⟨j.m.discard, [], j.keys⟩, "pass")
  | ["tget", k, "=>", o] =>
    (⟨j.m, j.ow, insertSorted k j.keys⟩, verdict (o = "v:" ++ enc (j.m.t k)) "get_is_view" s!"tget {k} expected {enc (j.m.t k)} got {o}")
  | ["bget", k, "=>", o] =>
    (⟨j.m, j.ow, insertSorted k j.keys⟩, verdict (o = "v:" ++ enc (j.m.c k)) "get_is_view" s!"bget {k} expected {enc (j.m.c k)} got {o}")
  | ["tput", k, v, "=>", _] => (⟨(specStep j.m (.tput k (dec v))).1, j.ow ++ [(k, some (dec v))], insertSorted k j.keys⟩, "pass")
  | ["tdel", k, "=>", _] => (⟨(specStep j.m (.tdel k)).1, j.ow ++ [(k, none)], insertSorted k j.keys⟩, "pass")
  | ["bput", k, v, "=>", _] => (⟨(specStep j.m (.bput k (dec v))).1, j.ow, insertSorted k j.keys⟩, "pass")
  | ["bdel", k, "=>", _] => (⟨(specStep j.m (.bdel k)).1, j.ow, insertSorted k j.keys⟩, "pass")
  | ["tcommit", "=>", o] =>
    let exp := joinOr ";" (lastWins j.ow)
    (⟨j.m.commit, [], j.keys⟩, verdict (o = exp) "writes_sorted_lastwins" s!"expected {exp} got {o}")
  | ["bcommit", "=>", o] =>
    let exp := dump j.m.c j.keys
    (j, verdict (o = exp) "commit_exact" s!"expected {exp} got {o}")
  | _ => (j, "bad-op")

def judge : Machine := ⟨J, jinit, jstep⟩

end Driver.C12
