import Driver.Common
import Foundation.Model.Cache
namespace Driver.C12
open Foundation Foundation.Cache Driver

structure S where
  st : St
  keys : List String      -- key universe seen so far (sorted)
  faults : List String := []   -- injected ledger-read faults not yet hit (one entry per fault)

def init : S := ⟨Cache.init (fun _ => ""), [], []⟩

/-- does this read go down to the ledger? (nothing cached on the way) -/
def reachesLedger (s : St) (txLevel : Bool) (k : String) : Bool :=
  (!txLevel || (s.tw k).isNone) && (s.bw k).isNone && (s.rd k).isNone

def showW : Key × W → String
  | (k, .put v) => s!"{k}={enc v}"
  | (k, .del) => s!"{k}=DEL"

def dump (m : Key → Val) (keys : List String) : String :=
  joinOr "," ((keys.filter (fun k => m k ≠ "")).map (fun k => s!"{k}={m k}"))

def get (s : S) (op : Op) (k : String) : S × String :=
  let txLevel := match op with | .tget _ => true | _ => false
  -- an injected fault: the read that reaches the ledger fails, and nothing is remembered of it
  if s.faults.contains k ∧ reachesLedger s.st txLevel k then
    ({ s with faults := s.faults.erase k, keys := insertSorted k s.keys }, "err")
  else
  let r := Cache.step s.st op
  ({ s with st := r.1, keys := insertSorted k s.keys }, "v:" ++ enc (r.2.getD ""))

def step (s : S) : List String → S × String
  | ["reset", kvs] =>
    let l := parseKVs kvs
    (⟨Cache.init (ofKVs l), l.foldl (fun ks kv => insertSorted kv.1 ks) [], []⟩, "ok")
  | ["fault", k] => ({ s with faults := k :: s.faults }, "ok")
  | ["tx"] => ({ s with st := txDiscard s.st }, "ok")
  | ["tget", k] => get s (.tget k) k
  | ["bget", k] => get s (.bget k) k
  | ["tput", k, v] => ({ s with st := (Cache.step s.st (.tput k (dec v))).1, keys := insertSorted k s.keys }, "ok")
  | ["tdel", k] => ({ s with st := (Cache.step s.st (.tdel k)).1, keys := insertSorted k s.keys }, "ok")
  | ["bput", k, v] => ({ s with st := (Cache.step s.st (.bput k (dec v))).1, keys := insertSorted k s.keys }, "ok")
  | ["bdel", k] => ({ s with st := (Cache.step s.st (.bdel k)).1, keys := insertSorted k s.keys }, "ok")
  | ["tcommit"] =>
    let ws := txWrites s.st
    ({ s with st := txCommit s.st }, joinOr ";" (ws.map showW))
  | ["tdiscard"] => ({ s with st := txDiscard s.st }, "ok")
  | ["bcommit"] => (s, dump (batchCommit s.st) s.keys)
  | _ => (s, "bad-op")

def machine : Machine := ⟨S, init, step⟩

/-! judge: the property's own monitor — the plain-map spec, fed with the implementation's outputs -/
structure J where
  m : Spec
  ow : List (String × Option String)   -- own writes of the current tx in order (ghost, for the write list)
  keys : List String
  faults : List String := []           -- injected read faults that may still strike

def jinit : J := ⟨⟨fun _ => "", fun _ => none, []⟩, [], [], []⟩

def lastWins (ow : List (String × Option String)) : List String :=
  let ks := ow.foldl (fun acc kv => insertSorted kv.1 acc) []
  ks.map (fun k => match (ow.reverse.find? (·.1 = k)) with
    | some (_, some v) => s!"{k}={enc v}"
    | _ => s!"{k}=DEL")

def verdict (ok : Bool) (name detail : String) : String :=
  if ok then "pass" else s!"violation {name} {detail}"

/-- input: op words, then "=>", then the observed output -/
def jstep (j : J) (ws : List String) : J × String :=
  match ws with
  | ["reset", kvs, "=>", _] =>
    let l := parseKVs kvs
    (⟨⟨ofKVs l, fun _ => none, []⟩, [], l.foldl (fun ks kv => insertSorted kv.1 ks) [], []⟩, "pass")
  | ["fault", k, "=>", _] => ({ j with faults := k :: j.faults }, "pass")
  | ["tx", "=>", _] => ({ j with m := j.m.discard, ow := [] }, "pass")
  | ["tdiscard", "=>", _] => ({ j with m := j.m.discard, ow := [] }, "pass")
  -- a read may fail only where a fault was injected (the fault is then spent); a read that answers
  -- must answer the view, fault or no fault — a failed read is remembered by nobody
  | ["tget", k, "=>", o] =>
    if o = "err" then
      ({ j with faults := j.faults.erase k, keys := insertSorted k j.keys }, verdict (j.faults.contains k) "get_is_view" s!"tget {k} failed without a fault")
    else
    ({ j with keys := insertSorted k j.keys }, verdict (o = "v:" ++ enc (j.m.t k)) "get_is_view" s!"tget {k} expected {enc (j.m.t k)} got {o}")
  | ["bget", k, "=>", o] =>
    if o = "err" then
      ({ j with faults := j.faults.erase k, keys := insertSorted k j.keys }, verdict (j.faults.contains k) "get_is_view" s!"bget {k} failed without a fault")
    else
    ({ j with keys := insertSorted k j.keys }, verdict (o = "v:" ++ enc (j.m.c k)) "get_is_view" s!"bget {k} expected {enc (j.m.c k)} got {o}")
  | ["tput", k, v, "=>", _] => ({ j with m := (specStep j.m (.tput k (dec v))).1, ow := j.ow ++ [(k, some (dec v))], keys := insertSorted k j.keys }, "pass")
  | ["tdel", k, "=>", _] => ({ j with m := (specStep j.m (.tdel k)).1, ow := j.ow ++ [(k, none)], keys := insertSorted k j.keys }, "pass")
  | ["bput", k, v, "=>", _] => ({ j with m := (specStep j.m (.bput k (dec v))).1, keys := insertSorted k j.keys }, "pass")
  | ["bdel", k, "=>", _] => ({ j with m := (specStep j.m (.bdel k)).1, keys := insertSorted k j.keys }, "pass")
  | ["tcommit", "=>", o] =>
    let exp := joinOr ";" (lastWins j.ow)
    ({ j with m := j.m.commit, ow := [] }, verdict (o = exp) "writes_sorted_lastwins" s!"expected {exp} got {o}")
  | ["bcommit", "=>", o] =>
    let exp := dump j.m.c j.keys
    (j, verdict (o = exp) "commit_exact" s!"expected {exp} got {o}")
  | _ => (j, "bad-op")

def judge : Machine := ⟨J, jinit, jstep⟩

end Driver.C12
