import Driver.Common
import Foundation.Model.ChTransfer
namespace Driver.C10
open Foundation Foundation.ChTransfer Driver

structure St where
  s : ChTransfer.S
  funded : List (String × Int)       -- initial funding per user (K)
  onProtocol : Bool                  -- every accepted step so far was a protocol step
  ids : List String

def users : List String := ["u0", "u1"]

def init (fwd : Bool) : St := ⟨ChTransfer.init fwd (fun _ => 0) 1000000, [], true, []⟩

def doStep (st : St) (x : Step) (id : String) : St × String :=
  match step st.s x with
  | some s' => ({ st with s := s', onProtocol := st.onProtocol && allowed st.s x, ids := insertSorted id st.ids }, "ok")
  | none => ({ st with ids := insertSorted id st.ids }, "err")

def dump (st : St) : String :=
  let f := fun (g : String → Int) => ",".intercalate (users.map (fun u => s!"{u}={g u}"))
  let fr := st.ids.filterMap (fun id => (st.s.fromRec id).map (fun r => s!"{id}:{if r.committed then "c" else "o"}"))
  let to := st.ids.filter (fun id => (st.s.toRec id).isSome)
  s!"A:{f st.s.srcA};B:{f st.s.dstB};gA={st.s.givenA};gB={st.s.givenB};from={joinOr "," fr};to={joinOr "," to};x=0"

def step' (st : St) : List String → St × String
  | ["reset", d] => (init (d = "f" ∨ d = "g"), "ok")
  | ["reset", d, "2u"] => (init (d = "g"), "ok")     -- a grouped token named with two underscores: the same protocol
  | ["fund", u, n] => match n.toInt? with
    | some n => ({ st with s := { st.s with srcA := upd st.s.srcA u (st.s.srcA u + n) },
                           funded := (u, n) :: st.funded }, "ok")
    | none => (st, "bad-op")
  | ["from", id, u, n] => match n.toInt? with
    | some n => doStep st (.createFrom (dec id) u n) id
    | none => (st, "bad-op")
  | ["fromlc", id, u, n] => match n.toInt? with      -- destination channel spelled in lower case
    | some n => doStep st (.createFrom (dec id) u n) id
    | none => (st, "bad-op")
  | ["fromadm", id, u, n] => match n.toInt? with
    | some n => doStep st (.createFrom (dec id) u n) id
    | none => (st, "bad-op")
  | ["to", id, u, n] => match n.toInt? with
    | some n => doStep st (.createTo (dec id) ⟨u, n⟩) id
    | none => (st, "bad-op")
  | ["commit", id] => doStep st (.commit id) id
  | ["delto", id] => doStep st (.deleteTo id) id
  | ["delfrom", id] => doStep st (.deleteFrom id) id
  | ["cancel", id] => doStep st (.cancel id) id
  -- the robot's steps attempted by an ordinary client certificate: refused, nothing changes
  | ["xto", _, _, _] | ["xcommit", _] | ["xdelto", _] | ["xdelfrom", _] | ["xcancel", _] => (st, "err")
  -- malformed create-to contents and initiations: refused whatever the state, nothing changes
  | ["tobad", _, _, _, _] | ["frombad", _, _, _, _] => (st, "err")
  -- an executed batch sent again: the request it names was consumed, nothing runs
  | ["reto", _] | ["recancel", _] => (st, "err")
  | ["rebin", _] => (st, "ok")        -- same records in the old binary encoding: no change of meaning
  | ["dump"] => (st, dump st)
  | _ => (st, "bad-op")

def machine : Machine := ⟨St, init true, step'⟩

def clause : List String → String
  | "dump" :: _ => "balances_and_records"
  | "from" :: _ => "debit_once"
  | "fromadm" :: _ => "debit_once"
  | "fromlc" :: _ => "debit_once"
  | "to" :: _ => "credit_at_most_once"
  | "cancel" :: _ => "refund_exact"
  | "tobad" :: _ | "frombad" :: _ => "malformed_request_refused"
  | "reto" :: _ => "credit_at_most_once"
  | "recancel" :: _ => "refund_exact"
  | "xto" :: _ | "xcommit" :: _ | "xdelto" :: _ | "xdelfrom" :: _ | "xcancel" :: _ => "robot_step_by_stranger"
  | _ => "record_lifecycle"

/-- judge: (1) replies and dumps equal the spec machine's; (2) independently, while the history
    respects the protocol: no user's spendable total over both channels exceeds the funding, and when
    nothing is in flight the given-out counter matches what the destination credited. -/
def jstep (st : St) (ws : List String) : St × String :=
  let (op, obs) := splitObs ws
  let r := (judgeOf machine clause).step st ws
  match op with
  | ["dump"] =>
    if ¬ r.1.onProtocol then r else
    -- parse A:u0=..,u1=..;B:...;gA=..;gB=..
    let parts := obs.splitOn ";"
    let nums := fun (p : String) => (((p.splitOn ":").getD 1 "").splitOn ",").filterMap (fun kv =>
      match kv.splitOn "=" with | [u, v] => v.toInt?.map (fun n => (u, n)) | _ => none)
    let a := nums (parts.getD 0 "")
    let b := nums (parts.getD 1 "")
    let over := users.find? (fun u =>
      let k := (r.1.funded.filter (·.1 = u)).foldl (fun acc p => acc + p.2) 0
      ((a.find? (·.1 = u)).map (·.2)).getD 0 + ((b.find? (·.1 = u)).map (·.2)).getD 0 > k)
    match over with
    | some u => (r.1, s!"violation spendable_twice user {u} holds more over both channels than funded: {obs}")
    | none => r
  | _ => r

def judge : Machine := ⟨St, init true, jstep⟩

end Driver.C10
