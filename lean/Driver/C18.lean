import Driver.Common
import Foundation.Model.Config
namespace Driver.C18
open Foundation.Config Driver

def unesc (s : String) : String := (s.replace "%20" " ").replace "%0a" "\n"

def parseV (wallet : Bool) (v : String) : V :=
  if v = "" ∨ v = "~" then .absent
  else if v = "null" then .null
  else if v = "#" then .wrongKind
  else if v = "{}" then (if wallet then .emptyObj else .wrongKind)
  else if v.startsWith "=" then .str (unesc (v.drop 1).toString)
  else .wrongKind

def parseObj (v : String) : V :=
  if v = "" ∨ v = "~" then .absent
  else if v = "null" then .null
  else if v = "#" then .wrongKind
  else if v = "{}" then .emptyObj
  else if v = "obj" then .str ""
  else .wrongKind

def look (items : List (String × String)) (k : String) : String :=
  ((items.find? (·.1 = k)).map (·.2)).getD ""

def rendersObj (v : V) : Bool := match v with | .str _ | .emptyObj => true | _ => false

def cfgOf (ws : List String) : Cfg :=
  let items := ws.filterMap (fun w => match w.splitOn "=" with
    | k :: rest => if rest.isEmpty then none else some (k, "=".intercalate rest)
    | [] => none)
  let extras := items.filter (fun kv => kv.1 = "x" ∨ kv.1 = "d")
  let has := fun (k v : String) => extras.any (fun kv => kv.1 = k ∧ kv.2 = v)
  let c := parseObj (look items "c")
  let t := parseObj (look items "t")
  let cObj := match c with | .str _ => true | _ => false
  let tObj := match t with | .str _ => true | _ => false
  let cs := parseV false (look items "cs")
  let ca := parseV true (look items "ca")
  let ti := parseV true (look items "ti")
  let unknown := has "x" "top" || (has "x" "c" && cObj) || (has "x" "t" && tObj) ||
    (has "x" "ca" && cObj && rendersObj ca) || (has "x" "ti" && tObj && rendersObj ti)
  let dup := (has "d" "cs" && cObj && cs ≠ .absent) || (has "d" "ti" && tObj && ti ≠ .absent) || (has "d" "c" && c ≠ .absent)
  let dis := let d := look items "cd"; if d = "" ∨ d = "~" then [] else d.splitOn ","
  ⟨c, cs, parseV false (look items "cr"), ca, dis, t, parseV false (look items "tn"), ti,
   parseV true (look items "tf"), parseV true (look items "tg"), parseV true (look items "tr"), unknown, dup⟩

structure S where
  channel : String := "vt"
  stored : Stored := none

def adminOU (creator : String) : Bool := creator = "admin" ∨ creator = "Admin" ∨ creator = "both"

def showActive (a : Active) : String :=
  let dis := a.disabled.foldr insertSorted []
  s!"sym={a.symbol} ski={a.robotSKI} admin={a.admin} issuer={a.issuer} fs={a.feeSetter} dis={",".intercalate dis}"

def doInit (s : S) (creator : String) (a : InitArgs) : S × String :=
  let r := init s.stored (adminOU creator) a
  ({ s with stored := r.1 }, if r.2 then "ok stored" else "err kept")

def step (s : S) : List String → S × String
  | ["reset", ch] => ({ channel := ch }, "ok")
  -- executed by another process over the same ledger: the same initialisation
  | "initother" :: creator :: "json" :: items => doInit s creator (.json (cfgOf items))
  | "init" :: creator :: "json" :: items => doInit s creator (.json (cfgOf items))
  | "init" :: creator :: "pos" :: args =>
    let as := args.map (fun a => if a = "-" then "" else unesc (a.drop 1).toString)
    doInit s creator (.positional s.channel s.channel.toUpper as)
  | ["init", creator, "raw", _] =>
    -- a single argument that is not a JSON object of the right shape: never accepted
    doInit s creator (.positional s.channel s.channel.toUpper ["raw"])
  | ["probe"] => (s, match inForce s.stored with | some a => showActive a | none => "refused")
  | _ => (s, "bad-op")

def machine : Machine := ⟨S, {}, step⟩

def clause : List String → String
  | "init" :: _ => "stored_iff_valid"
  | "initother" :: _ => "stored_iff_valid"
  | "probe" :: _ => "invoke_uses_last_stored"
  | _ => "setup"

def judge : Machine := judgeOf machine clause

end Driver.C18
