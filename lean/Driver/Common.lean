import Foundation.Basic.Store
/-! Line-protocol plumbing shared by all property drivers (core only). -/
namespace Driver
open Foundation

/-- a property's executable machine: state, reset state, one step per input line -/
structure Machine where
  σ : Type
  init : σ
  step : σ → List String → σ × String

def words (line : String) : List String :=
  (line.splitOn " ").filter (· ≠ "")

/-- "-" encodes the empty string on the wire -/
def dec (s : String) : String := if s = "-" then "" else s
def enc (s : String) : String := if s = "" then "-" else s

def joinOr (sep : String) (l : List String) : String :=
  if l.isEmpty then "-" else sep.intercalate l

def insertSorted (k : String) : List String → List String
  | [] => [k]
  | x :: xs => if k < x then k :: x :: xs else if k = x then x :: xs else x :: insertSorted k xs

/-- parse "k=v,k=v" (or "-") -/
def parseKVs (s : String) : List (String × String) :=
  if s = "-" ∨ s = "" then [] else
  (s.splitOn ",").filterMap (fun kv =>
    match kv.splitOn "=" with
    | [k, v] => some (k, dec v)
    | _ => none)

def ofKVs (kvs : List (String × String)) : Key → Val :=
  fun k => match kvs.find? (·.1 = k) with | some (_, v) => v | none => ""

partial def loop (m : Machine) (h : IO.FS.Stream) (out : IO.FS.Stream) (s : m.σ) : IO Unit := do
  let line ← h.getLine
  if line.isEmpty then return ()
  let l := line.trimAscii.toString
  if l.startsWith "#" ∨ l.isEmpty then
    loop m h out s
  else
    let (s', o) := m.step s (words l)
    out.putStrLn o
    loop m h out s'

end Driver
