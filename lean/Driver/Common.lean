import Foundation.Basic.Store
/-! Line-protocol plumbing shared by all property drivers (core only). -/
namespace Driver
open Foundation

/-- a property's executable machine: state, reset state, one step per input line -/
structure Machine where
  σ : Type
  init : σ
  step : σ → List String → σ × String

def words (line : String) : List String :=
  (line.splitOn " ").filter (· ≠ "")

/-- "-" encodes the empty string on the wire -/
def dec (s : String) : String := if s = "-" then "" else s
def enc (s : String) : String := if s = "" then "-" else s

def joinOr (sep : String) (l : List String) : String :=
  if l.isEmpty then "-" else sep.intercalate l

def insertSorted (k : String) : List String → List String
  | [] => [k]
  | x :: xs => if k < x then k :: x :: xs else if k = x then x :: xs else x :: insertSorted k xs

/-- parse "k=v,k=v" (or "-") -/
def parseKVs (s : String) : List (String × String) :=
  if s = "-" ∨ s = "" then [] else
  (s.splitOn ",").filterMap (fun kv =>
    match kv.splitOn "=" with
    | [k, v] => some (k, dec v)
    | _ => none)

def ofKVs (kvs : List (String × String)) : Key → Val :=
  fun k => match kvs.find? (·.1 = k) with | some (_, v) => v | none => ""

partial def loop (m : Machine) (h : IO.FS.Stream) (out : IO.FS.Stream) (s : m.σ) : IO Unit := do
  let line ← h.getLine
  if line.isEmpty then return ()
  let l := line.trimAscii.toString
  if l.startsWith "#" ∨ l.isEmpty then
    loop m h out s
  else
    let (s', o) := m.step s (words l)
    out.putStrLn o
    loop m h out s'

end Driver

namespace Driver
/-- split "op words => observed" -/
def splitObs (ws : List String) : List String × String :=
  match ws.span (· ≠ "=>") with
  | (op, _ :: obs) => (op, " ".intercalate obs)
  | (op, []) => (op, "")

/-- A judge derived from a machine whose outputs are exactly the property-relevant observables:
    the implementation's output must equal the spec machine's output; `name` labels the violated
    clause by operation. -/
def splitTokens (s : String) : List String :=
  (s.splitOn " ").flatMap (fun w => w.splitOn ",")

/-- equal, or equal up to error texts the harness could not classify: an implementation token
    containing `other(` stands for "some error" and matches any error class of the specification
    (never `ok`/`pass`, never data) -/
def looseEq (spec impl : String) : Bool :=
  spec == impl ||
  (let st := splitTokens spec
   let it := splitTokens impl
   st.length == it.length && (st.zip it).all (fun p =>
     p.1 == p.2 || ((p.2.splitOn "other(").length > 1 && p.1 != "ok" && p.1 != "pass" && p.1 != "-" && p.1 != ""
                    && !(p.1.contains '='))))

def judgeOf (m : Machine) (name : List String → String) : Machine :=
  ⟨m.σ, m.init, fun s ws =>
    let (op, obs) := splitObs ws
    let (s', o) := m.step s op
    if o = "bad-op" then (s', "bad-op")
    else if looseEq o obs then (s', "pass")
    else (s', s!"violation {name op} expected {o} got {obs}")⟩
end Driver
