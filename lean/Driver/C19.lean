import Driver.Common
import Foundation.Model.Token
namespace Driver.C19
open Foundation Foundation.Token Driver

def names : List String := ["I", "F", "u0", "u1", "u2", "u3"]
def curs : List String := ["USD", "EUR"]

def cfg0 : Cfg := ⟨"VT", false, "", 0, 0, 0, none, []⟩
def init : St := ⟨cfg0, fun _ => 0, fun _ _ => 0, fun _ => ""⟩

def okOr (s : St) (r : Option St) : St × String :=
  match r with | some s' => (s', "ok") | none => (s, "err")

def okCfg (s : St) (r : Option Cfg) : St × String :=
  match r with | some c => ({ s with cfg := c }, "ok") | none => (s, "err")

def nat? (x : String) : Option Nat := x.toNat?

def step (s : St) : List String → St × String
  | ["reset"] => (init, "ok")
  | ["fund", u, a] => match nat? a with
    | some a => if a = 0 then (s, "err") else (addTok s u a, "ok")
    | none => (s, "bad-op")
  | ["fundalw", u, cur, a] => match nat? a with
    | some a => (addAlw s u cur a, "ok")
    | none => (s, "bad-op")
  | ["uid", u, id] => ({ s with uid := upd s.uid u (dec id) }, "ok")
  | ["setfeeaddr", u] => ({ s with cfg := { s.cfg with feeAddr := some u } }, "ok")
  | ["setfee", cur, sh, fl, cp] =>
    match nat? sh, nat? fl, nat? cp with
    | some sh, some fl, some cp => okCfg s (setFee s.cfg cur sh fl cp)
    | _, _, _ => (s, "bad-op")
  | ["setrate", deal, cur, r] => match nat? r with
    | some r => okCfg s (setRate s.cfg deal cur r)
    | none => (s, "bad-op")
  | ["delrate", deal, cur] => okCfg s (deleteRate s.cfg deal cur)
  | ["setlimits", deal, cur, mn, mx] => match nat? mn, nat? mx with
    | some mn, some mx => okCfg s (setLimits s.cfg deal cur mn mx)
    | _, _ => (s, "bad-op")
  | ["transfer", f, t, a] => match nat? a with
    | some a => okOr s (transfer s f t a)
    | none => (s, "bad-op")
  | ["buy", u, a, cur] => match nat? a with
    | some a => okOr s (buy s "I" u a cur)
    | none => (s, "bad-op")
  | ["buyback", u, a, cur] => match nat? a with
    | some a => okOr s (buyBack s "I" u a cur)
    | none => (s, "bad-op")
  | ["predict", a] => match nat? a with
    | some a => (s, match calcFee s.cfg a with
      | some f => s!"{f}"
      | none => "err")
    | none => (s, "bad-op")
  -- QueryGetFeeTransfer: the fee a transfer between two addresses would be charged
  | ["feetransfer", f, t, a] => match nat? a with
    | some a =>
      if s.cfg.feeSet ∧ (s.cfg.feeAddr = none ∨ s.cfg.feeCur = "") then (s, "err")
      else match s.cfg.feeAddr with
        | none => (s, "err")
        | some fa =>
          match calcTransferFee s.cfg a (s.uid f) (s.uid t) with
          | none => (s, "err")
          | some fee =>
            let cur := if fee > 0 then s.cfg.feeCur else s.cfg.symbol
            (s, s!"{fee}/{cur}/{fa}")
    | none => (s, "bad-op")
  | ["price", r, a] => match nat? r, nat? a with
    | some r, some a => (s, toString (calcPrice ⟨"", "", r, 0, 0⟩ a))
    | _, _ => (s, "bad-op")
  | ["inlimit", mn, mx, a] => match nat? mn, nat? mx, nat? a with
    | some mn, some mx, some a => (s, if inLimit ⟨"", "", 0, mn, mx⟩ a then "yes" else "no")
    | _, _, _ => (s, "bad-op")
  | ["bal"] =>
    (s, ",".intercalate (names.map (fun n => s!"{n}={s.tok n}/" ++ "/".intercalate (curs.map (fun c => toString (s.alw n c))))))
  | _ => (s, "bad-op")

def machine : Machine := ⟨St, init, step⟩

def clause : List String → String
  | "transfer" :: _ => "transfer_effect"
  | "bal" :: _ => "balances_exact"
  | "predict" :: _ | "feetransfer" :: _ => "fee_formula"
  | "price" :: _ => "price_exact"
  | "inlimit" :: _ => "limits"
  | "buy" :: _ => "buy_effect"
  | "buyback" :: _ => "buyBack_effect"
  | "setfee" :: _ | "setrate" :: _ | "setlimits" :: _ | "delrate" :: _ => "setter_validation"
  | _ => "setup"

def judge : Machine := judgeOf machine clause

end Driver.C19
