import Driver.Common
import Foundation.Model.Auth
/-! Shared machine for the `auth` op (C01, C03): one signed request on one route. -/
namespace Driver.Auth
open Foundation Foundation.Auth Driver

def ktOf : String → KT
  | "ed" => .ed | "secp" => .secp | "gost" => .gost | _ => .other

/-- "S0=v.ed.{K0}.msg;S1=j" -/
def parseSigs (s : String) : List (String × SigV) :=
  if s = "-" then [] else
  (s.splitOn ";").filterMap (fun item =>
    match item.splitOn "=" with
    | name :: rest =>
      let v := "=".intercalate rest
      if v = "b" then some (name, SigV.blank)
      else if v = "j" then some (name, SigV.junk)
      else match v.splitOn "." with
        | "v" :: kt :: key :: msg => some (name, SigV.valid (ktOf kt) key (".".intercalate msg))
        | _ => none
    | _ => none)

def parseKeys (s : String) : List (String × KT) :=
  if s = "-" then [] else
  (s.splitOn ";").filterMap (fun item =>
    match item.splitOn "=" with
    | [name, kt] => some (name, ktOf kt)
    | _ => none)

def parseAcl (s : String) : Option AclReply :=
  match s.splitOn ":" with
  | ["status"] => some .status
  | ["empty"] => some .empty
  | ["garbled"] => some .garbled
  | ["ok", addr, kts, n, flags] =>
    let kl := if kts = "-" then [] else (kts.splitOn "+").map ktOf
    let f := flags.toList
    some (.ok addr kl (n.toNat?.getD 0) (f.getD 0 '0' = '1') (f.getD 1 '0' = '1') (f.getD 2 '0' = '1'))
  | _ => none

structure Req where
  route : String
  fn : String
  argc : Nat
  env : Env
  acl : AclReply
  args : List String
  sigs : List (String × SigV)
  tamper : String

def parseReq : List String → Option Req
  | "auth" :: route :: fn :: argc :: cc :: ch :: acl :: args :: sigs :: keys :: rest =>
    match argc.toNat?, parseAcl acl with
    | some argc, some aclr =>
      let sg := parseSigs sigs
      let ks := parseKeys keys
      let env : Env := ⟨dec cc, dec ch,
        fun s => match sg.find? (·.1 = s) with | some (_, v) => v | none => .junk,
        fun k => match ks.find? (·.1 = k) with | some (_, .gost) => .gost | _ => .ed⟩
      let tamper := match rest with | [t] => t | _ => "none"
      some ⟨route, fn, argc, env, aclr, (if args = "-" then [] else (args.splitOn ",").map dec), sg, tamper⟩
    | _, _ => none
  | _ => none

def errName : Err → String
  | .count => "count" | .unsigned => "unsigned" | .env => "env" | .acl => "acl" | .listed => "listed"
  | .sig => "sig" | .threshold => "threshold" | .nonce => "nonce"

def step (s : Unit) (ws : List String) : Unit × String :=
  match ws with
  | ["reset"] => (s, "ok")
  | _ => match parseReq ws with
    | none => (s, "bad-op")
    | some r =>
      if r.route = "legacy" then
        -- CheckSign called by the method itself: args = plain arguments ++ keys ++ signatures
        match checkSign r.env r.fn (r.args.take (r.argc - 1)) (r.args.drop (r.argc - 1)) r.acl with
        | .ok a => (s, "ok " ++ a)
        | .error e => (s, "err " ++ errName e ++ " clean")
      else
      match authorize r.env r.fn r.argc r.args r.acl with
      | .ok (a, _, nonce) =>
        -- batched and task execution then run checkNonce: 13-digit values only
        let n := nonce.toNat?.getD 0
        if r.route ≠ "nb" ∧ ¬ (10^12 ≤ n ∧ n < 10^13) then (s, "err nonceformat clean")
        else (s, "ok " ++ a)
      | .error e => (s, "err " ++ errName e ++ " clean")

def machine : Machine := ⟨Unit, (), step⟩

/-- spec for the legacy helper: the ACL maps the key list to `a` and every listed key (at least one)
    carries a genuine ed25519 signature over the function name, the arguments and the keys -/
def entitledLegacy (r : Req) (a : String) : Bool :=
  let auth := r.args.drop (r.argc - 1)
  let n := auth.length / 2
  let keys := auth.take n
  let sigs := (auth.drop n).take n
  let msg := r.fn ++ String.join (r.args.take (r.argc - 1) ++ keys)
  match r.acl with
  | .ok addr _ _ _ _ _ =>
    addr = a && decide (1 ≤ n) && (keys.zip sigs).all (fun ks => r.env.sigOf ks.2 == SigV.valid .ed ks.1 msg)
  | _ => false

/-- spec: is the request entitled to act as `a`? -/
def entitled (r : Req) (a : String) : Bool :=
  if r.route = "legacy" then entitledLegacy r a else
  match parse r.argc r.args, r.acl with
  | .ok p, .ok addr kts n ha b g =>
    addr = a && !(ha && (b || g)) &&
    decide (required p.signers n ≤ (genuineSigners r.env r.fn r.args p (keyTypes r.env kts p.keys)).length)
  | _, _ => false

/-- C01 judge -/
def judge01 (s : Unit) (ws : List String) : Unit × String :=
  let (op, obs) := splitObs ws
  match op with
  | ["reset"] => (s, "pass")
  | _ => match parseReq op with
    | none => (s, "bad-op")
    | some r =>
      match obs.splitOn " " with
      | ["ok", a] => (s, if entitled r a then "pass" else s!"violation forged_sender executed as {a} without the required genuine signatures / ACL confirmation")
      | "err" :: rest => (s, if rest.getLast? = some "dirty" then "violation rejected_with_effect a rejected request changed the ledger" else "pass")
      | _ => (s, s!"violation reply_shape {obs}")

/-- C03 judge: an accepted request must be exactly a signed one -/
def judge03 (s : Unit) (ws : List String) : Unit × String :=
  let (op, obs) := splitObs ws
  match op with
  | ["reset"] => (s, "pass")
  | _ => match parseReq op with
    | none => (s, "bad-op")
    | some r =>
      match obs.splitOn " " with
      | ["ok", _] =>
        if r.tamper = "none" then (s, "pass") else
        match parse r.argc r.args with
        | .error _ => (s, s!"violation tamper_accepted {r.tamper}: unparsable request accepted")
        | .ok p =>
          -- the request names another chaincode / channel than the one that executed it
          if r.args.getD 1 "" ≠ r.env.cc ∨ r.args.getD 2 "" ≠ r.env.ch then
            (s, s!"violation retarget_accepted a request signed for {r.args.getD 1 ""}/{r.args.getD 2 ""} was executed by {r.env.cc}/{r.env.ch}")
          else
          let m := message r.fn r.args p.signers
          let signedMsgs := r.sigs.filterMap (fun x => match x.2 with | .valid _ _ msg => some msg | _ => none)
          if signedMsgs.all (· = m) ∧ ¬ signedMsgs.isEmpty then
            (s, s!"violation boundary-shift request altered by operator {r.tamper} keeps the signed bytes and is accepted")
          else (s, s!"violation tamper_accepted operator {r.tamper}: accepted although no signature covers the presented bytes")
      | "err" :: rest => (s, if rest.getLast? = some "dirty" then "violation rejected_with_effect a rejected request changed the ledger" else "pass")
      | _ => (s, s!"violation reply_shape {obs}")

def judgeC01 : Machine := ⟨Unit, (), judge01⟩
def judgeC03 : Machine := ⟨Unit, (), judge03⟩

end Driver.Auth
