import Driver.Common
import Foundation.Model.Balance
namespace Driver.C16
open Foundation Foundation.Balance Driver

structure S where
  st : St
  addrs : List String       -- universe of addresses seen, sorted (key order)

def init : S := ⟨⟨fun _ => 0, fun _ => 0⟩, []⟩

def res (s : S) (addrs : List String) (r : Except Err St) : S × String :=
  match r with
  | .ok st => (⟨st, addrs.foldl (fun acc a => insertSorted a acc) s.addrs⟩, "ok")
  | .error _ => (s, "err")

def step (s : S) : List String → S × String
  | ["reset"] => (init, "ok")
  | ["add", _mode, kind, addr, token, amt] =>
    match amt.toInt? with
    | some n => res s [addr] (add s.st ⟨kind, addr, dec token⟩ n)
    | none => (s, "bad-op")
  | ["sub", _mode, kind, addr, token, amt] =>
    match amt.toInt? with
    | some n => res s [addr] (sub s.st ⟨kind, addr, dec token⟩ n)
    | none => (s, "bad-op")
  | ["move", _mode, kind, a, kind2, b, token, amt] =>
    match amt.toInt? with
    | some n => res s [a, b] (move s.st ⟨kind, a, dec token⟩ ⟨kind2, b, dec token⟩ n)
    | none => (s, "bad-op")
  | ["legacy", kind, addr, token, amt] =>
    match amt.toInt? with
    | some n => (⟨{ s.st with prim := upd s.st.prim ⟨kind, addr, dec token⟩ n }, insertSorted addr s.addrs⟩, "ok")
    | none => (s, "bad-op")
  | ["index", kind] => (⟨createIndex s.st kind, s.addrs⟩, "ok")
  | ["owners", kind, token] =>
    (s, joinOr "," ((listOwners s.st s.addrs kind token).map (fun p => s!"{p.1}={p.2}")))
  | ["get", kind, addr, token] => (s, toString (get s.st ⟨kind, addr, dec token⟩))
  | _ => (s, "bad-op")

def machine : Machine := ⟨S, init, step⟩

/-! judge: the property itself — `owners` must list exactly the addresses whose direct read is
    non-zero, with those amounts. The judge tracks nothing but the universe of addresses and the
    implementation's own `get` answers, which the harness reports right before each `owners`. -/
structure J where
  gets : List (String × String × String × String)   -- kind, addr, token, amount read directly

def jstep (j : J) (ws : List String) : J × String :=
  let (op, obs) := splitObs ws
  match op with
  | ["reset"] => (⟨[]⟩, "pass")
  | ["get", kind, addr, token] =>
    (⟨(j.gets.filter (fun g => ¬ (g.1 = kind ∧ g.2.1 = addr ∧ g.2.2.1 = token))) ++ [(kind, addr, token, obs)]⟩, "pass")
  | ["owners", kind, token] =>
    -- compare with the direct reads taken since the last mutation (addresses without a read are
    -- not judged)
    let reads := j.gets.filter (fun g => g.1 = kind ∧ g.2.2.1 = token)
    let listed := if obs = "-" then [] else (obs.splitOn ",").filterMap (fun x => match x.splitOn "=" with
      | [a, v] => some (a, v) | _ => none)
    let bad1 := listed.find? (fun p => reads.any (fun g => g.2.1 = p.1 ∧ g.2.2.2 ≠ p.2))
    let bad2 := reads.find? (fun g => g.2.2.2 ≠ "0" ∧ ¬ listed.any (fun p => p.1 = g.2.1))
    let dup := listed.find? (fun p => (listed.filter (·.1 = p.1)).length > 1)
    match bad1, bad2, dup with
    | some p, _, _ => (j, s!"violation index_disagrees owners {kind} {token} lists {p.1}={p.2} but the direct read differs")
    | _, some g, _ => (j, s!"violation index_disagrees owners {kind} {token} misses {g.2.1} whose direct read is {g.2.2.2}")
    | _, _, some p => (j, s!"violation index_disagrees owners {kind} {token} lists {p.1} twice")
    | none, none, none => (j, "pass")
  | _ => (⟨[]⟩, "pass")     -- any mutation invalidates the direct reads taken so far

def judge : Machine := ⟨J, ⟨[]⟩, jstep⟩

end Driver.C16
