import Driver.Common
import Foundation.Model.Balance
namespace Driver.C06
open Foundation Foundation.Balance Driver

structure S where
  t : Tok
  swapOwner : List (String × String)            -- open swap sym ↦ owner
  transfers : List (String × String × Int)      -- origin transfer records: id ↦ (user, amount)
  lockIds : List String
  answered : List String := []                  -- swaps answered here (units taken out of the given-out counter)
  foreignRec : List (String × String × Int) := []  -- answered swaps of a foreign token: sym ↦ (owner, amount)
  allowed : List (String × Int) := []           -- allowed balances of the foreign token (credits, in order)
  feeSet : Bool := false                        -- a setFee has succeeded (own currency)
  share : Int := 0                              -- fee share in 1e-8
  feeAddr : Option String := none

def init : S := { t := tok0, swapOwner := [], transfers := [], lockIds := [] }

def users : List String := ["u0", "u1", "u2"]
def tokK (u : String) : PK := ⟨"2b", u, ""⟩
def lckK (u : String) : PK := ⟨"2e", u, ""⟩
def givenK : PK := ⟨"2d", "CC", ""⟩

def ok (s : S) (t : Tok) : S × String := ({ s with t := t }, "ok")

def dump (s : S) : String :=
  let f := fun (k : String → PK) => ",".intercalate (users.map (fun u => s!"{u}={s.t.bal (k u)}"))
  let esc := (s.t.ids.map s.t.escrow).sum
  let alw := ",".intercalate (users.map (fun u => s!"{u}={((s.allowed.filter (·.1 = u)).map (·.2)).sum}"))
  s!"tok:{f tokK};lck:{f lckK};given={s.t.bal givenK};escrow={esc};grp=0;alw:{alw};emission={s.t.emission}"

def step (s : S) : List String → S × String
  | ["reset"] => (init, "ok")
  | ["emit", u, n] => match n.toInt? with
    | some n => if n ≤ 0 then (s, "err") else ok s (tstep s.t (.emit (tokK u) n))
    | none => (s, "bad-op")
  | ["burn", u, n] => match n.toInt? with
    | some n => if n < 0 ∨ s.t.bal (tokK u) < n ∨ s.t.emission < n then (s, "err") else ok s (tstep s.t (.burn (tokK u) n))
    | none => (s, "bad-op")
  | ["setfee", sh] => match sh.toInt? with
    | some sh => if sh < 0 ∨ sh > 100000000 then (s, "err") else ({ s with feeSet := true, share := sh }, "ok")
    | none => (s, "bad-op")
  | ["setfeeaddr", u] => ({ s with feeAddr := some u }, "ok")
  | ["transfer", a, b, n] => match n.toInt? with
    | some n =>
      if a = b ∨ n ≤ 0 ∨ s.t.bal (tokK a) < n then (s, "err") else
      let t1 := tstep s.t (.move (tokK a) (tokK b) n)
      if s.feeSet ∧ s.feeAddr = none then (s, "err") else
      let fee := if s.feeSet then n * s.share / 100000000 else 0
      if fee = 0 then ok s t1 else
      match s.feeAddr with
      | none => ok s t1
      | some fa => if t1.bal (tokK a) < fee then (s, "err") else ok s (tstep t1 (.move (tokK a) (tokK fa) fee))
    | none => (s, "bad-op")
  | ["force", a, b, n] => match n.toInt? with
    | some n => if a = b ∨ n ≤ 0 ∨ s.t.bal (tokK a) < n then (s, "err") else ok s (tstep s.t (.move (tokK a) (tokK b) n))
    | none => (s, "bad-op")
  | ["lock", id, u, n] => match n.toInt? with
    | some n =>
      if s.lockIds.contains id ∨ n ≤ 0 ∨ s.t.bal (tokK u) < n then (s, "err")
      else ({ s with t := tstep s.t (.move (tokK u) (lckK u) n), lockIds := id :: s.lockIds }, "ok")
    | none => (s, "bad-op")
  | ["swapbegin", sym, u, n] => match n.toInt? with
    | some n =>
      if n ≤ 0 ∨ s.t.bal (tokK u) < n ∨ (s.swapOwner.any (·.1 = sym)) then (s, "err")
      else ({ s with t := tstep s.t (.escrowIn sym (tokK u) n), swapOwner := (sym, u) :: s.swapOwner }, "ok")
    | none => (s, "bad-op")
  | ["swapanswer", sym, u, n] => match n.toInt? with
    | some n =>
      if n ≤ 0 ∨ s.t.bal givenK < n ∨ (s.swapOwner.any (·.1 = sym)) then (s, "err")
      else ({ s with t := tstep s.t (.escrowIn sym givenK n), swapOwner := (sym, u) :: s.swapOwner, answered := sym :: s.answered }, "ok")
    | none => (s, "bad-op")
  | ["swapanswerf", sym, u, n] => match n.toInt? with
    | some n =>
      if n ≤ 0 ∨ (s.swapOwner.any (·.1 = sym)) ∨ (s.foreignRec.any (·.1 = sym)) then (s, "err")
      else ({ s with foreignRec := (sym, u, n) :: s.foreignRec }, "ok")
    | none => (s, "bad-op")
  | ["swapuserdone", sym] =>
    -- a foreign token's answered record: the owner gets an allowed balance, no unit of this channel moves
    match s.foreignRec.find? (·.1 = sym) with
    | some (_, owner, n) =>
      ({ s with foreignRec := s.foreignRec.filter (·.1 ≠ sym), allowed := (owner, n) :: s.allowed }, "ok")
    | none =>
    -- the key completes an answered record only: the owner receives the units
    match s.swapOwner.find? (·.1 = sym) with
    | some (_, owner) =>
      if s.answered.contains sym then
        ({ s with t := tstep s.t (.escrowOut sym (tokK owner)), swapOwner := s.swapOwner.filter (·.1 ≠ sym),
                  answered := s.answered.filter (· ≠ sym) }, "ok")
      else (s, "err")
    | none => (s, "err")
  | ["swapcancel", sym] =>
    if s.foreignRec.any (·.1 = sym) then ({ s with foreignRec := s.foreignRec.filter (·.1 ≠ sym) }, "ok") else
    match s.swapOwner.find? (·.1 = sym) with
    | some (_, owner) =>
      -- an answered record goes back to where its units came from: the given-out counter
      let back := if s.answered.contains sym then givenK else tokK owner
      ({ s with t := tstep s.t (.escrowOut sym back), swapOwner := s.swapOwner.filter (·.1 ≠ sym),
                answered := s.answered.filter (· ≠ sym) }, "ok")
    | none => (s, "err")
  | ["swaprobotdone", sym] =>
    match s.swapOwner.find? (·.1 = sym) with
    | some _ =>
      -- (an answered record closed by the robot's key list: token = destination, nothing is added)
      if s.answered.contains sym then
        ({ s with t := tstep s.t (.escrowOut sym givenK), swapOwner := s.swapOwner.filter (·.1 ≠ sym), answered := s.answered.filter (· ≠ sym) }, "ok")
      else
      ({ s with t := tstep s.t (.escrowOut sym givenK), swapOwner := s.swapOwner.filter (·.1 ≠ sym) }, "ok")
    | none => (s, "err")
  | ["chfrom", id, u, n] => match n.toInt? with
    | some n =>
      if n < 0 ∨ s.t.bal (tokK u) < n ∨ (s.transfers.any (·.1 = id)) then (s, "err")
      else ({ s with t := tstep s.t (.move (tokK u) givenK n), transfers := (id, u, n) :: s.transfers }, "ok")
    | none => (s, "bad-op")
  | ["chcancel", id] =>
    match s.transfers.find? (·.1 = id) with
    | some (_, u, n) =>
      -- (the refund comes out of the given-out counter, which answered swaps may have drawn on)
      if s.t.bal givenK < n then (s, "err") else
      ({ s with t := tstep s.t (.move givenK (tokK u) n), transfers := s.transfers.filter (·.1 ≠ id) }, "ok")
    | none => (s, "err")
  | ["dump"] => (s, dump s)
  | _ => (s, "bad-op")

/-- two transfers in one task list / batch: each all-or-nothing on its own, in order -/
def step2 (s : S) : List String → S × String
  | ["tx2", _route, a, b, n, c, d, m] =>
    let r1 := step s ["transfer", a, b, n]
    let r2 := step r1.1 ["transfer", c, d, m]
    if r1.2 = "bad-op" ∨ r2.2 = "bad-op" then (s, "bad-op") else (r2.1, r1.2 ++ "," ++ r2.2)
  | ws => step s ws

def machine : Machine := ⟨S, init, step2⟩

/-! judge: (1) every output equals the spec machine's (each operation changes exactly the balances
    it names by exactly its amount, or fails without effect); (2) independently of the model, on
    every dump of the implementation: no negative number and
    spendable + locked + given + escrow = total emission. -/
def parseDump (o : String) : Option (List Int × Int) :=
  -- returns (all balance-like numbers, emission)
  let parts := o.splitOn ";"
  let nums := parts.flatMap (fun p =>
    let body := match p.splitOn ":" with | [_, b] => b | _ => p
    -- (allowed balances of a foreign token are not units of this channel)
    if p.startsWith "alw" then [] else
    (body.splitOn ",").filterMap (fun kv => match kv.splitOn "=" with | [_, v] => v.toInt? | _ => none))
  match nums.reverse with
  | em :: rest => some (rest, em)
  | [] => none

def clause : List String → String
  | "dump" :: _ => "balances_exact"
  | op :: _ => op ++ "_effect"
  | [] => "setup"

def jstep (st : machine.σ) (ws : List String) : machine.σ × String :=
  let (op, obs) := splitObs ws
  let r := (judgeOf machine clause).step st ws
  match op with
  | ["dump"] =>
    match parseDump obs with
    | some (nums, em) =>
      if nums.any (· < 0) then (r.1, s!"violation negative_balance {obs}")
      else if nums.sum ≠ em then (r.1, s!"violation conservation_broken held={nums.sum} emission={em} in {obs}")
      else r
    | none => (r.1, s!"violation reply_shape {obs}")
  | _ => r

def judge : Machine := ⟨machine.σ, machine.init, jstep⟩

end Driver.C06
