import Driver.Common
import Foundation.Model.Nonce
import Foundation.Gen.Facts
namespace Driver.C02
open Foundation Nonce Driver

def ttlMs : Nat := Foundation.Facts.defaultNonceTTL * 1000

structure S where
  st : Store
  reqs : List (String × Nat)      -- signed requests of this history: (sender, nonce)

def init : S := ⟨fun _ => ([], []), []⟩

def showWin (w : List Nat) : String := joinOr "," (w.map toString)

def errName : Err → String
  | .format => "format" | .old => "old" | .dup => "dup"

def one (st : Store) (s : String) (n : Nat) : Store × String :=
  match setNonce ttlMs n (st s).1 with
  | .ok W' => (upd st s (W', (st s).2 ++ [n]), "ok")
  | .error e => (st, "err:" ++ errName e)

def runReqs (s : S) (ks : List String) : S × String :=
  let r := ks.foldl (fun (acc : Store × List String) k =>
    match k.toNat? with
    | none => (acc.1, acc.2 ++ ["bad"])
    | some i => match s.reqs[i]? with
      | none => (acc.1, acc.2 ++ ["bad"])
      | some (snd, n) => let o := one acc.1 snd n; (o.1, acc.2 ++ [o.2])) (s.st, [])
  (⟨r.1, s.reqs⟩, joinOr "," r.2)

def step (s : S) : List String → S × String
  | ["reset"] => (init, "ok")
  | ["nonce", snd, n] =>
    match n.toNat? with
    | none => (s, "bad-op")
    | some n =>
      match setNonce ttlMs n (s.st snd).1 with
      | .ok W' => (⟨upd s.st snd (W', (s.st snd).2 ++ [n]), s.reqs⟩, "ok " ++ showWin W')
      | .error e => (s, "err " ++ errName e)
  -- a stored record in the old single-integer format counts as that one accepted nonce
  | ["legacy", snd, n] =>
    match n.toNat? with
    | none => (s, "bad-op")
    | some n => (⟨upd s.st snd ([n], [n]), s.reqs⟩, "ok")
  | ["sign", snd, n, _body] =>
    match n.toNat? with
    | none => (s, "bad-op")
    | some n => (⟨s.st, s.reqs ++ [(snd, n)]⟩, "ok")
  | "run" :: _route :: ks => runReqs s ks
  | ["getnonce", snd] =>
    (s, match (s.st snd).1.getLast? with | some l => toString l | none => "0")
  | _ => (s, "bad-op")

def machine : Machine := ⟨S, init, step⟩

/-! judge: the spec `Accepts` over the full history of accepted nonces per sender, fed with the
    implementation's accept/reject decisions -/
structure J where
  acc : String → List Nat
  reqs : List (String × Nat)

def jinit : J := ⟨fun _ => [], []⟩

/-- classify an implementation decision against the spec; returns the updated history and verdict -/
def jone (acc : String → List Nat) (snd : String) (n : Nat) (accepted : Bool) : (String → List Nat) × Option String :=
  let should := decide (Accepts ttlMs (acc snd) n)
  let acc' := if accepted then upd acc snd (acc snd ++ [n]) else acc
  if accepted = should then (acc', none)
  else if accepted then
    let why := if !is13 n then "bad_format_accepted"
      else if (acc snd).contains n then "replay_accepted" else "too_old_accepted"
    (acc', some s!"violation {why} sender={snd} nonce={n}")
  else (acc', some s!"violation valid_nonce_rejected sender={snd} nonce={n}")

def jstep (j : J) (ws : List String) : J × String :=
  match ws with
  | ["reset", "=>", _] => (jinit, "pass")
  | ["nonce", snd, n, "=>", o] | ["nonce", snd, n, "=>", o, _] =>
    match n.toNat? with
    | none => (j, "bad-op")
    | some n =>
      let r := jone j.acc snd n (o = "ok")
      (⟨r.1, j.reqs⟩, r.2.getD "pass")
  | ["legacy", snd, n, "=>", _] =>
    match n.toNat? with
    | none => (j, "bad-op")
    | some n => (⟨upd j.acc snd [n], j.reqs⟩, "pass")
  | ["sign", snd, n, _, "=>", _] =>
    match n.toNat? with
    | none => (j, "bad-op")
    | some n => (⟨j.acc, j.reqs ++ [(snd, n)]⟩, "pass")
  | "run" :: _route :: rest =>
    match rest.span (· ≠ "=>") with
    | (ks, _ :: [o]) =>
      let outs := if o = "-" then [] else o.splitOn ","
      if outs.length ≠ ks.length then (j, s!"violation reply_shape expected {ks.length} entries got {outs.length}") else
      let r := (ks.zip outs).foldl (fun (a : (String → List Nat) × Option String) ko =>
        match ko.1.toNat? >>= (j.reqs[·]?) with
        | none => a
        | some (snd, n) =>
          let x := jone a.1 snd n (ko.2 = "ok")
          (x.1, a.2 <|> x.2)) (j.acc, none)
      (⟨r.1, j.reqs⟩, r.2.getD "pass")
    | _ => (j, "bad-op")
  | ["getnonce", snd, "=>", o] =>
    -- the newest accepted nonce (spec: maximum of the accepted history)
    let mx := (j.acc snd).foldl max 0
    (j, if o = toString mx then "pass" else s!"violation getnonce expected {mx} got {o}")
  | _ => (j, "bad-op")

def judge : Machine := ⟨J, jinit, jstep⟩

end Driver.C02
