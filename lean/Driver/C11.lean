import Driver.Common
import Foundation.Model.Dispatch
namespace Driver.C11
open Foundation Foundation.Dispatch Driver

structure S where
  cfg : Option Config
  ms : List Method

def init : S := ⟨none, []⟩

def kindOf : String → Kind
  | "tx" => .tx | "nbtx" => .nbtx | _ => .query

def parseMethods (s : String) : List Method :=
  (s.splitOn ",").filterMap (fun it => match it.splitOn ":" with
    | [name, fn, kind, auth] => some ⟨name, fn, kindOf kind, auth = "1"⟩
    | _ => none)

/-- identities: the robot's certificate always carries the configured key id or hash -/
def creatorOf : String → Creator
  | "robot" => .cert "ROBOT" "ROBOT" ["client"]
  | "admincert" => .cert "ski-admincert" "hash-admincert" ["admin"]
  | "client" => .cert "ski-client" "hash-client" ["client"]
  | "none" => .none
  | x => if x.startsWith "ou:" then .cert ("ski-" ++ x) ("hash-" ++ x) ((x.drop 3).toString.splitOn "+") else .garbage

def refName : Refusal → String
  | .noconfig => "noconfig" | .creator => "creator" | .unauthorized => "unauthorized"
  | .notfound => "notfound" | .disabled => "notfound" | .swapsOff => "swapsOff" | .nosender => "nosender"

def gate (c : Config) (m : Method) (sender : String) : String :=
  if adminGate c m sender then "pass" else "unauthorized clean"

def classify (s : S) (ident route fn sender : String) : String :=
  let cr := creatorOf ident
  match route with
  | "direct" =>
    match invoke s.cfg s.ms cr fn with
    | .refuse r => refName r ++ " clean"
    | .reach (.method m _) => (match s.cfg with | some c => gate c m sender | none => "noconfig clean")
    | .reach _ => "pass"
  | "batch" =>
    match invoke s.cfg s.ms cr fn with
    | .refuse r => refName r ++ " clean"
    | .reach (.submit m) => (match s.cfg with | some c => gate c m sender | none => "noconfig clean")
    | .reach _ => "bad-route"
  | "task" =>
    match invoke s.cfg s.ms cr "executeTasks" with
    | .refuse r => refName r ++ " clean"
    | .reach _ =>
      match s.cfg with
      | none => "noconfig clean"
      | some c => match task c s.ms fn with
        | .refuse r => refName r ++ " clean"
        | .reach (.method m _) => gate c m sender
        | .reach _ => "pass"
  | _ => "bad-op"

def step (s : S) : List String → S × String
  | ["reset"] => (init, "ok")
  | ["methods", t] => (⟨s.cfg, parseMethods t⟩, "ok")
  | ["cfg", _robotmode, disabled, swaps, mswaps, hasopts] =>
    (⟨some ⟨"ROBOT", "admin", hasopts = "1", (if disabled = "-" then [] else disabled.splitOn "+"), swaps = "1", mswaps = "1"⟩, s.ms⟩, "ok")
  | ["readmin", who] =>
    (match s.cfg with
      | some c => ⟨some { c with admin := who }, s.ms⟩
      | none => s, "ok")
  | ["call", ident, route, fn, sender] =>
    let o := classify s ident route fn sender
    (s, if o = "bad-op" ∨ o = "bad-route" then "bad-op" else o)
  | ["init", ident] => (s, if initAllowed (creatorOf ident) then "ok" else "refused clean")
  | _ => (s, "bad-op")

def machine : Machine := ⟨S, init, step⟩

def clause : List String → String
  | "call" :: _ :: _ :: fn :: _ =>
    -- other spellings of a robot-only name are attributed to the same clause
    let lf := String.ofList (match fn.toList with | c :: cs => c.toLower :: cs | [] => [])
    if fn = "batchExecute" ∨ robotFns.contains fn ∨ lf = "batchExecute" ∨ robotFns.contains lf then "robot_only"
    else "identity_or_disabled_gate"
  | "init" :: _ => "init_admin_ou_only"
  | _ => "setup"

def judge : Machine := judgeOf machine clause

end Driver.C11
