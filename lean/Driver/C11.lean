import Driver.Common
import Foundation.Model.Dispatch
namespace Driver.C11
open Foundation Foundation.Dispatch Driver

structure S where
  cfg : Option Config
  ms : List Method
  openS : Bool := false      -- a swap begun here is on the ledger
  openM : Bool := false      -- a multi-swap begun here is on the ledger

def init : S := ⟨none, [], false, false⟩

def kindOf : String → Kind
  | "tx" => .tx | "nbtx" => .nbtx | _ => .query

def parseMethods (s : String) : List Method :=
  (s.splitOn ",").filterMap (fun it => match it.splitOn ":" with
    | [name, fn, kind, auth] => some ⟨name, fn, kindOf kind, auth = "1"⟩
    | _ => none)

/-- identities: the robot's certificate always carries the configured key id or hash -/
def creatorOf : String → Creator
  | "robot" => .cert "ROBOT" "ROBOT" ["client"]
  | "admincert" => .cert "ski-admincert" "hash-admincert" ["admin"]
  | "client" => .cert "ski-client" "hash-client" ["client"]
  | "none" => .none
  | x => if x.startsWith "ou:" then .cert ("ski-" ++ x) ("hash-" ++ x) ((x.drop 3).toString.splitOn "+") else .garbage

def refName : Refusal → String
  | .noconfig => "noconfig" | .creator => "creator" | .unauthorized => "unauthorized"
  | .notfound => "notfound" | .disabled => "notfound" | .swapsOff => "swapsOff" | .nosender => "nosender"

def gate (c : Config) (m : Method) (sender : String) : String :=
  if adminGate c m sender then "pass" else "unauthorized clean"

def classify (s : S) (ident route fn sender : String) : String :=
  let cr := creatorOf ident
  match route with
  | "direct" =>
    match invoke s.cfg s.ms cr fn with
    | .refuse r => refName r ++ " clean"
    | .reach (.method m _) => (match s.cfg with | some c => gate c m sender | none => "noconfig clean")
    | .reach _ => "pass"
  | "batch" =>
    match invoke s.cfg s.ms cr fn with
    | .refuse r => refName r ++ " clean"
    | .reach (.submit m) => (match s.cfg with | some c => gate c m sender | none => "noconfig clean")
    | .reach _ => "bad-route"
  | "task" =>
    match invoke s.cfg s.ms cr "executeTasks" with
    | .refuse r => refName r ++ " clean"
    | .reach _ =>
      match s.cfg with
      | none => "noconfig clean"
      | some c => match task c s.ms fn with
        | .refuse r => refName r ++ " clean"
        | .reach (.method m _) => gate c m sender
        | .reach _ => "pass"
  | _ => "bad-op"

def step (s : S) : List String → S × String
  | ["reset"] => (init, "ok")
  | ["methods", t] => ({ s with ms := parseMethods t }, "ok")
  | ["cfg", _robotmode, disabled, swaps, mswaps, hasopts] =>
    ({ s with cfg := some ⟨"ROBOT", "admin", hasopts = "1", (if disabled = "-" then [] else disabled.splitOn "+"), swaps = "1", mswaps = "1"⟩ }, "ok")
  | ["readmin", who] =>
    (match s.cfg with
      | some c => { s with cfg := some { c with admin := who } }
      | none => s, "ok")
  | ["recfg", swaps, mswaps] =>
    (match s.cfg with
      | some c => { s with cfg := some { c with disableSwaps := swaps = "1", disableMultiSwaps := mswaps = "1" } }
      | none => s, "ok")
  | ["openswap", k] =>
    (match s.cfg with
    | none => (s, "err")
    | some c =>
      if isMethodDisabled c (if k = "s" then "TxSwapBegin" else "TxMultiSwapBegin") then (s, "err")
      else (if k = "s" then { s with openS := true } else { s with openM := true }, "ok"))
  | ["keys", k, key] =>
    (match s.cfg with
    | none => (s, "err batch")
    | some c =>
      let isOpen := if k = "s" then s.openS else s.openM
      let r := fun (b : Bool) => if b then "1" else "0"
      if !sectionRuns c (if k = "s" then .swapKeys else .multiKeys) then (s, s!"n=0 e=0 rec={r isOpen}")
      else if isOpen ∧ key = "right" then
        (if k = "s" then { s with openS := false } else { s with openM := false }, "n=1 e=0 rec=0")
      else (s, s!"n=1 e=1 rec={r isOpen}"))
  | ["answers", k, _] =>
    (match s.cfg with
    | none => (s, "err batch")
    | some c =>
      if !sectionRuns c (if k = "s" then .swapAnswers else .multiAnswers) then (s, "n=0 e=0 rec=0")
      else (s, "n=1 e=0 rec=1"))
  | ["call", ident, route, fn, sender] =>
    let o := classify s ident route fn sender
    (s, if o = "bad-op" ∨ o = "bad-route" then "bad-op" else o)
  | ["init", ident] => (s, if initAllowed (creatorOf ident) then "ok" else "refused clean")
  | _ => (s, "bad-op")

def machine : Machine := ⟨S, init, step⟩

def clause : List String → String
  | "call" :: _ :: _ :: fn :: _ =>
    -- other spellings of a robot-only name are attributed to the same clause
    let lf := String.ofList (match fn.toList with | c :: cs => c.toLower :: cs | [] => [])
    if fn = "batchExecute" ∨ robotFns.contains fn ∨ lf = "batchExecute" ∨ robotFns.contains lf then "robot_only"
    else "identity_or_disabled_gate"
  | "init" :: _ => "init_admin_ou_only"
  | "keys" :: _ | "answers" :: _ => "disabled_kind_in_batch"
  | _ => "setup"

def judge : Machine := judgeOf machine clause

end Driver.C11
