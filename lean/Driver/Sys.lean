import Driver.Common
import Driver.Auth
import Foundation.Model.System
/-!
Line-protocol machine and judge for the end-to-end pipeline model (`Foundation.System`).

  reset <disabled,fns|->
  submit <tx> <req>                 req = fn~argc~acl~args~sigs~keys   (fields as in the `auth` op)
  batch <robot|client> <tx,tx,…|->
  tasks <req> <req> …
  dump

Signature and key symbols are unique within a history and keep their meaning, so the tables only
grow; the model's fixed `Env` is the limit of these tables.
-/
namespace Driver.Sys
open Foundation Foundation.Auth Foundation.System Driver

structure S where
  st : St
  sigs : List (String × SigV)
  keys : List (String × KT)
  disabled : List String
  txs : List String            -- tx symbols in order of first use (for dumps)

def init : S := ⟨System.init, [], [], [], []⟩

/-- a well-formed address that the access-control service does not report as black-listed
    (`{A5}` is the black-listed account of the harness) -/
def isAddrSym (s : String) : Bool :=
  s.startsWith "{A" && s.endsWith "}" && s != "{A5}"

def methodsTbl (f : String) : Option MethodInfo :=
  if f = "transfer" then some ⟨4, .tx⟩
  else if f = "emit" then some ⟨3, .tx⟩
  else if f = "transferNb" then some ⟨4, .nb⟩
  else none

/-- the Go method a chaincode function name is routed to (the configuration disables methods) -/
def methodName (f : String) : String :=
  if f = "transfer" then "TxTransfer" else if f = "emit" then "TxEmit"
  else if f = "transferNb" then "NBTxTransferNb" else f

def nonNegAmount (s : String) : Bool :=
  match amountOf s with | some n => decide (0 ≤ n) | none => false

/-- `Router.Check`: addresses must be well-formed, amounts must parse and not be negative -/
def argsOk (fn : String) (margs : List String) : Bool :=
  match fn, margs with
  | "transfer", [to, amt, _] | "transferNb", [to, amt, _] => isAddrSym to && nonNegAmount amt
  | "emit", [to, amt] => isAddrSym to && nonNegAmount amt
  | _, _ => false

def ctxOf (s : S) : Ctx :=
  { env := ⟨"vt", "vt",
      fun x => match s.sigs.find? (·.1 = x) with | some (_, v) => v | none => .junk,
      fun k => match s.keys.find? (·.1 = k) with | some (_, .gost) => .gost | _ => .ed⟩,
    robot := "robot", ttl := 50000, methods := methodsTbl,
    disabled := fun f => s.disabled.contains (methodName f),
    argsOk := argsOk, body := tokenBody "{AI}" }

structure PReq where
  req : Req
  sigs : List (String × SigV)
  keys : List (String × KT)

def parseReq (w : String) : Option PReq :=
  match w.splitOn "~" with
  | [fn, _argc, acl, args, sigs, keys] =>
    match Auth.parseAcl acl with
    | some a => some ⟨⟨fn, (if args = "-" then [] else (args.splitOn ",").map dec), a⟩,
                      Auth.parseSigs sigs, Auth.parseKeys keys⟩
    | none => none
  | _ => none

def learn (s : S) (p : PReq) : S :=
  { s with sigs := s.sigs ++ p.sigs.filter (fun x => !(s.sigs.any (·.1 = x.1))),
           keys := s.keys ++ p.keys.filter (fun x => !(s.keys.any (·.1 = x.1))) }

def addrs : List String := ["{A0}", "{A1}", "{A2}", "{A3}", "{A4}", "{AI}"]

def dump (s : S) : String :=
  let bals := ",".intercalate (addrs.map (fun a => s!"{a}={s.st.led.bal a}"))
  let pend := joinOr "," (s.txs.filter (fun t => (s.st.pend t).isSome))
  let wins := ",".intercalate (addrs.map (fun a => s!"{a}=" ++ joinOr "+" ((s.st.win a).1.map toString)))
  s!"bal:{bals};em={s.st.led.emission};pend:{pend};win:{wins}"

def parseAll (ws : List String) : Option (List PReq) :=
  ws.foldr (fun w acc => match parseReq w, acc with | some p, some l => some (p :: l) | _, _ => none) (some [])

def step (s : S) : List String → S × String
  | ["reset", dis] => ({ init with disabled := if dis = "-" then [] else dis.splitOn "," }, "ok")
  | ["submit", tx, w] =>
    match parseReq w with
    | none => (s, "bad-op")
    | some p =>
      let s1 := learn s p
      let r := System.step (ctxOf s1) s1.st (.submit tx p.req)
      ({ s1 with st := r.1, txs := if s1.txs.contains tx then s1.txs else s1.txs ++ [tx] }, r.2)
  | ["batch", who, ids] =>
    let idl := if ids = "-" then [] else ids.splitOn ","
    let r := System.step (ctxOf s) s.st (.batch who idl)
    ({ s with st := r.1 }, if r.2 = "" then "-" else r.2)
  | "tasks" :: ws =>
    match parseAll ws with
    | none => (s, "bad-op")
    | some ps =>
      let s1 := ps.foldl learn s
      let r := System.step (ctxOf s1) s1.st (.tasks (ps.map (·.req)))
      ({ s1 with st := r.1 }, r.2)
  | ["dump"] => (s, dump s)
  | _ => (s, "bad-op")

def machine : Machine := ⟨S, init, step⟩

/-! ### judge: the end-to-end claims as a monitor over the implementation's observed outputs,
    independent of the model's state (it keeps only what the history itself says) -/

structure J where
  sigs : List (String × SigV) := []
  keys : List (String × KT) := []
  recorded : List (String × PReq) := []      -- tx symbol ↦ request of an accepted submission, not yet listed
  executed : List (String × String) := []    -- (sender address, nonce text) of bodies that ran on batch/task routes
  disabled : List String := []

def jinit : J := {}

def jlearn (j : J) (p : PReq) : J :=
  { j with sigs := j.sigs ++ p.sigs.filter (fun x => !(j.sigs.any (·.1 = x.1))),
           keys := j.keys ++ p.keys.filter (fun x => !(j.keys.any (·.1 = x.1))) }

def jenv (j : J) : Env :=
  ⟨"vt", "vt", fun x => match j.sigs.find? (·.1 = x) with | some (_, v) => v | none => .junk,
   fun k => match j.keys.find? (·.1 = k) with | some (_, .gost) => .gost | _ => .ed⟩

/-- spec of C01 for one request: who, if anyone, is it entitled to act as -/
def entitledAs (j : J) (p : PReq) : Option String :=
  match methodsTbl p.req.fn with
  | none => none
  | some mi =>
    let ar : Auth.Req := ⟨"", p.req.fn, mi.argc, jenv j, p.req.acl, p.req.args, [], "none"⟩
    match p.req.acl with
    | .ok addr _ _ _ _ _ => if Auth.entitled ar addr then some addr else none
    | _ => none

def nonceText (p : PReq) : String :=
  match methodsTbl p.req.fn with
  | some mi => p.req.args.getD (mi.argc - 1 + 3) ""
  | none => ""

def parseDump (o : String) : Option (List Int × Int) :=
  match o.splitOn ";" with
  | [b, e, _, _] =>
    let body := (b.splitOn ":").getD 1 ""
    let nums := (body.splitOn ",").filterMap (fun kv => match kv.splitOn "=" with | [_, v] => v.toInt? | _ => none)
    match e.splitOn "=" with
    | [_, v] => v.toInt?.map (fun em => (nums, em))
    | _ => none
  | _ => none

/-- judge one executed item (batch or task route) -/
def judgeItem (j : J) (p : PReq) (res : String) : J × Option String :=
  if res ≠ "ok" then (j, none) else
  match entitledAs j p with
  | none => (j, some "forged_sender_e2e a body ran for a request that is not entitled to act for its sender")
  | some a =>
    let key := (a, nonceText p)
    if j.executed.contains key then
      (j, some s!"replay_executed the request of {a} with nonce {nonceText p} took effect a second time")
    else ({ j with executed := key :: j.executed }, none)

def firstSome : List (Option String) → Option String
  | [] => none
  | some x :: _ => some x
  | none :: r => firstSome r

def jstep (j : J) (ws : List String) : J × String :=
  let (op, obs) := splitObs ws
  match op with
  | ["reset", dis] => ({ jinit with disabled := if dis = "-" then [] else dis.splitOn "," }, "pass")
  | ["submit", tx, w] =>
    match parseReq w with
    | none => (j, "bad-op")
    | some p =>
      let j := jlearn j p
      if obs ≠ "ok" then (j, "pass") else
      -- a submission that fails validation (unknown or disabled function, authentication, argument
      -- check) must be refused and record nothing
      let jc : Ctx := { env := jenv j, robot := "robot", ttl := 50000, methods := methodsTbl,
                        disabled := fun f => j.disabled.contains (methodName f), argsOk := argsOk,
                        body := tokenBody "{AI}" }
      match System.gate jc p.req, entitledAs j p with
      | .error "args", some _ | .error "unknown", some _ =>
        (j, "violation invalid_submission_recorded a submission that fails validation was accepted")
      | _, _ =>
      match entitledAs j p with
      | none => (j, "violation forged_sender_e2e a submission was accepted for a request that is not entitled to act for its sender")
      | some _ =>
        match methodsTbl p.req.fn with
        | some ⟨_, .tx⟩ => ({ j with recorded := (tx, p) :: j.recorded }, "pass")
        | _ => (j, "pass")
  | ["batch", who, ids] =>
    let idl := if ids = "-" then [] else ids.splitOn ","
    if who ≠ "robot" then
      (j, if obs = "unauthorized" then "pass" else s!"violation batch_not_robot batchExecute ran for {who}: {obs}")
    else
      let res := if obs = "-" then [] else obs.splitOn ","
      if res.length ≠ idl.length then (j, s!"violation reply_shape {obs}") else
      let r := (idl.zip res).foldl (fun (acc : J × List (Option String)) (x : String × String) =>
        let (j, vs) := acc
        match j.recorded.find? (·.1 = x.1) with
        | none =>
          (j, vs ++ [if x.2 = "notfound" then none
                     else some s!"phantom_tx id {x.1} is not a recorded pending request but was answered {x.2}"])
        | some (_, p) =>
          let j1 := { j with recorded := j.recorded.filter (·.1 ≠ x.1) }
          if x.2 = "notfound" then (j1, vs ++ [some s!"pending_lost recorded request {x.1} was not found by the batch"]) else
          let (j2, v) := judgeItem j1 p x.2
          (j2, vs ++ [v])) (j, [])
      match firstSome r.2 with
      | some v => (r.1, "violation " ++ v)
      | none => (r.1, "pass")
  | "tasks" :: ws' =>
    match parseAll ws' with
    | none => (j, "bad-op")
    | some ps =>
      let j := ps.foldl jlearn j
      let res := obs.splitOn ","
      if res.length ≠ ps.length then (j, s!"violation reply_shape {obs}") else
      let r := (ps.zip res).foldl (fun (acc : J × List (Option String)) (x : PReq × String) =>
        let (j2, v) := judgeItem acc.1 x.1 x.2
        (j2, acc.2 ++ [v])) (j, [])
      match firstSome r.2 with
      | some v => (r.1, "violation " ++ v)
      | none => (r.1, "pass")
  | ["dump"] =>
    match parseDump obs with
    | some (nums, em) =>
      if nums.any (· < 0) then (j, s!"violation negative_balance_e2e {obs}")
      else if nums.sum ≠ em then (j, s!"violation conservation_e2e held={nums.sum} emission={em}")
      else (j, "pass")
    | none => (j, s!"violation reply_shape {obs}")
  | _ => (j, "bad-op")

def judge : Machine := ⟨J, jinit, jstep⟩

end Driver.Sys
