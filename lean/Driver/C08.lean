import Driver.Common
import Foundation.Model.Swap
namespace Driver.C08
open Foundation Foundation.Swap Driver

structure St where
  s : Swap.S
  funded : List (String × Int)
  onProtocol : Bool
  ids : List String

def users : List String := ["u0", "u1"]
def init (direct : Bool) : St := ⟨Swap.init direct (fun _ => 0) 1000000, [], true, []⟩

def doStep (st : St) (x : Step) (id : String) (okText : String := "ok") : St × String :=
  match step st.s x with
  | some s' => ({ st with s := s', onProtocol := st.onProtocol && allowed st.s x, ids := insertSorted id st.ids }, okText)
  | none => ({ st with ids := insertSorted id st.ids }, "err")

def dump (st : St) : String :=
  let f := fun (g : String → Int) => ",".intercalate (users.map (fun u => s!"{u}={g u}"))
  let ra := st.ids.filter (fun id => (st.s.recA id).isSome)
  let rb := st.ids.filter (fun id => (st.s.recB id).isSome)
  s!"A:{f st.s.srcA};B:{f st.s.dstB};gA={st.s.givenA};gB={st.s.givenB};recA={joinOr "," ra};recB={joinOr "," rb};x=0"

def step' (st : St) : List String → St × String
  | ["reset", d] => (init (d = "d" ∨ d = "g"), "ok")
  | ["reset", d, "lc"] => (init (d = "d" ∨ d = "g"), "ok")   -- destination spelled in lower case: the same protocol
  | ["fund", u, n] => match n.toInt? with
    | some n => ({ st with s := { st.s with srcA := upd st.s.srcA u (st.s.srcA u + n) }, funded := (u, n) :: st.funded }, "ok")
    | none => (st, "bad-op")
  | ["beginbad", _, _, _, _] => (st, "err")      -- token of neither channel
  | ["begin", id, u, n, _route] => match n.toInt? with
    | some n =>
      -- a begin under an id with completion/cancellation history is outside the theorem's hypothesis
      let r := doStep st (.begin id u n) id
      ({ r.1 with onProtocol := r.1.onProtocol && !(st.s.doneB id) && !(st.s.cancelledB id) }, r.2)
    | none => (st, "bad-op")
  | ["answer", id, u, n] => match n.toInt? with
    | some n => doStep st (.answer id ⟨u, n⟩) id
    | none => (st, "bad-op")
  | ["done", id, k] => doStep st (.userDone id (k = "right")) id "ok key-published"
  | ["doneA", id, k] => doStep st (.userDoneA id (k = "right")) id "ok key-published"
  | ["rdone", id, k] => doStep st (.robotDone id (k = "right")) id
  | ["cancelA", id] => doStep st (.cancelA id) id
  | ["cancelB", id] => doStep st (.cancelB id) id
  -- ids are matched exactly: the upper-case spelling of an id names no record
  | ["doneU", _, _] => (st, "err")
  | ["doneAU", _, _] => (st, "err")
  | ["cancelAU", _] => (st, "err")
  | ["cancelBU", _] => (st, "err")
  | ["dump"] => (st, dump st)
  | _ => (st, "bad-op")

def machine : Machine := ⟨St, init true, step'⟩

def clause : List String → String
  | "dump" :: _ => "balances_and_records"
  | "begin" :: _ => "escrow_overwritten"
  | "done" :: _ => "release_once"
  | "doneA" :: _ => "release_once"
  | "rdone" :: _ => "record_lifecycle"
  | _ => "record_lifecycle"

def jstep (st : St) (ws : List String) : St × String :=
  let (op, obs) := splitObs ws
  let r := (judgeOf machine clause).step st ws
  match op with
  | ["dump"] =>
    if ¬ r.1.onProtocol then r else
    let parts := obs.splitOn ";"
    let nums := fun (p : String) => (((p.splitOn ":").getD 1 "").splitOn ",").filterMap (fun kv =>
      match kv.splitOn "=" with | [u, v] => v.toInt?.map (fun n => (u, n)) | _ => none)
    let a := nums (parts.getD 0 "")
    let b := nums (parts.getD 1 "")
    let over := users.find? (fun u =>
      let k := (r.1.funded.filter (·.1 = u)).foldl (fun acc p => acc + p.2) 0
      ((a.find? (·.1 = u)).map (·.2)).getD 0 + ((b.find? (·.1 = u)).map (·.2)).getD 0 > k)
    match over with
    | some u => (r.1, s!"violation no_gain owner {u} can spend more over both channels than funded: {obs}")
    | none => r
  | _ => r

def judge : Machine := ⟨St, init true, jstep⟩

end Driver.C08
