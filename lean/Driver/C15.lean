import Driver.Common
import Foundation.Model.QueryStub
import Foundation.Gen.Facts
namespace Driver.C15
open Foundation Foundation.QueryStub Driver

/-- the harness token's script language -> stub calls (execution stops at fail/panic) -/
def parseScript (s : String) : List StubOp :=
  let steps := if s = "-" then [] else s.splitOn ";"
  let rec go : List String → List StubOp
    | [] => []
    | st :: rest =>
      match st.splitOn ":" with
      | ["put", k, v] => .putState k v :: go rest
      | ["put", k] => .putState k "" :: go rest
      | ["del", k] => .delState k :: go rest
      | ["get", k] => .getState k :: go rest
      | ["evt", n, v] => .setEvent n v :: go rest
      | ["vp", k, v] => .setVP k v :: go rest
      | ["pput", c, k, v] => .putPriv c k v :: go rest
      | ["pdel", c, k] => .delPriv c k :: go rest
      | ["ppurge", c, k] => .purgePriv c k :: go rest
      | ["pvp", c, k, v] => .setPrivVP c k v :: go rest
      | ["nop"] => go rest
      | _ => []
  go steps

def showEff (e : Eff) : String :=
  if e = Eff.empty then "clean" else
  "dirty:" ++ ",".intercalate (
    e.writes.map (fun w => "w=" ++ w.1) ++ (match e.event with | some (n, _) => ["e=" ++ n] | none => []) ++
    e.vps.map (fun v => "vp=" ++ v.1) ++ e.priv.map (fun p => "p=" ++ p.replace " " "/"))

def step (s : Unit) : List String → Unit × String
  | ["reset"] => (s, "ok")
  | ["q", _route, _fn, script, _acl] =>
    (s, showEff (runBody Foundation.Facts.queryStubInertOverrides (parseScript script) Eff.empty))
  | "lib" :: _ => (s, "clean")
  | _ => (s, "bad-op")

def machine : Machine := ⟨Unit, (), step⟩

/-- judge: the property itself — a query leaves nothing behind -/
def jstep (s : Unit) (ws : List String) : Unit × String :=
  let (op, obs) := splitObs ws
  match op with
  | ["reset"] => (s, "pass")
  | "q" :: route :: fn :: _ => (s, if obs = "clean" then "pass" else s!"violation query_wrote route={route} fn={fn} {obs}")
  | "lib" :: fn :: _ => (s, if obs = "clean" then "pass" else s!"violation query_wrote route=direct fn={fn} {obs}")
  | _ => (s, "bad-op")

def judge : Machine := ⟨Unit, (), jstep⟩

end Driver.C15
