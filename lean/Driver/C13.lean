import Driver.Common
import Foundation.Model.Locks
namespace Driver.C13
open Foundation Foundation.Locks Driver

structure S where
  tok : St
  alw : St

def init : S := ⟨Locks.init (fun _ => 0), Locks.init (fun _ => 0)⟩

def acct (kind user token : String) : String := if kind = "t" then user else user ++ "|" ++ token

def pick (s : S) (kind : String) : St := if kind = "t" then s.tok else s.alw
def put (s : S) (kind : String) (x : St) : S := if kind = "t" then { s with tok := x } else { s with alw := x }

/-- `big.Int.SetString(s, 10)`: an optional sign, then digits (leading zeros allowed) -/
def amountOf (s : String) : Option Int :=
  if s.startsWith "+" then ((s.drop 1).toString.toNat?).map Int.ofNat else s.toInt?

def mkReq (signer id a amount : String) : Option Req :=
  match amountOf amount with
  | some n => some ⟨signer = "admin", id, a, n, true⟩
  | none => none

def step (s : S) : List String → S × String
  | ["reset"] => (init, "ok")
  | ["fund", kind, user, token, amt] =>
    match amt.toNat? with
    | some n =>
      let st := pick s kind
      let a := acct kind user token
      (put s kind { st with spend := upd st.spend a (st.spend a + n) }, "ok")
    | none => (s, "bad-op")
  | ["lock", kind, signer, id, user, token, amount] =>
    match mkReq signer id (acct kind user token) amount with
    | none => (s, "err")      -- unparsable amount: rejected by the code as well
    | some r => match lock (pick s kind) r with
      | some st => (put s kind st, "ok")
      | none => (s, "err")
  | ["unlock", kind, signer, id, user, _token, amount] =>
    -- the funds go back to the request's address under the *lock's* token (balanceLock.GetToken())
    let ltoken := match (pick s kind).locks id with
      | some l => (match l.acct.splitOn "|" with | [_, t] => t | _ => "")
      | none => ""
    match mkReq signer id (acct kind user ltoken) amount with
    | none => (s, "err")
    | some r => match unlock (pick s kind) r with
      | some st => (put s kind st, "ok")
      | none => (s, "err")
  | ["get", kind, id] =>
    (s, match (pick s kind).locks id with
      | some l => s!"{l.cur}/{l.init}"
      | none => "none")
  | ["bal", user, token] =>
    let a := acct "a" user token
    (s, s!"t:{s.tok.spend user}/{s.tok.locked user} a:{s.alw.spend a}/{s.alw.locked a}")
  | _ => (s, "bad-op")

def machine : Machine := ⟨S, init, step⟩

def clause : List String → String
  | "lock" :: _ => "lock_guarded"
  | "unlock" :: _ => "unlock_guarded"
  | "get" :: _ => "remaining_eq"
  | "bal" :: _ => "locked_eq_sum_of_locks"
  | _ => "setup"

def judge : Machine := judgeOf machine clause

end Driver.C13
