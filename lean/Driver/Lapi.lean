import Driver.Common
import Foundation.Model.LedgerApi
/-!
Line-protocol machine and judge for the balance API (`Foundation.LedgerApi`).

  reset
  api  <fn> <a> <b|-> <tok|-> <amt>
  apim <fn> <a> <b|-> <g:n,g:n,…|->
  dump

Each call runs as one batched transaction of the harness token; observed: `err` or
`ok <accounting records>`; `dump` prints every non-zero primary and reverse-index entry read from
the ledger's composite keys.
-/
namespace Driver.Lapi
open Foundation Foundation.Balance Foundation.LedgerApi Driver

def fnOf : String → Option Fn
  | "tokenAdd" => some .tokenAdd | "tokenAddWithReason" => some .tokenAddWithReason
  | "tokenAddWithTicker" => some .tokenAddWithTicker | "tokenSub" => some .tokenSub
  | "tokenSubWithTicker" => some .tokenSubWithTicker | "tokenTransfer" => some .tokenTransfer
  | "tokenLock" => some .tokenLock | "tokenUnlock" => some .tokenUnlock
  | "tokenTransferLocked" => some .tokenTransferLocked | "tokenBurnLocked" => some .tokenBurnLocked
  | "indAdd" => some .indAdd | "indSub" => some .indSub | "indTransfer" => some .indTransfer
  | "indLock" => some .indLock | "indUnlock" => some .indUnlock
  | "indTransferLocked" => some .indTransferLocked | "indBurnLocked" => some .indBurnLocked
  | "allowedAdd" => some .allowedAdd | "allowedSub" => some .allowedSub
  | "allowedTransfer" => some .allowedTransfer | "allowedLock" => some .allowedLock
  | "allowedUnlock" => some .allowedUnlock | "allowedTransferLocked" => some .allowedTransferLocked
  | "allowedBurnLocked" => some .allowedBurnLocked
  | "allowedIndAdd" => some .allowedIndAdd | "allowedIndSub" => some .allowedIndSub
  | "allowedIndTransfer" => some .allowedIndTransfer
  | _ => none

def users : List String := ["u0", "u1", "u2"]
def kinds : List String := ["2b", "2c", "2e", "2f"]
def toks : List String := ["", "BA_02", "EUR", "G1", "G2", "USD", "VT"]

structure S where
  st : St

def init : S := ⟨⟨fun _ => 0, fun _ => 0⟩⟩

def dumpOf (f : PK → Int) : String :=
  let es := kinds.flatMap (fun k => users.flatMap (fun u => toks.filterMap (fun t =>
    let v := f ⟨k, u, t⟩
    if v = 0 then none else some s!"{k}/{u}/{enc t}={v}")))
  joinOr "," es

/-- label of the accounting record of a call (symbol of the channel: VT) -/
def acctLabel (fn : Fn) (tokArg : String) : String :=
  -- (BaseContract.AllowedBalanceLock/UnLock pass the token where the ledger function expects the symbol)
  match (shape fn).tok with
  | .none => "VT"
  | .lastPart => "VT_" ++ lastPart tokArg
  | .ticker => if tokArg.toList.contains '_' then "VT_" ++ lastPart tokArg else "VT"
  | .asGiven => tokArg

def acctRec (fn : Fn) (label a b : String) (amt : Int) : String :=
  match (shape fn).prim with
  | .add _ => s!"{enc label}|-|{a}|{amt}"
  | .sub _ => s!"{enc label}|{a}|-|{amt}"
  | .move _ _ o => s!"{enc label}|{a}|{if o then b else a}|{amt}"

/-- insertion into a sorted list, keeping duplicates (the harness sorts the records it observed) -/
def insertDup (k : String) : List String → List String
  | [] => [k]
  | x :: xs => if k ≤ x then k :: x :: xs else x :: insertDup k xs

def parseAssets (s : String) : Option (List (String × Int)) :=
  if s = "-" then some [] else
  (s.splitOn ",").foldr (fun it acc =>
    match it.splitOn ":", acc with
    | [g, n], some l => (n.toInt?).map (fun v => (dec g, v) :: l)
    | _, _ => none) (some [])

def step (s : S) : List String → S × String
  | ["reset"] => (init, "ok")
  | ["api", f, a, b, tok, amt] =>
    match fnOf f, amt.toInt? with
    | some fn, some n =>
      if (shape fn).multi then (s, "bad-op") else
      match apply s.st fn a (dec b) (dec tok) n [] with
      | .ok st' => (⟨st'⟩, "ok " ++ acctRec fn (acctLabel fn (dec tok)) a (dec b) n)
      | .error _ => (s, "err")
    | _, _ => (s, "bad-op")
  | ["apim", f, a, b, assets] =>
    match fnOf f, parseAssets assets with
    | some fn, some l =>
      if !(shape fn).multi then (s, "bad-op") else
      match apply s.st fn a (dec b) "" 0 l with
      | .ok st' => (⟨st'⟩, "ok " ++ joinOr ";" ((l.map (fun x => acctRec fn x.1 a (dec b) x.2)).foldl (fun acc r => insertDup r acc) []))
      | .error _ => (s, "err")
    | _, _ => (s, "bad-op")
  -- token.TxAllowedIndustrialBalanceTransfer: the signed method on top of allowedIndTransfer
  | ["tait", a, b, assets] =>
    match parseAssets assets with
    | some l =>
      if a = b ∨ l.any (fun x => x.2 ≤ 0) then (s, "err") else
      match apply s.st .allowedIndTransfer a b "" 0 l with
      | .ok st' => (⟨st'⟩, "ok " ++ joinOr ";" ((l.map (fun x => acctRec .allowedIndTransfer x.1 a b x.2)).foldl (fun acc r => insertDup r acc) []))
      | .error _ => (s, "err")
    | none => (s, "bad-op")
  | ["dump"] => (s, s!"p:{dumpOf s.st.prim};i:{dumpOf s.st.inv}")
  | _ => (s, "bad-op")

def machine : Machine := ⟨S, init, step⟩

/-! judge, independent of the model's state: on every dump of the implementation
    (1) no entry is negative; (2) every reverse-index entry equals the primary entry of the same
    (kind, address, token) and every primary entry with a token component has its index entry;
    (3) between two dumps the total units of the token component named by the call changed by
    exactly what the call announces: 0 for the thirteen moving functions, +amount for the adds,
    −amount for the subs, nothing at all after a failed call. -/
structure J where
  last : List (String × Int) := []      -- token component ↦ total over all kinds and users (primary)
  pending : List (String × Int) := []   -- announced change per token component since the last dump
  calls : Nat := 0                       -- calls since the last dump
  oks : Nat := 0                         -- successful calls since the last dump
  lastAll : String := ""

def parseEntries (s : String) : List (String × String × String × Int) :=
  if s = "-" then [] else
  (s.splitOn ",").filterMap (fun e =>
    match e.splitOn "=" with
    | [k, v] => match k.splitOn "/", v.toInt? with
      | [kind, u, t], some n => some (kind, u, dec t, n)
      | _, _ => none
    | _ => none)

def totals (es : List (String × String × String × Int)) : List (String × Int) :=
  toks.map (fun t => (t, ((es.filter (fun e => e.2.2.1 = t)).map (·.2.2.2)).sum))

def jstep (j : J) (ws : List String) : J × String :=
  let (op, obs) := splitObs ws
  match op with
  | ["reset"] => ({}, "pass")
  | ["api", f, _, _, tok, amt] =>
    match fnOf f, amt.toInt? with
    | some fn, some n =>
      if obs = "err" then ({ j with calls := j.calls + 1 }, "pass")
      -- an operation that carries a negative amount must fail, whatever it would do with the amount
      else if obs.startsWith "ok" ∧ n < 0 then (j, s!"violation negative_amount_accepted {f} {n}")
      else if obs.startsWith "ok" then
        ({ j with calls := j.calls + 1, oks := j.oks + 1,
                  pending := j.pending ++ [(tokOf (shape fn).tok (dec tok), delta (shape fn).prim n)] }, "pass")
      else (j, s!"violation reply_shape {obs}")
    | _, _ => (j, "bad-op")
  | ["tait", _, _, assets] =>
    match parseAssets assets with
    | some l =>
      if obs = "err" then ({ j with calls := j.calls + 1 }, "pass")
      else if obs.startsWith "ok" ∧ l.any (fun x => x.2 < 0) then (j, s!"violation negative_amount_accepted tait {assets}")
      else if obs.startsWith "ok" then
        ({ j with calls := j.calls + 1, oks := j.oks + 1, pending := j.pending ++ l.map (fun x => (x.1, (0 : Int))) }, "pass")
      else (j, s!"violation reply_shape {obs}")
    | none => (j, "bad-op")
  | ["apim", f, _, _, assets] =>
    match fnOf f, parseAssets assets with
    | some fn, some l =>
      if obs = "err" then ({ j with calls := j.calls + 1 }, "pass")
      else if obs.startsWith "ok" ∧ l.any (fun x => x.2 < 0) then (j, s!"violation negative_amount_accepted {f} {assets}")
      else if obs.startsWith "ok" then
        ({ j with calls := j.calls + 1, oks := j.oks + 1,
                  pending := j.pending ++ l.map (fun x => (x.1, delta (shape fn).prim x.2)) }, "pass")
      else (j, s!"violation reply_shape {obs}")
    | _, _ => (j, "bad-op")
  | ["dump"] =>
    match obs.splitOn ";" with
    | [p, i] =>
      let pe := parseEntries ((p.splitOn ":").getD 1 "-")
      let ie := parseEntries ((i.splitOn ":").getD 1 "-")
      if (pe ++ ie).any (fun e => e.2.2.2 < 0) then (j, s!"violation negative_balance_api {obs}") else
      let withTok := pe.filter (fun e => e.2.2.1 ≠ "")
      if !(withTok.all (fun e => ie.contains e) && ie.all (fun e => withTok.contains e)) then
        (j, s!"violation index_mismatch_api primary {p} index {i}") else
      let tot := totals pe
      let j' : J := { last := tot, lastAll := obs }
      let want := toks.map (fun t => (t, (j.last.lookup t).getD 0 + ((j.pending.filter (·.1 = t)).map (·.2)).sum))
      if j.oks = 0 ∧ j.calls > 0 ∧ j.lastAll ≠ obs ∧ j.lastAll ≠ "" then
        (j', s!"violation failed_call_changed_state before {j.lastAll} after {obs}")
      else if want ≠ tot then
        (j', s!"violation api_conservation expected totals {want} got {tot}")
      else (j', "pass")
    | _ => (j, s!"violation reply_shape {obs}")
  | _ => (j, "bad-op")

def judge : Machine := ⟨J, {}, jstep⟩

end Driver.Lapi
