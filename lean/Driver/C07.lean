import Driver.Common
import Foundation.Model.Process
namespace Driver.C07
open Foundation Foundation.Token Foundation.Process Driver

def names : List String := ["I", "F", "u0", "u1", "u2"]

def led0 : Led := ⟨Meta.zero "VT", false, ⟨cfg0 "VT", fun _ => 0, fun _ _ => 0, fun _ => ""⟩⟩

/-- state of the long-lived instance: its memory and the committed ledger -/
structure S where
  mem : Meta
  led : Led
  futMax : Option Int := none     -- op `future`: the largest committed lead (ms) of that sender's nonces

def init : S := ⟨Meta.zero "VT", led0, none⟩

def nat? (x : String) : Option Nat := x.toNat?

def bodyOf : List String → Option (List Step)
  | ["fund", u, a] => (nat? a).map (emitBody u)
  | ["setfee", cur, sh, fl, cp] => match nat? sh, nat? fl, nat? cp with
    | some sh, some fl, some cp => some (setFeeBody cur sh fl cp)
    | _, _, _ => none
  | ["setfeeaddr", u] => some (setFeeAddrBody u)
  | ["setrate", deal, cur, r] => (nat? r).map (setRateBody deal cur)
  | ["transfer", f, t, a] => (nat? a).map (transferBody f t)
  | ["meta"] => some metaBody
  | ["predict", a] => (nat? a).map predictBody
  | ["multi", _] => some []
  -- a swap begun: the amount leaves the owner's balance (escrow); nothing of it stays in the process
  | ["swapbegin", u, a] => (nat? a).map (fun a => [.stub (fun b => subTok b u a)])
  | ["bad", _, _] => some [.mem (fun _ => none)]    -- a request that fails, whatever the reason: no effect, an error reply
  | _ => none

def showReply : Option (List String) → String
  | none => "err"
  | some [] => "ok"
  | some l => " ".intercalate l

def showBal (l : Led) : String :=
  ",".intercalate (names.map (fun n => s!"{n}={l.bal.tok n}"))

/-- `fresh = true` is the specification: every proposal is answered by a freshly created instance -/
def step (fresh : Bool) (s : S) : List String → S × String
  | ["reset"] => (init, "ok")
  | ["tracing", _] => (s, "ok")
  | ["rerobot"] => (s, "ok")        -- the robot's certificate rotated by a re-initialisation: no effect on results     -- a collector endpoint in the configuration: no effect on results
  | ["bal"] => (s, showBal s.led)
  | ["trace", _] => (s, "ok")
  -- a nonce ahead of the simulating machine's clock by `d` ms: accepted or refused by the sender's
  -- stored window alone (refused only when more than the TTL behind a committed one) — the wall
  -- clock of whoever simulates plays no part. (Leads are 0 s, 30 s or more than half an hour apart, so neither clock drift nor a stalled machine can move a decision.)
  | [mode, "future", d] =>
    match d.toInt? with
    | none => (s, "bad-op")
    | some d =>
      let committed := mode = "cb" ∨ mode = "ct"
      if ¬ committed ∧ mode ≠ "db" ∧ mode ≠ "dt" then (s, "bad-op") else
      let ok : Bool := match s.futMax with | none => true | some m => decide (m - d ≤ 50000)
      if !ok then (s, "err") else
      (if committed then { s with futMax := some (match s.futMax with | none => d | some m => max m d) } else s, "ok")
  | mode :: rest =>
    if mode = "xb" ∨ mode = "xt" then
      -- several transfers in one request: each atomic, all committed together
      match rest with
      | f :: t :: amts =>
        let go := amts.foldl (fun (acc : Meta × Led × List String) a =>
          match nat? a with
          | none => (acc.1, acc.2.1, acc.2.2 ++ ["bad"])
          | some a =>
            let m := if fresh then Meta.zero "VT" else acc.1
            let r := invoke false m acc.2.1 ⟨transferBody f t a, true⟩
            (r.1, r.2.1, acc.2.2 ++ [showReply r.2.2])) (s.mem, s.led, [])
        ({ s with mem := go.1, led := go.2.1 }, ",".intercalate go.2.2)
      | _ => (s, "bad-op")
    else
    let committed := mode = "cb" ∨ mode = "ct"
    if ¬ committed ∧ mode ≠ "db" ∧ mode ≠ "dt" then (s, "bad-op") else
    match bodyOf rest with
    | none => (s, "bad-op")
    | some b =>
      let m := if fresh then Meta.zero "VT" else s.mem
      let r := invoke false m s.led ⟨b, committed⟩
      ({ s with mem := r.1, led := r.2.1 }, showReply r.2.2)
  | _ => (s, "bad-op")

def machine : Machine := ⟨S, init, step false⟩
def spec : Machine := ⟨S, init, step true⟩

def clause : List String → String
  | _ => "reply_differs_from_fresh_instance"

def judge : Machine := judgeOf spec clause

end Driver.C07
