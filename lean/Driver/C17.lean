import Driver.Common
import Foundation.Model.Env
namespace Driver.C17
open Foundation Foundation.Env Driver

structure Inv where
  kind : String
  steps : List (List String)

def parseInv (s : String) : Option Inv :=
  match s.splitOn "=" with
  | [k, sc] =>
    -- taskS / batchS: requests that share an inner id with another one in flight — each still its own
    -- transaction; xfer / fee: token methods (their observable here is empty: the harness compares
    -- reply, write-set and event with the solo run)
    if k = "taskS" then some ⟨"task", if sc = "-" then [] else (sc.splitOn "+").map (·.splitOn ":")⟩ else
    if k = "batchS" then some ⟨"batch", if sc = "-" then [] else (sc.splitOn "+").map (·.splitOn ":")⟩ else
    if k = "xfer" ∨ k = "fee" then some ⟨"batch", []⟩ else
    if k ∉ ["nb", "batch", "task", "done", "q", "init"] then none else
    some ⟨k, if sc = "-" then [] else (sc.splitOn "+").map (·.splitOn ":")⟩
  | _ => none

/-- per-stub simulation state -/
structure StubSt where
  writes : List (String × String) := []

def lookup (l : List (String × String)) (k : String) : Option String := (l.find? (·.1 = k)).map (·.2)
def setKV (l : List (String × String)) (k v : String) : List (String × String) :=
  (l.filter (·.1 ≠ k)) ++ [(k, v)]

structure S where
  ledger : List (String × String) := []

/-- the programs: install the context, one `GetStub()` per scripted step, remove it -/
def progOf (i : Nat) (inv : Inv) : List Act :=
  if inv.kind = "init" then []        -- Init installs no transaction context
  else if inv.kind = "done" then [.set (100 + i), .del]
  else [.set (100 + i)] ++ inv.steps.map (fun _ => .get) ++ [.del]

/-- run the context-table model under the schedule the harness forced; thread `i` takes its first
    step (the install) when it is started, in index order -/
def seenOf (invs : List Inv) (sched : List Nat) : List (List (Option Nat)) :=
  let n := invs.length
  let g0 : G := ⟨fun _ => none, fun t => match invs[t]? with | some inv => ⟨progOf t inv, []⟩ | none => ⟨[], []⟩⟩
  let tailS := (List.range n).flatMap (fun t => List.replicate 12 t)
  let g := run g0 (List.range n ++ sched ++ tailS)
  (List.range n).map (fun t => (g.th t).seen)

def conc (s : S) (sched : List Nat) (invs : List Inv) : String :=
  let seen := seenOf invs sched
  -- apply every step of every thread to the stub its GetStub() returned
  let init : List (Nat × StubSt) := (List.range invs.length).map (fun i => (100 + i, {}))
  let kindOfStub := fun (sid : Nat) => ((invs[sid - 100]?).map (·.kind)).getD "nb"
  let go := (List.range invs.length).foldl (fun (acc : List (Nat × StubSt) × List (List String)) i =>
    match invs[i]? with
    | none => acc
    | some inv =>
      let mine := seen.getD i []
      let r := (inv.steps.zip mine).foldl (fun (a : List (Nat × StubSt) × List String) (p : List String × Option Nat) =>
        let sid := p.2.getD 0
        let st := ((a.1.find? (·.1 = sid)).map (·.2)).getD {}
        let upd' := fun (st' : StubSt) => (a.1.filter (·.1 ≠ sid)) ++ [(sid, st')]
        match p.1 with
        -- the transaction the obtained context belongs to: the invocation's own, or somebody else's
        -- the configuration the invocation loaded when it started: never another proposal's
        | ["sym"] => (a.1, a.2 ++ ["[VT]"])
        | ["id"] => (a.1, a.2 ++ [if sid = 100 + i then "[SELF]" else "[OTHER]"])
        -- a query's context is read-only: writes through it are swallowed
        | ["put", k, v] => if kindOfStub sid = "q" then a else (upd' { writes := setKV st.writes k v }, a.2)
        | ["get", k] =>
          let v := if kindOfStub sid = "nb" ∨ kindOfStub sid = "q" then (lookup s.ledger k).getD ""
                   else match lookup st.writes k with | some v => v | none => (lookup s.ledger k).getD ""
          (a.1, a.2 ++ [s!"[{v}]"])
        | _ => a) (acc.1, [])
      (r.1, acc.2 ++ [r.2])) (init, [])
  let outs := (List.range invs.length).map (fun i =>
    match invs[i]? with
    | none => "?"
    | some inv =>
      if inv.kind = "done" then "done-err" else
      if inv.kind = "init" then "init" else
      let st := ((go.1.find? (·.1 = 100 + i)).map (·.2)).getD {}
      let ws := (st.writes.filter (fun kv => kv.1.startsWith "k")).map (fun kv => s!"{kv.1}={kv.2}")
      let wsSorted := ws.foldr insertSorted []
      s!"reads={",".intercalate (go.2.getD i [])};w={",".intercalate wsSorted}")
  " | ".intercalate outs

def step (s : S) : List String → S × String
  | ["reset"] => ({}, "ok")
  | ["seed", k, v] => ({ s with ledger := setKV s.ledger k v }, "ok")
  | ["feeprep"] => (s, "ok")     -- committed funding and fee setting: nothing the scripted bodies read
  | ["age", _] => (s, "ok")      -- the process has served that many goroutines before: irrelevant to the model
  | "conc" :: sch :: invs =>
    match invs.mapM parseInv with
    | none => (s, "bad-op")
    | some is =>
      if is.length < 2 ∨ is.length > 3 then (s, "bad-op") else
      let sched := if sch = "-" then [] else sch.toList.map (fun c => c.toNat - '0'.toNat)
      if sched.any (· ≥ is.length) then (s, "bad-op") else
      (s, conc s sched is)
  | _ => (s, "bad-op")

def machine : Machine := ⟨S, {}, step⟩

def clause : List String → String
  | "conc" :: _ => "result_differs_from_solo_run"
  | _ => "setup"

def judge : Machine := judgeOf machine clause

end Driver.C17
