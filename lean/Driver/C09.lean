import Driver.Common
import Foundation.Model.MultiSwap
namespace Driver.C09
open Foundation Foundation.MultiSwap Driver

structure St where
  s : MultiSwap.S
  ids : List String
  refunded : List String      -- syms whose origin cancel succeeded
  released : List String      -- syms whose destination completion succeeded
  dupDone : Bool              -- a completion of a swap with a repeated group has happened

def users : List String := ["u0", "u1"]
def groups : List String := ["g1", "g2"]
def init (direct : Bool) : St := ⟨MultiSwap.init direct (fun _ _ => 0) 1000000, [], [], [], false⟩

def parseAssets (s : String) : Option (List Asset) :=
  if s = "-" then some [] else
  (s.splitOn "+").mapM (fun ga => match ga.splitOn ":" with
    | [g, a] => a.toInt?.map (fun n => (g, n))
    | _ => none)

def hasDup (as : List Asset) : Bool := as.any (fun ga => (as.filter (·.1 = ga.1)).length > 1)

/-- `spec` = the property's reading of a completion: every listed asset is released (a repeated
    group by the sum); the code's direct completion credits the last occurrence only. -/
def stepX (spec : Bool) (s : MultiSwap.S) (x : Step) : Option MultiSwap.S :=
  match x, spec with
  | .userDone id right, true =>
    match s.recB id with
    | some r =>
      if !right ∨ r.creator = r.owner then none
      else some { s with recB := upd s.recB id none, dstB := creditAll s.dstB r.owner r.assets, doneB := upd s.doneB id true }
    | none => none
  | _, _ => step s x

def doStep (spec : Bool) (st : St) (x : Step) (id : String) (okText : String := "ok") : St × String :=
  match stepX spec st.s x with
  | some s' => ({ st with s := s', ids := insertSorted id st.ids }, okText)
  | none => ({ st with ids := insertSorted id st.ids }, "err")

def dump (st : St) : String :=
  let f := fun (b : Bal) => ",".intercalate (users.flatMap (fun u => groups.map (fun g => s!"{u}.{g}={b u g}")))
  let ra := st.ids.filter (fun id => (st.s.recA id).isSome)
  let rb := st.ids.filter (fun id => (st.s.recB id).isSome)
  s!"A:{f st.s.srcA};B:{f st.s.dstB};gA={st.s.givenA};gB={st.s.givenB};recA={joinOr "," ra};recB={joinOr "," rb}"

def step' (spec : Bool) (st : St) : List String → St × String
  | ["reset", d] => (init (d = "d"), "ok")
  -- "lc": the destination spelled in lower case, the same protocol; a number: the given-out counter at the start
  | ["reset", d, x] =>
    if x = "lc" then (if d = "d" then (init true, "ok") else (st, "bad-op")) else
    match x.toNat? with
    | some n => ({ init (d = "d") with s := MultiSwap.init (d = "d") (fun _ _ => 0) n }, "ok")
    | none => (st, "bad-op")
  | ["fund", u, g, n] => match n.toInt? with
    | some n => ({ st with s := { st.s with srcA := upd st.s.srcA u (upd (st.s.srcA u) g (st.s.srcA u g + n)) } }, "ok")
    | none => (st, "bad-op")
  | ["tickA", n] => match n.toNat? with
    | some n => doStep spec st (.tickA n) "-"
    | none => (st, "bad-op")
  | ["tickB", n] => match n.toNat? with
    | some n => doStep spec st (.tickB n) "-"
    | none => (st, "bad-op")
  | ["begin", id, u, as, _route] => match parseAssets as with
    | some as => doStep spec st (.begin id u as) id
    | none => (st, "err")
  | ["answer", id, u, as] => match parseAssets as with
    | some as => doStep spec st (.answer id u as) id
    | none => (st, "err")
  | ["done", id, k] =>
    let dup := match st.s.recB id with | some r => hasDup r.assets | none => false
    let r := doStep spec st (.userDone id (k = "right")) id "ok key-published"
    if r.2 = "err" then r else ({ r.1 with released := id :: r.1.released, dupDone := r.1.dupDone || dup }, r.2)
  -- user completion sent to the ORIGIN channel: the origin record is the owner's own (creator =
  -- owner) and is never completed by a user, whatever the key and the direction; nothing changes
  | ["doneA", _, _] => (st, "err")
  -- ids are matched exactly: the upper-case spelling of an id names no record
  | ["doneU", _, _] => (st, "err")
  | ["cancelAU", _, _] => (st, "err")
  | ["cancelBU", _, _] => (st, "err")
  | ["rdone", id, k] => doStep spec st (.robotDone id (k = "right")) id
  | ["cancelA", id, sender] =>
    let r := doStep spec st (.cancelA id sender) id
    if r.2 = "err" then r else ({ r.1 with refunded := id :: r.1.refunded }, r.2)
  | ["cancelB", id, sender] => doStep spec st (.cancelB id sender) id
  | ["abandon", id] => doStep spec st (.abandon id) id
  | ["dump"] => (st, dump st)
  | _ => (st, "bad-op")

def machine : Machine := ⟨St, init true, step' false⟩

def clause : List String → String
  | "dump" :: _ => "balances_and_records"
  | "begin" :: _ => "begin_all_or_nothing"
  | "cancelA" :: _ | "cancelB" :: _ => "cancel_guarded"
  | "done" :: _ | "rdone" :: _ | "doneA" :: _ => "done_guarded"
  | _ => "setup"

/-- judge: the spec machine (every listed asset released on completion), plus the release-once
    monitor: a swap must not be both refunded on the origin and released on the destination. -/
def jstep (st : St) (ws : List String) : St × String :=
  let (op, obs) := splitObs ws
  let (s', o) := step' true st op
  if o = "bad-op" then (s', "bad-op") else
  -- the monitor follows the implementation's replies for refunded / released
  let tracked : St := match op, obs with
    | ["cancelA", id, _], "ok" => { s' with refunded := if s'.refunded.contains id then s'.refunded else id :: s'.refunded }
    | _, _ => s'
  match op with
  | ["done", id, _] =>
    if obs.startsWith "ok" ∧ tracked.refunded.contains id then
      (tracked, s!"violation cancel_then_done swap {id} was refunded on the origin and is now released on the destination")
    else if o = obs then (tracked, "pass") else (tracked, s!"violation done_guarded expected {o} got {obs}")
  | ["cancelA", id, _] =>
    if obs = "ok" ∧ tracked.released.contains id then
      (tracked, s!"violation cancel_then_done swap {id} was released on the destination and is now refunded on the origin")
    else if o = obs then (tracked, "pass") else (tracked, s!"violation cancel_guarded expected {o} got {obs}")
  | ["dump"] =>
    if o = obs then (tracked, "pass")
    else if tracked.dupDone then (tracked, s!"violation dup_group_direct a group listed twice was not released in full: expected {o} got {obs}")
    else (tracked, s!"violation balances_and_records expected {o} got {obs}")
  | _ => if o = obs then (tracked, "pass") else (tracked, s!"violation {clause op} expected {o} got {obs}")

def judge : Machine := ⟨St, init true, jstep⟩

end Driver.C09
