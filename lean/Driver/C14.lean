import Driver.Common
import Foundation.Model.Panic
namespace Driver.C14
open Foundation.Panic Driver

/-- a scripted item as the model sees it: the first `panic` / `fail` step decides -/
def itemOf (script : String) : Item :=
  -- an item whose validation panics (before its body starts) is a panicking item like any other
  if script = "aclpanic" then .panics else
  let steps := script.splitOn "+"
  match steps.find? (fun s => s = "panic" ∨ s = "fail") with
  | some "panic" => .panics
  | some _ => .fails "scripted failure"
  | none => .ok ""

def showRes : Res → String
  | .ok _ => "ok"
  | .err _ => "err"

/-- every entry point is a call below `Invoke`'s recovering frame (or below an item frame): the
    skeleton says the process survives and replies -/
def step (_ : Unit) : List String → Unit × String
  | ["reset"] => ((), "ok")
  | "init" :: _ => ((), "replied")
  | "call" :: _ => ((), "replied")
  | "signed" :: _ => ((), "replied")
  | "items" :: _ :: scripts =>
    match runItems true "panic" (scripts.map itemOf) with
    | some rs => ((), "replied " ++ ",".intercalate (rs.map showRes))
    | none => ((), "DEAD")
  | "swaps" :: kinds => ((), s!"replied {kinds.length}")
  | _ => ((), "bad-op")

def machine : Machine := ⟨Unit, (), step⟩

def clause : List String → String
  | "items" :: _ => "item_isolation"
  | "swaps" :: _ => "item_isolation"
  | _ => "process_death_or_no_reply"

def judge : Machine := judgeOf machine clause

end Driver.C14
