import Driver.Common
import Foundation.Model.Paging
namespace Driver.C20
open Foundation Foundation.Paging Driver

structure S where
  recs : List (String × Bool)     -- origin records: id, committed
  raw : List String               -- unrelated keys written directly

def init : S := ⟨[], []⟩

def keysOf (s : S) : List String :=
  (s.recs.map (fun r => fromPrefix ++ r.1) ++ s.raw).foldl (fun acc k => insertSorted k acc) []

def idOf (k : String) : String := (k.drop fromPrefix.length).toString

def has (s : S) (id : String) : Option Bool := (s.recs.find? (·.1 = id)).map (·.2)

def walkIds (s : S) (size : Nat) : String :=
  let R := rangeKeys (keysOf s)
  joinOr "," ((collect R size (R.length + 1) none).map idOf)

def step (s : S) : List String → S × String
  | ["reset"] => (init, "ok")
  | ["mk", id] | ["mkbin", id] =>      -- (mkbin: the same record in the old binary encoding)
    match has s id with
    | some _ => (s, "err")
    | none => (⟨s.recs ++ [(id, false)], s.raw⟩, "ok")
  | ["commit", id] =>
    match has s id with
    | some false => (⟨s.recs.map (fun r => if r.1 = id then (id, true) else r), s.raw⟩, "ok")
    | _ => (s, "err")
  | ["cancel", id] =>
    match has s id with
    | some false => (⟨s.recs.filter (·.1 ≠ id), s.raw⟩, "ok")
    | _ => (s, "err")
  | ["del", id] =>
    match has s id with
    | some true => (⟨s.recs.filter (·.1 ≠ id), s.raw⟩, "ok")
    | _ => (s, "err")
  | ["raw", k] => (⟨s.recs, s.raw ++ [k]⟩, "ok")
  | ["get", id] => (s, if (has s id).isSome then "yes" else "no")
  | ["list", size, bm] =>
    match size.toInt? with
    | none => (s, "bad-op")
    | some n =>
      match query (keysOf s) n (dec bm) with
      | .ok (ks, b) => (s, "ids:" ++ joinOr "," (ks.map idOf) ++ ";bm:" ++ enc b)
      | .error _ => (s, "err")
  | ["walk", size] =>
    match size.toNat? with
    | some n => if n = 0 then (s, "bad-op") else (s, walkIds s n)
    | none => (s, "bad-op")
  | _ => (s, "bad-op")

def machine : Machine := ⟨S, init, step⟩

/-! judge: the set of existing records is reconstructed from the implementation's own replies; a
    full walk must return exactly those ids, once each, in key order -/
structure J where
  ids : List String    -- existing ids, sorted by key

def jstep (j : J) (ws : List String) : J × String :=
  match ws with
  | ["reset", "=>", _] => (⟨[]⟩, "pass")
  | ["mk", id, "=>", o] | ["mkbin", id, "=>", o] => (if o = "ok" then ⟨insertSorted id j.ids⟩ else j, "pass")
  | ["cancel", id, "=>", o] | ["del", id, "=>", o] => (if o = "ok" then ⟨j.ids.filter (· ≠ id)⟩ else j, "pass")
  | ["commit", _, "=>", _] | ["raw", _, "=>", _] => (j, "pass")
  | ["get", id, "=>", o] =>
    (j, if (o = "yes") = (j.ids.contains id) then "pass" else s!"violation record_visibility get {id} says {o}")
  | ["walk", _, "=>", o] =>
    let exp := joinOr "," j.ids
    (j, if o = exp then "pass" else s!"violation listing_incomplete expected {exp} got {o}")
  | ["list", size, bm, "=>", o] =>
    match size.toInt? with
    | none => (j, "bad-op")
    | some n =>
      let bad := n ≤ 0 ∨ (dec bm ≠ "" ∧ ¬ fromPrefix.isPrefixOf (dec bm))
      if bad then (j, if o = "err" then "pass" else s!"violation bad_request_accepted size={size} bookmark={bm}")
      else if o = "err" then (j, s!"violation good_request_rejected size={size} bookmark={bm}")
      else
        -- ids:<..>;bm:<..> : at most `size` ids, all existing
        match (o.drop 4).toString.splitOn ";bm:" with
        | [idsS, _] =>
          let ids := if idsS = "-" then [] else idsS.splitOn ","
          if ids.length > n.toNat then (j, s!"violation page_too_long {o}")
          else if ids.all (j.ids.contains ·) then (j, "pass")
          else (j, s!"violation foreign_record_listed {o}")
        | _ => (j, s!"violation reply_shape {o}")
  | _ => (j, "bad-op")

def judge : Machine := ⟨J, ⟨[]⟩, jstep⟩

end Driver.C20
