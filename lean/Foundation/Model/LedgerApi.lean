import Foundation.Model.Balance
/-!
Model of the balance API a token author programs against (`core/ledger/balances.go`, re-exported as
methods of `BaseContract` in `core/bc_balances.go`): 27 mutating functions, each a fixed
composition of the three primitives of `core/balance` (`Add`, `Sub`, `Move`) on balance kinds and a
token component derived from its arguments. The table `shape` is the transcription; `apply` is its
meaning on the store of `Model/Balance.lean` (primary entries + reverse index).

Balance kinds are named by their key prefix byte: 2b token, 2e token locked, 2c allowed,
2f allowed locked.
-/
namespace Foundation.LedgerApi
open Foundation Foundation.Balance

inductive Fn
  | tokenAdd | tokenAddWithReason | tokenAddWithTicker | tokenSub | tokenSubWithTicker
  | tokenTransfer | tokenLock | tokenUnlock | tokenTransferLocked | tokenBurnLocked
  | indAdd | indSub | indTransfer | indLock | indUnlock | indTransferLocked | indBurnLocked
  | allowedAdd | allowedSub | allowedTransfer | allowedLock | allowedUnlock
  | allowedTransferLocked | allowedBurnLocked
  | allowedIndAdd | allowedIndSub | allowedIndTransfer
deriving DecidableEq, Repr

/-- how the token component of the key is derived from the `token`/`ticker` argument -/
inductive TokRule
  | none        -- always "" (the channel's own token)
  | lastPart    -- the part after the last '_' (the whole string when there is none)
  | ticker      -- "" when there is no '_', else the part after the last '_'
  | asGiven
deriving DecidableEq, Repr

inductive Prim
  | add (kind : String)
  | sub (kind : String)
  | move (kindFrom kindTo : String) (toOther : Bool)   -- toOther: destination is the second address
deriving DecidableEq, Repr

structure Shape where
  prim : Prim
  tok : TokRule
  multi : Bool := false      -- takes a list of (group, amount) assets, applied in order
deriving Repr

def shape : Fn → Shape
  | .tokenAdd | .tokenAddWithReason => ⟨.add "2b", .none, false⟩
  | .tokenAddWithTicker => ⟨.add "2b", .ticker, false⟩
  | .tokenSub => ⟨.sub "2b", .none, false⟩
  | .tokenSubWithTicker => ⟨.sub "2b", .ticker, false⟩
  | .tokenTransfer => ⟨.move "2b" "2b" true, .none, false⟩
  | .tokenLock => ⟨.move "2b" "2e" false, .none, false⟩
  | .tokenUnlock => ⟨.move "2e" "2b" false, .none, false⟩
  | .tokenTransferLocked => ⟨.move "2e" "2b" true, .none, false⟩
  | .tokenBurnLocked => ⟨.sub "2e", .none, false⟩
  | .indAdd => ⟨.add "2b", .lastPart, false⟩
  | .indSub => ⟨.sub "2b", .lastPart, false⟩
  | .indTransfer => ⟨.move "2b" "2b" true, .lastPart, false⟩
  | .indLock => ⟨.move "2b" "2e" false, .lastPart, false⟩
  | .indUnlock => ⟨.move "2e" "2b" false, .lastPart, false⟩
  | .indTransferLocked => ⟨.move "2e" "2b" true, .lastPart, false⟩
  | .indBurnLocked => ⟨.sub "2e", .lastPart, false⟩
  | .allowedAdd => ⟨.add "2c", .asGiven, false⟩
  | .allowedSub => ⟨.sub "2c", .asGiven, false⟩
  | .allowedTransfer => ⟨.move "2c" "2c" true, .asGiven, false⟩
  | .allowedLock => ⟨.move "2c" "2f" false, .asGiven, false⟩
  | .allowedUnlock => ⟨.move "2f" "2c" false, .asGiven, false⟩
  | .allowedTransferLocked => ⟨.move "2f" "2c" true, .asGiven, false⟩
  | .allowedBurnLocked => ⟨.sub "2f", .asGiven, false⟩
  | .allowedIndAdd => ⟨.add "2c", .asGiven, true⟩
  | .allowedIndSub => ⟨.sub "2c", .asGiven, true⟩
  | .allowedIndTransfer => ⟨.move "2c" "2c" true, .asGiven, true⟩

def lastPartL : List Char → List Char → List Char
  | [], acc => acc.reverse
  | c :: cs, acc => if c = '_' then lastPartL cs [] else lastPartL cs (c :: acc)

/-- `parts := strings.Split(t, "_"); parts[len(parts)-1]` -/
def lastPart (t : String) : String := String.ofList (lastPartL t.toList [])

def tokOf : TokRule → String → String
  | .none, _ => ""
  | .lastPart, t => lastPart t
  | .ticker, t => if t.toList.contains '_' then lastPart t else ""
  | .asGiven, t => t

/-- one primitive on the store -/
def prim1 (s : St) (p : Prim) (a b tok : String) (amt : Int) : Except Err St :=
  match p with
  | .add k => add s ⟨k, a, tok⟩ amt
  | .sub k => sub s ⟨k, a, tok⟩ amt
  | .move kf kt other => move s ⟨kf, a, tok⟩ ⟨kt, if other then b else a, tok⟩ amt

def primAll (s : St) (p : Prim) (a b : String) : List (String × Int) → Except Err St
  | [] => .ok s
  | (g, n) :: rest =>
    match prim1 s p a b g n with
    | .error e => .error e
    | .ok s' => primAll s' p a b rest

/-- a call of the API function: addresses `a` (first / only) and `b` (recipient), the token
    argument, the amount; for the multi-asset functions the asset list instead -/
def apply (s : St) (fn : Fn) (a b tokArg : String) (amt : Int) (assets : List (String × Int)) : Except Err St :=
  if (shape fn).multi then primAll s (shape fn).prim a b assets
  else prim1 s (shape fn).prim a b (tokOf (shape fn).tok tokArg) amt

/-- change of the units of token component `t` the call announces: +amt, −amt or 0 per asset -/
def delta (p : Prim) (amt : Int) : Int :=
  match p with | .add _ => amt | .sub _ => -amt | .move _ _ _ => 0

end Foundation.LedgerApi
