import Foundation.Basic.Search
import Foundation.Basic.Store
open GoSort

/-!
Model of `core/nonce.go`: `setNonce` transcribed literally (including Go's `sort.Search`
bisections), the per-sender store of `checkNonce`, and the executable spec state.
Nonces are `Nat`: every stored or accepted value passed the 13-digit test, so it is `< 10^13` and
the `uint64` subtractions `last - x` of the Go code are only evaluated where they cannot wrap
(`nonce > last` is tested first; the window is sorted) — see `window_inv` in Proofs/C02.
-/
namespace Nonce

inductive Err | format | old | dup deriving Repr, DecidableEq

def is13 (n : Nat) : Bool := decide (10^12 ≤ n) && decide (n < 10^13)

/-- literal transcription of core/nonce.go setNonce (ttl in ms) -/
def setNonce (ttl nonce : Nat) (last : List Nat) : Except Err (List Nat) :=
  if !is13 nonce then .error .format else
  match last.getLast? with
  | none => .ok [nonce]
  | some l =>
    if nonce > l then
      let xs := last ++ [nonce]
      let idx := search xs.length (fun i => decide (nonce - xs.getD i 0 ≤ ttl))
      .ok (xs.drop idx)
    else if l - nonce > ttl then .error .old
    else
      let idx := search last.length (fun i => decide (last.getD i 0 ≥ nonce))
      if idx ≠ last.length ∧ last.getD idx 0 = nonce then .error .dup
      else .ok (last.take idx ++ [nonce] ++ last.drop idx)

/-- window `W` (what is stored) together with the ghost history `acc` of accepted nonces -/
abbrev PS := List Nat × List Nat

/-- one `checkNonce` for one sender: new state and whether the nonce was accepted -/
def stepSt (ttl : Nat) (s : PS) (n : Nat) : PS × Bool :=
  match setNonce ttl n s.1 with
  | .ok W' => ((W', s.2 ++ [n]), true)
  | .error _ => (s, false)

def runSt (ttl : Nat) (ns : List Nat) : PS := ns.foldl (fun s n => (stepSt ttl s n).1) ([], [])

/-- the batch-level store: one window per sender address (one composite key per sender) -/
abbrev Store := String → PS

def stepMulti (ttl : Nat) (st : Store) (e : String × Nat) : Store :=
  Foundation.upd st e.1 (stepSt ttl (st e.1) e.2).1

def runMulti (ttl : Nat) (h : List (String × Nat)) : Store := h.foldl (stepMulti ttl) (fun _ => ([], []))

/-- Spec: accepted iff well-formed, never accepted before, and not older than any accepted nonce
    by more than the TTL. -/
def Accepts (ttl : Nat) (acc : List Nat) (n : Nat) : Prop :=
  is13 n = true ∧ n ∉ acc ∧ ∀ m ∈ acc, m ≤ n + ttl

instance (ttl : Nat) (acc : List Nat) (n : Nat) : Decidable (Accepts ttl acc n) := by
  unfold Accepts; infer_instance

end Nonce
