import Foundation.Basic.Store
/-!
Model of `core/query_stub.go` and of what a query body can do to the transaction it runs in.
A body is any list of stub calls; the simulated transaction records state writes, the event slot,
state validation parameters and private-data mutations. `queryStub` replaces the overridden
methods by no-ops and passes everything else through.
-/
namespace Foundation.QueryStub

inductive StubOp
  | getState (k : String)
  | putState (k v : String)
  | delState (k : String)
  | setEvent (n v : String)
  | setVP (k v : String)
  | putPriv (c k v : String)
  | delPriv (c k : String)
  | purgePriv (c k : String)
  | setPrivVP (c k v : String)
  | read (name : String)          -- any other (reading) method of the interface
deriving Repr, DecidableEq

/-- Go method name of a stub call -/
def StubOp.name : StubOp → String
  | .getState _ => "GetState"
  | .putState .. => "PutState"
  | .delState _ => "DelState"
  | .setEvent .. => "SetEvent"
  | .setVP .. => "SetStateValidationParameter"
  | .putPriv .. => "PutPrivateData"
  | .delPriv .. => "DelPrivateData"
  | .purgePriv .. => "PurgePrivateData"
  | .setPrivVP .. => "SetPrivateDataValidationParameter"
  | .read n => n

/-- what one simulated transaction has recorded -/
structure Eff where
  writes : List (String × Option String)     -- key, value (none = delete)
  event  : Option (String × String)
  vps    : List (String × String)
  priv   : List String
deriving Repr, DecidableEq

def Eff.empty : Eff := ⟨[], none, [], []⟩

/-- the underlying (real) stub -/
def rawApply (e : Eff) : StubOp → Eff
  | .putState k v => { e with writes := e.writes ++ [(k, some v)] }
  | .delState k => { e with writes := e.writes ++ [(k, none)] }
  | .setEvent n v => { e with event := some (n, v) }
  | .setVP k v => { e with vps := e.vps ++ [(k, v)] }
  | .putPriv c k _ => { e with priv := e.priv ++ ["put " ++ c ++ " " ++ k] }
  | .delPriv c k => { e with priv := e.priv ++ ["del " ++ c ++ " " ++ k] }
  | .purgePriv c k => { e with priv := e.priv ++ ["purge " ++ c ++ " " ++ k] }
  | .setPrivVP c k _ => { e with priv := e.priv ++ ["setvp " ++ c ++ " " ++ k] }
  | .getState _ => e
  | .read _ => e

/-- the method names whose call changes the transaction's effects -/
def mutatingNames : List String :=
  ["PutState", "DelState", "SetEvent", "SetStateValidationParameter",
   "PutPrivateData", "DelPrivateData", "PurgePrivateData", "SetPrivateDataValidationParameter"]

/-- `queryStub` with the given set of inert overrides -/
def queryApply (overrides : List String) (e : Eff) (op : StubOp) : Eff :=
  if overrides.contains op.name then e else rawApply e op

def runBody (overrides : List String) (body : List StubOp) (e : Eff) : Eff :=
  body.foldl (queryApply overrides) e

/-- a name "looks mutating" by the shim's naming convention -/
def looksMutating (n : String) : Bool :=
  let l := n.toList
  l.take 3 == "Put".toList || l.take 3 == "Del".toList || l.take 3 == "Set".toList || l.take 5 == "Purge".toList

end Foundation.QueryStub
