import Foundation.Model.Token
import Foundation.Model.Cache
/-!
Model of the state that survives an invocation inside one chaincode process, and of how the token
code uses it (`token/token.go:86-105`, every `bt.config` user in `token/*.go`,
`core/cc_core_init_invoke.go:82-92`, `core/config/configure.go:81-105`).

The process keeps, between invocations, an in-memory copy of the token metadata (`BaseToken.config`,
a `*proto.Token`) and the applied configuration (`BaseContract.config`, `BaseToken.tokenConfig`).
`Invoke` re-applies the configuration from the ledger key `__config` before anything else; every
token method that touches the metadata object starts with `loadConfigUnlessLoaded`, which (since
fix 3e5f873) *always* replaces the object by a fresh decoding of the ledger key `tokenMetadata`
(a zero object when the key is absent).  The pre-fix behaviour (keep the old object when the key is
absent) is kept in the model behind the flag `legacy` so that the repaired defect stays stated and
proved as a counterexample.

A method body is a list of `Step`s; `mem` steps mutate the in-memory object *in place* — the
mutation survives even when the invocation later fails and its simulation is dropped, exactly as in
Go.  Only `save` moves the object to the ledger.
-/
namespace Foundation.Process
open Foundation.Token

/-- `proto.Token`: what `bt.config` holds -/
structure Meta where
  cfg      : Cfg          -- fee settings, fee address, rates (symbol is not stored; see `withSym`)
  emission : Nat
deriving Repr

def cfg0 (sym : String) : Cfg := ⟨sym, false, "", 0, 0, 0, none, []⟩
/-- `&proto.Token{}` -/
def Meta.zero (sym : String) : Meta := ⟨cfg0 sym, 0⟩

/-- what is reachable through the stub: the stored metadata (absent or present) and the balances -/
structure Led where
  md      : Meta
  hasMeta : Bool         -- the key `tokenMetadata` exists
  bal     : St           -- balances (`bal.cfg` is not used: fee legs read the in-memory object)

inductive Step where
  | load                                   -- loadConfigUnlessLoaded
  | save                                   -- saveConfig
  | mem  (f : Meta → Option Meta)          -- in-place mutation of / test on bt.config; none = return an error
  | stub (f : St → Option St)              -- stub traffic that does not involve bt.config
  | mix  (f : Meta → St → Option St)       -- stub traffic computed from bt.config (fee legs)
  | out  (g : Meta → St → String)          -- a reply computed from bt.config and the ledger

/-- `loadConfigUnlessLoaded`; `legacy` = the behaviour before fix 3e5f873 -/
def loadMeta (legacy : Bool) (m : Meta) (l : Led) : Meta :=
  if legacy && !l.hasMeta then m else l.md

/-- run a method body on a scratch copy of the ledger (the transaction cache): the result is the
    process memory afterwards and — when the body did not fail — the new ledger and the replies -/
def run (legacy : Bool) : Meta → Led → List String → List Step → Meta × Option (Led × List String)
  | m, l, o, [] => (m, some (l, o))
  | m, l, o, .load :: r => run legacy (loadMeta legacy m l) l o r
  | m, l, o, .save :: r => run legacy m { l with md := m, hasMeta := true } o r
  | m, l, o, .mem f :: r => match f m with
    | none => (m, none)
    | some m' => run legacy m' l o r
  | m, l, o, .stub f :: r => match f l.bal with
    | none => (m, none)
    | some b => run legacy m { l with bal := b } o r
  | m, l, o, .mix f :: r => match f m l.bal with
    | none => (m, none)
    | some b => run legacy m { l with bal := b } o r
  | m, l, o, .out g :: r => run legacy m l (o ++ [g m l.bal]) r

/-- the discipline the token code follows: nothing touches `bt.config` before the first load -/
def disciplined : List Step → Bool
  | [] => true
  | .load :: _ => true
  | .stub _ :: r => disciplined r
  | _ => false

/-- one proposal: a body and whether its simulation is committed afterwards -/
structure Proposal where
  body      : List Step
  committed : Bool

/-- what the peer sees of a proposal: failure, or the replies and the resulting ledger -/
def invoke (legacy : Bool) (m : Meta) (l : Led) (p : Proposal) : Meta × Led × Option (List String) :=
  match run legacy m l [] p.body with
  | (m', none) => (m', l, none)
  | (m', some (l', o)) => (m', if p.committed then l' else l, some o)

/-- a history of proposals on one long-lived instance: replies in order and the final ledger -/
def history (legacy : Bool) : Meta → Led → List Proposal → List (Option (List String)) × Led
  | _, l, [] => ([], l)
  | m, l, p :: ps =>
    let r := invoke legacy m l p
    let rest := history legacy r.1 r.2.1 ps
    (r.2.2 :: rest.1, rest.2)

/-- replies of the committed proposals only -/
def committedReplies (legacy : Bool) : Meta → Led → List Proposal → List (Option (List String)) × Led
  | _, l, [] => ([], l)
  | m, l, p :: ps =>
    let r := invoke legacy m l p
    let rest := committedReplies legacy r.1 r.2.1 ps
    (if p.committed then r.2.2 :: rest.1 else rest.1, rest.2)

/-! ### the token methods as bodies (transcribed from `token/*.go` and the harness token) -/

def withCfg (b : St) (m : Meta) : St := { b with cfg := m.cfg }

/-- `VT.TxEmit`: TokenBalanceAdd, then `EmissionAdd` = load; add; save -/
def emitBody (u : String) (a : Nat) : List Step :=
  [.stub (fun b => if a = 0 then none else some (addTok b u a)),
   .load, .mem (fun m => some { m with emission := m.emission + a }), .save]

/-- `TxSetFee` → `setFee`: argument checks, load, `Fee = &TokenFee{}` when nil (in memory!),
    currency test, assign, save -/
def setFeeBody (cur : String) (share floor cap : Nat) : List Step :=
  [.stub (fun b => if share > feeUnit then none else if cap > 0 ∧ floor > cap then none else some b),
   .load,
   .mem (fun m => some { m with cfg := { m.cfg with feeSet := true } }),
   .mem (fun m => if cur = m.cfg.symbol ∨ (m.cfg.rates.any (fun r => r.cur = cur))
      then some { m with cfg := { m.cfg with feeCur := cur, share := share, floor := floor, cap := cap } }
      else none),
   .save]

/-- `TxSetFeeAddress` -/
def setFeeAddrBody (u : String) : List Step :=
  [.load, .mem (fun m => some { m with cfg := { m.cfg with feeAddr := some u } }), .save]

/-- `TxSetRate` -/
def setRateBody (deal cur : String) (rate : Nat) : List Step :=
  [.load, .mem (fun m => (setRate m.cfg deal cur rate).map (fun c => { m with cfg := c })), .save]

/-- `TxTransfer`: the principal leg, then `transferFee` = load; checks; fee legs -/
def transferBody (frm to : String) (a : Nat) : List Step :=
  [.stub (fun b => if frm = to then none else if a = 0 then none else some b),
   .load,
   .mix (fun m b => transfer (withCfg b m) frm to a)]

/-- `QueryMetadata` (the part that depends on the metadata object) -/
def showMeta (m : Meta) : String :=
  s!"em={m.emission} fee={m.cfg.feeSet}/{m.cfg.feeCur}/{m.cfg.share}/{m.cfg.floor}/{m.cfg.cap} addr={m.cfg.feeAddr.getD "-"} rates=" ++
    ",".intercalate (m.cfg.rates.map (fun r => s!"{r.deal}:{r.cur}:{r.rate}"))
def metaBody : List Step := [.load, .out (fun m _ => showMeta m)]

/-- `QueryPredictFee` -/
def predictBody (a : Nat) : List Step :=
  [.load, .out (fun m _ => match calcFee m.cfg a with | some f => toString f | none => "err")]

end Foundation.Process
