import Foundation.Basic.Store
/-!
Model of the per-invocation context table of `BaseContract`
(`core/bc_contract.go:29-94`: `envs sync.Map // goid -> *environment`, `setEnv`, `getEnv`, `delEnv`,
`GetStub`; `core/cc_invoke_router.go:22-26` and `core/cc_core_init_invoke.go:161-177` install and
remove it).

Every invocation runs on a goroutine of its own (thread id = `goid()`); all of them share one
contract object, hence one table. A thread's program is the sequence of table operations its
invocation performs: `set s` (install the context with stub `s`), `get` (`GetStub()`), `del`.
Nested install/remove inside one thread (a batch calling `InvokeContractMethod` once per
transaction, each with its own transaction stub) is just a longer program. A *schedule* is an
arbitrary interleaving: the list of thread ids in the order in which they take their next step.
-/
namespace Foundation.Env

inductive Act where
  | set (s : Nat)     -- setEnv(&environment{stub: s})
  | get               -- GetStub()
  | del               -- delEnv()
deriving Repr, DecidableEq

/-- a thread: what it still has to do and what its `GetStub()` calls returned so far -/
structure Th where
  todo : List Act
  seen : List (Option Nat)
deriving Repr, DecidableEq

/-- one step of a thread on *its own* table cell -/
def local1 (cell : Option Nat) (t : Th) : Option Nat × Th :=
  match t.todo with
  | [] => (cell, t)
  | .set s :: r => (some s, ⟨r, t.seen⟩)
  | .get :: r => (cell, ⟨r, t.seen ++ [cell]⟩)
  | .del :: r => (none, ⟨r, t.seen⟩)

/-- `n` steps of a thread running alone -/
def solo : Nat → Option Nat × Th → Option Nat × Th
  | 0, x => x
  | n + 1, x => solo n (local1 x.1 x.2)

/-- the shared state: the table (keyed by thread id) and all threads -/
structure G where
  envs : Nat → Option Nat
  th   : Nat → Th

/-- thread `t` takes its next step: it reads and writes only the cell `envs t` -/
def stepT (g : G) (t : Nat) : G :=
  let r := local1 (g.envs t) (g.th t)
  ⟨upd g.envs t r.1, upd g.th t r.2⟩

def run (g : G) (sched : List Nat) : G := sched.foldl stepT g

/-- the *wrong* design the property rules out: one slot shared by all threads (what a plain field
    `currentStub` on the contract object would be) -/
def stepShared (g : G) (t : Nat) : G :=
  let r := local1 (g.envs 0) (g.th t)
  ⟨upd g.envs 0 r.1, upd g.th t r.2⟩

def runShared (g : G) (sched : List Nat) : G := sched.foldl stepShared g

/-- a program is well-formed when every `get` happens while a context is installed -/
def wellFormed : Option Nat → List Act → Bool
  | _, [] => true
  | _, .set s :: r => wellFormed (some s) r
  | c, .get :: r => c.isSome && wellFormed c r
  | _, .del :: r => wellFormed none r

/-- what the gets of a program return when it runs alone: the stub of the nearest enclosing `set` -/
def expected : Option Nat → List Act → List (Option Nat)
  | _, [] => []
  | _, .set s :: r => expected (some s) r
  | c, .get :: r => c :: expected c r
  | _, .del :: r => expected none r

end Foundation.Env
