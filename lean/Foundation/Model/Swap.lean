import Foundation.Basic.Store
import Foundation.Basic.Sums
/-!
Model of the hash-locked swap (`core/bc_swap.go`, `core/swap/swap.go`, `core/cc_swap.go`, the swap
sections of `batchExecute`): origin ledger `A` (where `begin` runs), destination ledger `B`, any
number of swap ids and owners, one token and direction at a time: `direct` = the origin's own token
(debit token balance on A, credit allowed balance on B, A's `given[B]` grows when the origin is
closed); reverse = a foreign token goes home (debit allowed balance on A; B's `given[A]` shrinks at
`answer` and the owner's token balance on B is credited).

`step` is the chaincode's guard + effect (`none` = rejected without effect). Keys are modelled by
whether they hash to the swap's hash (`right`). `allowed` is the documented protocol of the
off-chain actors (robot and platform) as a function of both ledgers and of what has happened on
them (ghost history flags) — so "stop after any step and resume from ledger state" is built in.
-/
namespace Foundation.Swap

structure Rec where
  owner : String
  amount : Int
deriving Repr, DecidableEq

structure S where
  direct   : Bool
  recA     : String → Option Rec      -- origin record (creator = owner)
  recB     : String → Option Rec      -- answered copy (creator = "0000")
  srcA     : String → Int             -- owner's debited balance on A
  dstB     : String → Int             -- owner's credited balance on B
  givenA   : Int
  givenB   : Int
  log      : List String              -- ghost: ids ever used
  answered : String → Bool            -- ghost: an answer for this id was ever accepted on B
  doneB    : String → Bool            -- ghost: userDone succeeded on B (the key was published)
  cancelledB : String → Bool          -- ghost: a cancel succeeded on B
  credited : Int                      -- ghost: total credited on B by completions
  closed   : Int                      -- ghost: total closed on A by robot completions

inductive Step where
  | begin (id owner : String) (a : Int)           -- user, on A (batched or as a task)
  | answer (id : String) (r : Rec)                -- robot, on B (batch section); content supplied by the robot
  | userDone (id : String) (right : Bool)         -- anyone, on B (direct invocation) with a key
  | userDoneA (id : String) (right : Bool)        -- the same entry point called on A
  | robotDone (id : String) (right : Bool)        -- robot, on A (batch section) with a key
  | cancelA (id : String)                         -- anyone, on A
  | cancelB (id : String)                         -- anyone, on B
deriving Repr

def step (s : S) : Step → Option S
  | .begin id o a =>
    -- (fix c149971: an existing record under this id is refused)
    if (s.recA id).isSome ∨ a < 0 ∨ s.srcA o < a then none
    else some { s with recA := upd s.recA id (some ⟨o, a⟩), srcA := upd s.srcA o (s.srcA o - a), log := touch s.log id }
  | .answer id r =>
    -- no existence test: an answer overwrites
    if r.amount < 0 ∨ (!s.direct ∧ s.givenB < r.amount) then none
    else some { s with recB := upd s.recB id (some r),
                       givenB := if s.direct then s.givenB else s.givenB - r.amount,
                       log := touch s.log id, answered := upd s.answered id true }
  | .userDone id right =>
    match s.recB id with
    | some r =>
      if !right then none
      else some { s with recB := upd s.recB id none, dstB := upd s.dstB r.owner (s.dstB r.owner + r.amount),
                         doneB := upd s.doneB id true, credited := s.credited + r.amount }
    | none => none
  | .userDoneA _ _ => none        -- on the origin the record's creator is its owner: always refused
  | .robotDone id right =>
    match s.recA id with
    | some r =>
      if !right then none
      else some { s with recA := upd s.recA id none,
                         givenA := if s.direct then s.givenA + r.amount else s.givenA,
                         closed := s.closed + r.amount }
    | none => none
  | .cancelA id =>
    match s.recA id with
    | some r => some { s with recA := upd s.recA id none, srcA := upd s.srcA r.owner (s.srcA r.owner + r.amount) }
    | none => none
  | .cancelB id =>
    match s.recB id with
    | some r => some { s with recB := upd s.recB id none,
                              givenB := if s.direct then s.givenB else s.givenB + r.amount,
                              cancelledB := upd s.cancelledB id true }
    | none => none

/-- the documented protocol: the robot answers an origin record at most once and with its exact
    content; it closes the origin only with a key published by a destination completion; the
    platform cancels the destination copy at will but the origin only after a successful
    destination cancel of the same id. User steps (begin, completions with any key) are free. -/
def allowed (s : S) : Step → Bool
  | .begin _ _ _ => true
  | .answer id r => (s.recA id == some r) && !s.answered id
  | .userDone _ _ => true
  | .userDoneA _ _ => true
  | .robotDone id _ => s.doneB id
  | .cancelA id => s.cancelledB id
  | .cancelB _ => true

def exec (s : S) (st : Step) : S := (step s st).getD s

/-- units the origin still owes to `u` for swap `id`: the origin record exists and the destination
    has not credited it -/
def owed (s : S) (u : String) (id : String) : Int :=
  match s.recA id with
  | some r => if r.owner = u ∧ s.doneB id = false then r.amount else 0
  | none => 0

/-- amount credited on B whose origin side is not closed yet -/
def unclosed (s : S) (id : String) : Int :=
  match s.recA id with
  | some r => if s.doneB id then r.amount else 0
  | none => 0

def init (direct : Bool) (srcA : String → Int) (givenB : Int) : S :=
  ⟨direct, fun _ => none, fun _ => none, srcA, fun _ => 0, 0, givenB, [], fun _ => false, fun _ => false, fun _ => false, 0, 0⟩

end Foundation.Swap
