import Foundation.Model.Batch
import Foundation.Model.Dispatch
/-!
Model of the *whole* of `core/cc_batch.go: batchExecute`: the listed transactions (model `Batch`),
then the robot's four lists — answers to swaps begun elsewhere (`swap.Answer`), keys closing swaps
begun here (`swap.RobotDone`), and the same for multi-swaps (`multiswap.Answer`,
`multiswap.RobotDone`) — each list behind its switch (`Dispatch.sectionRuns`), every item in its own
transaction cache on the one batch cache, one commit at the end.

The items are programs (`Batch.Prog`) over the cache layers, so the general simulation
`prog_refines_spec` applies to the whole batch; `Proofs/FullBatch.lean` derives from it that the
whole batch equals its serial reading on a plain map, and proves item atomicity for the robot's
items once for all programs of the shape "transaction-layer calls, then commit or drop".

Records are stored as text (`enc`), balances as decimal text (`Batch.showBal`); a hash is the text
`H(key)` — the robot presents the preimage `key`.
-/
namespace Foundation.FullBatch
open Foundation.Cache Foundation.Batch

/-- a swap (one asset) or multi-swap record as the robot presents it / as it is stored -/
structure Rec where
  owner : String
  token : String
  src : String          -- From
  dst : String          -- To
  hash : String
  creator : String
  assets : List (String × Int)
deriving Repr, DecidableEq

def hashOf (key : String) : String := "H(" ++ key ++ ")"

/-- `Swap.TokenSymbol()`: the part of the token name before the first `_` -/
def symbolOf (token : String) : String :=
  match token.splitOn "_" with
  | s :: _ => s
  | [] => token

def recKey (multi : Bool) (id : String) : Key := (if multi then "M:" else "S:") ++ id
/-- the given-out counter of a channel: the code upper-cases the channel name -/
def givenKey (ch : String) : Key := "G:" ++ ch.toUpper

/-- split at a character (the toolchain's `String.split`, whose inverse law w.r.t. `intercalate` is a
    core lemma — `Lemmas/Codec.lean` proves `dec (enc r) = some r` from it) -/
def splitC (c : Char) (s : String) : List String := (s.split c).toList.map (·.copy)

def encPair (a : String × Int) : String := String.intercalate "=" [a.1, toString a.2]
/-- the asset list as text: `#`, then `,group=amount` per asset -/
def encAssets (as : List (String × Int)) : String := String.intercalate "," ("#" :: as.map encPair)

def enc (r : Rec) : Val :=
  String.intercalate "/" [r.owner, r.token, r.src, r.dst, r.hash, r.creator, encAssets r.assets]

def decPair (s : String) : Option (String × Int) :=
  match splitC '=' s with
  | [g, n] => n.toInt?.map (fun k => (g, k))
  | _ => none

def decAssets (s : String) : Option (List (String × Int)) :=
  match splitC ',' s with
  | "#" :: rest => rest.mapM decPair
  | _ => none

def dec (v : Val) : Option Rec :=
  match splitC '/' v with
  | [o, t, f, d, h, c, as] => (decAssets as).map (fun as => ⟨o, t, f, d, h, c, as⟩)
  | _ => none

/-- reply entry of one robot item -/
inductive IResp
  | err (cls : String)
  | ok (writes : List (Key × W))
deriving Repr, DecidableEq

/-! ### the part of an item that runs on its transaction cache -/

/-- `balance.Sub(txStub, given, ch, amount)` for every asset in order; `none` = insufficient.
    (Amounts arrive as unsigned big-endian bytes, so they are never negative.) -/
def subAll (ch : String) : List (String × Int) → Prog (Option Unit)
  | [] => .ret (some ())
  | a :: rest =>
    .op (.tget (givenKey ch)) (fun v =>
      if readBal (v.getD "") < a.2 then .ret none
      else .op (.tput (givenKey ch) (showBal (readBal (v.getD "") - a.2))) (fun _ => subAll ch rest))

/-- `balance.Add(txStub, given, ch, amount)` for every asset in order -/
def addAll (ch : String) : List (String × Int) → Prog (Option Unit)
  | [] => .ret (some ())
  | a :: rest =>
    .op (.tget (givenKey ch)) (fun v =>
      .op (.tput (givenKey ch) (showBal (readBal (v.getD "") + a.2))) (fun _ => addAll ch rest))

/-- what the two `Answer` functions compare with From / To: the token's symbol for a swap, the
    token name as given for a multi-swap -/
def cmpToken (multi : Bool) (r : Rec) : String := if multi then r.token else symbolOf r.token

/-- `swap.Answer` / `multiswap.Answer` up to the commit: the robot's copy gets creator `0000`; a
    token of the source channel needs nothing, a token coming home is taken out of the given-out
    counter (asset by asset), any other token is refused; then the record is saved (no existence
    test: an answer overwrites). `some cls` = refused. -/
def answerCore (multi : Bool) (id : String) (r : Rec) : Prog (Option String) :=
  let r' := { r with creator := "0000" }
  let save : Prog (Option String) := .op (.tput (recKey multi id) (enc r')) (fun _ => .ret none)
  if cmpToken multi r = r.src then save
  else if cmpToken multi r = r.dst then
    bind (subAll r.src r.assets) (fun x => match x with
      | some () => save
      | none => .ret (some "insufficient"))
  else .ret (some "incorrect")

/-- `swap.RobotDone` / `multiswap.RobotDone` up to the commit: load, compare the hash of the key,
    a record of this channel's own token adds to the given-out counter of the destination, delete -/
def robotDoneCore (multi : Bool) (id key : String) : Prog (Option String) :=
  .op (.tget (recKey multi id)) (fun v =>
    match dec (v.getD "") with
    | none => .ret (some "notfound")
    | some r =>
      if r.hash ≠ hashOf key then .ret (some "key")
      else
        let close : Prog (Option String) := .op (.tdel (recKey multi id)) (fun _ => .ret none)
        if cmpToken multi r = r.src then
          bind (addAll r.dst r.assets) (fun _ => close)
        else close)

/-- an item: its transaction-cache part, then commit (reply = the write list) or drop (reply = the
    refusal) -/
def finishItem : Option String → Prog IResp
  | none => .commitTx (fun ws => .ret (.ok ws))
  | some cls => .discardTx (.ret (.err cls))

def item (core : Prog (Option String)) : Prog IResp := bind core finishItem

def answerProg (multi : Bool) (x : String × Rec) : Prog IResp := item (answerCore multi x.1 x.2)
def robotDoneProg (multi : Bool) (x : String × String) : Prog IResp := item (robotDoneCore multi x.1 x.2)

/-- a list of items in order, one reply entry each -/
def items {α} (f : α → Prog IResp) : List α → Prog (List IResp)
  | [] => .ret []
  | x :: xs => bind (f x) (fun r => bind (items f xs) (fun rs => .ret (r :: rs)))

/-! ### the whole batch -/

structure Content where
  ids : List String
  swaps : List (String × Rec)
  keys : List (String × String)
  mswaps : List (String × Rec)
  mkeys : List (String × String)

structure Reply where
  txs : List Resp
  answers : List IResp        -- SwapResponses: swap answers, then multi-swap answers
  keyResps : List IResp       -- SwapKeyResponses: swap keys, then multi-swap keys
deriving Repr, DecidableEq

/-- a section runs only while its switch is on -/
def gated {α} (on : Bool) (f : α → Prog IResp) (l : List α) : Prog (List IResp) :=
  if on then items f l else .ret []

open Foundation.Dispatch in
/-- `batchExecute` after decoding: transactions, swap answers, swap keys, multi-swap answers,
    multi-swap keys — in this order, on one batch cache -/
def fullBatchProg (cfg : Config) (decode : Val → Option Pending) (known : String → Bool)
    (b : Content) : Prog Reply :=
  bind (batchProg decode known b.ids) (fun txs =>
  bind (gated (sectionRuns cfg .swapAnswers) (answerProg false) b.swaps) (fun a1 =>
  bind (gated (sectionRuns cfg .swapKeys) (robotDoneProg false) b.keys) (fun k1 =>
  bind (gated (sectionRuns cfg .multiAnswers) (answerProg true) b.mswaps) (fun a2 =>
  bind (gated (sectionRuns cfg .multiKeys) (robotDoneProg true) b.mkeys) (fun k2 =>
    .ret ⟨txs, a1 ++ a2, k1 ++ k2⟩)))))

end Foundation.FullBatch
