import Foundation.Model.Cache
/-!
Model of batch execution (`core/cc_batch.go: batchExecute, batchedTxExecute, loadFromBatch`) and
of task-list execution (`core/task_executor.go: ExecuteTasks, ExecuteTask`) on top of the cache
model.

`Prog` is the shape of *any* code that talks to the two cache layers: a tree whose control flow may
depend on every value it reads. `runCache` executes it on the layered cache, `runSpec` on the plain
map with an own-writes overlay (the serial reading of the property). Transaction bodies are scripts
(`Step`), the library's balance move included; the harness token interprets the same scripts.
-/
namespace Foundation.Batch
open Foundation.Cache

inductive Prog (α : Type) where
  | ret (a : α)
  | op (o : Op) (k : Option Val → Prog α)          -- one stub call on either layer
  | commitTx (k : List (Key × W) → Prog α)          -- TxCacheStub.Commit, returns the write list
  | discardTx (next : Prog α)                        -- the tx layer is dropped

def runCache {α} : St → Prog α → St × α
  | s, .ret a => (s, a)
  | s, .op o k => let r := step s o; runCache r.1 (k r.2)
  | s, .commitTx k => runCache (txCommit s) (k (txWrites s))
  | s, .discardTx n => runCache (txDiscard s) n

def runSpec {α} : Spec → Prog α → Spec × α
  | m, .ret a => (m, a)
  | m, .op o k => let r := specStep m o; runSpec r.1 (k r.2)
  | m, .commitTx k => runSpec m.commit (k m.writes)
  | m, .discardTx n => runSpec m.discard n

/-! ### transaction bodies -/

inductive Step where
  | put (k : Key) (v : Val) | del (k : Key) | get (k : Key) | evt (n v : String)
  | fail | panic | nop
  | mv (a b : String) (n : Int)       -- ledger.TokenBalanceTransfer(a, b, n)
deriving Repr, DecidableEq

/-- what a body produced: values read, events (name ↦ last payload), accounting records -/
structure Out where
  reads : List Val
  events : List (String × String)
  acct : List String
deriving Repr, DecidableEq

inductive BodyRes
  | ok (o : Out)
  | failed (acct : List String)
  | panicked
deriving Repr, DecidableEq

def balKey (a : String) : Key := "B:" ++ a
def showBal (n : Int) : Val := if n = 0 then "" else toString n
def readBal (v : Val) : Int := v.toInt?.getD 0

def setEvent (evs : List (String × String)) (n v : String) : List (String × String) :=
  (evs.filter (·.1 ≠ n)) ++ [(n, v)]

/-- the interpreter of the harness token's scripted bodies, as a program over the tx layer -/
def body : List Step → Out → Prog BodyRes
  | [], o => .ret (.ok o)
  | .put k v :: rest, o => .op (.tput k v) (fun _ => body rest o)
  | .del k :: rest, o => .op (.tdel k) (fun _ => body rest o)
  | .get k :: rest, o => .op (.tget k) (fun v => body rest { o with reads := o.reads ++ [v.getD ""] })
  | .evt n v :: rest, o => body rest { o with events := setEvent o.events n v }
  | .nop :: rest, o => body rest o
  | .fail :: _, o => .ret (.failed o.acct)
  | .panic :: _, _ => .ret .panicked
  | .mv a b n :: rest, o =>
    -- the accounting record is appended before the move is attempted
    let o1 := { o with acct := o.acct ++ [s!"{a}>{b}:{n}"] }
    if n < 0 then .ret (.failed o1.acct) else
    .op (.tget (balKey a)) (fun va =>
      if readBal (va.getD "") < n then .ret (.failed o1.acct) else
      .op (.tput (balKey a) (showBal (readBal (va.getD "") - n))) (fun _ =>
        .op (.tget (balKey b)) (fun vb =>
          .op (.tput (balKey b) (showBal (readBal (vb.getD "") + n))) (fun _ => body rest o1))))

/-! ### one listed transaction -/

/-- per-transaction entry of the reply / event -/
inductive Resp
  | err (cls : String)
  | ok (writes : List (Key × W)) (o : Out)
deriving Repr, DecidableEq

def pendKey (id : String) : Key := "P:" ++ id

/-- a stored pending record: method name and (for scripted methods) the script text -/
structure Pending where
  method : String
  script : List Step
deriving Repr

/-- sequencing of programs -/
def bind {α β} : Prog α → (α → Prog β) → Prog β
  | .ret a, f => f a
  | .op o k, f => .op o (fun v => bind (k v) f)
  | .commitTx k, f => .commitTx (fun ws => bind (k ws) f)
  | .discardTx n, f => .discardTx (bind n f)

/-- run a body on the tx layer; commit only if it returned without error, else drop the layer -/
def finish : BodyRes → Prog Resp
  | .ok o => .commitTx (fun ws => .ret (.ok ws o))
  | .failed _ => .discardTx (.ret (.err "failed"))
  | .panicked => .discardTx (.ret (.err "panic"))

/-- `batchedTxExecute` for one id. `decode` reads a stored record; `known` is the router's method
    table. The record is deleted on the batch level on every path after it was found (nonce
    bookkeeping of the sender, which also lives on the batch level, is modelled under C02). -/
def txProg (decode : Val → Option Pending) (known : String → Bool) (id : String) : Prog Resp :=
  .op (.bget (pendKey id)) (fun v =>
    if v.getD "" = "" then .ret (.err "notfound")
    else .op (.bdel (pendKey id)) (fun _ =>
      match decode (v.getD "") with
      | none => .ret (.err "decode")
      | some p =>
        if !known p.method then .ret (.err "unknown")
        else bind (body p.script ⟨[], [], []⟩) finish))

/-- `batchExecute`: the listed ids in order, one reply entry each -/
def batchProg (decode : Val → Option Pending) (known : String → Bool) : List String → Prog (List Resp)
  | [] => .ret []
  | id :: ids => bind (txProg decode known id) (fun r =>
      bind (batchProg decode known ids) (fun rs => .ret (r :: rs)))

/-- one task of `executeTasks`: no pending record; the request comes with the task -/
def taskProg (known : String → Bool) (method : String) (script : List Step) : Prog Resp :=
  if !known method then .ret (.err "unknown")
  else bind (body script ⟨[], [], []⟩) finish

def tasksProg (known : String → Bool) : List (String × List Step) → Prog (List Resp)
  | [] => .ret []
  | t :: ts => bind (taskProg known t.1 t.2) (fun r =>
      bind (tasksProg known ts) (fun rs => .ret (r :: rs)))

end Foundation.Batch
