import Foundation.Basic.Store
import Foundation.Gen.Facts
/-!
Model of the fee / price arithmetic and of the token operations that use it
(`token/transfer.go`, `token/buy_buyback.go`, `proto/limit.go`, `token/methods.go`).

Amounts are `Nat` (`big.Int` is unbounded and every amount that reaches these functions passed the
non-negative argument check); every "insufficient balance" guard of the Go code is an explicit test.
A failing operation returns `none`: the enclosing batched transaction is dropped as a whole (C04),
so the state is the one before the call.
-/
namespace Foundation.Token

/-- 10^feeDecimals = 10^RateDecimal = 10^8 (both constants are re-extracted from the source) -/
def feeUnit : Nat := 10 ^ Foundation.Facts.feeDecimals
def rateUnit : Nat := 10 ^ Foundation.Facts.rateDecimal

structure Rate where
  deal : String
  cur  : String
  rate : Nat
  min  : Nat
  max  : Nat
deriving Repr, DecidableEq

/-- `proto.Token` (metadata): fee settings, fee address, rates -/
structure Cfg where
  symbol  : String
  feeSet  : Bool            -- config.Fee != nil (a setFee has succeeded at some point)
  feeCur  : String
  share   : Nat
  floor   : Nat
  cap     : Nat
  feeAddr : Option String
  rates   : List Rate
deriving Repr

def findRate (rs : List Rate) (deal cur : String) : Option Rate :=
  rs.find? (fun r => r.deal = deal ∧ r.cur = cur)

/-- `calcFee`: share of the amount rounded down, converted by the buyToken rate when charged in a
    foreign currency, raised to the floor, limited by a positive cap. -/
def calcFee (c : Cfg) (amount : Nat) : Option Nat :=
  if !c.feeSet || c.share = 0 then some 0
  else
    let f := amount * c.share / feeUnit
    let conv : Option Nat :=
      if c.feeCur = c.symbol then some f
      else match findRate c.rates "buyToken" c.feeCur with
        | none => none
        | some r => some (f * r.rate / rateUnit)
    match conv with
    | none => none
    | some f1 =>
      let f2 := if f1 < c.floor then c.floor else f1
      some (if c.cap > 0 ∧ f2 > c.cap then c.cap else f2)

/-- `calcTransferFee`: nothing is charged between two addresses of the same (non-empty) user id -/
def calcTransferFee (c : Cfg) (amount : Nat) (uidFrom uidTo : String) : Option Nat :=
  match calcFee c amount with
  | none => none
  | some f =>
    let same := uidFrom ≠ "" ∧ uidTo ≠ "" ∧ uidFrom = uidTo
    some (if ¬ same ∧ f > 0 then f else 0)

structure St where
  cfg : Cfg
  tok : String → Nat                 -- spendable token balance
  alw : String → String → Nat        -- allowed balance: address → currency
  uid : String → String              -- user id the access-control service reports for an address

def subTok (s : St) (a : String) (n : Nat) : Option St :=
  if s.tok a < n then none else some { s with tok := upd s.tok a (s.tok a - n) }
def addTok (s : St) (a : String) (n : Nat) : St := { s with tok := upd s.tok a (s.tok a + n) }
def moveTok (s : St) (a b : String) (n : Nat) : Option St := (subTok s a n).map (addTok · b n)

def subAlw (s : St) (a cur : String) (n : Nat) : Option St :=
  if s.alw a cur < n then none else some { s with alw := upd s.alw a (upd (s.alw a) cur (s.alw a cur - n)) }
def addAlw (s : St) (a cur : String) (n : Nat) : St :=
  { s with alw := upd s.alw a (upd (s.alw a) cur (s.alw a cur + n)) }
def moveAlw (s : St) (a b cur : String) (n : Nat) : Option St := (subAlw s a cur n).map (addAlw · b cur n)

/-- `TxTransfer` + `transferFee` -/
def transfer (s : St) (frm to : String) (amount : Nat) : Option St :=
  if frm = to then none
  else if amount = 0 then none
  else match moveTok s frm to amount with
    | none => none
    | some s1 =>
      if s.cfg.feeSet ∧ s.cfg.feeAddr = none then none
      else if s.cfg.feeSet ∧ s.cfg.feeCur = "" then none
      else match calcTransferFee s.cfg amount (s.uid frm) (s.uid to) with
        | none => none
        | some fee =>
          if fee = 0 then some s1
          else match s.cfg.feeAddr with
            | none => some s1
            | some fa =>
              if s.cfg.feeCur = s.cfg.symbol then moveTok s1 frm fa fee
              else moveAlw s1 frm fa s.cfg.feeCur fee

def inLimit (r : Rate) (amount : Nat) : Bool := decide (r.min ≤ amount) && (decide (r.max = 0) || decide (amount ≤ r.max))
def calcPrice (r : Rate) (amount : Nat) : Nat := amount * r.rate / rateUnit

/-- `TxBuyToken`: the buyer pays `price` of the currency to the issuer, receives `amount` tokens -/
def buy (s : St) (issuer buyer : String) (amount : Nat) (cur : String) : Option St :=
  if buyer = issuer then none
  else if amount = 0 then none
  else match findRate s.cfg.rates "buyToken" cur with
    | none => none
    | some r =>
      if !inLimit r amount then none
      else match moveAlw s buyer issuer cur (calcPrice r amount) with
        | none => none
        | some s1 => moveTok s1 issuer buyer amount

/-- `TxBuyBack` -/
def buyBack (s : St) (issuer seller : String) (amount : Nat) (cur : String) : Option St :=
  if seller = issuer then none
  else if amount = 0 then none
  else match findRate s.cfg.rates "buyBack" cur with
    | none => none
    | some r =>
      if !inLimit r amount then none
      else match moveAlw s issuer seller cur (calcPrice r amount) with
        | none => none
        | some s1 => moveTok s1 seller issuer amount

/-- `TxSetFee` (caller already checked to be the fee setter) -/
def setFee (c : Cfg) (cur : String) (share floor cap : Nat) : Option Cfg :=
  if share > feeUnit then none
  else if cap > 0 ∧ floor > cap then none
  else if cur = c.symbol ∨ (c.rates.any (fun r => r.cur = cur)) then
    some { c with feeSet := true, feeCur := cur, share := share, floor := floor, cap := cap }
  else none

/-- `TxSetRate` (caller = issuer) -/
def setRate (c : Cfg) (deal cur : String) (rate : Nat) : Option Cfg :=
  if rate = 0 then none
  else if cur = c.symbol then none
  else if c.rates.any (fun r => r.deal = deal ∧ r.cur = cur) then
    some { c with rates := c.rates.map (fun r => if r.deal = deal ∧ r.cur = cur then { r with rate := rate } else r) }
  else some { c with rates := c.rates ++ [⟨deal, cur, rate, 0, 0⟩] }

/-- `TxDeleteRate` (caller = issuer): the first matching rate is removed; an unknown pair is not an
    error -/
def deleteRate (c : Cfg) (deal cur : String) : Option Cfg :=
  if cur = c.symbol then none
  else some { c with rates := c.rates.eraseP (fun r => r.deal = deal ∧ r.cur = cur) }

/-- `TxSetLimits` (caller = issuer) -/
def setLimits (c : Cfg) (deal cur : String) (mn mx : Nat) : Option Cfg :=
  if mn > mx ∧ mx > 0 then none
  else if c.rates.any (fun r => r.deal = deal ∧ r.cur = cur) then
    some { c with rates := c.rates.map (fun r => if r.deal = deal ∧ r.cur = cur then { r with min := mn, max := mx } else r) }
  else none

/-- the invariant `TxSetFee` maintains: share ≤ 100 %, and a positive cap is not below the floor -/
def FeeInv (c : Cfg) : Prop := c.share ≤ feeUnit ∧ (c.cap = 0 ∨ c.floor ≤ c.cap)

end Foundation.Token
