import Foundation.Gen.Facts
/-!
Model of configuration handling: `Chaincode.Init` (`core/cc_core_init_invoke.go:22-67`),
`config.Validate` / `Configure` / `FromBytes` (`core/config/configure.go`, `storage.go`),
`BaseContract.ValidateConfig`, `BaseToken.ValidateTokenConfig`, the validators generated from
`proto/foundation_config.proto`, the legacy positional mappers (`core/config/from_args.go`) and
`hlfcreator.ValidateAdminCreator`.

A JSON configuration is represented by the *tree the harness built it from* (`Cfg`): every field is
`absent`, JSON `null`, an empty object, a value of the wrong JSON kind, or a string; the harness
renders the real JSON text from the same tree, so model and code see the same configuration.
-/
namespace Foundation.Config

/-- a JSON value at a field position, as far as the quantifier's mutation space goes -/
inductive V where
  | absent                 -- the member is not there
  | null                   -- JSON null
  | wrongKind              -- a JSON value of another kind (number for string/object, …)
  | str (s : String)       -- a string (for wallets: an object with this "address")
  | emptyObj               -- `{}` (only meaningful for message-valued fields)
deriving Repr, DecidableEq

structure Cfg where
  contract   : V        -- presence of the "contract" object: absent | null | wrongKind | emptyObj | str _ (= object with fields below)
  symbol     : V
  robotSKI   : V
  admin      : V        -- wallet: absent | null | wrongKind | emptyObj | str address
  disabled   : List String
  token      : V        -- presence of "token"
  tokenName  : V
  issuer     : V
  feeSetter  : V
  feeASetter : V
  redeemer   : V
  unknownField : Bool   -- an unknown member somewhere
  duplicate    : Bool   -- a member given twice
deriving Repr, DecidableEq

/-! ### the three patterns of the schema, as structural recognisers -/

def isUpper (c : Char) : Bool := 'A' ≤ c && c ≤ 'Z'
def isDigit (c : Char) : Bool := '0' ≤ c && c ≤ '9'
def isUpperDigit (c : Char) : Bool := isUpper c || isDigit c
def isHexLower (c : Char) : Bool := isDigit c || ('a' ≤ c && c ≤ 'f')
/-- the base58 alphabet `[1-9A-HJ-NP-Za-km-z]` -/
def isBase58 (c : Char) : Bool :=
  ('1' ≤ c && c ≤ '9') || ('A' ≤ c && c ≤ 'H') || ('J' ≤ c && c ≤ 'N') || ('P' ≤ c && c ≤ 'Z') ||
  ('a' ≤ c && c ≤ 'k') || ('m' ≤ c && c ≤ 'z')

/-- `^[A-Z]+[A-Z0-9]+(-[A-Z0-9]+)?$` -/
def symbolOk (s : String) : Bool :=
  let cs := s.toList
  let head := cs.takeWhile (· ≠ '-')
  let rest := cs.dropWhile (· ≠ '-')
  let headOk := match head with
    | c :: d :: tl => isUpper c && isUpperDigit d && tl.all isUpperDigit
    | _ => false
  let restOk := match rest with
    | [] => true
    | _ :: suffix => !suffix.isEmpty && suffix.all isUpperDigit
  headOk && restOk

/-- `^[0-9a-f]+$` -/
def skiOk (s : String) : Bool := !s.toList.isEmpty && s.toList.all isHexLower
/-- `^[1-9A-HJ-NP-Za-km-z]+$` -/
def addressOk (s : String) : Bool := !s.toList.isEmpty && s.toList.all isBase58

/-! ### decoding (`protojson.Unmarshal`) and validation -/

def anyWrong (vs : List V) : Bool := vs.any (· = .wrongKind)

/-- does the JSON text decode into `proto.Config`? Unknown and duplicate members and values of
    the wrong kind are refused; `null` leaves a field unset. Fields below an absent parent do not
    occur in the text at all. -/
def decodes (c : Cfg) : Bool :=
  let inContract := match c.contract with | .str _ => [c.symbol, c.robotSKI, c.admin] | _ => []
  let inToken := match c.token with | .str _ => [c.tokenName, c.issuer, c.feeSetter, c.feeASetter, c.redeemer] | _ => []
  !c.unknownField && !c.duplicate && !anyWrong ([c.contract, c.token] ++ inContract ++ inToken)

/-- string value of a scalar field after decoding (`""` when unset) -/
def strOf : V → String
  | .str s => s
  | _ => ""

/-- a wallet-valued field after decoding: `none` = nil message, `some a` = wallet with address `a` -/
def walletOf : V → Option String
  | .str s => some s
  | .emptyObj => some ""
  | _ => none

def walletOkIfSet (v : V) : Bool := match walletOf v with | none => true | some a => addressOk a

def contractSet (c : Cfg) : Bool := match c.contract with | .str _ | .emptyObj => true | _ => false
def tokenSet (c : Cfg) : Bool := match c.token with | .str _ | .emptyObj => true | _ => false
def inC (c : Cfg) (v : V) : V := match c.contract with | .str _ => v | _ => .absent
def inT (c : Cfg) (v : V) : V := match c.token with | .str _ => v | _ => .absent

/-- `config.Validate` for a token contract: base validator, then the whole-config validator -/
def valid (c : Cfg) : Bool :=
  contractSet c &&
  symbolOk (strOf (inC c c.symbol)) && skiOk (strOf (inC c c.robotSKI)) && walletOkIfSet (inC c c.admin) &&
  (!tokenSet c ||
    ((walletOf (inT c c.issuer)).isSome && walletOkIfSet (inT c c.issuer) && walletOkIfSet (inT c c.feeSetter) &&
     walletOkIfSet (inT c c.feeASetter) && walletOkIfSet (inT c c.redeemer)))

/-- what `Configure` puts in force from a stored configuration (the observable part) -/
structure Active where
  symbol : String
  robotSKI : String
  admin : String
  issuer : String
  feeSetter : String
  disabled : List String
deriving Repr, DecidableEq

def activeOf (c : Cfg) : Active :=
  ⟨strOf (inC c c.symbol), strOf (inC c c.robotSKI), (walletOf (inC c c.admin)).getD "",
   (walletOf (inT c c.issuer)).getD "", (walletOf (inT c c.feeSetter)).getD "",
   match c.contract with | .str _ => c.disabled | _ => []⟩

/-! ### legacy positional arguments (`FromInitArgs`) -/

inductive Mapper where | withAdmin | issuerAndAdmin | issuerFeeSetterFeeASetter | issuerAndFeeSetter
deriving Repr, DecidableEq

def mapperOf (channel : String) : Option Mapper :=
  if channel ∈ ["nft", "dcdac", "ndm", "rub", "it", "nmmmulti", "invmulti", "dcmulti"] then some .withAdmin
  else if channel ∈ ["ct", "hermitage", "dcrsb", "minetoken", "invclass", "vote"] then some .issuerAndAdmin
  else if channel ∈ ["curaed", "curbhd", "curtry", "currub", "curusd"] then some .issuerFeeSetterFeeASetter
  else if channel = "otf" then some .issuerAndFeeSetter
  else none

def wal (s : String) : V := .str s
def base (sym ski admin issuer : String) : Cfg :=
  ⟨.str "", .str sym, .str ski, wal admin, [], .str "", .str sym, wal issuer, .absent, .absent, .absent, false, false⟩

/-- positional arguments → configuration tree, or `none` (an error before validation) -/
def fromArgs (channel : String) (upper : String) (args : List String) : Option Cfg :=
  if args.length < 2 then none else
  match mapperOf channel with
  | none => none
  | some .withAdmin => match args with
    | [_, ski, admin] => if admin = "" then none else some (base upper ski admin admin)
    | _ => none
  | some .issuerAndAdmin => match args with
    | [_, ski, issuer, admin] => if issuer = "" ∨ admin = "" then none else some (base upper ski admin issuer)
    | _ => none
  | some .issuerFeeSetterFeeASetter => match args with
    | [_, ski, issuer, fs, fas] =>
      if issuer = "" ∨ fs = "" ∨ fas = "" then none
      else some { base upper ski issuer issuer with feeSetter := wal fs, feeASetter := wal fas }
    | _ => none
  | some .issuerAndFeeSetter => match args with
    | [_, ski, issuer, fs] =>
      if issuer = "" ∨ fs = "" then none else some { base upper ski issuer issuer with feeSetter := wal fs }
    | _ => none

/-! ### the chaincode: Init and Invoke -/

/-- what an `Init` request carries -/
inductive InitArgs where
  | json (c : Cfg)                                    -- one argument that is valid JSON
  | positional (channel upper : String) (args : List String)
deriving Repr

/-- the ledger side: the stored configuration (`__config`), if any -/
abbrev Stored := Option Cfg

def decodeInit : InitArgs → Option Cfg
  | .json c => if decodes c then some c else none
  | .positional ch up args => fromArgs ch up args

/-- `Init`: creator must carry the admin OU; decode; validate; save -/
def init (st : Stored) (adminOU : Bool) (a : InitArgs) : Stored × Bool :=
  if !adminOU then (st, false) else
  match decodeInit a with
  | none => (st, false)
  | some c => if valid c then (some c, true) else (st, false)

/-- `Invoke` starts with `Load` + `Configure`: the configuration in force, or refusal -/
def inForce (st : Stored) : Option Active := st.map activeOf

inductive Req where
  | init (adminOU : Bool) (a : InitArgs)
  | invoke
deriving Repr

/-- a history on one channel: replies in order (`Sum.inl ok` for init, `Sum.inr active?` for invoke) -/
def run : Stored → List Req → List (Sum Bool (Option Active)) × Stored
  | st, [] => ([], st)
  | st, .init ou a :: rest =>
    let r := init st ou a
    let t := run r.1 rest
    (Sum.inl r.2 :: t.1, t.2)
  | st, .invoke :: rest =>
    let t := run st rest
    (Sum.inr (inForce st) :: t.1, t.2)

/-- the configuration an initialisation request is entitled to store, if any (the specification:
    admin OU, decodes, satisfies the schema) -/
def accepted : Req → Option Cfg
  | .init true a => match decodeInit a with
    | some c => if valid c then some c else none
    | none => none
  | _ => none

/-- a newly accepted configuration replaces the stored one; otherwise the stored one stays -/
def keep (s : Stored) : Option Cfg → Stored
  | some c => some c
  | none => s

/-- the last successfully stored configuration of a history (the specification) -/
def lastStored (st : Stored) (h : List Req) : Stored :=
  h.foldl (fun s r => keep s (accepted r)) st

end Foundation.Config
