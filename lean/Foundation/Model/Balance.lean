import Foundation.Basic.Store
import Foundation.Basic.Sums
/-!
Model of `core/balance` (storage.go, operations.go, queries.go, indexer.go).

A balance is stored under the primary composite key (kind, address[, token]) and — when the token
component is non-empty — under the inverse key ("inverse_balance", kind, token, address) with the
same bytes. `big.Int` 0 is the empty byte string, which Fabric treats as a delete, so "absent" and
"0" are one observation: stores are total functions to `Int` with 0 for absent keys. Amounts are
`Int`; the code's guards (`Sign() < 0`, `Cmp(amount) < 0`) are explicit and non-negativity of all
balances is a theorem, not a typing artefact.
-/
namespace Foundation.Balance

/-- primary key: kind (the prefix byte, as a name), address, token ("" = no token component) -/
structure PK where
  kind : String
  addr : String
  token : String
deriving Repr, DecidableEq

structure St where
  prim : PK → Int
  inv  : PK → Int        -- inverse entry, indexed by the same triple
deriving Inhabited

inductive Err | negative | insufficient
deriving Repr, DecidableEq

def get (s : St) (k : PK) : Int := s.prim k

/-- `balance.Put`: primary entry, and the inverse entry when the token is non-empty -/
def put (s : St) (k : PK) (v : Int) : St :=
  { prim := upd s.prim k v, inv := if k.token = "" then s.inv else upd s.inv k v }

/-- `balance.Add` -/
def add (s : St) (k : PK) (amt : Int) : Except Err St :=
  if amt < 0 then .error .negative else .ok (put s k (get s k + amt))

/-- `balance.Sub` -/
def sub (s : St) (k : PK) (amt : Int) : Except Err St :=
  if amt < 0 then .error .negative
  else if get s k < amt then .error .insufficient
  else .ok (put s k (get s k - amt))

/-- `balance.Move` = Sub then Add (same token on both sides) -/
def move (s : St) (src dst : PK) (amt : Int) : Except Err St :=
  match sub s src amt with
  | .error e => .error e
  | .ok s1 => add s1 dst amt

inductive Op
  | put (k : PK) (v : Int)      -- used by tests/legacy writers with v ≥ 0
  | add (k : PK) (a : Int)
  | sub (k : PK) (a : Int)
  | move (src dst : PK) (a : Int)
deriving Repr

/-- a failing operation leaves the state as it was (the enclosing transaction is dropped) -/
def step (s : St) : Op → St
  | .put k v => if v < 0 then s else put s k v
  | .add k a => match add s k a with | .ok s' => s' | .error _ => s
  | .sub k a => match sub s k a with | .ok s' => s' | .error _ => s
  | .move a b n => match move s a b n with | .ok s' => s' | .error _ => s

def run (s : St) (ops : List Op) : St := ops.foldl step s

/-- `ListOwnersByToken kind token` over a universe of addresses (in key order): the inverse entries
    that exist (non-zero), with their amounts -/
def listOwners (s : St) (addrs : List String) (kind token : String) : List (String × Int) :=
  (addrs.filter (fun a => s.inv ⟨kind, a, token⟩ ≠ 0)).map (fun a => (a, s.inv ⟨kind, a, token⟩))

/-- `CreateIndex kind`: copy every existing primary entry with a token component to its inverse key -/
def createIndex (s : St) (kind : String) : St :=
  { s with inv := fun k => if k.kind = kind ∧ k.token ≠ "" ∧ s.prim k ≠ 0 then s.prim k else s.inv k }

/-- consistency of the reverse index for one kind -/
def Indexed (s : St) (kind : String) : Prop :=
  ∀ a t, t ≠ "" → s.inv ⟨kind, a, t⟩ = s.prim ⟨kind, a, t⟩

/-! ### the channel's own token: units, escrow, emission (business layer for C06) -/

/-- accounts holding units of the channel's own token (plain or one group): spendable, locked
    (internal and external), and the given-out counters are all `PK`s of the store; open swap
    records escrow units outside any balance. -/
structure Tok where
  bal : PK → Int
  escrow : String → Int        -- swap / multi-swap id ↦ escrowed units (0 = no open record)
  emission : Int
  keys : List PK               -- ghost log: balance keys ever touched (duplicate-free)
  ids : List String            -- ghost log: swap ids ever used (duplicate-free)

inductive TOp
  | emit (k : PK) (n : Int)               -- TokenBalanceAdd + EmissionAdd
  | burn (k : PK) (n : Int)               -- TokenBalanceSub + EmissionSub
  | move (a b : PK) (n : Int)             -- transfer, fee leg, lock/unlock, forced transfer, buy …
  | escrowIn (id : String) (k : PK) (n : Int)    -- swap begin: debit + record
  | escrowOut (id : String) (k : PK)             -- cancel / robot completion: record → balance or given

abbrev touchId (ids : List String) (i : String) : List String := touch ids i

def tstep (s : Tok) : TOp → Tok
  | .emit k n =>
    if n < 0 then s else
    { s with bal := upd s.bal k (s.bal k + n), emission := s.emission + n, keys := touch s.keys k }
  | .burn k n =>
    if n < 0 ∨ s.bal k < n ∨ s.emission < n then s else
    { s with bal := upd s.bal k (s.bal k - n), emission := s.emission - n, keys := touch s.keys k }
  | .move a b n =>
    if n < 0 ∨ s.bal a < n then s else
    let b1 := upd s.bal a (s.bal a - n)
    { s with bal := upd b1 b (b1 b + n), keys := touch (touch s.keys a) b }
  | .escrowIn id k n =>
    if n < 0 ∨ s.bal k < n ∨ s.escrow id ≠ 0 then s else
    { s with bal := upd s.bal k (s.bal k - n), escrow := upd s.escrow id n,
             keys := touch s.keys k, ids := touchId s.ids id }
  | .escrowOut id k =>
    if s.escrow id = 0 then s else
    { s with bal := upd s.bal k (s.bal k + s.escrow id), escrow := upd s.escrow id 0,
             keys := touch s.keys k }

def trun (s : Tok) (ops : List TOp) : Tok := ops.foldl tstep s

def tok0 : Tok := ⟨fun _ => 0, fun _ => 0, 0, [], []⟩

/-- the units of the token held in its channel -/
def held (s : Tok) : Int := sumOver s.keys s.bal + sumOver s.ids s.escrow

end Foundation.Balance
