import Foundation.Basic.Store
/-!
Model of request authentication (`core/cc_auth.go`, `keys/verify.go`, `core/helpers/acl.go`).

Cryptography is symbolic: a signature string *means* `blank`, `junk`, or a genuine signature
`valid kt key msg` (made with the private key of `key` under algorithm `kt` over `msg`);
`verify kt pk m σ` holds iff `σ = valid kt pk m`. Unforgeability of the three schemes is the
assumption behind this reading (trusted base). Everything around the primitives — which
arguments are keys and signatures, which message is verified, which key type is used, how many
verified signatures are required, which ACL answers are refused — mirrors the Go code.
-/
namespace Foundation.Auth

inductive KT | ed | secp | gost | other
deriving Repr, DecidableEq

inductive SigV
  | blank
  | junk
  | valid (kt : KT) (key : String) (msg : String)
deriving Repr, DecidableEq

/-- the answer of the access-control service to `checkKeys` -/
inductive AclReply
  | ok (addr : String) (kts : List KT) (n : Nat) (hasAccount black grey : Bool)
  | status | empty | garbled
deriving Repr

inductive Err
  | count | unsigned | env | acl | listed | sig | threshold | nonce
deriving Repr, DecidableEq

structure Env where
  cc : String
  ch : String
  /-- meaning of each signature string of the request (ground truth known to whoever signed) -/
  sigOf : String → SigV
  /-- key type suggested by the decoded length of a public key (64 bytes ⇒ GOST, else ed25519) -/
  lenKT : String → KT

structure Parsed where
  ccArg : String
  chArg : String
  nonce : String
  signers : Nat
  keys : List String
  sigs : List String
deriving Repr

/-- `parseInvocationDetails`: positions are fixed by the method's argument count -/
def parse (argc : Nat) (args : List String) : Except Err Parsed :=
  let expected := (argc - 1) + 4
  if args.length < expected then .error .count
  else if (args.length - expected) % 2 ≠ 0 then .error .count
  else
    let signers := (args.length - expected) / 2
    if signers = 0 then .error .unsigned
    else .ok {
      ccArg := args.getD 1 "", chArg := args.getD 2 "", nonce := args.getD (expected - 1) "",
      signers := signers,
      keys := (args.drop expected).take signers,
      sigs := (args.drop (expected + signers)).take signers }

/-- the verified bytes: function name followed by every argument before the signatures -/
def message (fn : String) (args : List String) (signers : Nat) : String :=
  fn ++ String.join (args.take (args.length - signers))

def verify (kt : KT) (pk : String) (msg : String) (σ : SigV) : Bool :=
  match kt with
  | .other => false
  | _ => σ == .valid kt pk msg

/-- key types used for verification: the ACL's list when it has one entry per signer, otherwise
    guessed from the key length (old behaviour) -/
def keyTypes (e : Env) (kts : List KT) (keys : List String) : List KT :=
  if kts.length = keys.length then kts else keys.map e.lenKT

/-- `validateSignaturesInInvocation`: blank signatures are skipped, any non-blank signature must
    verify; returns the keys whose signature verified (in order) -/
def verifyAll (e : Env) (msg : String) : List (String × String × KT) → Except Err (List String)
  | [] => .ok []
  | (key, sig, kt) :: rest =>
    if sig = "" then verifyAll e msg rest
    else if verify kt key msg (e.sigOf sig) then
      match verifyAll e msg rest with
      | .ok ks => .ok (key :: ks)
      | .error x => .error x
    else .error .sig

def required (signers n : Nat) : Nat :=
  if signers ≤ 1 then 1 else if 0 < n ∧ n < signers then n else signers

/-- decimal digits to a number (structural, so that the kernel can evaluate it) -/
def digitsVal : List Char → Nat → Nat
  | [], acc => acc
  | ch :: cs, acc => digitsVal cs (acc * 10 + (ch.toNat - 48))

/-- `strconv.ParseUint(s, 10, 64)` succeeds: decimal digits only, at least one, value below 2^64
    (leading zeros are allowed, so the length is not bounded) -/
def isNumeric (s : String) : Bool :=
  s.length > 0 && s.toList.all Char.isDigit && decide (digitsVal s.toList 0 < 2^64)

/-- `validateAndExtractInvocationContext`: sender address, method arguments, nonce -/
def authorize (e : Env) (fn : String) (argc : Nat) (args : List String) (acl : AclReply) :
    Except Err (String × List String × String) :=
  match parse argc args with
  | .error x => .error x
  | .ok p =>
    if p.ccArg ≠ e.cc ∨ p.chArg ≠ e.ch then .error .env
    else match acl with
      | .status | .empty | .garbled => .error .acl
      | .ok addr kts n hasAccount black grey =>
        if hasAccount ∧ (black ∨ grey) then .error .listed
        else
          let kt := keyTypes e kts p.keys
          let msg := message fn args p.signers
          match verifyAll e msg (p.keys.zip (p.sigs.zip kt)) with
          | .error x => .error x
          | .ok verified =>
            if verified.eraseDups.length < required p.signers n then .error .threshold
            else if !isNumeric p.nonce then .error .nonce
            else .ok (addr, (args.drop 3).take (argc - 1), p.nonce)

/-- `core/auth_deprecated.go: CheckSign`, kept "for backward compatibility" for methods that
    authenticate themselves: `auth` = keys followed by signatures; **every** listed key must carry a
    verifying ed25519 signature over `fn ++ args ++ keys` (a blank signature does not verify); the
    access-control service must confirm the key list; only the grey list is consulted (the black
    list is not — recorded in DESIGN §10 as an observation on this legacy helper, which is not one
    of the three routes of C01). -/
def checkSign (e : Env) (fn : String) (plain auth : List String) (acl : AclReply) : Except Err String :=
  let signers := auth.length / 2
  if signers = 0 then .error .unsigned else
  let keys := auth.take signers
  let sigs := (auth.drop signers).take signers
  let msg := fn ++ String.join (plain ++ keys)
  if !(keys.zip sigs).all (fun ks => verify .ed ks.1 msg (e.sigOf ks.2)) then .error .sig else
  match acl with
  | .status | .empty | .garbled => .error .acl
  | .ok addr _ _ hasAccount _ grey => if hasAccount && grey then .error .listed else .ok addr

/-! ### the specification side: who is entitled to act as `addr` -/

/-- the number of distinct signer keys of the request that carry a genuine signature, of the right
    algorithm, over exactly this request (function name + every argument before the signatures) -/
def genuineSigners (e : Env) (fn : String) (args : List String) (p : Parsed) (kt : List KT) : List String :=
  ((p.keys.zip (p.sigs.zip kt)).filter (fun x =>
      x.2.1 ≠ "" ∧ verify x.2.2 x.1 (message fn args p.signers) (e.sigOf x.2.1) = true)).map (·.1) |>.eraseDups

end Foundation.Auth
