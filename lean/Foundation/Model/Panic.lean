/-!
Model of panic propagation in the chaincode process (`core/cc_core_init_invoke.go:72-78`,
`core/cc_batch.go:176-200,264-271`, `core/task_executor.go:109-130,218-225`,
`core/predict_acl_invoke.go:35-50`, `core/swap/swap.go:43-49,78-84`, `core/multiswap/multiswap.go`).

Go semantics used (trusted): a panic unwinds the frames of *its own goroutine* from the innermost
outwards; the first frame that deferred a `recover()` before the panic stops it and the function
returns normally with its named results; a panic that runs off the goroutine's root kills the
whole process. The Fabric shim starts every `Init`/`Invoke` on a goroutine of its own without a
recover, so the root frames here are the library's.
-/
namespace Foundation.Panic

/-- one frame of a goroutine's call chain -/
structure Frame where
  name : String
  recovers : Bool        -- a `defer func(){ recover() }()` is in force where the callee is called
deriving Repr, DecidableEq

inductive Outcome where
  | replied (frame : String)     -- the panic was stopped in frame `frame`; the invocation goes on to reply
  | dead                      -- ran off the root: the process is gone
deriving Repr, DecidableEq

/-- unwind a chain given innermost frame first -/
def unwind : List Frame → Outcome
  | [] => .dead
  | f :: outer => if f.recovers then .replied f.name else unwind outer

/-- a goroutine: its frames from the root (outermost) inwards; any call below them may panic -/
structure Goroutine where
  root : String
  frames : List Frame      -- outermost first
deriving Repr

/-- outcome of a panic raised below the innermost frame of `g` -/
def outcome (g : Goroutine) : Outcome := unwind g.frames.reverse

/-- the structural test the per-run obligation evaluates: every goroutine has a recovering frame -/
def contained (gs : List Goroutine) : Bool := gs.all (fun g => g.frames.any (·.recovers))

/-! ### items: batched transactions, tasks, swap answers / completions -/

inductive Item where
  | ok (out : String)
  | fails (msg : String)
  | panics
deriving Repr, DecidableEq

inductive Res where
  | ok (out : String)
  | err (msg : String)
deriving Repr, DecidableEq

/-- what the per-item function returns when it runs inside its own recovering frame: a panic is
    turned into that item's error entry (the pre-set "panic …" result) -/
def runItem (panicMsg : String) : Item → Res
  | .ok o => .ok o
  | .fails m => .err m
  | .panics => .err panicMsg

/-- the item loop. `perItem = true`: each item runs in its own recovering frame (what the code does);
    `perItem = false`: the loop body has no recover of its own, so a panic leaves the loop and is
    handled (or not) by the enclosing frames — `none` = the whole request is lost. -/
def runItems (perItem : Bool) (panicMsg : String) : List Item → Option (List Res)
  | [] => some []
  | it :: rest =>
    if !perItem ∧ it = .panics then none
    else match runItems perItem panicMsg rest with
      | none => none
      | some rs => some (runItem panicMsg it :: rs)

end Foundation.Panic
