import Foundation.Basic.Store
import Foundation.Basic.Sums
/-!
Model of external locks (`core/bc_external_locks.go`), one balance kind at a time.

An *account* is what the lock moves funds of: the address for the token kind (the request's token
field is recorded but the plain token balance is locked), the pair (address, token) for the
allowed kind. `spend`/`locked` are the spendable and locked balances by account. Amounts are `Int`
with the code's guards explicit; non-negativity is a theorem. A refused request returns `none`
(the enclosing transaction is dropped, C04).
-/
namespace Foundation.Locks

structure Lock where
  acct : String
  init : Int
  cur  : Int
deriving Repr, DecidableEq

structure St where
  spend  : String → Int
  locked : String → Int
  locks  : String → Option Lock
  log    : List String            -- ghost: lock ids ever created, newest first, duplicate-free
  unlockedSum : String → Int      -- ghost: everything unlocked so far from the current lock of an id

def init (spend : String → Int) : St := ⟨spend, fun _ => 0, fun _ => none, [], fun _ => 0⟩

structure Req where
  admin  : Bool       -- signed sender = configured admin
  id     : String
  acct   : String
  amount : Int
  wellFormed : Bool   -- address, amount, token, reason present and parsable
deriving Repr

/-- `TxLockTokenBalance` / `TxLockAllowedBalance` (after fix 5e7eca3: positive amounts only) -/
def lock (s : St) (r : Req) : Option St :=
  if !r.admin then none
  else if r.id = "" ∨ !r.wellFormed then none
  else if (s.locks r.id).isSome then none
  else if r.amount ≤ 0 then none
  else if s.spend r.acct < r.amount then none
  else some { s with
    spend := upd s.spend r.acct (s.spend r.acct - r.amount),
    locked := upd s.locked r.acct (s.locked r.acct + r.amount),
    locks := upd s.locks r.id (some ⟨r.acct, r.amount, r.amount⟩),
    log := if r.id ∈ s.log then s.log else r.id :: s.log,
    unlockedSum := upd s.unlockedSum r.id 0 }

/-- `TxUnlockTokenBalance` / `TxUnlockAllowedBalance`: the funds go back to the account named by
    the *request* (mirrored; the property restricts to requests naming the lock's own account) -/
def unlock (s : St) (r : Req) : Option St :=
  if !r.admin then none
  else if r.id = "" ∨ !r.wellFormed then none
  else match s.locks r.id with
    | none => none
    | some l =>
      if l.cur < r.amount then none
      else if r.amount < 0 then none
      else if s.locked r.acct < r.amount then none
      else
        let cur' := l.cur - r.amount
        some { s with
          locked := upd s.locked r.acct (s.locked r.acct - r.amount),
          spend := upd s.spend r.acct (s.spend r.acct + r.amount),
          locks := upd s.locks r.id (if l.cur = r.amount then none else some { l with cur := cur' }),
          unlockedSum := upd s.unlockedSum r.id (s.unlockedSum r.id + r.amount) }

inductive Op | lock (r : Req) | unlock (r : Req)

def step (s : St) : Op → St
  | .lock r => (lock s r).getD s
  | .unlock r => (unlock s r).getD s

/-- remaining amount of the lock `id` as far as account `a` is concerned -/
def curOfL (locks : String → Option Lock) (a : String) (id : String) : Int :=
  match locks id with
  | some l => if l.acct = a then l.cur else 0
  | none => 0

def curOf (s : St) (a : String) (id : String) : Int := curOfL s.locks a id

end Foundation.Locks
