import Foundation.Basic.Store
import Foundation.Basic.Sums
/-!
Model of the cross-channel transfer (`core/bc_chtransfer.go`, `core/cctransfer/*`): origin ledger
`A`, destination ledger `B`, any number of transfer ids and users, one token and direction at a
time (`fwd`): forward = the origin's own token goes out (debit token balance, origin `given[B]`
grows; credit allowed balance in `B`); backward = a foreign token goes home (debit allowed balance
in `A`; credit token balance in `B` and shrink `B`'s `given[A]`).

`step` is the chaincode's own guard + effect for each of the six functions (`none` = rejected
without effect: the batched transaction is dropped, the immediate one returns an error before any
write). `allowed` is the off-chain robot's protocol: which step it takes next as a function of
both ledgers — so stopping after any step and resuming is built in.
-/
namespace Foundation.ChTransfer

structure FromRec where
  user : String
  amount : Int
  committed : Bool
deriving Repr, DecidableEq

structure ToRec where
  user : String
  amount : Int
deriving Repr, DecidableEq

structure S where
  fwd      : Bool
  fromRec  : String → Option FromRec      -- /transfer/from/<id> on A
  toRec    : String → Option ToRec        -- /transfer/to/<id> on B
  srcA     : String → Int                 -- user's debited balance on A (token if fwd, allowed otherwise)
  dstB     : String → Int                 -- user's credited balance on B (allowed if fwd, token otherwise)
  givenA   : Int                          -- A's given[B]   (moves only when fwd)
  givenB   : Int                          -- B's given[A]   (moves only when ¬fwd)
  log      : List String                  -- ghost: ids ever used (duplicate-free)
  debited  : Int                          -- ghost: net amount debited on A (creations − cancellations)
  credited : Int                          -- ghost: total amount credited on B

inductive Step where
  | createFrom (id user : String) (a : Int)   -- channelTransferByCustomer / ByAdmin (batched)
  | createTo (id : String) (r : ToRec)        -- createCCTransferTo (robot, batched): the robot supplies the content
  | commit (id : String)                      -- commitCCTransferFrom (robot, immediate)
  | deleteTo (id : String)                    -- deleteCCTransferTo
  | deleteFrom (id : String)                  -- deleteCCTransferFrom
  | cancel (id : String)                      -- cancelCCTransferFrom (robot, batched)
deriving Repr

/-- the chaincode's guards and effects -/
def step (s : S) : Step → Option S
  | .createFrom id u a =>
    if id = "" ∨ (s.fromRec id).isSome ∨ a < 0 ∨ s.srcA u < a then none
    else some { s with
      fromRec := upd s.fromRec id (some ⟨u, a, false⟩),
      srcA := upd s.srcA u (s.srcA u - a),
      givenA := if s.fwd then s.givenA + a else s.givenA,
      log := touch s.log id, debited := s.debited + a }
  | .createTo id r =>
    if id = "" ∨ (s.toRec id).isSome ∨ r.amount < 0 ∨ (!s.fwd ∧ s.givenB < r.amount) then none
    else some { s with
      toRec := upd s.toRec id (some r),
      dstB := upd s.dstB r.user (s.dstB r.user + r.amount),
      givenB := if s.fwd then s.givenB else s.givenB - r.amount,
      log := touch s.log id, credited := s.credited + r.amount }
  | .commit id =>
    match s.fromRec id with
    | some ⟨u, a, false⟩ => some { s with fromRec := upd s.fromRec id (some ⟨u, a, true⟩) }
    | _ => none
  | .deleteTo id =>
    match s.toRec id with
    | some _ => some { s with toRec := upd s.toRec id none }
    | none => none
  | .deleteFrom id =>
    match s.fromRec id with
    | some ⟨_, _, true⟩ => some { s with fromRec := upd s.fromRec id none }
    | _ => none
  | .cancel id =>
    match s.fromRec id with
    | some ⟨u, a, false⟩ =>
      if s.fwd ∧ s.givenA < a then none
      else some { s with
        fromRec := upd s.fromRec id none,
        srcA := upd s.srcA u (s.srcA u + a),
        givenA := if s.fwd then s.givenA - a else s.givenA, debited := s.debited - a }
    | _ => none

/-- the robot's protocol: its next step is a function of (origin record, destination record).
    User steps are always allowed. -/
def allowed (s : S) : Step → Bool
  | .createFrom _ _ _ => true
  | .createTo id r =>
    (match s.fromRec id with | some ⟨u, a, false⟩ => u = r.user && a = r.amount | _ => false) && (s.toRec id).isNone
  | .commit id => (s.toRec id).isSome
  | .deleteTo id => (match s.fromRec id with | some ⟨_, _, true⟩ => true | _ => false)
  | .deleteFrom id => (s.toRec id).isNone
  | .cancel id => (s.toRec id).isNone

/-- execute a step if the chaincode accepts it (and, for `protocol` runs, if the robot would take it) -/
def exec (s : S) (st : Step) : S := (step s st).getD s

/-- units of `u` that left the origin balance and are not (yet) credited: open origin record
    without a destination record -/
def inflight (s : S) (u : String) (id : String) : Int :=
  match s.fromRec id, s.toRec id with
  | some ⟨u', a, false⟩, none => if u' = u then a else 0
  | _, _ => 0

def total (s : S) (u : String) : Int := sumOver s.log (inflight s u)

def init (fwd : Bool) (srcA : String → Int) (givenB : Int) : S :=
  ⟨fwd, fun _ => none, fun _ => none, srcA, fun _ => 0, 0, givenB, [], 0, 0⟩

/-- in-flight amount of an id irrespective of the user -/
def inflightAll (s : S) (id : String) : Int :=
  match s.fromRec id, s.toRec id with
  | some ⟨_, a, false⟩, none => a
  | _, _ => 0

end Foundation.ChTransfer
