import Foundation.Basic.Store
/-!
Model of the paged listing of origin-side transfer records
(`core/bc_chtransfer.go: QueryChannelTransfersFrom`, `core/cctransfer/storage.go: LoadCCFromTransfers`)
and of the stub's `GetStateByRangeWithPagination` contract.

The ledger's keys are a strictly sorted list (`keys`). A paginated range read over `[start, end)`
with bookmark `b` returns the first `size` keys `≥ (b or start)` that are `< end`, and the next key
of the range (or "") as the new bookmark.
-/
namespace Foundation.Paging

abbrev Sorted (l : List Key) : Prop := List.Pairwise (· < ·) l

def fromPrefix : String := "/transfer/from/"
/-- the prefix with its last byte incremented ('/' + 1 = '0'): the least key above every key that
    starts with the prefix (after fix 3567894; before it the end was prefix+U+10FFFF, which left out
    ids beginning with U+10FFFF) -/
def endKey : String := "/transfer/from0"

/-- the keys of the range `[fromPrefix, endKey)`, in ledger order -/
def rangeKeys (keys : List Key) : List Key :=
  keys.filter (fun k => decide (fromPrefix ≤ k) && decide (k < endKey))

/-- one paginated read over the range `R` (already restricted to `[start,end)`) -/
def page (R : List Key) (bookmark : Option Key) (size : Nat) : List Key × Option Key :=
  let rest := match bookmark with
    | none => R
    | some b => R.filter (fun k => decide (b ≤ k))
  (rest.take size, (rest.drop size).head?)

inductive Err | pageSize | bookmark deriving Repr, DecidableEq

/-- the query: validation, then one page. `bookmark = ""` means "from the start". -/
def query (keys : List Key) (size : Int) (bookmark : String) : Except Err (List Key × String) :=
  if size ≤ 0 then .error .pageSize
  else if bookmark ≠ "" ∧ ¬ fromPrefix.isPrefixOf bookmark then .error .bookmark
  else
    let r := page (rangeKeys keys) (if bookmark = "" then none else some bookmark) size.toNat
    .ok (r.1, r.2.getD "")

/-- client loop: follow bookmarks until the empty one -/
def collect (R : List Key) (size : Nat) : Nat → Option Key → List Key
  | 0, _ => []
  | fuel+1, start =>
    let r := page R start size
    match r.2 with
    | none => r.1
    | some b => r.1 ++ collect R size fuel (some b)

end Foundation.Paging
