import Foundation.Basic.Store
/-!
Model of the entry points (`core/cc_core_init_invoke.go`, `core/cc_core.go`, `core/task_executor.go`,
`hlfcreator/creator.go`) as far as *who may reach what* is concerned: creator identity checks,
the function-name switch in source order, method lookup, the disabled-function / swap switches
(shared helper `isMethodDisabled` since fix bbe070f), routing by method kind, the admin-address
checks of the admin-only methods, and `Init`'s organisational-unit check.

Outcome classes: `reach b` — the privileged body `b` starts executing (whatever it then does);
otherwise the refusal class. A refusal happens before any ledger write on every path
(`refusals_write_nothing` is by construction: the model has no write before `reach`).
-/
namespace Foundation.Dispatch

inductive Kind | tx | nbtx | query
deriving Repr, DecidableEq

/-- one routed method of the contract (from the reflect router's table) -/
structure Method where
  name : String      -- Go method name, e.g. "TxTransfer"
  fn   : String      -- chaincode function, e.g. "transfer"
  kind : Kind
  auth : Bool        -- first parameter is the sender
deriving Repr, DecidableEq

/-- the creator identity as the chaincode sees it -/
inductive Creator
  | none                                   -- empty creator bytes
  | garbage                                -- unparsable identity / certificate / non-ECDSA key
  | cert (ski : String) (hash : String) (ous : List String)
deriving Repr, DecidableEq

structure Config where
  robotSKI : String            -- configured robot key id (decoded); "" = undecodable / empty
  admin : String               -- configured admin address ("" = not set)
  hasOptions : Bool
  disabled : List String       -- method names
  disableSwaps : Bool
  disableMultiSwaps : Bool
deriving Repr

inductive Refusal | noconfig | creator | unauthorized | notfound | disabled | swapsOff | nosender
deriving Repr, DecidableEq

/-- the bodies whose reachability the property is about -/
inductive Body
  | createIndex
  | batchExecute
  | swapDone | multiSwapDone
  | executeTasks
  | submit (m : Method)          -- BatchHandler: authenticate + record the request (tx methods)
  | method (m : Method) (readOnly : Bool)   -- the method's own code; `readOnly` = runs on queryStub
deriving Repr, DecidableEq

inductive Outcome
  | reach (b : Body)
  | refuse (r : Refusal)
deriving Repr, DecidableEq

/-- `hlfcreator.ValidateSKI`: non-empty configured value equal to the cert hash or to the SKI -/
def validateSKI (robot : String) : Creator → Bool
  | .cert ski hash _ => robot ≠ "" && (robot = hash || robot = ski)
  | _ => false

def robotFns : List String :=
  ["createCCTransferTo", "deleteCCTransferTo", "commitCCTransferFrom", "cancelCCTransferFrom", "deleteCCTransferFrom"]

def swapMethods : List String := ["QuerySwapGet", "TxSwapBegin", "TxSwapCancel"]
def multiSwapMethods : List String := ["QueryMultiSwapGet", "TxMultiSwapBegin", "TxMultiSwapCancel"]

/-- `Chaincode.isMethodDisabled` -/
def isMethodDisabled (c : Config) (method : String) : Bool :=
  c.hasOptions && (c.disabled.contains method ||
    (c.disableSwaps && swapMethods.contains method) ||
    (c.disableMultiSwaps && multiSwapMethods.contains method))

def lookup (ms : List Method) (fn : String) : Option Method := ms.find? (·.fn = fn)

/-- `Chaincode.Invoke` up to the point where a body starts -/
def invoke (cfg : Option Config) (ms : List Method) (cr : Creator) (fn : String) : Outcome :=
  match cfg with
  | none => .refuse .noconfig
  | some c =>
    match cr with
    | .none | .garbage => .refuse .creator
    | .cert .. =>
      if fn = "createIndex" then .reach .createIndex
      else if fn = "batchExecute" then
        if validateSKI c.robotSKI cr then .reach .batchExecute else .refuse .unauthorized
      else if fn = "swapDone" then
        if c.hasOptions && c.disableSwaps then .refuse .swapsOff else .reach .swapDone
      else if fn = "multiSwapDone" then
        if c.hasOptions && c.disableMultiSwaps then .refuse .swapsOff else .reach .multiSwapDone
      else if robotFns.contains fn && !validateSKI c.robotSKI cr then .refuse .unauthorized
      else if fn = "executeTasks" then .reach .executeTasks
      else match lookup ms fn with
        | none => .refuse .notfound
        | some m =>
          if isMethodDisabled c m.name then .refuse .disabled
          else match m.kind with
            | .tx => .reach (.submit m)
            | .nbtx => .reach (.method m false)
            | .query => .reach (.method m true)

/-- the robot's four lists in a batch (`batchExecute`, after the transactions): answers to swaps
    begun elsewhere, keys completing swaps begun here, and the same for multi-swaps -/
inductive Section | swapAnswers | swapKeys | multiAnswers | multiKeys
deriving Repr, DecidableEq

/-- `batchExecute`: a list is processed only while the switch in force leaves its kind on -/
def sectionRuns (c : Config) : Section → Bool
  | .swapAnswers | .swapKeys => !(c.hasOptions && c.disableSwaps)
  | .multiAnswers | .multiKeys => !(c.hasOptions && c.disableMultiSwaps)

/-- one task of `executeTasks` (after `invoke` reached `.executeTasks`): method lookup, the
    disabled test, then the method body (read-only stub for queries since fix edf0100); a method
    without a sender cannot be a task -/
def task (c : Config) (ms : List Method) (fn : String) : Outcome :=
  match lookup ms fn with
  | none => .refuse .notfound
  | some m =>
    if isMethodDisabled c m.name then .refuse .disabled
    else if !m.auth then .refuse .nosender
    else .reach (.method m (m.kind = .query))

/-- the admin-only methods: their body returns "unauthorised" unless the sender is the admin -/
def adminOnly : List String :=
  ["TxLockTokenBalance", "TxUnlockTokenBalance", "TxLockAllowedBalance", "TxUnlockAllowedBalance",
   "TxTransferBalance", "TxChannelTransferByAdmin"]

/-- does the privileged effect of an admin-only method happen for this sender? -/
def adminGate (c : Config) (m : Method) (sender : String) : Bool :=
  !adminOnly.contains m.name || (c.admin ≠ "" && sender = c.admin)

/-- `Init`: only a certificate of the admin organisational unit (case-insensitive) may initialise -/
def initAllowed : Creator → Bool
  | .cert _ _ ous => ous.any (fun ou => ou.toLower = "admin")
  | _ => false

end Foundation.Dispatch
