import Foundation.Basic.Store
import Foundation.Basic.Sums
/-!
Model of the multi-asset swap (`core/bc_multiswap.go`, `core/multiswap/multiswap.go`,
`core/cc_multiswap.go`). As the single swap, with a list of assets `(group, amount)` (groups may
repeat), creator and timeout checks in `cancel`, and per-asset loops in every step.

Two ways of running a per-asset loop are modelled because the difference is observable:
* inside a batch (begin, cancel, answer, robot completion) every `Add/Sub` sees the writes of the
  previous ones (the transaction cache), so a repeated group accumulates;
* the direct invocation `multiSwapDone` runs on the peer's stub, where reads return *committed*
  state: two `Add`s to one group both read the old value and the last write wins.
-/
namespace Foundation.MultiSwap

abbrev Asset := String × Int        -- group, amount

structure Rec where
  creator : String        -- the owner's address for an origin record, "0000" for an answered copy
  owner   : String
  assets  : List Asset
  timeout : Int
deriving Repr, DecidableEq

abbrev Bal := String → String → Int     -- address → group → amount

structure S where
  direct : Bool
  recA   : String → Option Rec
  recB   : String → Option Rec
  srcA   : Bal
  dstB   : Bal
  givenA : Int
  givenB : Int
  nowA   : Int
  nowB   : Int
  answered  : String → Bool      -- ghost: the robot answered this id (it does so at most once)
  abandoned : String → Bool      -- ghost: the robot gave this id up and will never answer it
  doneB     : String → Bool      -- ghost: a destination completion succeeded
  log       : List String        -- ghost: ids ever used by a begin or an answer (duplicate-free)

def total (as : List Asset) : Int := (as.map (·.2)).sum

/-- sequential debit through the cache: fails as a whole if any step is under-funded -/
def debitAll (b : Bal) (u : String) : List Asset → Option Bal
  | [] => some b
  | (g, a) :: rest => if a < 0 ∨ b u g < a then none else debitAll (upd b u (upd (b u) g (b u g - a))) u rest

/-- sequential credit through the cache -/
def creditAll (b : Bal) (u : String) : List Asset → Bal
  | [] => b
  | (g, a) :: rest => creditAll (upd b u (upd (b u) g (b u g + a))) u rest

/-- credit on a stub that returns committed state for every read: each asset writes
    `committed + its own amount`; the last write per group wins -/
def creditCommitted (b : Bal) (u : String) (as : List Asset) : Bal :=
  as.foldl (fun acc ga => upd acc u (upd (acc u) ga.1 (b u ga.1 + ga.2))) b

def userSideTimeout : Int := 10800
def robotSideTimeout : Int := 300

inductive Step where
  | begin (id owner : String) (as : List Asset)
  | answer (id : String) (owner : String) (as : List Asset)
  | userDone (id : String) (right : Bool)
  | robotDone (id : String) (right : Bool)
  | cancelA (id sender : String)
  | cancelB (id sender : String)
  | tickA (d : Nat) | tickB (d : Nat)          -- the clocks of the two ledgers advance
  | abandon (id : String)                       -- the robot decides never to answer this id
deriving Repr

def step (s : S) : Step → Option S
  | .begin id o as =>
    if (s.recA id).isSome ∨ as = [] then none
    else match debitAll s.srcA o as with
      | none => none
      | some b => some { s with srcA := b, recA := upd s.recA id (some ⟨o, o, as, s.nowA + userSideTimeout⟩), log := touch s.log id }
  | .answer id o as =>
    if as.any (·.2 < 0) ∨ (!s.direct ∧ s.givenB < total as) then none
    else some { s with recB := upd s.recB id (some ⟨"0000", o, as, s.nowB + robotSideTimeout⟩),
                       givenB := if s.direct then s.givenB else s.givenB - total as,
                       answered := upd s.answered id true, log := touch s.log id }
  | .userDone id right =>
    match s.recB id with
    | some r =>
      if !right ∨ r.creator = r.owner then none
      else some { s with recB := upd s.recB id none, dstB := creditCommitted s.dstB r.owner r.assets,
                         doneB := upd s.doneB id true }
    | none => none
  | .robotDone id right =>
    match s.recA id with
    | some r =>
      if !right then none
      else some { s with recA := upd s.recA id none,
                         givenA := if s.direct then s.givenA + total r.assets else s.givenA }
    | none => none
  | .cancelA id sender =>
    match s.recA id with
    | some r =>
      if r.creator ≠ sender ∨ r.timeout > s.nowA then none
      else some { s with recA := upd s.recA id none, srcA := creditAll s.srcA r.owner r.assets }
    | none => none
  | .cancelB id sender =>
    match s.recB id with
    | some r =>
      if r.creator ≠ sender ∨ r.timeout > s.nowB then none
      else some { s with recB := upd s.recB id none,
                         givenB := if s.direct then s.givenB else s.givenB + total r.assets }
    | none => none
  | .tickA d => some { s with nowA := s.nowA + d }
  | .tickB d => some { s with nowB := s.nowB + d }
  | .abandon id => some { s with abandoned := upd s.abandoned id true }

/-- the documented order: the robot answers an origin record once with its content unless it
    abandoned the id; it abandons only ids it has not answered; it closes the origin only after a
    destination completion; the origin is cancelled (by its creator) only when no answered copy
    exists or can still be created, i.e. when the robot has abandoned the id. -/
def allowed (s : S) : Step → Bool
  | .answer id o as =>
    (match s.recA id with | some r => r.owner = o && r.assets = as | none => false) && !s.answered id && !s.abandoned id
  | .abandon id => !s.answered id
  | .robotDone id _ => s.doneB id
  | .cancelA id _ => s.abandoned id
  | _ => true

def exec (s : S) (st : Step) : S := (step s st).getD s

def init (direct : Bool) (srcA : Bal) (givenB : Int) : S :=
  ⟨direct, fun _ => none, fun _ => none, srcA, fun _ _ => 0, 0, givenB, 1000, 1000,
   fun _ => false, fun _ => false, fun _ => false, []⟩

end Foundation.MultiSwap
