import Foundation.Model.Auth
import Foundation.Model.Nonce
import Foundation.Basic.Sums
/-!
End-to-end model of the request pipeline: the glue between the per-property models.

One chaincode, one channel, a fixed configuration. A signed request reaches a method on one of
three routes (`core/cc_core_init_invoke.go: Invoke`):

* **batched submission** (`core/cc_core.go: BatchHandler`): method lookup, disabled test,
  `validateAndExtractInvocationContext` (= `Auth.authorize`), `Router.Check`, then only a pending
  record (method, authenticated sender, method arguments, nonce) is stored under the tx id;
  later `batchExecute` (robot only, `core/cc_batch.go`) lists ids: `loadFromBatch` finds and
  deletes the record, `checkNonce` (= `Nonce.setNonce` on the sender's window, written on the batch
  level — it survives a failing body), then the body on its own layer, committed only on success;
* **task list** (`core/task_executor.go: ExecuteTask`): lookup, disabled test, authorize, Check,
  `checkNonce` on the batch level, body on its own layer;
* **immediate** (`noBatchHandler`, methods named `NBTx…`): authorize, Check, body — *no* nonce
  bookkeeping (the code has none on this route; the property C02 speaks of batches and task lists).

The business state the bodies act on is abstract (`Led`): theorems about authentication and replay
are proved for an arbitrary `body`; conservation is proved for the token bodies `tokenBody`
(transfer / emission of `token/` and of the harness token).

The state carries a ghost log of the bodies that ran to success; the end-to-end theorems
(Proofs/System.lean) are statements about that log for every history of operations.
-/
namespace Foundation.System
open Foundation Foundation.Auth

inductive Kind | tx | nb
deriving DecidableEq, Repr

structure MethodInfo where
  /-- number of parameters including the sender (`Router.ArgCount`) -/
  argc : Nat
  kind : Kind
deriving Repr

/-- a request as it reaches the chaincode, with what the ACL answers about its key list -/
structure Req where
  fn : String
  args : List String
  acl : AclReply

/-- `proto.PendingTx` -/
structure Pend where
  fn : String
  sender : String
  args : List String
  nonce : Nat
deriving DecidableEq, Repr

inductive Route | batch | task | nb
deriving DecidableEq, Repr

/-- ghost: a method body that ran to success -/
structure Exec where
  route : Route
  fn : String
  sender : String
  args : List String
  nonce : Nat
deriving DecidableEq, Repr

/-- business state: token balances by address, total emission, ghost log of touched addresses -/
structure Led where
  bal : String → Int
  emission : Int
  keys : List String

structure St where
  pend : String → Option Pend
  /-- ghost: ids ever recorded (for dumps) -/
  pids : List String
  /-- per sender: stored window and ghost history of accepted nonces -/
  win : Nonce.Store
  led : Led
  log : List Exec

def led0 : Led := ⟨fun _ => 0, 0, []⟩
def init : St := ⟨fun _ => none, [], fun _ => ([], []), led0, []⟩

structure Ctx where
  env : Env
  robot : String
  ttl : Nat
  methods : String → Option MethodInfo
  disabled : String → Bool
  /-- `Router.Check` on (sender :: method arguments) -/
  argsOk : String → List String → Bool
  /-- the method body: `none` = returned an error (or panicked): its layer is dropped -/
  body : String → String → List String → Led → Option Led

/-- `strconv.ParseUint` on a string that passed `isNumeric` -/
def nonceOf (s : String) : Nat := digitsVal s.toList 0

/-- what every route does before anything is written: method lookup, disabled test,
    authentication, argument check. Error classes are the reply classes the harness observes. -/
def gate (c : Ctx) (r : Req) : Except String (MethodInfo × String × List String × Nat) :=
  match c.methods r.fn with
  | none => .error "unknown"
  | some mi =>
    if c.disabled r.fn then .error "unknown"
    else match authorize c.env r.fn mi.argc r.args r.acl with
      | .error _ => .error "auth"
      | .ok (sender, margs, nonce) =>
        if !c.argsOk r.fn margs then .error "args"
        else .ok (mi, sender, margs, nonceOf nonce)

def nonceClass (c : Ctx) (w : Nonce.PS) (n : Nat) : String :=
  match Nonce.setNonce c.ttl n w.1 with
  | .ok _ => "ok"
  | .error .format => "nonce-format"
  | .error .old => "nonce-old"
  | .error .dup => "nonce-dup"

/-- the sender's `checkNonce` followed by the body on its own layer -/
def execute (c : Ctx) (s : St) (route : Route) (fn sender : String) (margs : List String) (nonce : Nat) :
    St × String :=
  let r := Nonce.stepSt c.ttl (s.win sender) nonce
  if r.2 = false then (s, nonceClass c (s.win sender) nonce)
  else
    let s2 := { s with win := upd s.win sender r.1 }
    match c.body fn sender margs s2.led with
    | none => (s2, "failed")
    | some l => ({ s2 with led := l, log := s2.log ++ [⟨route, fn, sender, margs, nonce⟩] }, "ok")

/-- `Invoke` with the request's function name: `BatchHandler` or `noBatchHandler` -/
def submit (c : Ctx) (s : St) (txid : String) (r : Req) : St × String :=
  match gate c r with
  | .error e => (s, e)
  | .ok (mi, sender, margs, nonce) =>
    match mi.kind with
    | .tx => ({ s with pend := upd s.pend txid (some ⟨r.fn, sender, margs, nonce⟩),
                       pids := touch s.pids txid }, "ok")
    | .nb =>
      match c.body r.fn sender margs s.led with
      | none => (s, "failed")
      | some l => ({ s with led := l, log := s.log ++ [⟨.nb, r.fn, sender, margs, nonce⟩] }, "ok")

/-- `batchedTxExecute` for one listed id -/
def batchItem (c : Ctx) (s : St) (id : String) : St × String :=
  match s.pend id with
  | none => (s, "notfound")
  | some p =>
    let s1 := { s with pend := upd s.pend id none }
    match c.methods p.fn with
    | none => (s1, "unknown")
    | some _ => execute c s1 .batch p.fn p.sender p.args p.nonce

def batchItems (c : Ctx) : St → List String → St × List String
  | s, [] => (s, [])
  | s, id :: ids =>
    let r := batchItem c s id
    let rs := batchItems c r.1 ids
    (rs.1, r.2 :: rs.2)

/-- `ExecuteTask` for one task -/
def taskItem (c : Ctx) (s : St) (r : Req) : St × String :=
  match gate c r with
  | .error e => (s, e)
  | .ok (_, sender, margs, nonce) => execute c s .task r.fn sender margs nonce

def taskItems (c : Ctx) : St → List Req → St × List String
  | s, [] => (s, [])
  | s, t :: ts =>
    let r := taskItem c s t
    let rs := taskItems c r.1 ts
    (rs.1, r.2 :: rs.2)

inductive Op
  | submit (txid : String) (r : Req)
  | batch (creator : String) (ids : List String)
  | tasks (ts : List Req)

def step (c : Ctx) (s : St) : Op → St × String
  | .submit txid r => submit c s txid r
  | .batch creator ids =>
    if creator ≠ c.robot then (s, "unauthorized")
    else let r := batchItems c s ids; (r.1, ",".intercalate r.2)
  | .tasks ts =>
    if ts.isEmpty then (s, "notasks")
    else let r := taskItems c s ts; (r.1, ",".intercalate r.2)

def run (c : Ctx) (s : St) (ops : List Op) : St := ops.foldl (fun s o => (step c s o).1) s

/-- every request that appears in a history (submitted directly or inside a task list) -/
def requestsOf : List Op → List Req
  | [] => []
  | .submit _ r :: ops => r :: requestsOf ops
  | .batch _ _ :: ops => requestsOf ops
  | .tasks ts :: ops => ts ++ requestsOf ops

/-! ### the token bodies (`token/transfer.go: TxTransfer` without a configured fee, the harness
    token's `TxEmit`, and their immediate twins) -/

/-- `big.Int.SetString(s, 10)` on canonical decimal text: optional sign, at least one digit -/
def amountOf (s : String) : Option Int :=
  match s.toList with
  | '-' :: ds => if ds ≠ [] ∧ ds.all Char.isDigit then some (-(digitsVal ds 0 : Int)) else none
  | '+' :: ds => if ds ≠ [] ∧ ds.all Char.isDigit then some (digitsVal ds 0 : Int) else none
  | ds => if ds ≠ [] ∧ ds.all Char.isDigit then some (digitsVal ds 0 : Int) else none

def tokenBody (issuer : String) (fn sender : String) (margs : List String) (l : Led) : Option Led :=
  match fn, margs with
  | "transfer", [to, amt, _] | "transferNb", [to, amt, _] =>
    match amountOf amt with
    | none => none
    | some n =>
      if sender = to ∨ n ≤ 0 ∨ l.bal sender < n then none
      else
        let b1 := upd l.bal sender (l.bal sender - n)
        some { l with bal := upd b1 to (b1 to + n), keys := touch (touch l.keys sender) to }
  | "emit", [to, amt] =>
    match amountOf amt with
    | none => none
    | some n =>
      if sender ≠ issuer ∨ n ≤ 0 then none
      else some { bal := upd l.bal to (l.bal to + n), emission := l.emission + n, keys := touch l.keys to }
  | _, _ => none

def held (l : Led) : Int := sumOver l.keys l.bal

end Foundation.System
