import Foundation.Basic.Store
/-!
Model of `core/cachestub`: `BatchCacheStub` (read cache + write cache over the ledger) and
`TxCacheStub` (per-transaction write cache over the batch stub).

Mirrors, branch by branch:
* `BatchCacheStub.GetState`  : write cache → read cache → ledger (and fill the read cache)
* `BatchCacheStub.PutState/DelState` : write cache entry / tombstone
* `BatchCacheStub.Commit`    : iterate the write cache (Go map order = arbitrary) issuing Put/Del
* `TxCacheStub.GetState`     : tx write cache → batch stub
* `TxCacheStub.PutState/DelState`
* `TxCacheStub.Commit`       : copy tx cache into batch write cache, return writes sorted by key
A discarded transaction is simply a `TxCacheStub` that is dropped.
-/
namespace Foundation.Cache

/-- a write-cache element: value or tombstone (`proto.WriteElement{Value, IsDeleted}`) -/
inductive W where
  | put (v : Val)
  | del
deriving Repr, DecidableEq

/-- `GetValue()` of a cache element: a tombstone reads as empty -/
def W.read : W → Val
  | .put v => v
  | .del => ""

structure St where
  ledger : Key → Val
  rd     : Key → Option Val     -- batchReadeCache
  bw     : Key → Option W       -- batchWriteCache
  tw     : Key → Option W       -- txWriteCache of the current TxCacheStub
  twLog  : List Key             -- keys of txWriteCache (ghost: the Go map's key set)

def init (ledger : Key → Val) : St :=
  ⟨ledger, fun _ => none, fun _ => none, fun _ => none, []⟩

inductive Op where
  | tget (k : Key) | tput (k : Key) (v : Val) | tdel (k : Key)
  | bget (k : Key) | bput (k : Key) (v : Val) | bdel (k : Key)
deriving Repr

def batchGet (s : St) (k : Key) : St × Val :=
  match s.bw k with
  | some w => (s, w.read)
  | none => match s.rd k with
    | some v => (s, v)
    | none => ({ s with rd := upd s.rd k (some (s.ledger k)) }, s.ledger k)

/-- one stub call; the `Option Val` is the value returned by a get -/
def step (s : St) : Op → St × Option Val
  | .tget k => match s.tw k with
    | some w => (s, some w.read)
    | none => let r := batchGet s k; (r.1, some r.2)
  | .tput k v => ({ s with tw := upd s.tw k (some (.put v)), twLog := k :: s.twLog }, none)
  | .tdel k => ({ s with tw := upd s.tw k (some .del), twLog := k :: s.twLog }, none)
  | .bget k => let r := batchGet s k; (r.1, some r.2)
  | .bput k v => ({ s with bw := upd s.bw k (some (.put v)) }, none)
  | .bdel k => ({ s with bw := upd s.bw k (some .del) }, none)

def run (s : St) : List Op → St × List (Option Val)
  | [] => (s, [])
  | op :: ops => let r := step s op; let r2 := run r.1 ops; (r2.1, r.2 :: r2.2)

/-- insertion of a key into a strictly sorted list (duplicates dropped) -/
def insertKey (k : Key) : List Key → List Key
  | [] => [k]
  | x :: xs => if k < x then k :: x :: xs else if k = x then x :: xs else x :: insertKey k xs

/-- `sort.Strings` of the key set of a Go map whose keys were inserted in `log` order -/
def sortKeys (log : List Key) : List Key := log.foldr insertKey []

/-- `TxCacheStub.Commit`: the returned write list (sorted by key, last value per key) -/
def txWrites (s : St) : List (Key × W) :=
  (sortKeys s.twLog).filterMap (fun k => (s.tw k).map (fun w => (k, w)))

def txCommit (s : St) : St :=
  { s with bw := fun k => match s.tw k with | some w => some w | none => s.bw k,
           tw := fun _ => none, twLog := [] }

def txDiscard (s : St) : St := { s with tw := fun _ => none, twLog := [] }

/-- the ledger after `BatchCacheStub.Commit` (each written key gets its value, "" = deleted) -/
def batchCommit (s : St) : Key → Val := fun k =>
  match s.bw k with | some w => w.read | none => s.ledger k

/-- `BatchCacheStub.Commit` as the code does it: iterate the write cache in some order -/
def applyW (s : St) (m : Key → Val) (k : Key) : Key → Val :=
  match s.bw k with | some w => upd m k w.read | none => m

def commitVia (s : St) (order : List Key) : Key → Val :=
  order.foldl (applyW s) s.ledger

/-! ### the abstract view (the spec): one map -/

/-- what committed transactions of the batch have made of the ledger -/
def cview (s : St) (k : Key) : Val := match s.bw k with | some w => w.read | none => s.ledger k
/-- what the current transaction sees -/
def view (s : St) (k : Key) : Val := match s.tw k with | some w => w.read | none => cview s k

/-- spec state: committed map `c` and the current transaction's own writes `o` -/
structure Spec where
  c : Key → Val
  o : Key → Option W
  olog : List Key          -- keys the current transaction wrote (ghost, for the reported write list)

def Spec.t (m : Spec) (k : Key) : Val := match m.o k with | some w => w.read | none => m.c k

def specStep (m : Spec) : Op → Spec × Option Val
  | .tget k => (m, some (m.t k))
  | .tput k v => ({ m with o := upd m.o k (some (.put v)), olog := k :: m.olog }, none)
  | .tdel k => ({ m with o := upd m.o k (some .del), olog := k :: m.olog }, none)
  | .bget k => (m, some (m.c k))
  | .bput k v => ({ m with c := upd m.c k v }, none)
  | .bdel k => ({ m with c := upd m.c k "" }, none)

def specRun (m : Spec) : List Op → Spec × List (Option Val)
  | [] => (m, [])
  | op :: ops => let r := specStep m op; let r2 := specRun r.1 ops; (r2.1, r.2 :: r2.2)

def Spec.commit (m : Spec) : Spec := ⟨m.t, fun _ => none, []⟩
def Spec.discard (m : Spec) : Spec := ⟨m.c, fun _ => none, []⟩

/-- the write list a committing transaction reports, at the level of the spec -/
def Spec.writes (m : Spec) : List (Key × W) :=
  (sortKeys m.olog).filterMap (fun k => (m.o k).map (fun w => (k, w)))

/-- abstraction map -/
def abs (s : St) : Spec := ⟨cview s, s.tw, s.twLog⟩

/-- a transaction (or a stretch of batch-level bookkeeping): its stub calls and whether the tx
    layer is committed (method returned nil) or dropped -/
structure Tx where
  ops : List Op
  commit : Bool

def runTx (s : St) (t : Tx) : St × List (Option Val) :=
  let r := run s t.ops
  (if t.commit then txCommit r.1 else txDiscard r.1, r.2)

def runTxs (s : St) : List Tx → St × List (List (Option Val))
  | [] => (s, [])
  | t :: ts => let r := runTx s t; let r2 := runTxs r.1 ts; (r2.1, r.2 :: r2.2)

def specTx (m : Spec) (t : Tx) : Spec × List (Option Val) :=
  let r := specRun m t.ops
  (if t.commit then r.1.commit else r.1.discard, r.2)

def specTxs (m : Spec) : List Tx → Spec × List (List (Option Val))
  | [] => (m, [])
  | t :: ts => let r := specTx m t; let r2 := specTxs r.1 ts; (r2.1, r.2 :: r2.2)

end Foundation.Cache
