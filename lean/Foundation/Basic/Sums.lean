/-! Sums of an `Int`-valued function over a duplicate-free ghost log of ids: the "only this entry
    changed" lemma used by every conservation proof. Core only. -/
namespace Foundation

variable {α : Type} [DecidableEq α]

def sumOver (l : List α) (f : α → Int) : Int := (l.map f).sum

theorem sumOver_nil (f : α → Int) : sumOver [] f = 0 := rfl

theorem sumOver_cons (x : α) (l : List α) (f : α → Int) :
    sumOver (x :: l) f = f x + sumOver l f := by
  simp [sumOver]

theorem sumOver_congr (l : List α) (f g : α → Int) (h : ∀ k ∈ l, f k = g k) :
    sumOver l g = sumOver l f := by
  unfold sumOver
  rw [List.map_congr_left (fun k hk => (h k hk).symm)]

/-- only entry `id` changed -/
theorem sumOver_change (l : List α) (f g : α → Int) (id : α)
    (h : ∀ k, k ≠ id → f k = g k) (hn : l.Nodup) (hm : id ∈ l) :
    sumOver l g = sumOver l f - f id + g id := by
  induction l with
  | nil => simp at hm
  | cons x xs ih =>
    rw [sumOver_cons, sumOver_cons]
    have hnx := (List.nodup_cons.mp hn)
    by_cases hx : x = id
    · subst hx
      have : sumOver xs g = sumOver xs f := by
        apply sumOver_congr
        intro k hk
        have : k ≠ x := by intro e; subst e; exact hnx.1 hk
        exact h k this
      rw [this]; omega
    · have hm' : id ∈ xs := by
        rcases List.mem_cons.mp hm with e | e
        · exact absurd e.symm hx
        · exact e
      rw [ih hnx.2 hm', h x hx]; omega

/-- a new id is appended to the log and nothing else changes -/
theorem sumOver_new (l : List α) (f g : α → Int) (id : α)
    (h : ∀ k, k ≠ id → f k = g k) (hm : id ∉ l) :
    sumOver (id :: l) g = sumOver l f + g id := by
  rw [sumOver_cons]
  have : sumOver l g = sumOver l f := by
    apply sumOver_congr
    intro k hk
    have : k ≠ id := by intro e; subst e; exact hm hk
    exact h k this
  rw [this]; omega

theorem sumOver_nonneg (l : List α) (f : α → Int) (h : ∀ k ∈ l, 0 ≤ f k) : 0 ≤ sumOver l f := by
  induction l with
  | nil => simp [sumOver]
  | cons x xs ih =>
    rw [sumOver_cons]
    have := h x (by simp)
    have := ih (fun k hk => h k (List.mem_cons_of_mem _ hk))
    omega


/-- add an id to a duplicate-free log unless it is there already -/
def touch (l : List α) (k : α) : List α := if k ∈ l then l else k :: l

theorem touch_nodup (l : List α) (k : α) (h : l.Nodup) : (touch l k).Nodup := by
  unfold touch
  split
  · exact h
  · rename_i hk; exact List.nodup_cons.mpr ⟨hk, h⟩

theorem mem_touch (l : List α) (k x : α) : x ∈ touch l k ↔ x = k ∨ x ∈ l := by
  unfold touch
  split
  · rename_i hk
    constructor
    · intro h; exact Or.inr h
    · rintro (h | h)
      · subst h; exact hk
      · exact h
  · simp

/-- only entry `id` changed, and `id` is (now) in the log -/
theorem sumOver_touch_change (l : List α) (f g : α → Int) (id : α)
    (h : ∀ k, k ≠ id → f k = g k) (hn : l.Nodup) (hz : id ∉ l → f id = 0) :
    sumOver (touch l id) g = sumOver l f - f id + g id := by
  unfold touch
  by_cases hk : id ∈ l
  · simp only [hk, if_true]; exact sumOver_change l f g id h hn hk
  · simp only [hk, if_false]
    rw [sumOver_new l f g id h hk, hz hk]; omega

end Foundation
