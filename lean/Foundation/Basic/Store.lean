/-! Function-valued stores with point update, used by all ledger models. -/
namespace Foundation

abbrev Key := String
/-- A stored value; `""` is "absent" (Fabric: an empty value is a delete; nil = empty). -/
abbrev Val := String

def upd {α β} [DecidableEq α] (f : α → β) (k : α) (b : β) : α → β :=
  fun k' => if k' = k then b else f k'

@[simp] theorem upd_same {α β} [DecidableEq α] (f : α → β) (k : α) (b : β) : upd f k b k = b := by
  simp [upd]

theorem upd_other {α β} [DecidableEq α] (f : α → β) (k k' : α) (b : β) (h : k' ≠ k) :
    upd f k b k' = f k' := by
  simp [upd, h]

theorem upd_apply {α β} [DecidableEq α] (f : α → β) (k k' : α) (b : β) :
    upd f k b k' = if k' = k then b else f k' := rfl

end Foundation
