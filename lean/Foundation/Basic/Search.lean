/-! Go's sort.Search transcribed, and its contract. -/
namespace GoSort

/-- `for i < j { h := (i+j)/2; if !f(h) { i = h+1 } else { j = h } }; return i` -/
def go (f : Nat → Bool) (i j fuel : Nat) : Nat :=
  match fuel with
  | 0 => i
  | fuel+1 =>
    if i < j then
      let h := (i + j) / 2
      if !f h then go f (h+1) j fuel else go f i h fuel
    else i

def search (n : Nat) (f : Nat → Bool) : Nat := go f 0 n n

/-- monotone predicate on [0,n): once true stays true -/
def Mono (n : Nat) (f : Nat → Bool) : Prop := ∀ a b, a ≤ b → b < n → f a = true → f b = true

theorem go_spec (f : Nat → Bool) (n : Nat) (hm : Mono n f) :
    ∀ fuel i j, i ≤ j → j ≤ n → j - i ≤ fuel →
      (∀ k, k < i → f k = false) → (∀ k, j ≤ k → k < n → f k = true) →
      let r := go f i j fuel
      i ≤ r ∧ r ≤ j ∧ (∀ k, k < r → f k = false) ∧ (∀ k, r ≤ k → k < n → f k = true) := by
  intro fuel
  induction fuel with
  | zero =>
    intro i j hij hjn hfuel hlo hhi
    have : i = j := by omega
    subst this
    simp [go]
    exact ⟨hlo, hhi⟩
  | succ fuel ih =>
    intro i j hij hjn hfuel hlo hhi
    unfold go
    by_cases hlt : i < j
    · simp only [hlt, if_true]
      by_cases hf : f ((i + j) / 2) = true
      · simp only [hf, Bool.not_true, Bool.false_eq_true, if_false]
        have hh : (i + j) / 2 < j := by omega
        have := ih i ((i+j)/2) (by omega) (by omega) (by omega) hlo (by
          intro k hk hkn
          exact hm _ _ hk hkn hf)
        obtain ⟨a, b, c, d⟩ := this
        exact ⟨a, by omega, c, d⟩
      · have hf' : f ((i + j) / 2) = false := by simpa using hf
        simp only [hf', Bool.not_false, if_true]
        have := ih ((i+j)/2 + 1) j (by omega) hjn (by omega) (by
          intro k hk
          by_cases hk2 : f k = true
          · have : f ((i+j)/2) = true := hm k _ (by omega) (by omega) hk2
            simp [this] at hf'
          · simpa using hk2) hhi
        obtain ⟨a, b, c, d⟩ := this
        exact ⟨by omega, b, c, d⟩
    · simp only [hlt, if_false]
      have : i = j := by omega
      subst this
      exact ⟨Nat.le_refl _, Nat.le_refl _, hlo, hhi⟩

/-- Contract of sort.Search for monotone predicates. -/
theorem search_spec (n : Nat) (f : Nat → Bool) (hm : Mono n f) :
    search n f ≤ n ∧ (∀ k, k < search n f → f k = false) ∧ (∀ k, search n f ≤ k → k < n → f k = true) := by
  have := go_spec f n hm n 0 n (Nat.zero_le _) (Nat.le_refl _) (by omega)
    (by intro k hk; omega) (by intro k hk hkn; omega)
  obtain ⟨_, b, c, d⟩ := this
  exact ⟨b, c, d⟩
end GoSort
