import Foundation.Proofs.C04
/-!
# C05 — pending transactions: deferred, executed at most once, always consumed

Built on the batch model of C04. A submission (`BatchHandler` → `saveToBatch`) is a direct ledger
write of one key; execution is `txProg`/`batchProg`. The statements are about the serial (plain
map) semantics, which `batch_refines_serial` shows to be what the cache computes.
-/
namespace Foundation.Batch
open Foundation.Cache

/-- `BatchHandler`: after authentication and argument pre-validation (`accepted`), record the
    request under the pending key of its transaction id; otherwise nothing -/
def submit (ledger : Key → Val) (id : String) (record : Val) (accepted : Bool) : Key → Val :=
  if accepted then upd ledger (pendKey id) record else ledger

/-- `submit_only_records`: a successful submission changes exactly one ledger key (no balance, no
    other key); a refused one changes nothing. The method's body is not run at all. -/
theorem submit_only_records (ledger : Key → Val) (id : String) (record : Val) :
    (∀ k, k ≠ pendKey id → submit ledger id record true k = ledger k) ∧
    submit ledger id record true (pendKey id) = record ∧
    submit ledger id record false = ledger := by
  refine ⟨?_, by simp [submit], by simp [submit]⟩
  intro k hk; simp [submit, upd_other _ _ _ _ hk]

/-- no stored method body writes a bookkeeping key -/
def Clean (decode : Val → Option Pending) : Prop :=
  ∀ v p, decode v = some p → ∀ st ∈ p.script, ∀ id, writesKey (pendKey id) st = false

/-- "id is not pending and no transaction is open" -/
def Consumed (m : Spec) (id : String) : Prop := m.c (pendKey id) = "" ∧ m.o = fun _ => none

theorem pendKey_inj (a b : String) (h : pendKey a = pendKey b) : a = b := by
  unfold pendKey at h
  exact (String.append_right_inj "P:").mp h

/-- running the turn of any id (the same or another) keeps a consumed id consumed -/
theorem turn_keeps_consumed (decode : Val → Option Pending) (known : String → Bool) (hc : Clean decode)
    (m : Spec) (id id' : String) (h : Consumed m id) :
    Consumed (runSpec m (txProg decode known id')).1 id := by
  obtain ⟨h1, h2⟩ := h
  unfold txProg
  simp only [runSpec, specStep]
  by_cases hp : m.c (pendKey id') = ""
  · simp only [Option.getD_some, hp, if_true, runSpec]; exact ⟨h1, h2⟩
  · simp only [Option.getD_some, hp, if_false, runSpec, specStep]
    have hne : pendKey id ≠ pendKey id' := by
      intro e; rw [e] at h1; exact hp h1
    have hupd : upd m.c (pendKey id') "" (pendKey id) = "" := by rw [upd_other _ _ _ _ hne]; exact h1
    cases hd : decode (m.c (pendKey id')) with
    | none => simp only [runSpec]; exact ⟨hupd, h2⟩
    | some p =>
      simp only
      by_cases hk : known p.method = true
      · simp only [hk, Bool.not_true, Bool.false_eq_true, if_false, runSpec_bind]
        have hb := body_keeps_committed p.script ⟨[], [], []⟩ { m with c := upd m.c (pendKey id') "" }
        have hv := body_view_untouched (pendKey id) p.script (fun st hst => hc _ p hd st hst id) ⟨[], [], []⟩
          { m with c := upd m.c (pendKey id') "" }
        cases hres : (runSpec { m with c := upd m.c (pendKey id') "" } (body p.script ⟨[], [], []⟩)).2 with
        | ok o =>
          simp only [finish, runSpec, Spec.commit]
          refine ⟨?_, by trivial⟩
          show (runSpec { m with c := upd m.c (pendKey id') "" } (body p.script ⟨[], [], []⟩)).1.t (pendKey id) = ""
          rw [hv]; simp [Spec.t, h2, hupd]
        | failed acct =>
          simp only [finish, runSpec, Spec.discard]
          exact ⟨by rw [hb]; exact hupd, by trivial⟩
        | panicked =>
          simp only [finish, runSpec, Spec.discard]
          exact ⟨by rw [hb]; exact hupd, by trivial⟩
      · simp only [hk, Bool.not_false, if_true, runSpec]; exact ⟨hupd, h2⟩

/-- a whole batch keeps a consumed id consumed -/
theorem batch_keeps_consumed (decode : Val → Option Pending) (known : String → Bool) (hc : Clean decode)
    (ids : List String) : ∀ (m : Spec) (id : String), Consumed m id →
    Consumed (runSpec m (batchProg decode known ids)).1 id := by
  induction ids with
  | nil => intro m id h; exact h
  | cons x xs ih =>
    intro m id h
    simp only [batchProg, runSpec_bind, runSpec]
    exact ih _ id (turn_keeps_consumed decode known hc m id x h)

/-- the turn of a consumed id runs no body: it answers "not found" and changes nothing -/
theorem consumed_turn_is_noop (decode : Val → Option Pending) (known : String → Bool) (m : Spec) (id : String)
    (h : Consumed m id) : runSpec m (txProg decode known id) = (m, .err "notfound") :=
  unknown_id_local decode known m id h.1

/-- `always_consumed` + `executed_at_most_once`: after the turn of a listed id (whatever its
    transaction did) the id is consumed, stays consumed through the rest of the batch and through
    every later batch, and every further listing of it — duplicates in the same batch, re-listing
    later — runs nothing and reports "not found" for that id only. (Fresh submissions never reuse a
    transaction id: Fabric.) -/
theorem executed_at_most_once (decode : Val → Option Pending) (known : String → Bool) (hc : Clean decode)
    (m : Spec) (hm : m.o = fun _ => none) (id : String) (later : List String) :
    let m1 := (runSpec m (txProg decode known id)).1
    Consumed m1 id ∧
    Consumed (runSpec m1 (batchProg decode known later)).1 id ∧
    runSpec (runSpec m1 (batchProg decode known later)).1 (txProg decode known id) =
      ((runSpec m1 (batchProg decode known later)).1, .err "notfound") := by
  intro m1
  have h1 : Consumed m1 id := by
    refine ⟨listed_id_consumed decode known m id hm (fun p hp st hst => hc _ p hp st hst id), ?_⟩
    -- the overlay is empty after every turn
    unfold m1 txProg
    simp only [runSpec, specStep]
    by_cases hp : m.c (pendKey id) = ""
    · simp [hp, runSpec, hm]
    · simp only [Option.getD_some, hp, if_false, runSpec, specStep]
      cases hd : decode (m.c (pendKey id)) with
      | none => simp [runSpec, hm]
      | some p =>
        simp only
        by_cases hk : known p.method = true
        · simp only [hk, Bool.not_true, Bool.false_eq_true, if_false, runSpec_bind]
          cases hres : (runSpec { m with c := upd m.c (pendKey id) "" } (body p.script ⟨[], [], []⟩)).2 <;>
            simp [finish, runSpec, Spec.commit, Spec.discard]
        · simp [hk, runSpec, hm]
  have h2 := batch_keeps_consumed decode known hc later m1 id h1
  exact ⟨h1, h2, consumed_turn_is_noop decode known _ id h2⟩

/-- `unknown_id_local`: an unknown id produces an error entry for that id and the rest of the batch
    is exactly what it is without it. -/
theorem unknown_id_is_local (decode : Val → Option Pending) (known : String → Bool) (m : Spec)
    (id : String) (rest : List String) (h : m.c (pendKey id) = "") :
    runSpec m (batchProg decode known (id :: rest)) =
      ((runSpec m (batchProg decode known rest)).1, .err "notfound" :: (runSpec m (batchProg decode known rest)).2) := by
  simp only [batchProg, runSpec_bind, runSpec, unknown_id_local decode known m id h]

end Foundation.Batch
