import Foundation.Model.Panic
import Foundation.Gen.Facts
/-!
# C14 — faults are contained

Property theorems only. The skeleton of the *current* source (goroutine starts, deferred recovers,
item loops, deliberate exits) is re-extracted on every run (`Gen/Facts.lean`); `facts_panic_skeleton`
is the per-run obligation, the other theorems hold for every skeleton.

Partial by nature (stated in the evidence): the theorems speak about Go panics only. Stack
exhaustion, out-of-memory, `fatal error: concurrent map writes` and deadlock are runtime
behaviours no skeleton exhibits; and `Init` has no recover of its own, so for `Init` the claim
rests on the enumeration of inputs by the harness, not on a theorem (`contained_partial`).
-/
namespace Foundation.Panic

/-- `contained_sound`: if every goroutine of a skeleton has a recovering frame, no panic below any
    of them kills the process. -/
theorem contained_sound (gs : List Goroutine) (h : contained gs = true) :
    ∀ g ∈ gs, outcome g ≠ .dead := by
  intro g hg
  have hany : g.frames.any (·.recovers) = true := by
    simp only [contained, List.all_eq_true] at h
    exact h g hg
  have key : ∀ (l : List Frame), l.any (·.recovers) = true → unwind l ≠ .dead := by
    intro l
    induction l with
    | nil => simp
    | cons f fs ih =>
      intro hl
      unfold unwind
      by_cases hf : f.recovers = true
      · simp [hf]
      · simp only [hf, Bool.false_eq_true, if_false]
        apply ih
        simpa [hf] using hl
  unfold outcome
  apply key
  simpa using hany

/-- the panic is stopped by the *innermost* recovering frame (so an item-level recover wins over
    `Invoke`'s, and the loop goes on) -/
theorem innermost_recover_wins (inner : Frame) (outer : List Frame) (h : inner.recovers = true) :
    unwind (inner :: outer) = .replied inner.name := by
  simp [unwind, h]

/-- without any recovering frame the process dies: the structural test is also necessary -/
theorem uncontained_dies (g : Goroutine) (h : g.frames.any (·.recovers) = false) : outcome g = .dead := by
  have key : ∀ (l : List Frame), l.any (·.recovers) = false → unwind l = .dead := by
    intro l
    induction l with
    | nil => intro _; rfl
    | cons f fs ih =>
      intro hl
      simp only [List.any_cons, Bool.or_eq_false_iff] at hl
      simp [unwind, hl.1, ih hl.2]
  unfold outcome
  apply key
  simpa using h

/-- `item_scoped_sound`: with a recover per item the loop always completes, returns exactly one
    entry per item in order, every non-panicking item has the result it has alone, and a panicking
    item has the error entry — for every list of items, any number of panics anywhere. -/
theorem item_scoped_sound (msg : String) (items : List Item) :
    runItems true msg items = some (items.map (runItem msg)) := by
  induction items with
  | nil => rfl
  | cons it rest ih => simp [runItems, ih]

/-- a panicking item does not change any other item's entry -/
theorem panic_is_local (msg : String) (pre post : List Item) :
    runItems true msg (pre ++ [Item.panics] ++ post) =
      some (pre.map (runItem msg) ++ [Res.err msg] ++ post.map (runItem msg)) := by
  rw [item_scoped_sound]; simp [runItem]

/-- without the per-item recover one panicking item loses the whole request (the defect fixed by
    634d028 on the task route; kept as the reason why the scope matters) -/
theorem unscoped_panic_loses_all (msg : String) (pre post : List Item) :
    runItems false msg (pre ++ [Item.panics] ++ post) = none := by
  induction pre with
  | nil => simp [runItems]
  | cons a as ih =>
    simp only [List.cons_append, runItems]
    by_cases h : a = Item.panics
    · simp [h]
    · simp only [List.append_assoc, List.singleton_append] at ih
      simp [h, ih]

/-! ### the skeleton of the current source -/

/-- goroutines of the library as extracted: the shim's `Invoke` root and every `go` statement -/
def skeletonOf (invokeRecovers : Bool) (goStmts bare : List String) : List Goroutine :=
  ⟨"Invoke", [⟨"Chaincode.Invoke", invokeRecovers⟩]⟩ ::
    goStmts.map (fun s => ⟨s, [⟨s, !bare.contains s⟩]⟩)

/-- per-run obligations: (a) `Invoke` defers its recover before anything that can panic (index 2:
    after the default reply and the logger), (b) every `go` statement of the library starts a
    function that defers a recover, (c) each item loop calls a function with a deferred recover —
    exactly the seven scopes the model assumes, at the positions it assumes, (d) the library never
    ends the process on purpose. -/
theorem facts_panic_skeleton :
    Foundation.Facts.recoverFns =
      ["core.Chaincode.Invoke@2", "core.Chaincode.batchedTxExecute@11", "core.TaskExecutor.ExecuteTask@3",
       "core/multiswap.Answer@1", "core/multiswap.RobotDone@1", "core/swap.Answer@1", "core/swap.RobotDone@1"] ∧
    Foundation.Facts.goStmts = ["core/predict_acl_invoke.go:predictACLCalls:1"] ∧
    Foundation.Facts.goStmtsWithoutRecover = [] ∧
    Foundation.Facts.itemLoops =
      ["ExecuteTasks>ExecuteTask", "batchExecute>Answer", "batchExecute>RobotDone", "batchExecute>batchedTxExecute"] ∧
    Foundation.Facts.exitCalls = [] := by
  decide

/-- `contained_partial`: for the current source every goroutine root except `Init` is contained
    (`Init` has no recover; it is covered by input enumeration only). -/
theorem contained_partial :
    contained (skeletonOf true Foundation.Facts.goStmts Foundation.Facts.goStmtsWithoutRecover) = true := by
  decide

theorem current_source_not_dead : ∀ g ∈ skeletonOf true Foundation.Facts.goStmts Foundation.Facts.goStmtsWithoutRecover, outcome g ≠ .dead :=
  contained_sound _ contained_partial

/-! ### non-vacuity -/
example : outcome ⟨"go", [⟨"predictACLCalls.func1", false⟩]⟩ = .dead := by decide
example : outcome ⟨"Invoke", [⟨"Invoke", true⟩, ⟨"batchExecute", false⟩, ⟨"batchedTxExecute", true⟩]⟩ = .replied "batchedTxExecute" := by decide
example : runItems true "panic" [.ok "a", .panics, .fails "x"] = some [.ok "a", .err "panic", .err "x"] := by decide
example : runItems false "panic" [.ok "a", .panics, .fails "x"] = none := by decide

end Foundation.Panic
