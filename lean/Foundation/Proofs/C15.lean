import Foundation.Model.QueryStub
import Foundation.Model.Dispatch
import Foundation.Gen.Facts
/-!
# C15 — queries are read-only
-/
namespace Foundation.QueryStub

/-- a stub call changes the effects only if its method is one of the eight mutating methods -/
theorem rawApply_changes_only_mutating (e : Eff) (op : StubOp) (h : mutatingNames.contains op.name = false) :
    rawApply e op = e := by
  cases op <;> simp [mutatingNames, StubOp.name] at h ⊢ <;> rfl

/-- `query_stub_inert`: if every mutating method is overridden by a no-op then, for every body
    (any list of stub calls, any arguments), running it through `queryStub` leaves writes, event,
    validation parameters and private data exactly as they were. -/
theorem query_stub_inert (overrides : List String) (hcov : ∀ n ∈ mutatingNames, n ∈ overrides)
    (body : List StubOp) (e : Eff) : runBody overrides body e = e := by
  unfold runBody
  induction body generalizing e with
  | nil => rfl
  | cons op ops ih =>
    simp only [List.foldl_cons]
    have : queryApply overrides e op = e := by
      unfold queryApply
      split
      · rfl
      · rename_i ho
        apply rawApply_changes_only_mutating
        cases hm : mutatingNames.contains op.name with
        | false => rfl
        | true =>
          have := hcov op.name (by simpa using hm)
          exact absurd (by simpa using this) ho
    rw [this]; exact ih e

/-- an un-wrapped body can write: the wrapper is what makes queries read-only (non-vacuity of the
    protection) -/
theorem raw_stub_not_inert : runBody [] [.putState "k" "v"] Eff.empty ≠ Eff.empty := by decide

/-- `query_readonly` for the current source: the overrides extracted from `core/query_stub.go` this
    run cover every mutating method, so every query body is inert. -/
theorem query_readonly (body : List StubOp) (e : Eff) :
    runBody Foundation.Facts.queryStubInertOverrides body e = e :=
  query_stub_inert _ (by decide) body e

/-- per-run obligations: (a) every method of the shim's stub interface that looks like a mutator is
    one of the eight known ones (a new mutator in the interface is flagged), (b) the wrapper is
    installed exactly in the two handlers that can run a query. -/
theorem facts_query_stub :
    (Foundation.Facts.stubInterfaceMethods.filter looksMutating).all (mutatingNames.contains ·) = true ∧
    Foundation.Facts.queryStubWrapSites = ["ExecuteTask", "noBatchHandler"] ∧
    Foundation.Facts.noBatchWrapBeforeAuth = 1 := by
  decide

end Foundation.QueryStub

namespace Foundation.Dispatch

/-- `query_route_wrapped` (direct call): whenever `Invoke` reaches the body of a query method it
    hands it the read-only stub. -/
theorem query_direct_wrapped (c : Config) (ms : List Method) (cr : Creator) (fn : String) (m : Method) (ro : Bool)
    (h : invoke (some c) ms cr fn = .reach (.method m ro)) (hq : m.kind = .query) : ro = true := by
  cases cr with
  | none => cases h
  | garbage => cases h
  | cert ski hash ous =>
    unfold invoke at h
    simp only at h
    by_cases h1 : fn = "createIndex"
    · simp [h1] at h
    simp only [h1, if_false] at h
    by_cases h2 : fn = "batchExecute"
    · simp only [h2, if_true] at h; split at h <;> cases h
    simp only [h2, if_false] at h
    by_cases h3 : fn = "swapDone"
    · simp only [h3, if_true] at h; split at h <;> cases h
    simp only [h3, if_false] at h
    by_cases h4 : fn = "multiSwapDone"
    · simp only [h4, if_true] at h; split at h <;> cases h
    simp only [h4, if_false] at h
    split at h
    · cases h
    by_cases h5 : fn = "executeTasks"
    · simp [h5] at h
    simp only [h5, if_false] at h
    cases hl : lookup ms fn with
    | none => simp [hl] at h
    | some m' =>
      simp only [hl] at h
      by_cases hd : isMethodDisabled c m'.name = true
      · simp [hd] at h
      · simp only [hd, Bool.false_eq_true, if_false] at h
        cases hk : m'.kind <;> simp only [hk] at h <;> injection h with h
        · cases h
        · injection h with ha hb; subst ha; rw [hq] at hk; cases hk
        · injection h with ha hb; exact hb.symm

/-- `query_route_wrapped` (task execution) -/
theorem query_task_wrapped (c : Config) (ms : List Method) (fn : String) (m : Method) (ro : Bool)
    (h : task c ms fn = .reach (.method m ro)) (hq : m.kind = .query) : ro = true := by
  unfold task at h
  cases hl : lookup ms fn with
  | none => simp [hl] at h
  | some m' =>
    simp only [hl] at h
    by_cases hd : isMethodDisabled c m'.name = true
    · simp [hd] at h
    · simp only [hd, Bool.false_eq_true, if_false] at h
      split at h
      · cases h
      · injection h with h
        injection h with ha hb
        subst ha
        rw [← hb]; simp [hq]

end Foundation.Dispatch
