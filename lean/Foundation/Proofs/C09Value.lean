import Foundation.Proofs.C09
/-!
# C09 (continued) — per asset group conservation over both channels

"per asset group the same conservation as for single swaps holds over both channels": for every
owner `u` and group `g`, what `u` can spend of `g` on the origin plus what was credited on the
destination plus what the origin still holds in escrow for swaps not yet released is constant —
under the documented order (`allowed`) and for asset lists that name every group at most once
(a repeated group is the known finding `dup_group_direct`, proved false of the code in `C09.lean`).
-/
namespace Foundation.MultiSwap

/-- groups of an asset list -/
def groupsOf (as : List Asset) : List String := as.map (·.1)

theorem groupTotal_cons (g g0 : String) (a0 : Int) (rest : List Asset) :
    groupTotal g ((g0, a0) :: rest) = (if g0 = g then a0 else 0) + groupTotal g rest := by
  unfold groupTotal
  by_cases h : g0 = g
  · simp [List.filter_cons, h]
  · simp [List.filter_cons, h]

theorem groupTotal_absent (g : String) (as : List Asset) (h : g ∉ groupsOf as) : groupTotal g as = 0 := by
  induction as with
  | nil => simp [groupTotal]
  | cons x rest ih =>
    obtain ⟨g0, a0⟩ := x
    rw [groupTotal_cons]
    simp only [groupsOf, List.map_cons, List.mem_cons, not_or] at h
    have h0 : ¬ g0 = g := fun e => h.1 e.symm
    simp only [h0, if_false]
    have := ih (by simpa [groupsOf] using h.2)
    omega

theorem groupTotal_nonneg (g : String) (as : List Asset) (h : ∀ ga ∈ as, 0 ≤ ga.2) : 0 ≤ groupTotal g as := by
  induction as with
  | nil => simp [groupTotal]
  | cons x rest ih =>
    obtain ⟨g0, a0⟩ := x
    rw [groupTotal_cons]
    have h1 : 0 ≤ a0 := h (g0, a0) (by simp)
    have h2 := ih (fun ga hga => h ga (List.mem_cons_of_mem _ hga))
    split <;> omega

/-- sequential credit through the cache = per-group totals, other users untouched -/
theorem creditAll_effect (as : List Asset) : ∀ (b : Bal) (u : String),
    (∀ g, creditAll b u as u g = b u g + groupTotal g as) ∧ (∀ v, v ≠ u → creditAll b u as v = b v) := by
  induction as with
  | nil => intro b u; simp [creditAll, groupTotal]
  | cons x rest ih =>
    obtain ⟨g0, a0⟩ := x
    intro b u
    simp only [creditAll]
    obtain ⟨h1, h2⟩ := ih (upd b u (upd (b u) g0 (b u g0 + a0))) u
    refine ⟨?_, ?_⟩
    · intro g
      rw [h1 g, groupTotal_cons]
      by_cases hg : g0 = g
      · subst hg; simp; omega
      · have : g ≠ g0 := fun e => hg e.symm
        simp [hg, upd_other _ _ _ _ this]
    · intro v hv; rw [h2 v hv]; simp [upd_other _ _ _ _ hv]

/-- credit on committed reads: when every group is listed once it equals the sequential credit -/
theorem creditCommitted_aux (b : Bal) (u : String) : ∀ (as : List Asset) (acc : Bal), (groupsOf as).Nodup →
    (∀ g, (as.foldl (fun acc ga => upd acc u (upd (acc u) ga.1 (b u ga.1 + ga.2))) acc) u g =
        if g ∈ groupsOf as then b u g + groupTotal g as else acc u g) ∧
    (∀ v, v ≠ u → (as.foldl (fun acc ga => upd acc u (upd (acc u) ga.1 (b u ga.1 + ga.2))) acc) v = acc v) := by
  intro as
  induction as with
  | nil => intro acc _; simp [groupsOf]
  | cons x rest ih =>
    obtain ⟨g0, a0⟩ := x
    intro acc hn
    simp only [groupsOf, List.map_cons, List.nodup_cons] at hn
    obtain ⟨hnot, hrest⟩ := hn
    simp only [List.foldl_cons]
    obtain ⟨h1, h2⟩ := ih (upd acc u (upd (acc u) g0 (b u g0 + a0))) hrest
    refine ⟨?_, ?_⟩
    · intro g
      rw [h1 g, groupTotal_cons]
      by_cases hg : g = g0
      · subst hg
        have hnr : g ∉ groupsOf rest := hnot
        have hin : g ∈ groupsOf ((g, a0) :: rest) := by simp [groupsOf]
        rw [if_neg hnr, if_pos hin, groupTotal_absent g rest hnr]; simp
      · have hg' : ¬ g0 = g := fun e => hg e.symm
        by_cases hm : g ∈ groupsOf rest
        · have hin : g ∈ groupsOf ((g0, a0) :: rest) := by
            simp only [groupsOf, List.map_cons, List.mem_cons]; exact Or.inr hm
          rw [if_pos hm, if_pos hin, if_neg hg']; omega
        · have hm2 : g ∉ groupsOf ((g0, a0) :: rest) := by
            simp only [groupsOf, List.map_cons, List.mem_cons, not_or]; exact ⟨hg, hm⟩
          simp only [hm, if_false, hm2, upd_same, upd_other _ _ _ _ hg]
    · intro v hv; rw [h2 v hv]; simp [upd_other _ _ _ _ hv]

theorem creditCommitted_effect (b : Bal) (u : String) (as : List Asset) (hn : (groupsOf as).Nodup) :
    (∀ g, creditCommitted b u as u g = b u g + groupTotal g as) ∧ (∀ v, v ≠ u → creditCommitted b u as v = b v) := by
  obtain ⟨h1, h2⟩ := creditCommitted_aux b u as b hn
  refine ⟨?_, h2⟩
  intro g
  unfold creditCommitted
  rw [h1 g]
  split
  · rfl
  · rename_i hm; rw [groupTotal_absent g as hm]; simp

/-- units of group `g` the origin still holds for `u` under swap `id` -/
def owedG (s : S) (u g : String) (id : String) : Int :=
  match s.recA id with
  | some r => if r.owner = u ∧ s.doneB id = false then groupTotal g r.assets else 0
  | none => 0

/-- protocol + the two restrictions of this theorem: a begin lists every group once and does not
    re-use the id of a swap that was already released -/
def allowedV (s : S) : Step → Bool
  | .begin id o as => decide ((groupsOf as).Nodup) && !s.doneB id
  | st => allowed s st

structure InvV (K : String → String → Int) (s : S) : Prop where
  nodup : s.log.Nodup
  logged : ∀ id, s.recA id ≠ none ∨ s.recB id ≠ none → id ∈ s.log
  paired : ∀ id rb, s.recB id = some rb → ∃ ra, s.recA id = some ra ∧ ra.owner = rb.owner ∧ ra.assets = rb.assets ∧
            s.doneB id = false ∧ s.answered id = true
  done : ∀ id, s.doneB id = true → s.answered id = true
  gaveUp : ∀ id, s.abandoned id = true → s.answered id = false
  shape : ∀ id r, s.recA id = some r → (groupsOf r.assets).Nodup ∧ ∀ ga ∈ r.assets, 0 ≤ ga.2
  value : ∀ u g, s.srcA u g + s.dstB u g + sumOver s.log (owedG s u g) = K u g

theorem owedG_nonneg (s : S) (u g id : String)
    (h : ∀ id r, s.recA id = some r → (groupsOf r.assets).Nodup ∧ ∀ ga ∈ r.assets, 0 ≤ ga.2) : 0 ≤ owedG s u g id := by
  unfold owedG
  split
  · rename_i r hr; split
    · exact groupTotal_nonneg g r.assets (h id r hr).2
    · omega
  · omega

theorem stepV (K : String → String → Int) (s s' : S) (st : Step) (hi : InvV K s)
    (ha : allowedV s st = true) (hs : step s st = some s') : InvV K s' := by
  have hval := hi.value
  cases st with
  | begin id o as =>
    simp only [allowedV, Bool.and_eq_true, decide_eq_true_eq, Bool.not_eq_true'] at ha
    obtain ⟨hnd, hd⟩ := ha
    simp only [step] at hs
    split at hs
    · cases hs
    · rename_i hg
      cases hdeb : debitAll s.srcA o as with
      | none => simp [hdeb] at hs
      | some b =>
        simp only [hdeb, Option.some.injEq] at hs; subst hs
        obtain ⟨e1, e2, e3⟩ := debitAll_effect as s.srcA b o hdeb
        have han : s.recA id = none := by
          cases hx : s.recA id with
          | none => rfl
          | some _ => exact absurd (Or.inl (by simp [hx])) hg
        have hbn : s.recB id = none := by
          cases hx : s.recB id with
          | none => rfl
          | some r =>
            obtain ⟨ra, hra, _⟩ := hi.paired id r hx
            rw [han] at hra; cases hra
        refine ⟨touch_nodup _ _ hi.nodup, ?_, ?_, hi.done, hi.gaveUp, ?_, ?_⟩
        · intro k hk
          rw [mem_touch]
          by_cases hkid : k = id
          · exact Or.inl hkid
          · right; apply hi.logged k; simp only [upd_other _ _ _ _ hkid] at hk; exact hk
        · intro k rb hk
          simp only at hk ⊢
          by_cases hkid : k = id
          · subst hkid; rw [hbn] at hk; cases hk
          · simp only [upd_other _ _ _ _ hkid]; exact hi.paired k rb hk
        · intro k r hk
          simp only at hk
          by_cases hkid : k = id
          · subst hkid; simp only [upd_same, Option.some.injEq] at hk; subst hk; exact ⟨hnd, e3⟩
          · simp only [upd_other _ _ _ _ hkid] at hk; exact hi.shape k r hk
        · intro v g
          rw [sumOver_touch_change s.log (owedG s v g) _ id
            (by intro k hk; simp [owedG, upd_other _ _ _ _ hk]) hi.nodup (by intro _; simp [owedG, han])]
          have h0 : owedG s v g id = 0 := by simp [owedG, han]
          rw [h0]
          have := hval v g
          by_cases hv : v = o
          · subst hv; simp [owedG, hd, e1 g]; omega
          · have hov : ¬ o = v := fun e => hv e.symm
            simp [owedG, hov, e2 v hv]; omega
  | answer id o as =>
    simp only [step] at hs
    split at hs
    · cases hs
    · injection hs with hs; subst hs
      simp only [allowedV, allowed, Bool.and_eq_true, Bool.not_eq_true'] at ha
      obtain ⟨⟨hra, hna⟩, hnab⟩ := ha
      cases hxa : s.recA id with
      | none => simp [hxa] at hra
      | some ra =>
        simp only [hxa, Bool.and_eq_true, decide_eq_true_eq] at hra
        obtain ⟨ho, has⟩ := hra
        have hd : s.doneB id = false := by
          cases hx : s.doneB id with
          | false => rfl
          | true => have := hi.done id hx; rw [hna] at this; cases this
        have hmem : id ∈ s.log := hi.logged id (Or.inl (by simp [hxa]))
        have htouch : touch s.log id = s.log := by simp [touch, hmem]
        refine ⟨by rw [htouch]; exact hi.nodup, ?_, ?_, ?_, ?_, hi.shape, ?_⟩
        · intro k hk
          rw [htouch]
          by_cases hkid : k = id
          · subst hkid; exact hmem
          · apply hi.logged k; simp only [upd_other _ _ _ _ hkid] at hk; exact hk
        · intro k rb hk
          simp only at hk ⊢
          by_cases hkid : k = id
          · subst hkid; simp only [upd_same, Option.some.injEq] at hk; subst hk
            exact ⟨ra, hxa, ho, has, hd, by simp⟩
          · simp only [upd_other _ _ _ _ hkid] at hk
            obtain ⟨ra', p1, p2, p3, p4, p5⟩ := hi.paired k rb hk
            exact ⟨ra', p1, p2, p3, p4, by simp only [upd_other _ _ _ _ hkid]; exact p5⟩
        · intro k hk
          simp only at hk ⊢
          by_cases hkid : k = id
          · subst hkid; simp
          · rw [upd_other _ _ _ _ hkid]; exact hi.done k hk
        · intro k hk
          simp only at hk ⊢
          by_cases hkid : k = id
          · subst hkid; rw [hnab] at hk; cases hk
          · rw [upd_other _ _ _ _ hkid]; exact hi.gaveUp k hk
        · intro v g
          show s.srcA v g + s.dstB v g + sumOver (touch s.log id) (owedG s v g) = K v g
          rw [htouch]; exact hval v g
  | userDone id k =>
    simp only [step] at hs
    split at hs
    · rename_i r hr
      split at hs
      · cases hs
      · injection hs with hs; subst hs
        obtain ⟨ra, hra, hown, hass, hd, hans⟩ := hi.paired id r hr
        have hmem : id ∈ s.log := hi.logged id (Or.inr (by simp [hr]))
        have hsh := hi.shape id ra hra
        obtain ⟨c1, c2⟩ := creditCommitted_effect s.dstB r.owner r.assets (by rw [← hass]; exact hsh.1)
        refine ⟨hi.nodup, ?_, ?_, ?_, hi.gaveUp, hi.shape, ?_⟩
        · intro k' hk
          by_cases hkid : k' = id
          · subst hkid; exact hmem
          · apply hi.logged k'; simp only [upd_other _ _ _ _ hkid] at hk; exact hk
        · intro k' rb hk
          simp only at hk ⊢
          by_cases hkid : k' = id
          · subst hkid; simp at hk
          · simp only [upd_other _ _ _ _ hkid] at hk ⊢; exact hi.paired k' rb hk
        · intro k' hk
          simp only at hk ⊢
          by_cases hkid : k' = id
          · subst hkid; exact hans
          · simp only [upd_other _ _ _ _ hkid] at hk; exact hi.done k' hk
        · intro v g
          rw [sumOver_change s.log (owedG s v g) _ id
            (by intro k' hk; simp [owedG, upd_other _ _ _ _ hk]) hi.nodup hmem]
          have := hval v g
          by_cases hv : v = r.owner
          · subst hv
            have hro : ra.owner = r.owner := hown
            simp [owedG, hra, hd, hro, c1 g, hass]; omega
          · have hne : ¬ ra.owner = v := by rw [hown]; exact fun e => hv e.symm
            simp [owedG, hra, hd, hne, c2 v hv]; omega
    · cases hs
  | robotDone id k =>
    simp only [step] at hs
    split at hs
    · rename_i r hr
      split at hs
      · cases hs
      · injection hs with hs; subst hs
        simp only [allowedV, allowed] at ha
        have hbn : s.recB id = none := by
          cases hx : s.recB id with
          | none => rfl
          | some rb =>
            obtain ⟨_, _, _, _, hdd, _⟩ := hi.paired id rb hx
            rw [ha] at hdd; cases hdd
        have hmem : id ∈ s.log := hi.logged id (Or.inl (by simp [hr]))
        refine ⟨hi.nodup, ?_, ?_, hi.done, hi.gaveUp, ?_, ?_⟩
        · intro k' hk
          by_cases hkid : k' = id
          · subst hkid; exact hmem
          · apply hi.logged k'; simp only [upd_other _ _ _ _ hkid] at hk; exact hk
        · intro k' rb hk
          simp only at hk ⊢
          by_cases hkid : k' = id
          · subst hkid; rw [hbn] at hk; cases hk
          · simp only [upd_other _ _ _ _ hkid]; exact hi.paired k' rb hk
        · intro k' r' hk
          simp only at hk
          by_cases hkid : k' = id
          · subst hkid; simp at hk
          · simp only [upd_other _ _ _ _ hkid] at hk; exact hi.shape k' r' hk
        · intro v g
          rw [sumOver_change s.log (owedG s v g) _ id
            (by intro k' hk; simp [owedG, upd_other _ _ _ _ hk]) hi.nodup hmem]
          have := hval v g
          simp [owedG, hr, ha]; omega
    · cases hs
  | cancelA id sender =>
    simp only [step] at hs
    split at hs
    · rename_i r hr
      split at hs
      · cases hs
      · rename_i hguard
        injection hs with hs; subst hs
        simp only [allowedV, allowed] at ha
        have hna : s.answered id = false := hi.gaveUp id ha
        have hd : s.doneB id = false := by
          cases hx : s.doneB id with
          | false => rfl
          | true => have := hi.done id hx; rw [hna] at this; cases this
        have hbn : s.recB id = none := by
          cases hx : s.recB id with
          | none => rfl
          | some rb =>
            obtain ⟨_, _, _, _, _, hans⟩ := hi.paired id rb hx
            rw [hna] at hans; cases hans
        have hmem : id ∈ s.log := hi.logged id (Or.inl (by simp [hr]))
        obtain ⟨c1, c2⟩ := creditAll_effect r.assets s.srcA r.owner
        refine ⟨hi.nodup, ?_, ?_, hi.done, hi.gaveUp, ?_, ?_⟩
        · intro k' hk
          by_cases hkid : k' = id
          · subst hkid; exact hmem
          · apply hi.logged k'; simp only [upd_other _ _ _ _ hkid] at hk; exact hk
        · intro k' rb hk
          simp only at hk ⊢
          by_cases hkid : k' = id
          · subst hkid; rw [hbn] at hk; cases hk
          · simp only [upd_other _ _ _ _ hkid]; exact hi.paired k' rb hk
        · intro k' r' hk
          simp only at hk
          by_cases hkid : k' = id
          · subst hkid; simp at hk
          · simp only [upd_other _ _ _ _ hkid] at hk; exact hi.shape k' r' hk
        · intro v g
          rw [sumOver_change s.log (owedG s v g) _ id
            (by intro k' hk; simp [owedG, upd_other _ _ _ _ hk]) hi.nodup hmem]
          have := hval v g
          by_cases hv : v = r.owner
          · subst hv; simp [owedG, hr, hd, c1 g]; omega
          · have hne : ¬ r.owner = v := fun e => hv e.symm
            simp [owedG, hr, hd, hne, c2 v hv]; omega
    · cases hs
  | cancelB id sender =>
    simp only [step] at hs
    split at hs
    · rename_i r hr
      split at hs
      · cases hs
      · injection hs with hs; subst hs
        refine ⟨hi.nodup, ?_, ?_, hi.done, hi.gaveUp, hi.shape, ?_⟩
        · intro k' hk
          by_cases hkid : k' = id
          · subst hkid; exact hi.logged k' (Or.inr (by simp [hr]))
          · apply hi.logged k'; simp only [upd_other _ _ _ _ hkid] at hk; exact hk
        · intro k' rb hk
          simp only at hk ⊢
          by_cases hkid : k' = id
          · subst hkid; simp at hk
          · simp only [upd_other _ _ _ _ hkid] at hk; exact hi.paired k' rb hk
        · intro v g
          show s.srcA v g + s.dstB v g + sumOver s.log (owedG s v g) = K v g
          exact hval v g
    · cases hs
  | tickA d =>
    simp only [step] at hs; injection hs with hs; subst hs
    exact ⟨hi.nodup, hi.logged, hi.paired, hi.done, hi.gaveUp, hi.shape, hval⟩
  | tickB d =>
    simp only [step] at hs; injection hs with hs; subst hs
    exact ⟨hi.nodup, hi.logged, hi.paired, hi.done, hi.gaveUp, hi.shape, hval⟩
  | abandon id =>
    simp only [step] at hs; injection hs with hs; subst hs
    simp only [allowedV, allowed, Bool.not_eq_true'] at ha
    refine ⟨hi.nodup, hi.logged, hi.paired, hi.done, ?_, hi.shape, hval⟩
    intro k hk; simp only at hk
    by_cases hkid : k = id
    · subst hkid; exact ha
    · rw [upd_other _ _ _ _ hkid] at hk; exact hi.gaveUp k hk

/-- schedules under the documented order, with every begin listing each group once under an id that
    was not released before; rejected attempts and stopping anywhere are included -/
inductive ReachableV (s0 : S) : S → Prop
  | base : ReachableV s0 s0
  | step (s s' : S) (st : Step) : ReachableV s0 s → allowedV s st = true → step s st = some s' → ReachableV s0 s'
  | rejected (s : S) (st : Step) : ReachableV s0 s → step s st = none → ReachableV s0 s

theorem invV_init (direct : Bool) (b : Bal) (g : Int) : InvV b (init direct b g) := by
  refine ⟨by simp [init], ?_, ?_, ?_, ?_, ?_, ?_⟩
  · intro id h; simp [init] at h
  · intro id rb h; simp [init] at h
  · intro id h; simp [init] at h
  · intro id h; simp [init] at h
  · intro id r h; simp [init] at h
  · intro u g'; simp [init, sumOver]

theorem reachableV_inv (direct : Bool) (b : Bal) (g : Int) (s : S) (h : ReachableV (init direct b g) s) : InvV b s := by
  induction h with
  | base => exact invV_init direct b g
  | step s s' st _ ha hs ih => exact stepV b s s' st ih ha hs
  | rejected s st _ _ ih => exact ih

/-- `group_value_conserved_partial`: for every owner and every asset group, at every point of every
    schedule: spendable on the origin + credited on the destination + still escrowed for unreleased
    swaps = what the owner started with. (Partial: groups listed once per swap; the repeated-group
    case is the proved counterexample `dup_group_direct_counterexample`.) -/
theorem group_value_conserved_partial (direct : Bool) (b : Bal) (g0 : Int) (s : S)
    (h : ReachableV (init direct b g0) s) (u g : String) :
    s.srcA u g + s.dstB u g + sumOver s.log (owedG s u g) = b u g :=
  (reachableV_inv direct b g0 s h).value u g

/-- `no_gain_partial`: consequently nobody's spendable total of a group over both channels ever
    exceeds what they started with -/
theorem no_gain_partial (direct : Bool) (b : Bal) (g0 : Int) (s : S)
    (h : ReachableV (init direct b g0) s) (u g : String) :
    s.srcA u g + s.dstB u g ≤ b u g := by
  have hi := reachableV_inv direct b g0 s h
  have h1 := hi.value u g
  have h2 : 0 ≤ sumOver s.log (owedG s u g) :=
    sumOver_nonneg _ _ (fun k _ => owedG_nonneg s u g k hi.shape)
  omega

/-- `released_in_full`: a destination completion credits the owner with exactly the listed amount
    of every group and nothing to anyone else -/
theorem released_in_full (s s' : S) (id : String) (r : Rec) (hr : s.recB id = some r)
    (hn : (groupsOf r.assets).Nodup) (hs : step s (.userDone id true) = some s') :
    (∀ g, s'.dstB r.owner g = s.dstB r.owner g + groupTotal g r.assets) ∧ (∀ v, v ≠ r.owner → s'.dstB v = s.dstB v) := by
  simp only [step, hr] at hs
  split at hs
  · cases hs
  · injection hs with hs; subst hs
    exact creditCommitted_effect s.dstB r.owner r.assets hn

/-- `refunded_in_full`: an accepted origin cancel gives back exactly what the begin took -/
theorem refunded_in_full (s s' : S) (id sender : String) (r : Rec) (hr : s.recA id = some r)
    (hs : step s (.cancelA id sender) = some s') :
    (∀ g, s'.srcA r.owner g = s.srcA r.owner g + groupTotal g r.assets) ∧ (∀ v, v ≠ r.owner → s'.srcA v = s.srcA v) := by
  simp only [step, hr] at hs
  split at hs
  · cases hs
  · injection hs with hs; subst hs
    exact creditAll_effect r.assets s.srcA r.owner

/-! non-vacuity: a two-group swap begun, answered and completed is reachable under `allowedV`, and
    the conserved quantity is visibly redistributed -/
def v0 : S := init true (fun u g => if u = "alice" then (if g = "g1" then 100 else if g = "g2" then 50 else 0) else 0) 0
def v1 : S := exec (exec (exec v0 (.begin "m1" "alice" [("g1", 60), ("g2", 50)])) (.answer "m1" "alice" [("g1", 60), ("g2", 50)]))
  (.userDone "m1" true)

example : v1.srcA "alice" "g1" = 40 ∧ v1.dstB "alice" "g1" = 60 ∧ v1.srcA "alice" "g2" = 0 ∧ v1.dstB "alice" "g2" = 50 := by decide

example : allowedV v0 (.begin "m1" "alice" [("g1", 60), ("g2", 50)]) = true ∧
    allowedV (exec v0 (.begin "m1" "alice" [("g1", 60), ("g2", 50)])) (.answer "m1" "alice" [("g1", 60), ("g2", 50)]) = true := by decide

end Foundation.MultiSwap
