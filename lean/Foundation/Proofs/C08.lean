import Foundation.Model.Swap
/-!
# C08 — a hash-locked swap releases escrowed funds exactly once
-/
namespace Foundation.Swap

/-! ## record life cycle and keys (code guards, all callers) -/

/-- `record_lifecycle` / `wrong_key_rejected`: completions and cancellations of an absent record
    are rejected; a wrong key is rejected on both sides; the origin-side record can never be
    "completed by the user"; a completed or cancelled record no longer exists. -/
theorem record_lifecycle (s : S) (id : String) :
    (s.recB id = none → ∀ k, step s (.userDone id k) = none) ∧ (s.recB id = none → step s (.cancelB id) = none) ∧
    (s.recA id = none → ∀ k, step s (.robotDone id k) = none) ∧ (s.recA id = none → step s (.cancelA id) = none) ∧
    step s (.userDone id false) = none ∧ step s (.robotDone id false) = none ∧
    (∀ k, step s (.userDoneA id k) = none) ∧
    ((s.recA id).isSome = true → ∀ o a, step s (.begin id o a) = none) := by
  refine ⟨?_, ?_, ?_, ?_, ?_, ?_, ?_, ?_⟩
  · intro h k; simp [step, h]
  · intro h; simp [step, h]
  · intro h k; simp [step, h]
  · intro h; simp [step, h]
  · simp only [step]; split <;> simp
  · simp only [step]; split <;> simp
  · intro k; rfl
  · intro h o a; simp [step, h]

theorem gone_after_release (s s' : S) (id : String) :
    (∀ k, step s (.userDone id k) = some s' → s'.recB id = none) ∧
    (step s (.cancelB id) = some s' → s'.recB id = none) ∧
    (∀ k, step s (.robotDone id k) = some s' → s'.recA id = none) ∧
    (step s (.cancelA id) = some s' → s'.recA id = none) := by
  refine ⟨?_, ?_, ?_, ?_⟩
  · intro k h; simp only [step] at h; split at h
    · split at h
      · cases h
      · injection h with h; subst h; simp
    · cases h
  · intro h; simp only [step] at h; split at h
    · injection h with h; subst h; simp
    · cases h
  · intro k h; simp only [step] at h; split at h
    · split at h
      · cases h
      · injection h with h; subst h; simp
    · cases h
  · intro h; simp only [step] at h; split at h
    · injection h with h; subst h; simp
    · cases h

/-- `done_publishes_key`: a successful user completion happened with the right key (which the
    implementation publishes in the "key" event: from, id, key) and credits exactly the record's
    owner by exactly its amount. -/
theorem done_with_right_key (s s' : S) (id : String) (k : Bool) (h : step s (.userDone id k) = some s') :
    k = true ∧ ∃ r, s.recB id = some r ∧ s'.dstB r.owner = s.dstB r.owner + r.amount ∧ s'.doneB id = true := by
  simp only [step] at h
  split at h
  · rename_i r hr
    split at h
    · cases h
    · rename_i hk
      injection h with h; subst h
      exact ⟨by simpa using hk, r, hr, by simp, by simp⟩
  · cases h

/-! ## the protocol invariant -/

structure Inv (K : String → Int) (s : S) : Prop where
  nodup : s.log.Nodup
  logged : ∀ id, s.recA id ≠ none ∨ s.recB id ≠ none → id ∈ s.log
  paired : ∀ id r, s.recB id = some r → s.recA id = some r ∧ s.doneB id = false ∧ s.cancelledB id = false ∧ s.answered id = true
  hist : ∀ id, s.doneB id = true ∨ s.cancelledB id = true → s.answered id = true
  excl : ∀ id, ¬ (s.doneB id = true ∧ s.cancelledB id = true)
  amt : ∀ id r, s.recA id = some r → 0 ≤ r.amount
  value : ∀ u, s.srcA u + s.dstB u + sumOver s.log (owed s u) = K u
  flow : s.credited = s.closed + sumOver s.log (unclosed s)

theorem owed_nonneg (s : S) (u id : String) (h : ∀ id r, s.recA id = some r → 0 ≤ r.amount) : 0 ≤ owed s u id := by
  unfold owed
  split
  · rename_i r hr; split
    · exact h id r hr
    · omega
  · omega

/-- one accepted step that respects the protocol preserves the invariant. For `begin` the id must
    be fresh in the sense that no completion or cancellation of an earlier swap under the same id is
    on record (transaction ids are unique; on the task route the caller picks the id — re-using a
    *finished* id is outside this theorem, re-using an *open* one is refused by the code). -/
theorem step_inv (K : String → Int) (s s' : S) (st : Step) (hi : Inv K s)
    (ha : allowed s st = true) (hs : step s st = some s')
    (hfresh : ∀ id o a, st = .begin id o a → s.doneB id = false ∧ s.cancelledB id = false) : Inv K s' := by
  have hval := hi.value
  have hflow := hi.flow
  cases st with
  | begin id o a =>
    obtain ⟨hd, hc⟩ := hfresh id o a rfl
    simp only [step] at hs
    split at hs
    · cases hs
    · rename_i hg
      injection hs with hs; subst hs
      have han : s.recA id = none := by
        cases hx : s.recA id with
        | none => rfl
        | some _ => exact absurd (Or.inl (by simp [hx])) hg
      have hbn : s.recB id = none := by
        cases hx : s.recB id with
        | none => rfl
        | some r => have := (hi.paired id r hx).1; rw [han] at this; cases this
      refine ⟨touch_nodup _ _ hi.nodup, ?_, ?_, hi.hist, hi.excl, ?_, ?_, ?_⟩
      · intro k hk
        rw [mem_touch]
        by_cases hkid : k = id
        · exact Or.inl hkid
        · right; apply hi.logged k; simp only [upd_other _ _ _ _ hkid] at hk; exact hk
      · intro k r hk
        simp only at hk ⊢
        by_cases hkid : k = id
        · subst hkid; rw [hbn] at hk; cases hk
        · simp only [upd_other _ _ _ _ hkid]; exact hi.paired k r hk
      · intro k r hk
        simp only at hk
        by_cases hkid : k = id
        · subst hkid; simp only [upd_same, Option.some.injEq] at hk; subst hk
          have : ¬ a < 0 := fun h => hg (Or.inr (Or.inl h))
          show 0 ≤ a; omega
        · simp only [upd_other _ _ _ _ hkid] at hk; exact hi.amt k r hk
      · intro v
        rw [sumOver_touch_change s.log (owed s v) _ id
          (by intro k hk; simp [owed, upd_other _ _ _ _ hk]) hi.nodup (by intro _; simp [owed, han])]
        have h0 : owed s v id = 0 := by simp [owed, han]
        rw [h0]
        have := hval v
        by_cases hv : v = o
        · subst hv; simp [owed, hd]; omega
        · simp [owed, upd_other _ _ _ _ hv, Ne.symm hv]; omega
      · simp only
        rw [sumOver_touch_change s.log (unclosed s) _ id
          (by intro k hk; simp [unclosed, upd_other _ _ _ _ hk]) hi.nodup (by intro _; simp [unclosed, han])]
        simp [unclosed, han, hd]; omega
  | answer id r =>
    simp only [step] at hs
    split at hs
    · cases hs
    · injection hs with hs; subst hs
      simp only [allowed, Bool.and_eq_true, beq_iff_eq, Bool.not_eq_true'] at ha
      obtain ⟨hra, hna⟩ := ha
      have hd : s.doneB id = false := by
        cases hx : s.doneB id with
        | false => rfl
        | true => have := hi.hist id (Or.inl hx); rw [hna] at this; cases this
      have hc : s.cancelledB id = false := by
        cases hx : s.cancelledB id with
        | false => rfl
        | true => have := hi.hist id (Or.inr hx); rw [hna] at this; cases this
      have hmem : id ∈ s.log := hi.logged id (Or.inl (by simp [hra]))
      have htouch : touch s.log id = s.log := by simp [touch, hmem]
      refine ⟨by rw [htouch]; exact hi.nodup, ?_, ?_, ?_, hi.excl, hi.amt, ?_, ?_⟩
      · intro k hk
        rw [htouch]
        by_cases hkid : k = id
        · subst hkid; exact hmem
        · apply hi.logged k; simp only [upd_other _ _ _ _ hkid] at hk; exact hk
      · intro k r' hk
        simp only at hk ⊢
        by_cases hkid : k = id
        · subst hkid; simp only [upd_same, Option.some.injEq] at hk; subst hk; exact ⟨hra, hd, hc, by simp⟩
        · simp only [upd_other _ _ _ _ hkid] at hk
          obtain ⟨p1, p2, p3, p4⟩ := hi.paired k r' hk
          exact ⟨p1, p2, p3, by simp only [upd_other _ _ _ _ hkid]; exact p4⟩
      · intro k hk
        simp only
        by_cases hkid : k = id
        · subst hkid; simp
        · rw [upd_other _ _ _ _ hkid]; exact hi.hist k hk
      · intro v
        show s.srcA v + s.dstB v + sumOver (touch s.log id) (owed s v) = K v
        rw [htouch]; exact hval v
      · show s.credited = s.closed + sumOver (touch s.log id) (unclosed s)
        rw [htouch]; exact hflow
  | userDone id k =>
    simp only [step] at hs
    split at hs
    · rename_i r hr
      split at hs
      · cases hs
      · injection hs with hs; subst hs
        obtain ⟨hra, hd, hc, hans⟩ := hi.paired id r hr
        have hmem : id ∈ s.log := hi.logged id (Or.inr (by simp [hr]))
        refine ⟨hi.nodup, ?_, ?_, ?_, ?_, hi.amt, ?_, ?_⟩
        · intro k' hk
          by_cases hkid : k' = id
          · subst hkid; exact hmem
          · apply hi.logged k'; simp only [upd_other _ _ _ _ hkid] at hk; exact hk
        · intro k' r' hk
          simp only at hk ⊢
          by_cases hkid : k' = id
          · subst hkid; simp at hk
          · simp only [upd_other _ _ _ _ hkid] at hk ⊢; exact hi.paired k' r' hk
        · intro k' hk
          simp only at hk ⊢
          by_cases hkid : k' = id
          · subst hkid; exact hans
          · simp only [upd_other _ _ _ _ hkid] at hk; exact hi.hist k' hk
        · intro k' hk
          simp only at hk
          by_cases hkid : k' = id
          · subst hkid; rw [hc] at hk; exact absurd hk.2 (by simp)
          · simp only [upd_other _ _ _ _ hkid] at hk; exact hi.excl k' hk
        · intro v
          rw [sumOver_change s.log (owed s v) _ id
            (by intro k' hk; simp [owed, upd_other _ _ _ _ hk]) hi.nodup hmem]
          have := hval v
          by_cases hv : v = r.owner
          · subst hv; simp [owed, hra, hd]; omega
          · have : r.owner ≠ v := Ne.symm hv
            simp [owed, hra, hd, this, upd_other _ _ _ _ hv]; omega
        · simp only
          rw [sumOver_change s.log (unclosed s) _ id
            (by intro k' hk; simp [unclosed, upd_other _ _ _ _ hk]) hi.nodup hmem]
          simp [unclosed, hra, hd]; omega
    · cases hs
  | userDoneA id k => cases hs
  | robotDone id k =>
    simp only [step] at hs
    split at hs
    · rename_i r hr
      split at hs
      · cases hs
      · injection hs with hs; subst hs
        simp only [allowed] at ha
        have hbn : s.recB id = none := by
          cases hx : s.recB id with
          | none => rfl
          | some r' => have := (hi.paired id r' hx).2.1; rw [ha] at this; cases this
        have hmem : id ∈ s.log := hi.logged id (Or.inl (by simp [hr]))
        refine ⟨hi.nodup, ?_, ?_, hi.hist, hi.excl, ?_, ?_, ?_⟩
        · intro k' hk
          by_cases hkid : k' = id
          · subst hkid; exact hmem
          · apply hi.logged k'; simp only [upd_other _ _ _ _ hkid] at hk; exact hk
        · intro k' r' hk
          simp only at hk ⊢
          by_cases hkid : k' = id
          · subst hkid; rw [hbn] at hk; cases hk
          · simp only [upd_other _ _ _ _ hkid]; exact hi.paired k' r' hk
        · intro k' r' hk
          simp only at hk
          by_cases hkid : k' = id
          · subst hkid; simp at hk
          · simp only [upd_other _ _ _ _ hkid] at hk; exact hi.amt k' r' hk
        · intro v
          rw [sumOver_change s.log (owed s v) _ id
            (by intro k' hk; simp [owed, upd_other _ _ _ _ hk]) hi.nodup hmem]
          have := hval v
          simp [owed, hr, ha]; omega
        · simp only
          rw [sumOver_change s.log (unclosed s) _ id
            (by intro k' hk; simp [unclosed, upd_other _ _ _ _ hk]) hi.nodup hmem]
          simp [unclosed, hr, ha]; omega
    · cases hs
  | cancelA id =>
    simp only [step] at hs
    split at hs
    · rename_i r hr
      injection hs with hs; subst hs
      simp only [allowed] at ha
      have hd : s.doneB id = false := by
        cases hx : s.doneB id with
        | false => rfl
        | true => exact absurd ⟨hx, ha⟩ (hi.excl id)
      have hbn : s.recB id = none := by
        cases hx : s.recB id with
        | none => rfl
        | some r' => have := (hi.paired id r' hx).2.2.1; rw [ha] at this; cases this
      have hmem : id ∈ s.log := hi.logged id (Or.inl (by simp [hr]))
      refine ⟨hi.nodup, ?_, ?_, hi.hist, hi.excl, ?_, ?_, ?_⟩
      · intro k' hk
        by_cases hkid : k' = id
        · subst hkid; exact hmem
        · apply hi.logged k'; simp only [upd_other _ _ _ _ hkid] at hk; exact hk
      · intro k' r' hk
        simp only at hk ⊢
        by_cases hkid : k' = id
        · subst hkid; rw [hbn] at hk; cases hk
        · simp only [upd_other _ _ _ _ hkid]; exact hi.paired k' r' hk
      · intro k' r' hk
        simp only at hk
        by_cases hkid : k' = id
        · subst hkid; simp at hk
        · simp only [upd_other _ _ _ _ hkid] at hk; exact hi.amt k' r' hk
      · intro v
        rw [sumOver_change s.log (owed s v) _ id
          (by intro k' hk; simp [owed, upd_other _ _ _ _ hk]) hi.nodup hmem]
        have := hval v
        by_cases hv : v = r.owner
        · subst hv; simp [owed, hr, hd]; omega
        · have : r.owner ≠ v := Ne.symm hv
          simp [owed, hr, hd, this, upd_other _ _ _ _ hv]; omega
      · simp only
        rw [sumOver_change s.log (unclosed s) _ id
          (by intro k' hk; simp [unclosed, upd_other _ _ _ _ hk]) hi.nodup hmem]
        simp [unclosed, hr, hd]; omega
    · cases hs
  | cancelB id =>
    simp only [step] at hs
    split at hs
    · rename_i r hr
      injection hs with hs; subst hs
      obtain ⟨hra, hd, hc, hans⟩ := hi.paired id r hr
      have hmem : id ∈ s.log := hi.logged id (Or.inr (by simp [hr]))
      refine ⟨hi.nodup, ?_, ?_, ?_, ?_, hi.amt, ?_, ?_⟩
      · intro k' hk
        by_cases hkid : k' = id
        · subst hkid; exact hmem
        · apply hi.logged k'; simp only [upd_other _ _ _ _ hkid] at hk; exact hk
      · intro k' r' hk
        simp only at hk ⊢
        by_cases hkid : k' = id
        · subst hkid; simp at hk
        · simp only [upd_other _ _ _ _ hkid] at hk ⊢; exact hi.paired k' r' hk
      · intro k' hk
        simp only at hk ⊢
        by_cases hkid : k' = id
        · subst hkid; exact hans
        · simp only [upd_other _ _ _ _ hkid] at hk; exact hi.hist k' hk
      · intro k' hk
        simp only at hk
        by_cases hkid : k' = id
        · subst hkid; rw [hd] at hk; exact absurd hk.1 (by simp)
        · simp only [upd_other _ _ _ _ hkid] at hk; exact hi.excl k' hk
      · intro v
        show s.srcA v + s.dstB v + sumOver s.log (owed s v) = K v
        exact hval v
      · show s.credited = s.closed + sumOver s.log (unclosed s)
        exact hflow
    · cases hs

/-- schedules: any interleaving of user steps, rejected attempts and protocol-conforming robot /
    platform steps; stopping anywhere is "no step". Begins use fresh ids (see `step_inv`). -/
inductive Reachable (s0 : S) : S → Prop
  | base : Reachable s0 s0
  | step (s s' : S) (st : Step) : Reachable s0 s → allowed s st = true → step s st = some s' →
      (∀ id o a, st = .begin id o a → s.doneB id = false ∧ s.cancelledB id = false) → Reachable s0 s'
  | rejected (s : S) (st : Step) : Reachable s0 s → step s st = none → Reachable s0 s

theorem inv_init (direct : Bool) (srcA : String → Int) (g : Int) : Inv srcA (init direct srcA g) := by
  refine ⟨List.nodup_nil, ?_, ?_, ?_, ?_, ?_, ?_, ?_⟩
  · intro id h; simp [init] at h
  · intro id r h; simp [init] at h
  · intro id h; simp [init] at h
  · intro id h; simp [init] at h
  · intro id r h; simp [init] at h
  · intro u; simp [init, sumOver]
  · simp [init, sumOver]

theorem reachable_inv (direct : Bool) (srcA : String → Int) (g : Int) (s : S)
    (h : Reachable (init direct srcA g) s) : Inv srcA s := by
  induction h with
  | base => exact inv_init direct srcA g
  | step s s' st _ ha hs hf ih => exact step_inv srcA s s' st ih ha hs hf
  | rejected s st _ _ ih => exact ih

/-- `no_gain`: for every owner, at every step of every schedule that respects the documented
    cancellation order, the spendable value over both channels never exceeds what the owner started
    with. -/
theorem no_gain (direct : Bool) (srcA : String → Int) (g : Int) (s : S)
    (h : Reachable (init direct srcA g) s) (u : String) : s.srcA u + s.dstB u ≤ srcA u := by
  have hi := reachable_inv direct srcA g s h
  have hv := hi.value u
  have : 0 ≤ sumOver s.log (owed s u) := sumOver_nonneg _ _ (fun k _ => owed_nonneg s u k hi.amt)
  omega

/-- `release_once`: per swap at most one of {credit in B, refund in A} ever happens: once the
    destination has completed, a refund in A is not a protocol step any more, and once a
    destination cancel succeeded, no completion in B can ever succeed (the copy is gone and the
    robot never answers an id twice). Each happens at most once because it deletes its record. -/
theorem release_once (direct : Bool) (srcA : String → Int) (g : Int) (s : S)
    (h : Reachable (init direct srcA g) s) (id : String) :
    (s.doneB id = true → allowed s (.cancelA id) = false) ∧
    (s.cancelledB id = true → (∀ k, step s (.userDone id k) = none) ∧ ∀ r, allowed s (.answer id r) = false) := by
  have hi := reachable_inv direct srcA g s h
  constructor
  · intro hd
    simp only [allowed]
    cases hc : s.cancelledB id with
    | false => rfl
    | true => exact absurd ⟨hd, hc⟩ (hi.excl id)
  · intro hc
    have hbn : s.recB id = none := by
      cases hx : s.recB id with
      | none => rfl
      | some r => have := (hi.paired id r hx).2.2.1; rw [hc] at this; cases this
    refine ⟨fun k => by simp [step, hbn], fun r => ?_⟩
    have := hi.hist id (Or.inr hc)
    simp [allowed, this]

/-- `given_matches_when_quiescent`: when no swap record is open on either side, everything the
    destination credited has been closed on the origin — in the direct case the origin's given-out
    counter grew by exactly what the destination credited. -/
theorem given_matches_when_quiescent (direct : Bool) (srcA : String → Int) (g : Int) (s : S)
    (h : Reachable (init direct srcA g) s) (hq : ∀ id, s.recA id = none) : s.credited = s.closed := by
  have hi := reachable_inv direct srcA g s h
  have : sumOver s.log (unclosed s) = 0 := by
    have h0 : ∀ k ∈ s.log, (fun _ : String => (0 : Int)) k = unclosed s k := by
      intro k _; simp [unclosed, hq k]
    rw [sumOver_congr s.log _ _ h0]
    simp [sumOver]
    induction s.log with
    | nil => rfl
    | cons x xs ih => simp [ih]
  have := hi.flow
  omega

/-- the given-out counter of the origin follows the closed amount exactly (direct case), code level -/
theorem givenA_tracks_closed (s s' : S) (st : Step) (hs : step s st = some s') :
    s'.direct = s.direct ∧ (s.direct = true → s'.givenA - s'.closed = s.givenA - s.closed) := by
  cases st with
  | begin id o a =>
    simp only [step] at hs; split at hs
    · cases hs
    · injection hs with hs; subst hs; exact ⟨rfl, fun _ => rfl⟩
  | answer id r =>
    simp only [step] at hs; split at hs
    · cases hs
    · injection hs with hs; subst hs; exact ⟨rfl, fun _ => rfl⟩
  | userDone id k =>
    simp only [step] at hs; split at hs
    · split at hs
      · cases hs
      · injection hs with hs; subst hs; exact ⟨rfl, fun _ => rfl⟩
    · cases hs
  | userDoneA id k => cases hs
  | robotDone id k =>
    simp only [step] at hs; split at hs
    · split at hs
      · cases hs
      · injection hs with hs; subst hs
        refine ⟨rfl, fun hd => ?_⟩
        simp [hd]; omega
    · cases hs
  | cancelA id =>
    simp only [step] at hs; split at hs
    · injection hs with hs; subst hs; exact ⟨rfl, fun _ => rfl⟩
    · cases hs
  | cancelB id =>
    simp only [step] at hs; split at hs
    · injection hs with hs; subst hs; exact ⟨rfl, fun _ => rfl⟩
    · cases hs

/-! ### non-vacuity: a complete direct swap; a wrong key, a second completion and a late origin
    cancel are all refused -/
def ex0 : S := init true (fun u => if u = "alice" then 100 else 0) 0
def ex1 : S := exec (exec (exec ex0 (.begin "s1" "alice" 45)) (.answer "s1" ⟨"alice", 45⟩)) (.userDone "s1" true)

example : ex1.srcA "alice" = 55 ∧ ex1.dstB "alice" = 45 ∧ step ex1 (.userDone "s1" true) = none ∧
    allowed ex1 (.cancelA "s1") = false ∧ allowed ex1 (.robotDone "s1" true) = true ∧
    (exec ex1 (.robotDone "s1" true)).givenA = 45 := by decide

end Foundation.Swap
