import Foundation.Model.FullBatch
import Foundation.Proofs.C04
import Foundation.Lemmas.BalText
import Foundation.Lemmas.Codec
/-!
# The whole batch (`batchExecute` with the robot's lists) — shared by C04, C08, C09, C11

* `full_batch_refines_serial` — the whole batch on the layered cache computes the replies and the
  committed ledger of its serial reading on a plain map (instance of `prog_refines_spec`);
* `item_all_or_nothing` — *any* robot item of the shape "transaction-layer calls, then commit or
  drop" either is refused and leaves the committed map untouched, or commits exactly what its
  transaction layer saw; `answer_txOnly`, `robotDone_txOnly` show the four robot items have that
  shape (whatever the record, the asset list, the key);
* `refused_answer_invisible`, `refused_key_invisible` — the corollaries for the robot's items;
* `accepted_answer_exact`, `accepted_key_exact` — an accepted single-asset answer / key changes
  exactly the record and the one counter (under the upper-case channel name) by exactly the amount;
* `subAll_total`, `coming_home_answer_iff_covered` — an answer bringing a token home, with any asset
  list, is accepted iff the given-out counter covers the **sum** of the list; then the counter is
  the old value minus the sum (read back from its decimal text, `readBal_showBal`), the record is
  stored, nothing else changes; refused: nothing changes;
* `switched_off_lists_ignored` — with a switch off, the batch is the same program as the batch
  without the two lists of that kind (nothing of them is read, answered or written).
-/
namespace Foundation.FullBatch
open Foundation.Cache Foundation.Batch Foundation.Dispatch

theorem full_batch_refines_serial (cfg : Config) (decode : Val → Option Pending) (known : String → Bool)
    (ledger : Key → Val) (b : Content) :
    let p := fullBatchProg cfg decode known b
    (runCache (init ledger) p).2 = (runSpec ⟨ledger, fun _ => none, []⟩ p).2 ∧
    batchCommit (runCache (init ledger) p).1 = (runSpec ⟨ledger, fun _ => none, []⟩ p).1.c := by
  intro p
  have hi : Inv (init ledger) := by intro k v h; simp [init] at h
  have hl : LogInv (init ledger) := by intro k h; exact absurd rfl h
  obtain ⟨a, b', _⟩ := prog_refines_spec p (init ledger) hi hl
  have habs : abs (init ledger) = ⟨ledger, fun _ => none, []⟩ := by simp only [abs, init]; congr 1
  rw [habs] at a b'
  exact ⟨a, by rw [← b']; rfl⟩

/-- programs that only talk to the transaction layer and neither commit nor drop it -/
inductive TxOnly : {α : Type} → Prog α → Prop
  | ret {α} (a : α) : TxOnly (.ret a)
  | tget {α} (k : Key) (f : Option Val → Prog α) : (∀ v, TxOnly (f v)) → TxOnly (.op (.tget k) f)
  | tput {α} (k : Key) (v : Val) (f : Option Val → Prog α) : (∀ x, TxOnly (f x)) → TxOnly (.op (.tput k v) f)
  | tdel {α} (k : Key) (f : Option Val → Prog α) : (∀ x, TxOnly (f x)) → TxOnly (.op (.tdel k) f)

theorem txOnly_keeps_committed {α} (p : Prog α) (h : TxOnly p) : ∀ m : Spec, (runSpec m p).1.c = m.c := by
  induction h with
  | ret a => intro m; rfl
  | tget k f _ ih => intro m; simp only [runSpec, specStep]; exact ih _ _
  | tput k v f _ ih => intro m; simp only [runSpec, specStep]; rw [ih]
  | tdel k f _ ih => intro m; simp only [runSpec, specStep]; rw [ih]

theorem txOnly_bind {α β} (p : Prog α) (f : α → Prog β) (hp : TxOnly p) (hf : ∀ a, TxOnly (f a)) :
    TxOnly (bind p f) := by
  induction hp with
  | ret a => exact hf a
  | tget k g _ ih => exact .tget k _ (fun v => ih v)
  | tput k v g _ ih => exact .tput k v _ (fun x => ih x)
  | tdel k g _ ih => exact .tdel k _ (fun x => ih x)

/-- `item_all_or_nothing`: an item whose transaction-cache part is `core`. Refused: the committed
    map is what it was, the reply is the refusal. Accepted: the committed map is what the item's
    transaction layer saw at its end, the reply carries exactly its write list. Either way the next
    item starts with an empty transaction layer. -/
theorem item_all_or_nothing (core : Prog (Option String)) (h : TxOnly core) (m : Spec) :
    let mb := (runSpec m core).1
    let r := runSpec m (item core)
    r.1.o = (fun _ => none) ∧
    (∀ cls, (runSpec m core).2 = some cls → r.1.c = m.c ∧ r.2 = .err cls) ∧
    ((runSpec m core).2 = none → r.1.c = mb.t ∧ r.2 = .ok mb.writes) := by
  intro mb r
  have hc := txOnly_keeps_committed core h m
  have hr : r = runSpec (runSpec m core).1 (finishItem (runSpec m core).2) := by
    simp only [r, item, runSpec_bind]
  cases hres : (runSpec m core).2 with
  | none =>
    rw [hres] at hr
    simp only [finishItem, runSpec, Spec.commit] at hr
    refine ⟨by rw [hr], ?_, ?_⟩
    · intro cls hcl; cases hcl
    · intro _; rw [hr]; exact ⟨rfl, rfl⟩
  | some cls =>
    rw [hres] at hr
    simp only [finishItem, runSpec, Spec.discard] at hr
    refine ⟨by rw [hr], ?_, ?_⟩
    · intro cls' hcl
      injection hcl with hcl
      subst hcl
      rw [hr]; exact ⟨hc, rfl⟩
    · intro hn; cases hn

theorem subAll_txOnly (ch : String) (as : List (String × Int)) : TxOnly (subAll ch as) := by
  induction as with
  | nil => exact .ret _
  | cons a rest ih =>
    refine .tget _ _ (fun v => ?_)
    by_cases hlt : readBal (v.getD "") < a.2
    · simp only [hlt, if_true]; exact .ret _
    · simp only [hlt, if_false]; exact .tput _ _ _ (fun _ => ih)

theorem addAll_txOnly (ch : String) (as : List (String × Int)) : TxOnly (addAll ch as) := by
  induction as with
  | nil => exact .ret _
  | cons a rest ih => exact .tget _ _ (fun v => .tput _ _ _ (fun _ => ih))

/-- the robot's answers have the shape of `item_all_or_nothing`, whatever the record -/
theorem answer_txOnly (multi : Bool) (id : String) (r : Rec) : TxOnly (answerCore multi id r) := by
  have hsave : TxOnly (Prog.op (.tput (recKey multi id) (enc { r with creator := "0000" }))
      (fun _ => (Prog.ret none : Prog (Option String)))) := .tput _ _ _ (fun _ => .ret _)
  unfold answerCore
  by_cases h1 : cmpToken multi r = r.src
  · rw [if_pos h1]; exact hsave
  · by_cases h2 : cmpToken multi r = r.dst
    · rw [if_neg h1, if_pos h2]
      refine txOnly_bind _ _ (subAll_txOnly _ _) (fun x => ?_)
      cases x with
      | none => exact .ret _
      | some u => exact hsave
    · rw [if_neg h1, if_neg h2]; exact .ret _

/-- … and so have the robot's completions, whatever is stored under the id -/
theorem robotDone_txOnly (multi : Bool) (id key : String) : TxOnly (robotDoneCore multi id key) := by
  unfold robotDoneCore
  refine .tget _ _ (fun v => ?_)
  cases hd : dec (v.getD "") with
  | none => exact .ret _
  | some r =>
    have hclose : TxOnly (Prog.op (.tdel (recKey multi id)) (fun _ => (Prog.ret none : Prog (Option String)))) :=
      .tdel _ _ (fun _ => .ret _)
    show TxOnly (if r.hash ≠ hashOf key then Prog.ret (some "key") else
      if cmpToken multi r = r.src then
        bind (addAll r.dst r.assets) (fun _ => Prog.op (.tdel (recKey multi id)) (fun _ => (Prog.ret none : Prog (Option String))))
      else Prog.op (.tdel (recKey multi id)) (fun _ => (Prog.ret none : Prog (Option String))))
    by_cases hk : r.hash ≠ hashOf key
    · rw [if_pos hk]; exact .ret _
    · rw [if_neg hk]
      by_cases hs : cmpToken multi r = r.src
      · rw [if_pos hs]; exact txOnly_bind _ _ (addAll_txOnly _ _) (fun _ => hclose)
      · rw [if_neg hs]; exact hclose

/-- `refused_answer_invisible`: an answer the chaincode refuses — a token of neither channel, or a
    home-coming asset list the given-out counter does not cover *in full* — changes nothing: no
    partial debit of the earlier assets survives (multi-swap answers are all-or-nothing). -/
theorem refused_answer_invisible (multi : Bool) (x : String × Rec) (m : Spec) (cls : String)
    (h : (runSpec m (answerProg multi x)).2 = .err cls) :
    (runSpec m (answerProg multi x)).1.c = m.c ∧ (runSpec m (answerProg multi x)).1.o = (fun _ => none) := by
  obtain ⟨ho, herr, hok⟩ := item_all_or_nothing (answerCore multi x.1 x.2) (answer_txOnly multi x.1 x.2) m
  refine ⟨?_, ho⟩
  cases hres : (runSpec m (answerCore multi x.1 x.2)).2 with
  | none =>
    have := (hok hres).2
    simp only [answerProg] at h
    rw [this] at h; cases h
  | some c => exact (herr c hres).1

/-- the same for a key the chaincode refuses (no such record, wrong key) -/
theorem refused_key_invisible (multi : Bool) (x : String × String) (m : Spec) (cls : String)
    (h : (runSpec m (robotDoneProg multi x)).2 = .err cls) :
    (runSpec m (robotDoneProg multi x)).1.c = m.c ∧ (runSpec m (robotDoneProg multi x)).1.o = (fun _ => none) := by
  obtain ⟨ho, herr, hok⟩ := item_all_or_nothing (robotDoneCore multi x.1 x.2) (robotDone_txOnly multi x.1 x.2) m
  refine ⟨?_, ho⟩
  cases hres : (runSpec m (robotDoneCore multi x.1 x.2)).2 with
  | none =>
    have := (hok hres).2
    simp only [robotDoneProg] at h
    rw [this] at h; cases h
  | some c => exact (herr c hres).1

/-- `switched_off_lists_ignored`: with swaps (multi-swaps) switched off by the configuration in
    force, the batch is the very program of the batch without its swap (multi-swap) lists: no answer
    is given, no key is looked at, no reply entry appears — whatever was begun before. -/
theorem switched_off_lists_ignored (cfg : Config) (decode : Val → Option Pending) (known : String → Bool)
    (b : Content) (h : cfg.hasOptions = true) :
    (cfg.disableSwaps = true →
      fullBatchProg cfg decode known b = fullBatchProg cfg decode known { b with swaps := [], keys := [] }) ∧
    (cfg.disableMultiSwaps = true →
      fullBatchProg cfg decode known b = fullBatchProg cfg decode known { b with mswaps := [], mkeys := [] }) := by
  constructor <;> intro hs <;> simp [fullBatchProg, gated, sectionRuns, h, hs]

end Foundation.FullBatch

namespace Foundation.FullBatch
open Foundation.Cache Foundation.Batch

/-- the hypothesis of `refused_answer_invisible` is met by a concrete answer (a token of neither
    channel) on a concrete map … -/
example : (runSpec ⟨fun _ => "", fun _ => none, []⟩
    (answerProg true ("i", ⟨"o", "ZZ", "VT", "CC", "h", "c", [("g", 1)]⟩))).2 = .err "incorrect" := by
  simp [answerProg, item, answerCore, cmpToken, runSpec, Batch.bind, finishItem]

/-- … and a home-coming answer is accepted on a map whose counter covers it (so the accepted branch
    of `item_all_or_nothing` is inhabited too) -/
example : ∃ ws, (runSpec ⟨fun _ => "", fun _ => none, []⟩
    (answerProg true ("i", ⟨"o", "VT", "VT", "CC", "h", "c", [("g", 1)]⟩))).2 = .ok ws := by
  simp [answerProg, item, answerCore, cmpToken, runSpec, Batch.bind, finishItem, specStep]

end Foundation.FullBatch

namespace Foundation.FullBatch
open Foundation.Cache Foundation.Batch

/-- `accepted_answer_exact`: an accepted answer to a swap whose token comes home (one asset of
    amount `n`, covered by the given-out counter of the source channel), started on an empty
    transaction layer, changes exactly two keys of the committed map: the record is stored (creator
    `0000`) and the counter of the source channel — under its upper-case name — is `n` less.
    Everything else is as before, and the reply lists exactly these writes. -/
theorem accepted_answer_exact (multi : Bool) (id g : String) (n : Int) (r : Rec) (m : Spec)
    (ho : m.o = fun _ => none)
    (hsrc : cmpToken multi r ≠ r.src) (hdst : cmpToken multi r = r.dst) (has : r.assets = [(g, n)])
    (hfund : ¬ readBal (m.c (givenKey r.src)) < n) :
    let res := runSpec m (answerProg multi (id, r))
    (∀ k, res.1.c k =
      if k = recKey multi id then enc { r with creator := "0000" }
      else if k = givenKey r.src then showBal (readBal (m.c (givenKey r.src)) - n)
      else m.c k) ∧
    (∃ ws, res.2 = .ok ws) := by
  intro res
  have ht : m.t (givenKey r.src) = m.c (givenKey r.src) := by simp [Spec.t, ho]
  have hres : res = runSpec m (answerProg multi (id, r)) := rfl
  simp only [answerProg, item, answerCore, if_neg hsrc, if_pos hdst, has, subAll, Batch.bind, runSpec, specStep,
    Option.getD, ht, if_neg hfund, finishItem, Spec.commit] at hres
  constructor
  · intro k
    rw [hres]
    simp only [Spec.t, upd, ho]
    by_cases h1 : k = recKey multi id
    · simp [h1, has, W.read]
    · by_cases h2 : k = givenKey r.src
      · subst h2
        have h1' : ¬ givenKey r.src = recKey multi id := h1
        simp [h1', W.read]
      · simp [h1, h2]
  · rw [hres]; exact ⟨_, rfl⟩

/-- `accepted_key_exact`: the robot's key for a record of this channel's own token (one asset of
    amount `n`) whose stored hash it opens, on an empty transaction layer: the record is gone, the
    given-out counter of the destination channel — under its upper-case name — is `n` more, nothing
    else changes. For a record of a foreign token only the record goes. (The hypothesis `hrec` holds
    for every record stored by `enc`: `stored_record_decodes` below.) -/
theorem accepted_key_exact (multi : Bool) (id key g : String) (n : Int) (r : Rec) (m : Spec)
    (ho : m.o = fun _ => none)
    (hrec : dec (m.c (recKey multi id)) = some r) (hkey : r.hash = hashOf key) (has : r.assets = [(g, n)]) :
    let res := runSpec m (robotDoneProg multi (id, key))
    (cmpToken multi r = r.src → ∀ k, res.1.c k =
      if k = recKey multi id then ""
      else if k = givenKey r.dst then showBal (readBal (m.c (givenKey r.dst)) + n)
      else m.c k) ∧
    (cmpToken multi r ≠ r.src → ∀ k, res.1.c k = if k = recKey multi id then "" else m.c k) ∧
    (∃ ws, res.2 = .ok ws) := by
  intro res
  have ht : ∀ k, m.t k = m.c k := by intro k; simp [Spec.t, ho]
  have hk : ¬ r.hash ≠ hashOf key := by simp [hkey]
  have hres : res = runSpec m (robotDoneProg multi (id, key)) := rfl
  by_cases hs : cmpToken multi r = r.src
  · simp only [robotDoneProg, item, robotDoneCore, Batch.bind, runSpec, specStep, Option.getD, ht, hrec,
      if_neg hk, if_pos hs, has, addAll, finishItem, Spec.commit] at hres
    refine ⟨fun _ k => ?_, fun hne => absurd hs hne, by rw [hres]; exact ⟨_, rfl⟩⟩
    rw [hres]
    simp only [Spec.t, upd, ho]
    by_cases h1 : k = recKey multi id
    · simp [h1, W.read]
    · by_cases h2 : k = givenKey r.dst
      · subst h2
        have h1' : ¬ givenKey r.dst = recKey multi id := h1
        simp [h1', W.read]
      · simp [h1, h2]
  · simp only [robotDoneProg, item, robotDoneCore, Batch.bind, runSpec, specStep, Option.getD, ht, hrec,
      if_neg hk, if_neg hs, finishItem, Spec.commit] at hres
    refine ⟨fun he => absurd he hs, fun _ k => ?_, by rw [hres]; exact ⟨_, rfl⟩⟩
    rw [hres]
    simp only [Spec.t, upd, ho]
    by_cases h1 : k = recKey multi id
    · simp [h1, W.read]
    · simp [h1]

end Foundation.FullBatch

namespace Foundation.FullBatch
open Foundation.Cache Foundation.Batch

def total (as : List (String × Int)) : Int := (as.map (·.2)).sum

theorem t_tput (m : Spec) (k : Key) (v : Val) (k' : Key) :
    (specStep m (.tput k v)).1.t k' = if k' = k then v else m.t k' := by
  simp only [specStep, Spec.t, upd]
  by_cases h : k' = k
  · simp [h, W.read]
  · simp [h]

theorem total_nonneg (as : List (String × Int)) (h : ∀ a ∈ as, 0 ≤ a.2) : 0 ≤ total as := by
  induction as with
  | nil => simp [total]
  | cons b r ih =>
    have hb : 0 ≤ b.2 := h b (List.mem_cons_self ..)
    have hr := ih (fun x hx => h x (List.mem_cons_of_mem _ hx))
    simp [total] at hr ⊢; omega

/-- `subAll_total`: debiting an asset list from one counter, asset by asset (amounts as they arrive:
    non-negative; the counter non-negative). It succeeds exactly when the counter covers the *sum*;
    then the counter reads the old value minus the sum and no other key of the transaction's view
    changed. The committed map is never touched (the debits live in the transaction layer until the
    item commits). -/
theorem subAll_total (ch : String) (as : List (String × Int)) (hnn : ∀ a ∈ as, 0 ≤ a.2) : ∀ m : Spec,
    0 ≤ readBal (m.t (givenKey ch)) →
    ((runSpec m (subAll ch as)).2 = some () ↔ total as ≤ readBal (m.t (givenKey ch))) ∧
    ((runSpec m (subAll ch as)).2 = some () →
      readBal ((runSpec m (subAll ch as)).1.t (givenKey ch)) = readBal (m.t (givenKey ch)) - total as ∧
      ∀ k, k ≠ givenKey ch → (runSpec m (subAll ch as)).1.t k = m.t k) ∧
    (runSpec m (subAll ch as)).1.c = m.c := by
  induction as with
  | nil =>
    intro m h0
    simp only [subAll, runSpec, total, List.map_nil, List.sum_nil]
    refine ⟨⟨fun _ => h0, fun _ => trivial⟩, fun _ => ⟨?_, fun _ _ => trivial⟩, trivial⟩
    omega
  | cons a rest ih =>
    intro m h0
    have ha : 0 ≤ a.2 := hnn a (List.mem_cons_self ..)
    have hrest : ∀ x ∈ rest, 0 ≤ x.2 := fun x hx => hnn x (List.mem_cons_of_mem _ hx)
    have htot : total (a :: rest) = a.2 + total rest := by simp [total]
    have hnnr : 0 ≤ total rest := total_nonneg rest hrest
    simp only [subAll, runSpec, specStep, Option.getD]
    by_cases hlt : readBal (m.t (givenKey ch)) < a.2
    · simp only [hlt, if_true, runSpec]
      refine ⟨⟨?_, ?_⟩, ?_, trivial⟩
      · intro h; cases h
      · intro h; rw [htot] at h; omega
      · intro h; cases h
    · simp only [hlt, if_false, runSpec]
      -- the state after the write of the reduced counter
      let m1 := (specStep m (.tput (givenKey ch) (showBal (readBal (m.t (givenKey ch)) - a.2)))).1
      have hm1 : m1.t (givenKey ch) = showBal (readBal (m.t (givenKey ch)) - a.2) := by
        simp [m1, t_tput]
      have hr1 : readBal (m1.t (givenKey ch)) = readBal (m.t (givenKey ch)) - a.2 := by
        rw [hm1, readBal_showBal]
      have hother : ∀ k, k ≠ givenKey ch → m1.t k = m.t k := by
        intro k hk; simp [m1, t_tput, hk]
      have hc1 : m1.c = m.c := rfl
      obtain ⟨i1, i2, i3⟩ := ih hrest m1 (by rw [hr1]; omega)
      refine ⟨?_, ?_, i3.trans hc1⟩
      · rw [i1, hr1, htot]; constructor <;> intro h <;> omega
      · intro hs
        obtain ⟨j1, j2⟩ := i2 hs
        refine ⟨by rw [j1, hr1, htot]; omega, fun k hk => by rw [j2 k hk, hother k hk]⟩

/-- `coming_home_answer_iff_covered`: an answer to a swap or multi-swap whose token comes home, with
    any asset list (non-negative amounts), on an empty transaction layer and a non-negative counter,
    is accepted **iff the given-out counter of the source channel covers the sum of the whole list**;
    when accepted, the counter reads the old value minus that sum, the record is stored with creator
    `0000`, and every other key is as before; when refused, nothing at all changed. -/
theorem coming_home_answer_iff_covered (multi : Bool) (id : String) (r : Rec) (m : Spec)
    (ho : m.o = fun _ => none)
    (hsrc : cmpToken multi r ≠ r.src) (hdst : cmpToken multi r = r.dst)
    (hnn : ∀ a ∈ r.assets, 0 ≤ a.2) (h0 : 0 ≤ readBal (m.c (givenKey r.src)))
    (hk : givenKey r.src ≠ recKey multi id) :
    let res := runSpec m (answerProg multi (id, r))
    ((∃ ws, res.2 = .ok ws) ↔ total r.assets ≤ readBal (m.c (givenKey r.src))) ∧
    ((∃ ws, res.2 = .ok ws) →
      res.1.c (recKey multi id) = enc { r with creator := "0000" } ∧
      readBal (res.1.c (givenKey r.src)) = readBal (m.c (givenKey r.src)) - total r.assets ∧
      ∀ k, k ≠ recKey multi id → k ≠ givenKey r.src → res.1.c k = m.c k) ∧
    ((∀ ws, res.2 ≠ .ok ws) → res.1.c = m.c) := by
  intro res
  have ht : ∀ k, m.t k = m.c k := by intro k; simp [Spec.t, ho]
  have h0' : 0 ≤ readBal (m.t (givenKey r.src)) := by rw [ht]; exact h0
  obtain ⟨s1, s2, s3⟩ := subAll_total r.src r.assets hnn m h0'
  have hres : res = runSpec m (answerProg multi (id, r)) := rfl
  simp only [answerProg, item, answerCore, if_neg hsrc, if_pos hdst, runSpec_bind] at hres
  cases hsub : (runSpec m (subAll r.src r.assets)).2 with
  | none =>
    -- refused: the list is not covered
    have hnot : ¬ total r.assets ≤ readBal (m.c (givenKey r.src)) := by
      intro hle; rw [← ht] at hle; have := s1.2 hle; rw [hsub] at this; cases this
    rw [hsub] at hres
    simp only [runSpec, finishItem, Spec.discard] at hres
    refine ⟨⟨?_, fun h => absurd h hnot⟩, ?_, ?_⟩
    · rintro ⟨ws, hws⟩; rw [hres] at hws; cases hws
    · rintro ⟨ws, hws⟩; rw [hres] at hws; cases hws
    · intro _; rw [hres]; exact s3
  | some u =>
    have hle : total r.assets ≤ readBal (m.c (givenKey r.src)) := by
      rw [← ht]; exact s1.1 (by rw [hsub])
    obtain ⟨j1, j2⟩ := s2 (by rw [hsub])
    rw [hsub] at hres
    simp only [runSpec, specStep, finishItem, Spec.commit] at hres
    refine ⟨⟨fun _ => hle, fun _ => by rw [hres]; exact ⟨_, rfl⟩⟩, ?_, ?_⟩
    · intro _
      rw [hres]
      refine ⟨?_, ?_, ?_⟩
      · simp [Spec.t, upd, W.read]
      · have : ({ c := (runSpec m (subAll r.src r.assets)).1.c,
                  o := upd (runSpec m (subAll r.src r.assets)).1.o (recKey multi id) (some (W.put (enc { r with creator := "0000" }))),
                  olog := recKey multi id :: (runSpec m (subAll r.src r.assets)).1.olog } : Spec).t (givenKey r.src)
              = (runSpec m (subAll r.src r.assets)).1.t (givenKey r.src) := by
          simp [Spec.t, upd, hk]
        simp only [] at this ⊢
        rw [this, j1, ht]
      · intro k hk1 hk2
        have : ({ c := (runSpec m (subAll r.src r.assets)).1.c,
                  o := upd (runSpec m (subAll r.src r.assets)).1.o (recKey multi id) (some (W.put (enc { r with creator := "0000" }))),
                  olog := recKey multi id :: (runSpec m (subAll r.src r.assets)).1.olog } : Spec).t k
              = (runSpec m (subAll r.src r.assets)).1.t k := by
          simp [Spec.t, upd, hk1]
        simp only [] at this ⊢
        rw [this, j2 k hk2, ht]
    · intro hno; rw [hres] at hno; exact absurd rfl (hno _)

/-- counters and records live under different keys (so the hypothesis `hk` of
    `coming_home_answer_iff_covered` always holds) -/
theorem givenKey_ne_recKey (ch : String) (multi : Bool) (id : String) : givenKey ch ≠ recKey multi id := by
  intro h
  have h2 := congrArg (fun s => s.toList.head?) h
  cases multi <;> simp [givenKey, recKey, String.toList_append] at h2

/-- the hypotheses of `coming_home_answer_iff_covered` are met by a concrete multi-swap answer on a
    concrete map (token `VT` coming home from `CC`, two assets, counter 100) -/
example : ∃ (r : Rec) (m : Spec), m.o = (fun _ => none) ∧ cmpToken true r ≠ r.src ∧ cmpToken true r = r.dst ∧
    (∀ a ∈ r.assets, 0 ≤ a.2) ∧ 0 ≤ readBal (m.c (givenKey r.src)) :=
  ⟨⟨"o", "VT", "CC", "VT", "h", "c", [("VT_g1", 30), ("VT_g2", 20)]⟩,
   ⟨fun k => if k = givenKey "CC" then showBal 100 else "", fun _ => none, []⟩,
   rfl, by decide, by decide, by decide, by simp [readBal_showBal]⟩

/-- `stored_record_decodes`: what an answer stores, the robot's key finds again — the text of a record
    decodes to the record, for every record whose text fields contain no `/` and whose group names
    contain none of `/`, `,`, `=`; amounts are arbitrary integers (`Lemmas/Codec.lean`, from the
    toolchain's lemmas about `String.split` / `intercalate` and `Int.repr` / `toInt?`). -/
theorem stored_record_decodes (r : Rec) (h1 : CleanF r.owner) (h2 : CleanF r.token) (h3 : CleanF r.src)
    (h4 : CleanF r.dst) (h5 : CleanF r.hash) (h6 : CleanF r.creator) (ha : ∀ a ∈ r.assets, CleanG a.1) :
    dec (enc r) = some r := dec_enc r h1 h2 h3 h4 h5 h6 ha

/-- the hypotheses are met by a concrete record -/
example : CleanF "u0" ∧ CleanF "VT_G1" ∧ CleanG "VT_g1" := by
  unfold CleanF CleanG; decide

end Foundation.FullBatch
