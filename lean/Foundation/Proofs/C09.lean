import Foundation.Model.MultiSwap
/-!
# C09 — a multi-asset swap is all-or-nothing and released exactly once
-/
namespace Foundation.MultiSwap

/-- amount of group `g` in an asset list -/
def groupTotal (g : String) (as : List Asset) : Int := ((as.filter (·.1 = g)).map (·.2)).sum

/-- sequential debit = per-group totals, other users untouched; all amounts were non-negative -/
theorem debitAll_effect (as : List Asset) : ∀ (b b' : Bal) (u : String), debitAll b u as = some b' →
    (∀ g, b' u g = b u g - groupTotal g as) ∧ (∀ v, v ≠ u → b' v = b v) ∧ (∀ ga ∈ as, 0 ≤ ga.2) := by
  induction as with
  | nil => intro b b' u h; simp [debitAll] at h; subst h; simp [groupTotal]
  | cons x rest ih =>
    obtain ⟨g0, a0⟩ := x
    intro b b' u h
    simp only [debitAll] at h
    split at h
    · cases h
    · rename_i hg
      obtain ⟨h1, h2, h3⟩ := ih _ b' u h
      refine ⟨?_, ?_, ?_⟩
      · intro g
        rw [h1 g]
        by_cases hgg : g = g0
        · subst hgg; simp [groupTotal, List.filter_cons]; omega
        · have : ¬ g0 = g := fun e => hgg e.symm
          simp [groupTotal, List.filter_cons, this, upd_other _ _ _ _ hgg]
      · intro v hv; rw [h2 v hv]; simp [upd_other _ _ _ _ hv]
      · intro ga hga
        rcases List.mem_cons.mp hga with rfl | hga
        · simp only; omega
        · exact h3 ga hga

/-- `begin_all_or_nothing`: a begin either debits every listed asset (a repeated group by the sum of
    its occurrences) and stores the record, or it changes nothing: an empty list, an existing id,
    a negative amount or any under-funded asset — at whatever position — refuses the whole begin. -/
theorem begin_all_or_nothing (s : S) (id o : String) (as : List Asset) :
    (∀ s', step s (.begin id o as) = some s' →
      s.recA id = none ∧ as ≠ [] ∧ (∀ g, s'.srcA o g = s.srcA o g - groupTotal g as) ∧
      (∀ v, v ≠ o → s'.srcA v = s.srcA v) ∧ s'.recA id = some ⟨o, o, as, s.nowA + userSideTimeout⟩ ∧
      s'.dstB = s.dstB ∧ s'.recB = s.recB) ∧
    (debitAll s.srcA o as = none → step s (.begin id o as) = none) := by
  constructor
  · intro s' h
    simp only [step] at h
    split at h
    · cases h
    · rename_i hg
      cases hd : debitAll s.srcA o as with
      | none => simp [hd] at h
      | some b =>
        simp only [hd, Option.some.injEq] at h; subst h
        obtain ⟨h1, h2, _⟩ := debitAll_effect as s.srcA b o hd
        have hn : s.recA id = none := by
          cases hx : s.recA id with
          | none => rfl
          | some _ => exact absurd (Or.inl (by simp [hx])) hg
        exact ⟨hn, fun e => hg (Or.inr e), h1, h2, by simp, rfl, rfl⟩
  · intro hd; simp only [step]; split
    · rfl
    · simp [hd]

/-- `cancel_guarded`: a cancel by anybody but the creator, or before the timeout, is refused; by the
    creator at or after the timeout it refunds every asset and deletes the record. The answered copy
    has creator "0000", so no account can ever cancel it. -/
theorem cancel_guarded (s : S) (id sender : String) (r : Rec) (hr : s.recA id = some r) :
    (r.creator ≠ sender → step s (.cancelA id sender) = none) ∧
    (r.timeout > s.nowA → step s (.cancelA id sender) = none) ∧
    (r.creator = sender → r.timeout ≤ s.nowA →
      step s (.cancelA id sender) = some { s with recA := upd s.recA id none, srcA := creditAll s.srcA r.owner r.assets }) := by
  refine ⟨?_, ?_, ?_⟩
  · intro h; simp [step, hr, h]
  · intro h; simp [step, hr, h]
  · intro h1 h2
    have : ¬ (r.creator ≠ sender ∨ r.timeout > s.nowA) := by
      rintro (h | h)
      · exact h h1
      · omega
    simp [step, hr, this]

theorem answered_copy_uncancellable (s : S) (id sender : String) (r : Rec) (hr : s.recB id = some r)
    (hc : r.creator = "0000") (hs : sender ≠ "0000") : step s (.cancelB id sender) = none := by
  have : r.creator ≠ sender := by rw [hc]; exact fun e => hs e.symm
  simp [step, hr, this]

/-- wrong keys, completions of absent records (hence repeated completions and completions after a
    cancel, both of which delete the record) are refused; a successful completion had the right
    key (published in the key event). -/
theorem done_guarded (s : S) (id : String) :
    step s (.userDone id false) = none ∧ step s (.robotDone id false) = none ∧
    (s.recB id = none → ∀ k, step s (.userDone id k) = none) ∧
    (s.recA id = none → ∀ k, step s (.robotDone id k) = none) ∧
    (∀ k s', step s (.userDone id k) = some s' → k = true ∧ s'.recB id = none) := by
  refine ⟨?_, ?_, ?_, ?_, ?_⟩
  · simp only [step]; split <;> simp
  · simp only [step]; split <;> simp
  · intro h k; simp [step, h]
  · intro h k; simp [step, h]
  · intro k s' h
    simp only [step] at h
    split at h
    · split at h
      · cases h
      · rename_i hk
        injection h with h; subst h
        refine ⟨?_, by simp⟩
        cases k with
        | true => rfl
        | false => exact absurd (Or.inl rfl) hk
    · cases h

/-! ## exactly-once release under the documented order -/

structure InvP (s : S) : Prop where
  copy : ∀ id, s.recB id ≠ none → s.answered id = true
  done : ∀ id, s.doneB id = true → s.answered id = true
  gaveUp : ∀ id, s.abandoned id = true → s.answered id = false

theorem stepP (s s' : S) (st : Step) (hi : InvP s) (ha : allowed s st = true) (hs : step s st = some s') : InvP s' := by
  cases st with
  | begin id o as =>
    simp only [step] at hs
    split at hs
    · cases hs
    · split at hs
      · cases hs
      · injection hs with hs; subst hs; exact ⟨hi.copy, hi.done, hi.gaveUp⟩
  | answer id o as =>
    simp only [step] at hs
    split at hs
    · cases hs
    · injection hs with hs; subst hs
      simp only [allowed, Bool.and_eq_true, Bool.not_eq_true'] at ha
      obtain ⟨⟨_, hna⟩, hnab⟩ := ha
      refine ⟨?_, ?_, ?_⟩
      · intro k hk; simp only at hk ⊢
        by_cases hkid : k = id
        · subst hkid; simp
        · rw [upd_other _ _ _ _ hkid] at hk ⊢; exact hi.copy k hk
      · intro k hk; simp only at hk ⊢
        by_cases hkid : k = id
        · subst hkid; simp
        · rw [upd_other _ _ _ _ hkid]; exact hi.done k hk
      · intro k hk; simp only at hk ⊢
        by_cases hkid : k = id
        · subst hkid; rw [hnab] at hk; cases hk
        · rw [upd_other _ _ _ _ hkid]; exact hi.gaveUp k hk
  | userDone id k =>
    simp only [step] at hs
    split at hs
    · rename_i r hr
      split at hs
      · cases hs
      · injection hs with hs; subst hs
        have hans := hi.copy id (by simp [hr])
        refine ⟨?_, ?_, hi.gaveUp⟩
        · intro k' hk; simp only at hk
          by_cases hkid : k' = id
          · subst hkid; exact hans
          · rw [upd_other _ _ _ _ hkid] at hk; exact hi.copy k' hk
        · intro k' hk; simp only at hk
          by_cases hkid : k' = id
          · subst hkid; exact hans
          · rw [upd_other _ _ _ _ hkid] at hk; exact hi.done k' hk
    · cases hs
  | robotDone id k =>
    simp only [step] at hs
    split at hs
    · split at hs
      · cases hs
      · injection hs with hs; subst hs; exact ⟨hi.copy, hi.done, hi.gaveUp⟩
    · cases hs
  | cancelA id sender =>
    simp only [step] at hs
    split at hs
    · split at hs
      · cases hs
      · injection hs with hs; subst hs; exact ⟨hi.copy, hi.done, hi.gaveUp⟩
    · cases hs
  | cancelB id sender =>
    simp only [step] at hs
    split at hs
    · split at hs
      · cases hs
      · injection hs with hs; subst hs
        refine ⟨?_, hi.done, hi.gaveUp⟩
        intro k' hk; simp only at hk
        by_cases hkid : k' = id
        · subst hkid; simp at hk
        · rw [upd_other _ _ _ _ hkid] at hk; exact hi.copy k' hk
    · cases hs
  | tickA d => simp only [step] at hs; injection hs with hs; subst hs; exact ⟨hi.copy, hi.done, hi.gaveUp⟩
  | tickB d => simp only [step] at hs; injection hs with hs; subst hs; exact ⟨hi.copy, hi.done, hi.gaveUp⟩
  | abandon id =>
    simp only [step] at hs; injection hs with hs; subst hs
    simp only [allowed, Bool.not_eq_true'] at ha
    refine ⟨hi.copy, hi.done, ?_⟩
    intro k hk; simp only at hk
    by_cases hkid : k = id
    · subst hkid; exact ha
    · rw [upd_other _ _ _ _ hkid] at hk; exact hi.gaveUp k hk

inductive Reachable (s0 : S) : S → Prop
  | base : Reachable s0 s0
  | step (s s' : S) (st : Step) : Reachable s0 s → allowed s st = true → step s st = some s' → Reachable s0 s'
  | rejected (s : S) (st : Step) : Reachable s0 s → step s st = none → Reachable s0 s

theorem reachableP (direct : Bool) (b : Bal) (g : Int) (s : S) (h : Reachable (init direct b g) s) : InvP s := by
  induction h with
  | base => exact ⟨by intro id h; simp [init] at h, by intro id h; simp [init] at h, by intro id h; simp [init] at h⟩
  | step s s' st _ ha hs ih => exact stepP s s' st ih ha hs
  | rejected s st _ _ ih => exact ih

/-- `release_once_partial`: under the documented order — the origin is cancelled only for an id the
    robot has abandoned, i.e. no answered copy exists or can still be created — at most one of
    {refund on the origin, release on the destination} can ever happen for a swap:
    once the destination completed, the origin cancel is not a protocol step any more; and for an
    abandoned id there is no answered copy, none can be created, and no completion can succeed. -/
theorem release_once_partial (direct : Bool) (b : Bal) (g : Int) (s : S)
    (h : Reachable (init direct b g) s) (id : String) :
    (s.doneB id = true → ∀ sender, allowed s (.cancelA id sender) = false) ∧
    (s.abandoned id = true → s.recB id = none ∧ (∀ k, step s (.userDone id k) = none) ∧
      ∀ o as, allowed s (.answer id o as) = false) := by
  have hi := reachableP direct b g s h
  constructor
  · intro hd sender
    have hans := hi.done id hd
    simp only [allowed]
    cases hab : s.abandoned id with
    | false => rfl
    | true => have := hi.gaveUp id hab; rw [hans] at this; cases this
  · intro hab
    have hna := hi.gaveUp id hab
    have hbn : s.recB id = none := by
      cases hx : s.recB id with
      | none => rfl
      | some r => have := hi.copy id (by simp [hx]); rw [hna] at this; cases this
    exact ⟨hbn, fun k => by simp [step, hbn], fun o as => by simp [allowed, hab]⟩

/-! ## the full statement is false of the code: two known findings, proved with concrete witnesses -/

def w0 : S := init true (fun u g => if u = "alice" ∧ g = "g1" then 100 else 0) 0
/-- begin, answer, three hours pass on the origin, the creator cancels there, then completes on the
    destination: refunded in A *and* released in B -/
def w1 : S := exec (exec (exec (exec (exec w0 (.begin "m1" "alice" [("g1", 60)])) (.answer "m1" "alice" [("g1", 60)]))
  (.tickA 10800)) (.cancelA "m1" "alice")) (.userDone "m1" true)

/-- `release_once_full` does not hold: the creator's own cancel after the timeout is accepted by the
    code while the answered copy (which nobody can cancel) is still there. -/
theorem cancel_then_done_counterexample :
    w1.srcA "alice" "g1" = 100 ∧ w1.dstB "alice" "g1" = 60 ∧ w1.recA "m1" = none ∧ w1.recB "m1" = none := by
  decide

/-- a group listed twice is credited once by the direct completion (reads return committed state),
    although begin debited it twice -/
def d1 : S := exec (exec (exec w0 (.begin "m2" "alice" [("g1", 30), ("g1", 20)])) (.answer "m2" "alice" [("g1", 30), ("g1", 20)]))
  (.userDone "m2" true)

theorem dup_group_direct_counterexample :
    d1.srcA "alice" "g1" = 50 ∧ d1.dstB "alice" "g1" = 20 := by decide

end Foundation.MultiSwap
