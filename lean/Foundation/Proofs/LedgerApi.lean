import Foundation.Model.LedgerApi
import Foundation.Proofs.C06
import Foundation.Proofs.C16
/-!
# The balance API (C06 / C16 over all 27 mutating functions of `core/ledger/balances.go`)

Statements quantify over **every** API function (through its `shape`), every store, all addresses,
token arguments and amounts (any sign), and for the multi-asset functions every asset list.
-/
namespace Foundation.LedgerApi
open Foundation Foundation.Balance

theorem prim1_nonneg (s s' : St) (p : Prim) (a b tok : String) (amt : Int) (h : NonNeg s)
    (hs : prim1 s p a b tok amt = .ok s') : NonNeg s' := by
  cases p with
  | add k =>
    have := step_nonneg s h (.add ⟨k, a, tok⟩ amt)
    simp only [prim1] at hs
    simpa [step, hs] using this
  | sub k =>
    have := step_nonneg s h (.sub ⟨k, a, tok⟩ amt)
    simp only [prim1] at hs
    simpa [step, hs] using this
  | move kf kt other =>
    have := step_nonneg s h (.move ⟨kf, a, tok⟩ ⟨kt, if other then b else a, tok⟩ amt)
    simp only [prim1] at hs
    simpa [step, hs] using this

theorem prim1_indexed (s s' : St) (p : Prim) (a b tok : String) (amt : Int) (kind : String)
    (h : Indexed s kind) (hs : prim1 s p a b tok amt = .ok s') : Indexed s' kind := by
  cases p with
  | add k => exact add_indexed s s' kind h _ _ hs
  | sub k => exact sub_indexed s s' kind h _ _ hs
  | move kf kt other => exact move_indexed s s' kind h _ _ _ hs

theorem primAll_inv (P : St → Prop) (p : Prim) (a b : String)
    (hstep : ∀ s s' g n, P s → prim1 s p a b g n = .ok s' → P s')
    (assets : List (String × Int)) : ∀ s s', P s → primAll s p a b assets = .ok s' → P s' := by
  induction assets with
  | nil => intro s s' h hs; simp only [primAll] at hs; cases hs; exact h
  | cons x rest ih =>
    intro s s' h hs
    obtain ⟨g, n⟩ := x
    simp only [primAll] at hs
    cases h1 : prim1 s p a b g n with
    | error e => simp [h1] at hs
    | ok s1 =>
      simp only [h1] at hs
      exact ih s1 s' (hstep s s1 g n h h1) hs

/-- **no API call makes any balance negative** (C06, first clause, over the whole API) -/
theorem api_nonneg (s s' : St) (fn : Fn) (a b tokArg : String) (amt : Int) (assets : List (String × Int))
    (h : NonNeg s) (hs : apply s fn a b tokArg amt assets = .ok s') : NonNeg s' := by
  unfold apply at hs
  split at hs
  · exact primAll_inv NonNeg _ a b (fun s s' g n hP hp => prim1_nonneg s s' _ a b g n hP hp) assets s s' h hs
  · exact prim1_nonneg s s' _ a b _ amt h hs

/-- **the reverse index stays exact under every API call** (C16 over the whole API) -/
theorem api_indexed (s s' : St) (fn : Fn) (a b tokArg : String) (amt : Int) (assets : List (String × Int))
    (kind : String) (h : Indexed s kind) (hs : apply s fn a b tokArg amt assets = .ok s') : Indexed s' kind := by
  unfold apply at hs
  split at hs
  · exact primAll_inv (fun s => Indexed s kind) _ a b
      (fun s s' g n hP hp => prim1_indexed s s' _ a b g n kind hP hp) assets s s' h hs
  · exact prim1_indexed s s' _ a b _ amt kind h hs

/-- the balances a single-asset call names -/
def srcKey (p : Prim) (a tok : String) : PK :=
  match p with | .add k => ⟨k, a, tok⟩ | .sub k => ⟨k, a, tok⟩ | .move kf _ _ => ⟨kf, a, tok⟩
def dstKey (p : Prim) (a b tok : String) : PK :=
  match p with | .add k => ⟨k, a, tok⟩ | .sub k => ⟨k, a, tok⟩ | .move _ kt o => ⟨kt, if o then b else a, tok⟩

/-- **every successful single-asset call changes exactly the balances it names by exactly its
    amount** (C06, third clause): an add credits one balance, a sub debits one funded balance, a
    move debits the source and credits the destination; nothing else changes; the amount is not
    negative. -/
theorem api_effect (s s' : St) (fn : Fn) (a b tokArg : String) (amt : Int)
    (hm : (shape fn).multi = false) (hs : apply s fn a b tokArg amt [] = .ok s') :
    0 ≤ amt ∧
    (∀ k, k ≠ srcKey (shape fn).prim a (tokOf (shape fn).tok tokArg) →
          k ≠ dstKey (shape fn).prim a b (tokOf (shape fn).tok tokArg) → s'.prim k = s.prim k) ∧
    (match (shape fn).prim with
     | .add _ => s'.prim (srcKey (shape fn).prim a (tokOf (shape fn).tok tokArg)) =
                 s.prim (srcKey (shape fn).prim a (tokOf (shape fn).tok tokArg)) + amt
     | .sub _ => amt ≤ s.prim (srcKey (shape fn).prim a (tokOf (shape fn).tok tokArg)) ∧
                 s'.prim (srcKey (shape fn).prim a (tokOf (shape fn).tok tokArg)) =
                 s.prim (srcKey (shape fn).prim a (tokOf (shape fn).tok tokArg)) - amt
     | .move _ _ _ =>
        amt ≤ s.prim (srcKey (shape fn).prim a (tokOf (shape fn).tok tokArg)) ∧
        (srcKey (shape fn).prim a (tokOf (shape fn).tok tokArg) ≠ dstKey (shape fn).prim a b (tokOf (shape fn).tok tokArg) →
          s'.prim (srcKey (shape fn).prim a (tokOf (shape fn).tok tokArg)) =
            s.prim (srcKey (shape fn).prim a (tokOf (shape fn).tok tokArg)) - amt ∧
          s'.prim (dstKey (shape fn).prim a b (tokOf (shape fn).tok tokArg)) =
            s.prim (dstKey (shape fn).prim a b (tokOf (shape fn).tok tokArg)) + amt)) := by
  unfold apply at hs
  simp only [hm] at hs
  generalize (shape fn).prim = p at hs ⊢
  generalize tokOf (shape fn).tok tokArg = tok at hs ⊢
  cases p with
  | add k =>
    simp only [prim1, Bool.false_eq_true, if_false] at hs
    obtain ⟨h0, h1, h2⟩ := add_exact s s' _ amt hs
    exact ⟨h0, fun k' hk _ => h2 k' hk, h1⟩
  | sub k =>
    simp only [prim1, Bool.false_eq_true, if_false] at hs
    obtain ⟨h0, hf, h1, h2⟩ := sub_exact s s' _ amt hs
    exact ⟨h0, fun k' hk _ => h2 k' hk, hf, h1⟩
  | move kf kt other =>
    simp only [prim1, Bool.false_eq_true, if_false] at hs
    obtain ⟨h0, hf, h1, _, h3⟩ := move_exact s s' _ _ amt hs
    exact ⟨h0, fun k' hk hk2 => h3 k' hk hk2, hf, h1⟩

/-- **an unfunded or negative single-asset call fails** (with C04 the enclosing transaction is
    dropped, so it fails without changing anything) -/
theorem api_unfunded_fails (s : St) (fn : Fn) (a b tokArg : String) (amt : Int)
    (hm : (shape fn).multi = false)
    (h : amt < 0 ∨ (match (shape fn).prim with
                    | .add _ => False
                    | _ => s.prim (srcKey (shape fn).prim a (tokOf (shape fn).tok tokArg)) < amt)) :
    ∃ e, apply s fn a b tokArg amt [] = .error e := by
  unfold apply
  simp only [hm]
  generalize (shape fn).prim = p at h ⊢
  generalize tokOf (shape fn).tok tokArg = tok at h ⊢
  cases p with
  | add k =>
    rcases h with h | h
    · exact ⟨.negative, by simp [prim1, add, h]⟩
    · exact absurd h id
  | sub k =>
    have := (unfunded_fails_clean s ⟨k, a, tok⟩ ⟨k, a, tok⟩ amt (by rcases h with h | h; exact Or.inr h; exact Or.inl h)).1
    simpa [prim1] using this
  | move kf kt other =>
    have := (unfunded_fails_clean s ⟨kf, a, tok⟩ ⟨kt, if other then b else a, tok⟩ amt
      (by rcases h with h | h; exact Or.inr h; exact Or.inl h)).2.1
    simpa [prim1] using this

/-- the table itself: which functions move (conserve), which credit, which debit — the list a
    reviewer reads against `core/ledger/balances.go` -/
theorem movers_conserve :
    ∀ fn, (∃ kf kt o, (shape fn).prim = .move kf kt o) ↔
      fn ∈ [Fn.tokenTransfer, .tokenLock, .tokenUnlock, .tokenTransferLocked, .indTransfer, .indLock, .indUnlock,
            .indTransferLocked, .allowedTransfer, .allowedLock, .allowedUnlock, .allowedTransferLocked,
            .allowedIndTransfer] := by
  intro fn; cases fn <;> simp [shape]

/-! ### non-vacuity -/

def s0 : St := ⟨fun _ => 0, fun _ => 0⟩
def exRun : Except Err St := do
  let s1 ← apply s0 .indAdd "alice" "" "VT_G1" 100 []
  let s2 ← apply s1 .indLock "alice" "" "G1" 30 []
  let s3 ← apply s2 .indTransferLocked "alice" "bob" "X_Y_G1" 10 []
  apply s3 .allowedIndAdd "bob" "" "" 0 [("USD", 5), ("EUR", 7)]

example : (match exRun with
    | .ok s => (s.prim ⟨"2b", "alice", "G1"⟩, s.prim ⟨"2e", "alice", "G1"⟩, s.prim ⟨"2b", "bob", "G1"⟩,
                s.inv ⟨"2b", "bob", "G1"⟩, s.prim ⟨"2c", "bob", "EUR"⟩)
    | .error _ => (0, 0, 0, 0, 0)) = (70, 20, 10, 10, 7) := by decide

example : (match apply s0 .tokenSub "alice" "" "" 1 [] with | .error .insufficient => true | _ => false) = true := by
  decide

end Foundation.LedgerApi
