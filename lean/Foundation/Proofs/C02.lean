import Foundation.Lemmas.NonceStep2
open GoSort
namespace Nonce

theorem inv_init (ttl : Nat) : Inv ttl [] [] := ⟨List.Pairwise.nil, by simp⟩

/-- One call of setNonce decides exactly like the full history, and keeps the invariant. -/
theorem setNonce_refines {ttl n : Nat} {acc W : List Nat} (h : Inv ttl acc W) :
    (∀ W', setNonce ttl n W = .ok W' → Accepts ttl acc n ∧ Inv ttl (acc ++ [n]) W') ∧
    (∀ e, setNonce ttl n W = .error e → ¬ Accepts ttl acc n) := by
  unfold setNonce
  by_cases hf : is13 n = true
  · simp only [hf, Bool.not_true, Bool.false_eq_true, if_false]
    cases hl : W.getLast? with
    | none =>
      have hW : W = [] := by simpa using hl
      subst hW
      have hacc := inv_nil_acc h
      subst hacc
      simp only
      refine ⟨?_, (by intro e he; cases he)⟩
      intro W' hW'
      cases hW'
      refine ⟨⟨hf, by simp, by simp⟩, List.pairwise_singleton _ _, ?_⟩
      intro a; simp; intro ha; omega
    | some l =>
      simp only
      by_cases hgt : n > l
      · simp only [hgt, if_true]
        obtain ⟨⟨h1, h2⟩, h3⟩ := step_gt h hl hgt
        refine ⟨?_, (by intro e he; cases he)⟩
        intro W' hW'
        cases hW'
        exact ⟨⟨hf, h1, h2⟩, h3⟩
      · simp only [hgt, if_false]
        have hle : n ≤ l := by omega
        by_cases hold : l - n > ttl
        · simp only [hold, if_true]
          refine ⟨(by intro W' hW'; cases hW'), ?_⟩
          intro e _ hacc
          obtain ⟨_, hlacc, _, _⟩ := last_is_max h hl
          have := hacc.2.2 l hlacc
          omega
        · simp only [hold, if_false]
          obtain ⟨hall, hdup, hins⟩ := step_le h hl hle (by omega)
          split
          · rename_i hd
            refine ⟨(by intro W' hW'; cases hW'), ?_⟩
            intro e _ hacc
            exact hacc.2.1 (hdup hd)
          · rename_i hd
            refine ⟨?_, (by intro e he; cases he)⟩
            intro W' hW'
            cases hW'
            obtain ⟨hn, hinv⟩ := hins hd
            exact ⟨⟨hf, hn, hall⟩, hinv⟩
  · have hf' : is13 n = false := by simpa using hf
    simp only [hf', Bool.not_false, if_true]
    refine ⟨(by intro W' hW'; cases hW'), ?_⟩
    intro e _ hacc
    rw [hacc.1] at hf'
    cases hf'

/-- The per-sender machine: window `W`, ghost history `acc`. -/
def stepSt (ttl : Nat) (s : List Nat × List Nat) (n : Nat) : (List Nat × List Nat) × Bool :=
  match setNonce ttl n s.1 with
  | .ok W' => ((W', s.2 ++ [n]), true)
  | .error _ => (s, false)

def run (ttl : Nat) : List Nat → List Nat × List Nat
  | [] => ([], [])
  | ns => ns.foldl (fun s n => (stepSt ttl s n).1) ([], [])

theorem foldl_inv (ttl : Nat) (ns : List Nat) (s : List Nat × List Nat) (h : Inv ttl s.2 s.1) :
    Inv ttl (ns.foldl (fun s n => (stepSt ttl s n).1) s).2 (ns.foldl (fun s n => (stepSt ttl s n).1) s).1 := by
  induction ns generalizing s with
  | nil => simpa
  | cons n ns ih =>
    simp only [List.foldl_cons]
    apply ih
    unfold stepSt
    cases hs : setNonce ttl n s.1 with
    | ok W' => exact ((setNonce_refines h).1 W' hs).2
    | error e => exact h

/-- Every reachable state satisfies the invariant. -/
theorem reachable_inv (ttl : Nat) (ns : List Nat) :
    Inv ttl (ns.foldl (fun s n => (stepSt ttl s n).1) ([], [])).2 (ns.foldl (fun s n => (stepSt ttl s n).1) ([], [])).1 :=
  foldl_inv ttl ns ([], []) (inv_init ttl)

/-- C02 core: in every reachable state, acceptance = spec on the full history. -/
theorem accept_iff (ttl : Nat) (ns : List Nat) (n : Nat) :
    let s := ns.foldl (fun s n => (stepSt ttl s n).1) ([], [])
    (stepSt ttl s n).2 = true ↔ Accepts ttl s.2 n := by
  intro s
  have h := reachable_inv ttl ns
  unfold stepSt
  cases hs : setNonce ttl n s.1 with
  | ok W' => simp; exact ((setNonce_refines h).1 W' hs).1
  | error e => simp; exact (setNonce_refines h).2 e hs

/-- at most once: a nonce already in the accepted history is rejected. -/
theorem replay_rejected (ttl : Nat) (ns : List Nat) (n : Nat) :
    let s := ns.foldl (fun s n => (stepSt ttl s n).1) ([], [])
    n ∈ s.2 → (stepSt ttl s n).2 = false := by
  intro s hn
  have := (accept_iff ttl ns n)
  cases hb : (stepSt ttl s n).2 with
  | false => rfl
  | true => exact absurd hn ((this.mp hb).2.1)

/-- rejected ⇒ state unchanged -/
theorem reject_keeps (ttl : Nat) (s : List Nat × List Nat) (n : Nat) :
    (stepSt ttl s n).2 = false → (stepSt ttl s n).1 = s := by
  unfold stepSt
  cases setNonce ttl n s.1 <;> simp

#eval (run 50000 [1700000000000, 1700000060000, 1700000010000, 1700000020000, 1700000020000, 1700000110001])

end Nonce
