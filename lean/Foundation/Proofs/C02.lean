import Foundation.Lemmas.NonceMain
import Foundation.Gen.Facts
/-!
# C02 — nonce replay protection

Property theorems only. `Nonce.setNonce` is the literal transcription of `core/nonce.go:setNonce`
(with Go's `sort.Search`); `stepSt` is one `checkNonce` of one sender (window + ghost history of
accepted nonces); `stepMulti` is the batch-level store with one window per sender. All theorems
hold for an arbitrary TTL and arbitrary (unbounded) histories; `facts_ttl` pins the TTL and the
digit count that the current source uses.
-/
open GoSort
namespace Nonce

/-- `search_correct`: our transcription of Go's `sort.Search` meets Go's contract — on a predicate
    that is monotone over `[0,n)` it returns the least index satisfying it, else `n`. -/
theorem search_correct (n : Nat) (f : Nat → Bool) (hm : Mono n f) :
    search n f ≤ n ∧ (∀ k, k < search n f → f k = false) ∧
    (∀ k, search n f ≤ k → k < n → f k = true) :=
  search_spec n f hm

theorem foldl_inv (ttl : Nat) (ns : List Nat) (s : PS) (h : Inv ttl s.2 s.1) :
    Inv ttl (ns.foldl (fun s n => (stepSt ttl s n).1) s).2 (ns.foldl (fun s n => (stepSt ttl s n).1) s).1 := by
  induction ns generalizing s with
  | nil => simpa
  | cons n ns ih =>
    simp only [List.foldl_cons]
    apply ih
    unfold stepSt
    cases hs : setNonce ttl n s.1 with
    | ok W' => exact ((setNonce_refines h).1 W' hs).2
    | error e => exact h

/-- `window_inv`: in every reachable state the stored window is strictly increasing and consists
    exactly of the accepted nonces that are within the TTL of every accepted nonce (i.e. of the
    maximum): the truncated window forgets nothing that could still be replayed. -/
theorem window_inv (ttl : Nat) (ns : List Nat) :
    Sorted (runSt ttl ns).1 ∧
    ∀ a, a ∈ (runSt ttl ns).1 ↔ a ∈ (runSt ttl ns).2 ∧ ∀ m ∈ (runSt ttl ns).2, m ≤ a + ttl := by
  have h := foldl_inv ttl ns ([], []) (inv_init ttl)
  exact ⟨h.sorted, h.mem⟩

/-- every accepted nonce is a 13-digit value (`< 10^13`), so no `uint64` arithmetic on stored
    values can overflow -/
theorem accepted_are_13_digit (ttl : Nat) (ns : List Nat) :
    ∀ a ∈ (runSt ttl ns).2, is13 a = true := by
  have gen : ∀ (ns : List Nat) (s : PS), (∀ a ∈ s.2, is13 a = true) →
      ∀ a ∈ (ns.foldl (fun s n => (stepSt ttl s n).1) s).2, is13 a = true := by
    intro ns
    induction ns with
    | nil => intro s h; simpa using h
    | cons n ns ih =>
      intro s h
      simp only [List.foldl_cons]
      apply ih
      unfold stepSt
      cases hs : setNonce ttl n s.1 with
      | error e => exact h
      | ok W' =>
        intro a ha
        simp only [List.mem_append, List.mem_singleton] at ha
        rcases ha with ha | rfl
        · exact h a ha
        · unfold setNonce at hs
          by_cases hf : is13 a = true
          · exact hf
          · simp [hf] at hs
  exact gen ns ([], []) (by simp)

/-- `refines` (C02 core): in every reachable state, the truncating window decides exactly like the
    full history: a nonce is accepted iff it is well-formed, was never accepted before, and is not
    older than any accepted nonce by more than the TTL. -/
theorem refines (ttl : Nat) (ns : List Nat) (n : Nat) :
    (stepSt ttl (runSt ttl ns) n).2 = true ↔ Accepts ttl (runSt ttl ns).2 n := by
  have h := foldl_inv ttl ns ([], []) (inv_init ttl)
  unfold stepSt
  cases hs : setNonce ttl n (runSt ttl ns).1 with
  | ok W' => simp; exact ((setNonce_refines h).1 W' hs).1
  | error e => simp; exact (setNonce_refines h).2 e hs

/-- the history of accepted nonces only grows, and records exactly the accepted ones -/
theorem acc_step (ttl : Nat) (s : PS) (n : Nat) :
    (stepSt ttl s n).1.2 = if (stepSt ttl s n).2 then s.2 ++ [n] else s.2 := by
  unfold stepSt
  cases setNonce ttl n s.1 <;> simp

theorem acc_monotone (ttl : Nat) (ns ms : List Nat) :
    ∀ a ∈ (runSt ttl ns).2, a ∈ (runSt ttl (ns ++ ms)).2 := by
  have gen : ∀ (ms : List Nat) (s : PS) a, a ∈ s.2 → a ∈ (ms.foldl (fun s n => (stepSt ttl s n).1) s).2 := by
    intro ms
    induction ms with
    | nil => intro s a h; simpa using h
    | cons m ms ih =>
      intro s a h
      simp only [List.foldl_cons]
      apply ih
      rw [acc_step]
      split
      · exact List.mem_append_left _ h
      · exact h
  intro a ha
  unfold runSt
  rw [List.foldl_append]
  exact gen ms _ a ha

/-- `at_most_once`: once accepted, a nonce is rejected at every later step, whatever happened in
    between (all routes share `checkNonce` and the store, so this is route-independent). -/
theorem at_most_once (ttl : Nat) (ns ms : List Nat) (n : Nat)
    (hacc : (stepSt ttl (runSt ttl ns) n).2 = true) :
    (stepSt ttl (runSt ttl (ns ++ [n] ++ ms)) n).2 = false := by
  have hmem : n ∈ (runSt ttl (ns ++ [n])).2 := by
    unfold runSt
    rw [List.foldl_append]
    simp only [List.foldl_cons, List.foldl_nil]
    have := acc_step ttl (ns.foldl (fun s n => (stepSt ttl s n).1) ([], [])) n
    unfold runSt at hacc
    rw [this, hacc]
    simp
  have hmem2 := acc_monotone ttl (ns ++ [n]) ms n hmem
  cases hb : (stepSt ttl (runSt ttl (ns ++ [n] ++ ms)) n).2 with
  | false => rfl
  | true => exact absurd hmem2 (((refines ttl _ n).mp hb).2.1)

/-- `too_old_rejected`: older than some accepted nonce by more than the TTL ⇒ rejected. -/
theorem too_old_rejected (ttl : Nat) (ns : List Nat) (n m : Nat)
    (hm : m ∈ (runSt ttl ns).2) (hold : n + ttl < m) :
    (stepSt ttl (runSt ttl ns) n).2 = false := by
  cases hb : (stepSt ttl (runSt ttl ns) n).2 with
  | false => rfl
  | true =>
    have := ((refines ttl ns n).mp hb).2.2 m hm
    omega

/-- the exact edge: a well-formed unused nonce exactly `ttl` older than the maximum is accepted -/
theorem window_edge_accepted (ttl : Nat) (ns : List Nat) (n : Nat)
    (hf : is13 n = true) (hnew : n ∉ (runSt ttl ns).2)
    (hedge : ∀ m ∈ (runSt ttl ns).2, m ≤ n + ttl) :
    (stepSt ttl (runSt ttl ns) n).2 = true :=
  (refines ttl ns n).mpr ⟨hf, hnew, hedge⟩

/-- `bad_format_rejected`: anything that is not a 13-digit value is rejected, in every state. -/
theorem bad_format_rejected (ttl : Nat) (s : PS) (n : Nat) (h : is13 n = false) :
    (stepSt ttl s n).2 = false ∧ (stepSt ttl s n).1 = s := by
  unfold stepSt setNonce
  simp [h]

/-- `fresh_accepted` (completeness): a well-formed nonce above everything accepted so far is accepted. -/
theorem fresh_accepted (ttl : Nat) (ns : List Nat) (n : Nat)
    (hf : is13 n = true) (hnew : ∀ m ∈ (runSt ttl ns).2, m < n) :
    (stepSt ttl (runSt ttl ns) n).2 = true := by
  apply (refines ttl ns n).mpr
  refine ⟨hf, ?_, ?_⟩
  · intro hmem; have := hnew n hmem; omega
  · intro m hm; have := hnew m hm; omega

/-- `reject_keeps_state`: a rejected nonce leaves window and history untouched. -/
theorem reject_keeps_state (ttl : Nat) (s : PS) (n : Nat) :
    (stepSt ttl s n).2 = false → (stepSt ttl s n).1 = s := by
  unfold stepSt
  cases setNonce ttl n s.1 <;> simp

/-- `sender_independent`: a step for one sender leaves every other sender's window untouched … -/
theorem sender_independent (ttl : Nat) (st : Store) (s s' : String) (n : Nat) (h : s' ≠ s) :
    stepMulti ttl st (s, n) s' = st s' := by
  simp [stepMulti, Foundation.upd_other _ _ _ _ h]

/-- … and what one sender observes is a function of that sender's own nonces only: the
    multi-sender store projected on `s` is the single-sender machine run on `s`'s sub-history. -/
theorem per_sender_projection (ttl : Nat) (h : List (String × Nat)) (s : String) :
    runMulti ttl h s = runSt ttl ((h.filter (fun e => e.1 = s)).map (·.2)) := by
  have gen : ∀ (h : List (String × Nat)) (st : Store),
      (h.foldl (stepMulti ttl) st) s =
      ((h.filter (fun e => e.1 = s)).map (·.2)).foldl (fun x n => (stepSt ttl x n).1) (st s) := by
    intro h
    induction h with
    | nil => intro st; rfl
    | cons e h ih =>
      intro st
      simp only [List.foldl_cons]
      by_cases he : e.1 = s
      · rw [ih]; subst he; simp [stepMulti]
      · have : s ≠ e.1 := fun x => he x.symm
        rw [ih]; simp [he, stepMulti, Foundation.upd_other _ _ _ _ this]
  exact gen h (fun _ => ([], []))

/-- `is13_iff_decimal_length`: the model's format test `10^12 ≤ n < 10^13` is exactly the Go test
    `len(strconv.FormatUint(n, 10)) == 13`: the decimal representation of `n` (Lean's `Nat.toDigits 10`,
    the same digit-by-digit division by ten) has 13 characters iff `n` lies in that interval. -/
theorem is13_iff_decimal_length (n : Nat) :
    is13 n = true ↔ (Nat.toDigits 10 n).length = Foundation.Facts.lenTimeInMilliseconds := by
  have h13 := @Nat.length_toDigits_le_iff 10 n 13 (by omega) (by omega)
  have h12 := @Nat.length_toDigits_le_iff 10 n 12 (by omega) (by omega)
  show is13 n = true ↔ (Nat.toDigits 10 n).length = 13
  simp only [is13, Bool.and_eq_true, decide_eq_true_eq]
  omega

/-- per-run obligation on the extracted constants: the validity window is 50 s and nonces have
    13 digits, the numbers the property statement quotes. -/
theorem facts_ttl : Foundation.Facts.defaultNonceTTL = 50 ∧ Foundation.Facts.lenTimeInMilliseconds = 13 := by
  decide

/-! ### non-vacuity -/

/-- a concrete history: accept, accept a new maximum 60 s later (window truncated), reject the now
    too-old value, reject a duplicate -/
example : (runSt 50000 [1700000000000, 1700000060000]).1 = [1700000060000] ∧
    (stepSt 50000 (runSt 50000 [1700000000000, 1700000060000]) 1700000000001).2 = false ∧
    (stepSt 50000 (runSt 50000 [1700000000000, 1700000060000]) 1700000060000).2 = false ∧
    (stepSt 50000 (runSt 50000 [1700000000000, 1700000060000]) 1700000010000).2 = true := by
  decide

example : Accepts 50000 [1700000000000, 1700000060000] 1700000010000 := by decide

end Nonce
