import Foundation.Model.Dispatch
import Foundation.Gen.Facts
/-!
# C11 — privileged operations need the right identity; disabled functions are unreachable
-/
namespace Foundation.Dispatch

/-- `validateSKI` accepts exactly a parsable certificate whose key id or certificate hash equals the
    (non-empty) configured robot value. -/
theorem validateSKI_spec (robot : String) (cr : Creator) :
    validateSKI robot cr = true ↔
    ∃ ski hash ous, cr = .cert ski hash ous ∧ robot ≠ "" ∧ (robot = hash ∨ robot = ski) := by
  cases cr with
  | none => simp [validateSKI]
  | garbage => simp [validateSKI]
  | cert ski hash ous =>
    simp only [validateSKI]
    constructor
    · intro h; exact ⟨ski, hash, ous, rfl, by simpa using h⟩
    · rintro ⟨s, h', o, heq, hh⟩
      injection heq with h1 h2 h3
      subst h1 h2
      simpa using hh

/-- `batch_robot_only`: batch execution starts only for the configured robot identity. -/
theorem batch_robot_only (cfg : Option Config) (ms : List Method) (cr : Creator) (fn : String)
    (h : invoke cfg ms cr fn = .reach .batchExecute) :
    ∃ c, cfg = some c ∧ validateSKI c.robotSKI cr = true := by
  unfold invoke at h
  cases cfg with
  | none => cases h
  | some c =>
    refine ⟨c, rfl, ?_⟩
    cases cr with
    | none => cases h
    | garbage => cases h
    | cert ski hash ous =>
      simp only at h
      by_cases h1 : fn = "createIndex"
      · simp [h1] at h
      · simp only [h1, if_false] at h
        by_cases h2 : fn = "batchExecute"
        · simp only [h2, if_true] at h
          by_cases hv : validateSKI c.robotSKI (.cert ski hash ous) = true
          · exact hv
          · simp [hv] at h
        · simp only [h2, if_false] at h
          repeat' split at h
          all_goals first | cases h | skip

/-- `transfer_fns_robot_only`: whatever a call of one of the five transfer-robot functions reaches,
    it reaches it only with the robot identity. -/
theorem transfer_fns_robot_only (c : Config) (ms : List Method) (cr : Creator) (fn : String)
    (hfn : fn ∈ robotFns) (b : Body) (h : invoke (some c) ms cr fn = .reach b) :
    validateSKI c.robotSKI cr = true := by
  unfold invoke at h
  have hne : fn ≠ "createIndex" ∧ fn ≠ "batchExecute" ∧ fn ≠ "swapDone" ∧ fn ≠ "multiSwapDone" := by
    simp [robotFns] at hfn
    rcases hfn with h | h | h | h | h <;> subst h <;> decide
  cases cr with
  | none => cases h
  | garbage => cases h
  | cert ski hash ous =>
    simp only [hne.1, hne.2.1, hne.2.2.1, hne.2.2.2, if_false] at h
    have hc : robotFns.contains fn = true := by simpa using hfn
    by_cases hv : validateSKI c.robotSKI (.cert ski hash ous) = true
    · exact hv
    · simp [hc, hv, hfn] at h

/-- `disabled_unreachable` (direct call and batched submission — both enter through `invoke`):
    neither the method body nor the recording of a request for it is reached when the
    configuration in force disables the method (by name, or through the swap / multi-swap switch). -/
theorem disabled_unreachable (c : Config) (ms : List Method) (cr : Creator) (fn : String) (m : Method)
    (ro : Bool) (h : invoke (some c) ms cr fn = .reach (.submit m) ∨ invoke (some c) ms cr fn = .reach (.method m ro)) :
    isMethodDisabled c m.name = false := by
  cases cr with
  | none => rcases h with h | h <;> cases h
  | garbage => rcases h with h | h <;> cases h
  | cert ski hash ous =>
    have key : ∀ b, invoke (some c) ms (.cert ski hash ous) fn = .reach b →
        (b = .submit m ∨ b = .method m ro) → isMethodDisabled c m.name = false := by
      intro b hb hbm
      unfold invoke at hb
      simp only at hb
      by_cases h1 : fn = "createIndex"
      · simp only [h1, if_true] at hb; injection hb with hb; subst hb; rcases hbm with x | x <;> cases x
      simp only [h1, if_false] at hb
      by_cases h2 : fn = "batchExecute"
      · simp only [h2, if_true] at hb
        split at hb
        · injection hb with hb; subst hb; rcases hbm with x | x <;> cases x
        · cases hb
      simp only [h2, if_false] at hb
      by_cases h3 : fn = "swapDone"
      · simp only [h3, if_true] at hb
        split at hb
        · cases hb
        · injection hb with hb; subst hb; rcases hbm with x | x <;> cases x
      simp only [h3, if_false] at hb
      by_cases h4 : fn = "multiSwapDone"
      · simp only [h4, if_true] at hb
        split at hb
        · cases hb
        · injection hb with hb; subst hb; rcases hbm with x | x <;> cases x
      simp only [h4, if_false] at hb
      split at hb
      · cases hb
      by_cases h5 : fn = "executeTasks"
      · simp only [h5, if_true] at hb; injection hb with hb; subst hb; rcases hbm with x | x <;> cases x
      simp only [h5, if_false] at hb
      cases hl : lookup ms fn with
      | none => simp [hl] at hb
      | some m' =>
        simp only [hl] at hb
        by_cases hd : isMethodDisabled c m'.name = true
        · simp [hd] at hb
        · simp only [hd, Bool.false_eq_true, if_false] at hb
          have hm : m' = m := by
            cases hk : m'.kind <;> simp only [hk] at hb <;> injection hb with hb <;> subst hb <;>
              rcases hbm with x | x <;> injection x
          subst hm
          simpa using hd
    rcases h with h | h
    · exact key _ h (Or.inl rfl)
    · exact key _ h (Or.inr rfl)

/-- `disabled_unreachable` (task execution) -/
theorem disabled_unreachable_task (c : Config) (ms : List Method) (fn : String) (m : Method) (ro : Bool)
    (h : task c ms fn = .reach (.method m ro)) : isMethodDisabled c m.name = false := by
  unfold task at h
  split at h
  · cases h
  · rename_i m' hl
    by_cases hd : isMethodDisabled c m'.name = true
    · simp [hd] at h
    · simp only [hd, Bool.false_eq_true, if_false] at h
      split at h
      · cases h
      · injection h with h; injection h with h1; subst h1; simpa using hd

/-- what "disabled" means: listed by name, or one of the three swap (multi-swap) methods while the
    corresponding switch is on -/
theorem isMethodDisabled_spec (c : Config) (method : String) :
    isMethodDisabled c method = true ↔ c.hasOptions = true ∧ (method ∈ c.disabled ∨
      (c.disableSwaps = true ∧ method ∈ swapMethods) ∨ (c.disableMultiSwaps = true ∧ method ∈ multiSwapMethods)) := by
  simp [isMethodDisabled, or_assoc]

/-- the swap switches also close the completion entry points -/
theorem swap_done_obeys_switch (c : Config) (ms : List Method) (ski hash : String) (ous : List String)
    (h : c.hasOptions = true) :
    (c.disableSwaps = true → invoke (some c) ms (.cert ski hash ous) "swapDone" = .refuse .swapsOff) ∧
    (c.disableMultiSwaps = true → invoke (some c) ms (.cert ski hash ous) "multiSwapDone" = .refuse .swapsOff) := by
  constructor <;> intro hs <;> simp [invoke, h, hs]

/-- ... and the robot's lists inside a batch: neither answers nor completing keys are processed for
    a kind the configuration in force switches off — whatever was begun under an earlier configuration -/
theorem batch_lists_obey_switch (c : Config) (h : c.hasOptions = true) :
    (c.disableSwaps = true → sectionRuns c .swapAnswers = false ∧ sectionRuns c .swapKeys = false) ∧
    (c.disableMultiSwaps = true → sectionRuns c .multiAnswers = false ∧ sectionRuns c .multiKeys = false) := by
  constructor <;> intro hs <;> simp [sectionRuns, h, hs]

/-- `admin_methods_admin_only`: the privileged effect of an admin-only method (balance locks, forced
    balance transfer, transfer on behalf of a user) happens only for the configured admin address. -/
theorem admin_methods_admin_only (c : Config) (m : Method) (sender : String)
    (hm : m.name ∈ adminOnly) (h : adminGate c m sender = true) : c.admin ≠ "" ∧ sender = c.admin := by
  have h' : ¬ m.name ∈ adminOnly ∨ ¬ c.admin = "" ∧ sender = c.admin := by simpa [adminGate] using h
  rcases h' with h' | h'
  · exact absurd hm h'
  · exact h'

/-- `init_admin_ou_only`: initialisation is accepted only from a parsable certificate with an
    organisational unit equal to "admin" up to case. -/
theorem init_admin_ou_only (cr : Creator) (h : initAllowed cr = true) :
    ∃ ski hash ous, cr = .cert ski hash ous ∧ ∃ ou ∈ ous, ou.toLower = "admin" := by
  cases cr with
  | none => cases h
  | garbage => cases h
  | cert ski hash ous =>
    refine ⟨ski, hash, ous, rfl, ?_⟩
    simpa [initAllowed] using h

/-- unparsable or missing creators, and a missing configuration, refuse everything -/
theorem bad_creator_or_no_config_refused (cfg : Option Config) (ms : List Method) (cr : Creator) (fn : String)
    (h : cfg = none ∨ cr = .none ∨ cr = .garbage) : ∀ b, invoke cfg ms cr fn ≠ .reach b := by
  intro b hb
  unfold invoke at hb
  rcases h with h | h | h
  · subst h; cases hb
  · subst h; cases cfg <;> cases hb
  · subst h; cases cfg <;> cases hb

/-- per-run obligations on the dispatch skeleton extracted from the current source: the cases of
    the function-name switch (as a set), exactly the robot-guarded ones (a case is guarded when it
    reaches `ValidateSKI` directly or through helpers of package core), exactly the ones that
    end the invocation, the disabled test before routing, and the two places that apply it. -/
theorem facts_dispatch :
    Foundation.Facts.invokeCaseOrder.isPerm
      (["createIndex", "batchExecute", "swapDone", "multiSwapDone"] ++ robotFns ++ ["executeTasks"]) = true ∧
    Foundation.Facts.robotGuardedFns.isPerm ("batchExecute" :: robotFns) = true ∧
    Foundation.Facts.returningCases.isPerm ["createIndex", "batchExecute", "swapDone", "multiSwapDone", "executeTasks"] = true ∧
    Foundation.Facts.invokeDisabledTestBeforeRouting = 1 ∧
    Foundation.Facts.disabledTestSites = ["Invoke", "validatedTxSenderMethodAndArgs"] := by
  decide

/-! ### non-vacuity -/
def exCfg : Config := ⟨"ab12", "ADMIN", true, ["TxTransfer"], false, true⟩
def exMs : List Method := [⟨"TxTransfer", "transfer", .tx, true⟩, ⟨"QueryBalanceOf", "balanceOf", .query, false⟩,
  ⟨"TxMultiSwapBegin", "multiSwapBegin", .tx, true⟩]

example : invoke (some exCfg) exMs (.cert "ab12" "ff" ["client"]) "batchExecute" = .reach .batchExecute := by decide
example : invoke (some exCfg) exMs (.cert "xx" "ff" ["client"]) "batchExecute" = .refuse .unauthorized := by decide
example : invoke (some exCfg) exMs (.cert "xx" "ff" ["client"]) "transfer" = .refuse .disabled ∧
    task exCfg exMs "transfer" = .refuse .disabled ∧ task exCfg exMs "multiSwapBegin" = .refuse .disabled := by decide
example : invoke (some exCfg) exMs (.cert "xx" "ff" []) "balanceOf" = .reach (.method ⟨"QueryBalanceOf", "balanceOf", .query, false⟩ true) := by
  decide

end Foundation.Dispatch
