import Foundation.Lemmas.System
import Foundation.Proofs.C01
/-!
# End-to-end theorems over the request pipeline (glue between C01, C02, C05, C06, C11)

`System.step` composes the models of authentication (`Auth.authorize`), the nonce window
(`Nonce.setNonce`), pending records and the three routes. The theorems below hold for **every**
history of submissions, batches and task lists (any length, any ids, any creators, any requests,
any ACL answers) and — except for conservation — for an **arbitrary** method body.

They say what the per-property theorems cannot say alone: the sender and nonce the nonce window
protects are the ones authentication established; the record a batch executes is the one an
authenticated submission stored; the ledger is exactly the result of the logged executions.
-/
namespace Foundation.System
open Foundation Foundation.Auth

/-- **replay, end to end** (C02 with C01/C05 glue): over any history, among all method bodies that
    ran to success on the batch and task routes no two have the same (sender, nonce) — a signed
    request takes effect at most once, whether it is re-submitted under a new transaction id,
    listed twice, listed again later, or sent through the other route. -/
theorem e2e_replay_protected (c : Ctx) (ops : List Op) :
    (ids (run c init ops).log).Nodup := by
  have := run_inv c ops init [] (inv_init c [])
  exact this.nodup

/-- every body that ran (on any route) was requested by a request of the history that passes
    authentication for exactly the sender, the arguments and the nonce it ran with, for a known and
    enabled method, with arguments the router accepts -/
theorem e2e_authenticated (c : Ctx) (ops : List Op) :
    ∀ e ∈ (run c init ops).log, Authd c (requestsOf ops) e.fn e.sender e.args e.nonce := by
  have := run_inv c ops init [] (inv_init c [])
  simpa using this.logAuth

/-- **forgery, end to end** (C01 through all routes): every body that ran for sender `A` is backed
    by a request in the history whose key list the access-control service maps to `A`, not
    black/grey-listed, carrying at least the required number of genuine signatures by distinct
    signer keys over exactly that request. -/
theorem e2e_genuine_signatures (c : Ctx) (ops : List Op) :
    ∀ e ∈ (run c init ops).log, ∃ r ∈ requestsOf ops, r.fn = e.fn ∧
      ∃ mi p kts n ha b g, c.methods e.fn = some mi ∧ parse mi.argc r.args = .ok p ∧
        r.acl = .ok e.sender kts n ha b g ∧ ¬ (ha = true ∧ (b = true ∨ g = true)) ∧
        required p.signers n ≤ (genuineSigners c.env e.fn r.args p (keyTypes c.env kts p.keys)).length := by
  intro e he
  obtain ⟨r, hr, hfn, mi, ns, hm, _, hauth, _, _⟩ := e2e_authenticated c ops e he
  obtain ⟨p, kts, n, ha, b, g, hp, hacl, hnl, hreq⟩ := auth_sound c.env e.fn mi.argc r.args r.acl e.sender e.args ns hauth
  exact ⟨r, hr, hfn, mi, p, kts, n, ha, b, g, hm, hp, hacl, hnl, hreq⟩

/-- every stored pending record was written by an authenticated submission (C05 glue: the record a
    batch later executes carries the authenticated sender, not a sender chosen by the submitter) -/
theorem e2e_pending_authenticated (c : Ctx) (ops : List Op) (id : String) (p : Pend)
    (h : (run c init ops).pend id = some p) : Authd c (requestsOf ops) p.fn p.sender p.args p.nonce := by
  have := run_inv c ops init [] (inv_init c [])
  have h2 := this.pendAuth id p h
  simpa using h2

/-- the business state is exactly the result of re-executing the logged bodies in order: nothing
    else ever changes it (rejected requests, failed bodies, unauthorised batches, unknown ids and
    consumed nonces leave it alone) -/
theorem e2e_ledger_is_log_replay (c : Ctx) (ops : List Op) :
    (run c init ops).led = replayLog c (run c init ops).log led0 :=
  (run_inv c ops init [] (inv_init c [])).replay

/-- every accepted nonce of a batched execution is in its sender's accepted history, and every
    sender's stored window satisfies the C02 invariant at every reachable state -/
theorem e2e_window_inv (c : Ctx) (ops : List Op) (a : String) :
    Nonce.Inv c.ttl ((run c init ops).win a).2 ((run c init ops).win a).1 :=
  (run_inv c ops init [] (inv_init c [])).nonce a

/-- `batchExecute` by anyone but the robot changes nothing (C11 on this pipeline) -/
theorem non_robot_batch_noop (c : Ctx) (s : St) (creator : String) (idl : List String)
    (h : creator ≠ c.robot) : step c s (.batch creator idl) = (s, "unauthorized") := by
  simp [step, h]

/-- a request that fails method lookup, the disabled test, authentication or the argument check
    changes nothing on the submission routes -/
theorem rejected_submit_noop (c : Ctx) (s : St) (txid : String) (r : Req) (e : String)
    (h : gate c r = .error e) : submit c s txid r = (s, e) := by
  simp [submit, h]

/-- a batched submission only records the request: business state, nonce windows and the log are
    untouched (C05: no business effect until a batch lists it) -/
theorem tx_submission_only_records (c : Ctx) (s : St) (txid : String) (r : Req) (mi : MethodInfo)
    (hm : c.methods r.fn = some mi) (hk : mi.kind = .tx) :
    (submit c s txid r).1.led = s.led ∧ (submit c s txid r).1.win = s.win ∧
    (submit c s txid r).1.log = s.log ∧ ∀ id, id ≠ txid → (submit c s txid r).1.pend id = s.pend id := by
  unfold submit
  cases ha : gate c r with
  | error e => simp
  | ok t =>
    obtain ⟨mi', sender, margs, nonce⟩ := t
    have : mi' = mi := by
      unfold gate at ha
      simp only [hm] at ha
      split at ha
      · cases ha
      · split at ha
        · cases ha
        · split at ha
          · cases ha
          · injection ha with ha; injection ha with ha; exact ha.symm
    subst this
    dsimp only
    split
    · refine ⟨rfl, rfl, rfl, ?_⟩
      intro id hid
      exact upd_other _ _ _ _ hid
    · rename_i h2; rw [hk] at h2; cases h2

/-- a listed id is consumed whether its execution succeeds or fails, and an unknown id touches
    nothing -/
theorem listed_id_consumed (c : Ctx) (s : St) (id : String) :
    (batchItem c s id).1.pend id = none := by
  unfold batchItem
  cases hp : s.pend id with
  | none => simpa using hp
  | some p =>
    simp only
    cases hm : c.methods p.fn with
    | none => simp
    | some mi =>
      simp only [execute]
      split
      · simp
      · split <;> simp

theorem unknown_id_noop (c : Ctx) (s : St) (id : String) (h : s.pend id = none) :
    batchItem c s id = (s, "notfound") := by
  simp [batchItem, h]

/-! ### conservation for the token bodies -/

structure LedInv (l : Led) : Prop where
  nodup : l.keys.Nodup
  zero : ∀ a, a ∉ l.keys → l.bal a = 0
  nonneg : ∀ a, 0 ≤ l.bal a
  conserved : held l = l.emission

theorem ledInv0 : LedInv led0 := ⟨List.nodup_nil, fun _ _ => rfl, fun _ => Int.le_refl _, rfl⟩

theorem held_add (l : Led) (h : LedInv l) (a : String) (v : Int) :
    sumOver (touch l.keys a) (upd l.bal a v) = held l - l.bal a + v := by
  have := sumOver_touch_change l.keys l.bal (upd l.bal a v) a
    (fun k hk => (upd_other _ _ _ _ hk).symm) h.nodup (h.zero a)
  rw [this]; simp [held]

theorem tokenBody_inv (issuer fn sender : String) (margs : List String) (l l' : Led) (h : LedInv l)
    (hb : tokenBody issuer fn sender margs l = some l') : LedInv l' := by
  unfold tokenBody at hb
  split at hb
  · -- transfer
    rename_i to amt _
    cases hn : amountOf amt with
    | none => simp [hn] at hb
    | some n =>
      simp only [hn] at hb
      split at hb
      · cases hb
      · rename_i hg
        have hg' : sender ≠ to ∧ 0 < n ∧ n ≤ l.bal sender := by
          refine ⟨fun e => hg (Or.inl e), ?_, ?_⟩
          · have : ¬ n ≤ 0 := fun e => hg (Or.inr (Or.inl e))
            omega
          · have : ¬ l.bal sender < n := fun e => hg (Or.inr (Or.inr e))
            omega
        injection hb with hb
        subst hb
        -- intermediate ledger after the debit
        let l1 : Led := ⟨upd l.bal sender (l.bal sender - n), l.emission, touch l.keys sender⟩
        have h1nodup : l1.keys.Nodup := touch_nodup _ _ h.nodup
        have h1zero : ∀ a, a ∉ l1.keys → l1.bal a = 0 := by
          intro a ha
          have : a ≠ sender ∧ a ∉ l.keys := by
            constructor
            · intro e; exact ha ((mem_touch _ _ _).mpr (Or.inl e))
            · intro e; exact ha ((mem_touch _ _ _).mpr (Or.inr e))
          show upd l.bal sender _ a = 0
          rw [upd_other _ _ _ _ this.1]; exact h.zero a this.2
        have h1sum : sumOver l1.keys l1.bal = held l - n := by
          show sumOver (touch l.keys sender) (upd l.bal sender (l.bal sender - n)) = _
          rw [held_add l h]; omega
        refine ⟨touch_nodup _ _ h1nodup, ?_, ?_, ?_⟩
        · intro a ha
          have : a ≠ to ∧ a ∉ l1.keys := by
            constructor
            · intro e; exact ha ((mem_touch _ _ _).mpr (Or.inl e))
            · intro e; exact ha ((mem_touch _ _ _).mpr (Or.inr e))
          show upd (upd l.bal sender _) to _ a = 0
          rw [upd_other _ _ _ _ this.1]; exact h1zero a this.2
        · intro a
          show 0 ≤ upd (upd l.bal sender _) to _ a
          by_cases hat : a = to
          · subst hat
            simp only [upd_same]
            rw [upd_other _ _ _ _ (Ne.symm hg'.1)]
            have := h.nonneg a; omega
          · rw [upd_other _ _ _ _ hat]
            by_cases has : a = sender
            · subst has; simp only [upd_same]; omega
            · rw [upd_other _ _ _ _ has]; exact h.nonneg a
        · show sumOver (touch l1.keys to) (upd l1.bal to (l1.bal to + n)) = l.emission
          have := sumOver_touch_change l1.keys l1.bal (upd l1.bal to (l1.bal to + n)) to
            (fun k hk => (upd_other _ _ _ _ hk).symm) h1nodup (h1zero to)
          rw [this, h1sum]; simp only [upd_same]
          have := h.conserved; omega
  · -- transferNb (same body)
    rename_i to amt _
    cases hn : amountOf amt with
    | none => simp [hn] at hb
    | some n =>
      simp only [hn] at hb
      split at hb
      · cases hb
      · rename_i hg
        have hg' : sender ≠ to ∧ 0 < n ∧ n ≤ l.bal sender := by
          refine ⟨fun e => hg (Or.inl e), ?_, ?_⟩
          · have : ¬ n ≤ 0 := fun e => hg (Or.inr (Or.inl e))
            omega
          · have : ¬ l.bal sender < n := fun e => hg (Or.inr (Or.inr e))
            omega
        injection hb with hb
        subst hb
        let l1 : Led := ⟨upd l.bal sender (l.bal sender - n), l.emission, touch l.keys sender⟩
        have h1nodup : l1.keys.Nodup := touch_nodup _ _ h.nodup
        have h1zero : ∀ a, a ∉ l1.keys → l1.bal a = 0 := by
          intro a ha
          have : a ≠ sender ∧ a ∉ l.keys := by
            constructor
            · intro e; exact ha ((mem_touch _ _ _).mpr (Or.inl e))
            · intro e; exact ha ((mem_touch _ _ _).mpr (Or.inr e))
          show upd l.bal sender _ a = 0
          rw [upd_other _ _ _ _ this.1]; exact h.zero a this.2
        have h1sum : sumOver l1.keys l1.bal = held l - n := by
          show sumOver (touch l.keys sender) (upd l.bal sender (l.bal sender - n)) = _
          rw [held_add l h]; omega
        refine ⟨touch_nodup _ _ h1nodup, ?_, ?_, ?_⟩
        · intro a ha
          have : a ≠ to ∧ a ∉ l1.keys := by
            constructor
            · intro e; exact ha ((mem_touch _ _ _).mpr (Or.inl e))
            · intro e; exact ha ((mem_touch _ _ _).mpr (Or.inr e))
          show upd (upd l.bal sender _) to _ a = 0
          rw [upd_other _ _ _ _ this.1]; exact h1zero a this.2
        · intro a
          show 0 ≤ upd (upd l.bal sender _) to _ a
          by_cases hat : a = to
          · subst hat
            simp only [upd_same]
            rw [upd_other _ _ _ _ (Ne.symm hg'.1)]
            have := h.nonneg a; omega
          · rw [upd_other _ _ _ _ hat]
            by_cases has : a = sender
            · subst has; simp only [upd_same]; omega
            · rw [upd_other _ _ _ _ has]; exact h.nonneg a
        · show sumOver (touch l1.keys to) (upd l1.bal to (l1.bal to + n)) = l.emission
          have := sumOver_touch_change l1.keys l1.bal (upd l1.bal to (l1.bal to + n)) to
            (fun k hk => (upd_other _ _ _ _ hk).symm) h1nodup (h1zero to)
          rw [this, h1sum]; simp only [upd_same]
          have := h.conserved; omega
  · -- emit
    rename_i to amt
    cases hn : amountOf amt with
    | none => simp [hn] at hb
    | some n =>
      simp only [hn] at hb
      split at hb
      · cases hb
      · rename_i hg
        have hg' : 0 < n := by
          have : ¬ n ≤ 0 := fun e => hg (Or.inr e)
          omega
        injection hb with hb
        subst hb
        refine ⟨touch_nodup _ _ h.nodup, ?_, ?_, ?_⟩
        · intro a ha
          have : a ≠ to ∧ a ∉ l.keys := by
            constructor
            · intro e; exact ha ((mem_touch _ _ _).mpr (Or.inl e))
            · intro e; exact ha ((mem_touch _ _ _).mpr (Or.inr e))
          show upd l.bal to _ a = 0
          rw [upd_other _ _ _ _ this.1]; exact h.zero a this.2
        · intro a
          show 0 ≤ upd l.bal to _ a
          by_cases hat : a = to
          · subst hat; simp only [upd_same]; have := h.nonneg a; omega
          · rw [upd_other _ _ _ _ hat]; exact h.nonneg a
        · show sumOver (touch l.keys to) (upd l.bal to (l.bal to + n)) = l.emission + n
          rw [held_add l h]; have := h.conserved; omega
  · cases hb

theorem replayLog_inv (c : Ctx) (issuer : String) (hc : c.body = tokenBody issuer) (es : List Exec)
    (l : Led) (h : LedInv l) : LedInv (replayLog c es l) := by
  induction es generalizing l with
  | nil => exact h
  | cons e es ih =>
    simp only [replayLog]
    apply ih
    cases hb : c.body e.fn e.sender e.args l with
    | none => exact h
    | some l' =>
      simp only [Option.getD_some]
      rw [hc] at hb
      exact tokenBody_inv issuer _ _ _ l l' h hb

/-- **conservation, end to end** (C06 through all routes): with the token bodies, after any history
    no balance is negative and the units held equal the total emission — in particular no route,
    no rejected request, no failed or replayed transaction creates or destroys units. -/
theorem e2e_conservation (c : Ctx) (issuer : String) (hc : c.body = tokenBody issuer) (ops : List Op) :
    (∀ a, 0 ≤ (run c init ops).led.bal a) ∧ held (run c init ops).led = (run c init ops).led.emission := by
  have h := replayLog_inv c issuer hc (run c init ops).log led0 ledInv0
  rw [← e2e_ledger_is_log_replay] at h
  exact ⟨h.nonneg, h.conserved⟩

/-- a token body lowers only its sender's balance, and only by a transfer -/
theorem tokenBody_debits_only_sender (issuer fn sender : String) (margs : List String) (l l' : Led)
    (hb : tokenBody issuer fn sender margs l = some l') (a : String) (hd : l'.bal a < l.bal a) :
    a = sender ∧ (fn = "transfer" ∨ fn = "transferNb") := by
  unfold tokenBody at hb
  split at hb
  · rename_i to amt _
    cases hn : amountOf amt with
    | none => simp [hn] at hb
    | some n =>
      simp only [hn] at hb
      split at hb
      · cases hb
      · rename_i hg
        injection hb with hb
        subst hb
        refine ⟨?_, Or.inl rfl⟩
        apply Classical.byContradiction
        intro hne
        have : upd (upd l.bal sender (l.bal sender - n)) to (upd l.bal sender (l.bal sender - n) to + n) a < l.bal a := hd
        by_cases hat : a = to
        · subst hat
          simp only [upd_same] at this
          rw [upd_other _ _ _ _ hne] at this
          omega
        · rw [upd_other _ _ _ _ hat, upd_other _ _ _ _ hne] at this
          omega
  · rename_i to amt _
    cases hn : amountOf amt with
    | none => simp [hn] at hb
    | some n =>
      simp only [hn] at hb
      split at hb
      · cases hb
      · rename_i hg
        injection hb with hb
        subst hb
        refine ⟨?_, Or.inr rfl⟩
        apply Classical.byContradiction
        intro hne
        have : upd (upd l.bal sender (l.bal sender - n)) to (upd l.bal sender (l.bal sender - n) to + n) a < l.bal a := hd
        by_cases hat : a = to
        · subst hat
          simp only [upd_same] at this
          rw [upd_other _ _ _ _ hne] at this
          omega
        · rw [upd_other _ _ _ _ hat, upd_other _ _ _ _ hne] at this
          omega
  · rename_i to amt
    cases hn : amountOf amt with
    | none => simp [hn] at hb
    | some n =>
      simp only [hn] at hb
      split at hb
      · cases hb
      · rename_i hg
        injection hb with hb
        subst hb
        exfalso
        have : upd l.bal to (l.bal to + n) a < l.bal a := hd
        by_cases hat : a = to
        · subst hat; simp only [upd_same] at this; omega
        · rw [upd_other _ _ _ _ hat] at this; omega
  · cases hb

/-! ### non-vacuity: a concrete history in which a signed transfer is executed once and its replays
    (same batch, later batch, task route) are refused, while balances stay conserved -/

def exCtx : Ctx :=
  { env := exEnv, robot := "robot", ttl := 50000,
    methods := fun f => if f = "transfer" ∨ f = "emit" then some ⟨if f = "transfer" then 4 else 3, .tx⟩ else none,
    disabled := fun _ => false, argsOk := fun _ _ => true,
    body := tokenBody "ISS" }

def exReq : Req := ⟨"transfer", ["", "vt", "vt", "BOB", "100", "r", "1700000000001", "K0", "S0"],
  .ok "A0" [.ed] 0 true false false⟩

def exFunded : St := { init with led := ⟨fun a => if a = "A0" then 150 else 0, 150, ["A0"]⟩ }

def exOps : List Op :=
  [.submit "t1" exReq, .submit "t2" exReq, .batch "robot" ["t1", "t1", "t2"], .tasks [exReq], .batch "mallory" ["t2"]]

def exS2 : St := run exCtx exFunded [.submit "t1" exReq, .submit "t2" exReq]

example : (batchItems exCtx exS2 ["t1", "t1", "t2"]).2 = ["ok", "notfound", "nonce-dup"] := by decide

example : (taskItems exCtx (batchItems exCtx exS2 ["t1", "t1", "t2"]).1 [exReq]).2 = ["nonce-dup"] := by decide

example : ((run exCtx exFunded exOps).led.bal "A0", (run exCtx exFunded exOps).led.bal "BOB",
    (run exCtx exFunded exOps).log.length) = (50, 100, 1) := by decide

end Foundation.System
