import Foundation.Model.Batch
import Foundation.Lemmas.Cache
/-!
# C04 — batch execution: per-transaction atomicity, equivalent to serial execution
-/
namespace Foundation.Batch
open Foundation.Cache

/-- `prog_refines_spec` (the general simulation): *any* program over the two cache layers — any
    control flow depending on any values read — computes on the layered cache exactly what it
    computes on the plain map with an own-writes overlay, and the cache state stays related to the
    map state by the abstraction `abs`. The ledger under the cache is never touched. -/
theorem prog_refines_spec {α} (p : Prog α) : ∀ (s : St), Inv s → LogInv s →
    (runCache s p).2 = (runSpec (abs s) p).2 ∧ abs (runCache s p).1 = (runSpec (abs s) p).1 ∧
    Inv (runCache s p).1 ∧ LogInv (runCache s p).1 ∧ (runCache s p).1.ledger = s.ledger := by
  induction p with
  | ret a => intro s h hl; exact ⟨rfl, rfl, h, hl, rfl⟩
  | op o k ih =>
    intro s h hl
    obtain ⟨a, b, c, d, e⟩ := step_props s h hl o
    obtain ⟨a2, b2, c2, d2, e2⟩ := ih (step s o).2 (step s o).1 c d
    simp only [runCache, runSpec]
    rw [← a, ← b]
    exact ⟨a2, b2, c2, d2, by rw [e2, e]⟩
  | commitTx k ih =>
    intro s h hl
    have hi : Inv (txCommit s) := by intro k' v hv; exact h k' v hv
    have hl' : LogInv (txCommit s) := by intro k' hk'; exact absurd rfl hk'
    obtain ⟨a2, b2, c2, d2, e2⟩ := ih (txWrites s) (txCommit s) hi hl'
    simp only [runCache, runSpec]
    rw [← abs_writes, ← abs_txCommit]
    exact ⟨a2, b2, c2, d2, e2⟩
  | discardTx n ih =>
    intro s h hl
    have hi : Inv (txDiscard s) := by intro k' v hv; exact h k' v hv
    have hl' : LogInv (txDiscard s) := by intro k' hk'; exact absurd rfl hk'
    obtain ⟨a2, b2, c2, d2, e2⟩ := ih (txDiscard s) hi hl'
    simp only [runCache, runSpec]
    rw [← abs_txDiscard]
    exact ⟨a2, b2, c2, d2, e2⟩

/-- `batch_refines_serial`: for every ledger, every list of ids (duplicates, unknown ids, any mix of
    failing, panicking and succeeding scripted bodies, any decoding of the stored records) the reply
    entries of `batchExecute` — error class or write list, values read, events, accounting — and
    the ledger written by the final commit are those of the serial execution on a plain map. -/
theorem batch_refines_serial (decode : Val → Option Pending) (known : String → Bool)
    (ledger : Key → Val) (ids : List String) :
    let p := batchProg decode known ids
    (runCache (init ledger) p).2 = (runSpec ⟨ledger, fun _ => none, []⟩ p).2 ∧
    batchCommit (runCache (init ledger) p).1 = (runSpec ⟨ledger, fun _ => none, []⟩ p).1.c := by
  intro p
  have hi : Inv (init ledger) := by intro k v h; simp [init] at h
  have hl : LogInv (init ledger) := by intro k h; exact absurd rfl h
  obtain ⟨a, b, _⟩ := prog_refines_spec p (init ledger) hi hl
  have habs : abs (init ledger) = ⟨ledger, fun _ => none, []⟩ := by simp only [abs, init]; congr 1
  rw [habs] at a b
  exact ⟨a, by rw [← b]; rfl⟩

/-- the same for task lists -/
theorem tasks_refine_serial (known : String → Bool) (ledger : Key → Val) (ts : List (String × List Step)) :
    let p := tasksProg known ts
    (runCache (init ledger) p).2 = (runSpec ⟨ledger, fun _ => none, []⟩ p).2 ∧
    batchCommit (runCache (init ledger) p).1 = (runSpec ⟨ledger, fun _ => none, []⟩ p).1.c := by
  intro p
  have hi : Inv (init ledger) := by intro k v h; simp [init] at h
  have hl : LogInv (init ledger) := by intro k h; exact absurd rfl h
  obtain ⟨a, b, _⟩ := prog_refines_spec p (init ledger) hi hl
  have habs : abs (init ledger) = ⟨ledger, fun _ => none, []⟩ := by simp only [abs, init]; congr 1
  rw [habs] at a b
  exact ⟨a, by rw [← b]; rfl⟩

/-! ### what "serial, all-or-nothing" means on the plain map -/

/-- a body only talks to the transaction layer: it never changes the committed map -/
theorem body_keeps_committed (script : List Step) : ∀ (o : Out) (m : Spec),
    (runSpec m (body script o)).1.c = m.c := by
  induction script with
  | nil => intro o m; rfl
  | cons st rest ih =>
    intro o m
    cases st with
    | put k v => simp only [body, runSpec, specStep]; rw [ih]
    | del k => simp only [body, runSpec, specStep]; rw [ih]
    | get k => simp only [body, runSpec, specStep]; rw [ih]
    | evt n v => simp only [body]; rw [ih]
    | nop => simp only [body]; rw [ih]
    | fail => rfl
    | panic => rfl
    | mv a b n =>
      simp only [body]
      by_cases h1 : n < 0
      · simp [h1, runSpec]
      · simp only [h1, if_false, runSpec, specStep]
        simp only [Option.getD_some]
        by_cases h2 : readBal (m.t (balKey a)) < n
        · simp [h2, runSpec]
        · simp only [h2, if_false, runSpec, specStep]; rw [ih]

theorem runSpec_bind {α β} (p : Prog α) (f : α → Prog β) : ∀ (m : Spec),
    runSpec m (bind p f) = runSpec (runSpec m p).1 (f (runSpec m p).2) := by
  induction p with
  | ret a => intro m; rfl
  | op o k ih => intro m; simp only [bind, runSpec]; exact ih _ _
  | commitTx k ih => intro m; simp only [bind, runSpec]; exact ih _ _
  | discardTx n ih => intro m; simp only [bind, runSpec]; exact ih _

/-- `failed_tx_invisible`: a transaction whose body returns an error or panics leaves the committed
    map exactly as it found it (no write of it is visible to anyone afterwards), and starts the
    next transaction with an empty overlay … -/
theorem failed_tx_invisible (script : List Step) (m : Spec)
    (hf : ∀ o, (runSpec m (body script ⟨[], [], []⟩)).2 ≠ .ok o) :
    let r := runSpec m (bind (body script ⟨[], [], []⟩) finish)
    r.1.c = m.c ∧ r.1.o = (fun _ => none) ∧ ∃ cls, r.2 = .err cls := by
  intro r
  have hb := body_keeps_committed script ⟨[], [], []⟩ m
  simp only [r, runSpec_bind]
  cases hres : (runSpec m (body script ⟨[], [], []⟩)).2 with
  | ok o => exact absurd hres (hf o)
  | failed acct => simp only [finish, runSpec, Spec.discard]; exact ⟨hb, by trivial, _, rfl⟩
  | panicked => simp only [finish, runSpec, Spec.discard]; exact ⟨hb, by trivial, _, rfl⟩

/-- … `succeeded_tx_visible`: a transaction whose body succeeds has all of its writes applied to the
    committed map (what it saw at its end is what everybody after it sees), and its reply entry
    carries exactly its write list. -/
theorem succeeded_tx_visible (script : List Step) (m : Spec) (o : Out)
    (hs : (runSpec m (body script ⟨[], [], []⟩)).2 = .ok o) :
    let mb := (runSpec m (body script ⟨[], [], []⟩)).1
    let r := runSpec m (bind (body script ⟨[], [], []⟩) finish)
    r.1.c = mb.t ∧ r.1.o = (fun _ => none) ∧ r.2 = .ok mb.writes o := by
  intro mb r
  simp only [r, runSpec_bind, hs, finish, runSpec, Spec.commit]
  exact ⟨by first | rfl | trivial, by first | rfl | trivial, by first | rfl | trivial⟩

/-- an unknown id yields an error entry for that id and touches nothing -/
theorem unknown_id_local (decode : Val → Option Pending) (known : String → Bool) (m : Spec) (id : String)
    (h : m.c (pendKey id) = "") :
    runSpec m (txProg decode known id) = (m, .err "notfound") := by
  simp [txProg, runSpec, specStep, h]

/-- does a step write the key? -/
def writesKey (k : Key) : Step → Bool
  | .put k' _ => k' = k
  | .del k' => k' = k
  | .mv a b _ => balKey a = k || balKey b = k
  | _ => false

/-- a body that never writes `k` leaves the transaction's view of `k` as it was -/
theorem body_view_untouched (k : Key) (script : List Step) (hk : ∀ st ∈ script, writesKey k st = false) :
    ∀ (o : Out) (m : Spec), (runSpec m (body script o)).1.t k = m.t k := by
  induction script with
  | nil => intro o m; rfl
  | cons st rest ih =>
    have hrest : ∀ st ∈ rest, writesKey k st = false := fun x hx => hk x (List.mem_cons_of_mem _ hx)
    have hst := hk st (List.mem_cons_self)
    intro o m
    cases st with
    | put k' v =>
      have hne : k ≠ k' := by intro e; subst e; simp [writesKey] at hst
      simp only [body, runSpec, specStep]; rw [ih hrest]
      simp [Spec.t, upd_other _ _ _ _ hne]
    | del k' =>
      have hne : k ≠ k' := by intro e; subst e; simp [writesKey] at hst
      simp only [body, runSpec, specStep]; rw [ih hrest]
      simp [Spec.t, upd_other _ _ _ _ hne]
    | get k' => simp only [body, runSpec, specStep]; rw [ih hrest]
    | evt n v => simp only [body]; rw [ih hrest]
    | nop => simp only [body]; rw [ih hrest]
    | fail => rfl
    | panic => rfl
    | mv a b n =>
      have hna : k ≠ balKey a := by intro e; simp [writesKey, e] at hst
      have hnb : k ≠ balKey b := by intro e; simp [writesKey, e] at hst
      simp only [body]
      by_cases h1 : n < 0
      · simp [h1, runSpec]
      · simp only [h1, if_false, runSpec, specStep]
        simp only [Option.getD_some]
        by_cases h2 : readBal (m.t (balKey a)) < n
        · simp [h2, runSpec]
        · simp only [h2, if_false, runSpec, specStep]; rw [ih hrest]
          simp [Spec.t, upd_other _ _ _ _ hna, upd_other _ _ _ _ hnb]

/-- `always_consumed`: after its turn a listed id is no longer pending, whatever happened to its
    transaction (unknown method, undecodable record, failing, panicking or succeeding body) —
    provided the body does not itself write the bookkeeping key, which no method does. -/
theorem listed_id_consumed (decode : Val → Option Pending) (known : String → Bool) (m : Spec) (id : String)
    (hm : m.o = fun _ => none)
    (hbody : ∀ p, decode (m.c (pendKey id)) = some p → ∀ st ∈ p.script, writesKey (pendKey id) st = false) :
    (runSpec m (txProg decode known id)).1.c (pendKey id) = "" := by
  unfold txProg
  simp only [runSpec, specStep]
  by_cases h : m.c (pendKey id) = ""
  · simp [h, runSpec]
  · simp only [Option.getD_some, h, if_false, runSpec, specStep]
    cases hd : decode (m.c (pendKey id)) with
    | none => simp [runSpec]
    | some p =>
      simp only
      by_cases hk : known p.method = true
      · simp only [hk, Bool.not_true, Bool.false_eq_true, if_false, runSpec_bind]
        have hb := body_keeps_committed p.script ⟨[], [], []⟩ { m with c := upd m.c (pendKey id) "" }
        have hv := body_view_untouched (pendKey id) p.script (hbody p hd) ⟨[], [], []⟩ { m with c := upd m.c (pendKey id) "" }
        cases hres : (runSpec { m with c := upd m.c (pendKey id) "" } (body p.script ⟨[], [], []⟩)).2 with
        | ok o =>
          simp only [finish, runSpec, Spec.commit]
          rw [hv]; simp [Spec.t, hm]
        | failed acct => simp only [finish, runSpec, Spec.discard]; rw [hb]; simp
        | panicked => simp only [finish, runSpec, Spec.discard]; rw [hb]; simp
      · simp [hk, runSpec]

/-! ### non-vacuity: a batch with a failing-after-write, a panicking and two succeeding transactions -/
def exDecode (v : Val) : Option Pending :=
  if v = "A" then some ⟨"script", [.put "x" "1", .get "x", .evt "e" "p"]⟩
  else if v = "B" then some ⟨"script", [.put "x" "2", .put "y" "9", .fail]⟩
  else if v = "C" then some ⟨"script", [.put "z" "3", .panic]⟩
  else if v = "D" then some ⟨"script", [.get "x", .get "y", .put "x" ""]⟩
  else none

def exLedger : Key → Val := fun k =>
  if k = "P:a" then "A" else if k = "P:b" then "B" else if k = "P:c" then "C" else if k = "P:d" then "D" else ""

example :
    (runSpec ⟨exLedger, fun _ => none, []⟩ (batchProg exDecode (fun m => m = "script") ["a", "b", "zz", "c", "a", "d"])).2 =
    [.ok [("x", .put "1")] ⟨["1"], [("e", "p")], []⟩, .err "failed", .err "notfound", .err "panic", .err "notfound",
     .ok [("x", .put "")] ⟨["1", ""], [], []⟩] := by decide

end Foundation.Batch
