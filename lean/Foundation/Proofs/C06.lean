import Foundation.Model.Balance
/-!
# C06 — balance safety and conservation of token units
-/
namespace Foundation.Balance

/-! ## the primitive layer: `balance.Add / Sub / Move` -/

def NonNeg (s : St) : Prop := ∀ k, 0 ≤ s.prim k

theorem put_prim (s : St) (k : PK) (v : Int) (k' : PK) :
    (put s k v).prim k' = if k' = k then v else s.prim k' := by
  simp [put, upd]

/-- `add_exact`: a successful add changes exactly the named balance by exactly the amount -/
theorem add_exact (s s' : St) (k : PK) (a : Int) (h : add s k a = .ok s') :
    0 ≤ a ∧ s'.prim k = s.prim k + a ∧ ∀ k', k' ≠ k → s'.prim k' = s.prim k' := by
  unfold add at h
  by_cases h1 : a < 0
  · simp [h1] at h
  · simp only [h1, if_false] at h
    injection h with h; subst h
    refine ⟨by omega, by simp [put_prim, get], ?_⟩
    intro k' hk; simp [put_prim, hk]

/-- `sub_exact` -/
theorem sub_exact (s s' : St) (k : PK) (a : Int) (h : sub s k a = .ok s') :
    0 ≤ a ∧ a ≤ s.prim k ∧ s'.prim k = s.prim k - a ∧ ∀ k', k' ≠ k → s'.prim k' = s.prim k' := by
  unfold sub at h
  by_cases h1 : a < 0
  · simp [h1] at h
  · simp only [h1, if_false] at h
    by_cases h2 : get s k < a
    · simp [h2] at h
    · simp only [h2, if_false] at h
      injection h with h; subst h
      refine ⟨by omega, by unfold get at h2; omega, by simp [put_prim, get], ?_⟩
      intro k' hk; simp [put_prim, hk]

/-- `move_exact`: a successful move debits the source and credits the destination by exactly the
    amount and touches nothing else; moving to oneself changes nothing. -/
theorem move_exact (s s' : St) (src dst : PK) (a : Int) (h : move s src dst a = .ok s') :
    0 ≤ a ∧ a ≤ s.prim src ∧
    (src ≠ dst → s'.prim src = s.prim src - a ∧ s'.prim dst = s.prim dst + a) ∧
    (src = dst → s'.prim src = s.prim src) ∧
    ∀ k', k' ≠ src → k' ≠ dst → s'.prim k' = s.prim k' := by
  unfold move at h
  cases h1 : sub s src a with
  | error e => simp [h1] at h
  | ok s1 =>
    simp only [h1] at h
    obtain ⟨a0, a1, a2, a3⟩ := sub_exact s s1 src a h1
    obtain ⟨_, b2, b3⟩ := add_exact s1 s' dst a h
    refine ⟨a0, a1, ?_, ?_, ?_⟩
    · intro hne
      exact ⟨by rw [b3 src hne, a2], by rw [b2, a3 dst (Ne.symm hne)]⟩
    · intro he; subst he; rw [b2, a2]; omega
    · intro k' h1' h2'; rw [b3 k' h2', a3 k' h1']

/-- `unfunded_fails_clean` / `negative_amount_fails_clean`: an operation that is not fully funded,
    or carries a negative amount, returns an error — and the state machine leaves the ledger as it
    was (with C04: the enclosing transaction is dropped). -/
theorem unfunded_fails_clean (s : St) (src dst : PK) (a : Int) (h : s.prim src < a ∨ a < 0) :
    (∃ e, sub s src a = .error e) ∧ (∃ e, move s src dst a = .error e) ∧
    step s (.sub src a) = s ∧ step s (.move src dst a) = s := by
  have hsub : ∃ e, sub s src a = .error e := by
    unfold sub get
    by_cases h1 : a < 0
    · exact ⟨.negative, by simp [h1]⟩
    · have : s.prim src < a := by rcases h with h | h; exact h; exact absurd h h1
      exact ⟨.insufficient, by simp [h1, this]⟩
  obtain ⟨e, he⟩ := hsub
  refine ⟨⟨e, he⟩, ⟨e, by simp [move, he]⟩, by simp [step, he], by simp [step, move, he]⟩

theorem negative_add_fails_clean (s : St) (k : PK) (a : Int) (h : a < 0) :
    add s k a = .error .negative ∧ step s (.add k a) = s := by
  simp [add, step, h]

theorem step_nonneg (s : St) (h : NonNeg s) (op : Op) : NonNeg (step s op) := by
  cases op with
  | put k v =>
    simp only [step]
    split
    · exact h
    · intro k'; rw [put_prim]; split; omega; exact h k'
  | add k a =>
    simp only [step]
    cases hr : add s k a with
    | error e => exact h
    | ok s' =>
      obtain ⟨h0, h1, h2⟩ := add_exact s s' k a hr
      intro k'
      by_cases hk : k' = k
      · subst hk; rw [h1]; have := h k'; omega
      · rw [h2 k' hk]; exact h k'
  | sub k a =>
    simp only [step]
    cases hr : sub s k a with
    | error e => exact h
    | ok s' =>
      obtain ⟨h0, h1, h2, h3⟩ := sub_exact s s' k a hr
      intro k'
      by_cases hk : k' = k
      · subst hk; rw [h2]; omega
      · rw [h3 k' hk]; exact h k'
  | move src dst n =>
    simp only [step]
    cases hr : move s src dst n with
    | error e => exact h
    | ok s' =>
      obtain ⟨h0, h1, h2, h3, h4⟩ := move_exact s s' src dst n hr
      intro k'
      by_cases hsd : src = dst
      · by_cases hk : k' = src
        · subst hk; rw [h3 hsd]; exact h k'
        · rw [h4 k' hk (by rw [← hsd]; exact hk)]; exact h k'
      · obtain ⟨h2a, h2b⟩ := h2 hsd
        by_cases hk : k' = src
        · subst hk; rw [h2a]; omega
        · by_cases hk2 : k' = dst
          · subst hk2; rw [h2b]; have := h k'; omega
          · rw [h4 k' hk hk2]; exact h k'

/-- `nonneg_inv`: no balance of any kind ever becomes negative, whatever sequence of operations
    (funded or not, positive, zero or negative amounts, any accounts including self) is attempted. -/
theorem nonneg_inv (s : St) (h : NonNeg s) (ops : List Op) : NonNeg (run s ops) := by
  unfold run
  induction ops generalizing s with
  | nil => exact h
  | cons op ops ih => simp only [List.foldl_cons]; exact ih _ (step_nonneg s h op)

/-! ## units of the channel's own token -/

structure TInv (s : Tok) : Prop where
  nodupK : s.keys.Nodup
  nodupI : s.ids.Nodup
  coverK : ∀ k, s.bal k ≠ 0 → k ∈ s.keys
  coverI : ∀ i, s.escrow i ≠ 0 → i ∈ s.ids
  nonnegB : ∀ k, 0 ≤ s.bal k
  nonnegE : ∀ i, 0 ≤ s.escrow i
  conserved : held s = s.emission

/-- updating one entry of a store whose support is covered by a duplicate-free log -/
theorem sumOver_touch_upd {α} [DecidableEq α] (l : List α) (f : α → Int) (k : α) (v : Int)
    (hn : l.Nodup) (hc : ∀ x, f x ≠ 0 → x ∈ l) :
    sumOver (touch l k) (upd f k v) = sumOver l f - f k + v := by
  unfold touch
  have hother : ∀ x, x ≠ k → f x = upd f k v x := by intro x hx; simp [upd_other _ _ _ _ hx]
  by_cases hk : k ∈ l
  · simp only [hk, if_true]
    rw [sumOver_change l f _ k hother hn hk]; simp
  · simp only [hk, if_false]
    have hz : f k = 0 := by
      apply Classical.byContradiction; intro hne; exact hk (hc k hne)
    rw [sumOver_new l f _ k hother hk, hz]; simp

theorem cover_touch_upd {α} [DecidableEq α] (l : List α) (f : α → Int) (k : α) (v : Int)
    (hc : ∀ x, f x ≠ 0 → x ∈ l) : ∀ x, upd f k v x ≠ 0 → x ∈ touch l k := by
  intro x hx
  rw [mem_touch]
  by_cases hxk : x = k
  · exact Or.inl hxk
  · rw [upd_other _ _ _ _ hxk] at hx; exact Or.inr (hc x hx)

theorem tstep_inv (s : Tok) (h : TInv s) (op : TOp) : TInv (tstep s op) := by
  have hc := h.conserved
  unfold held at hc
  cases op with
  | emit k n =>
    simp only [tstep]
    split
    · exact h
    · rename_i hn
      refine ⟨touch_nodup _ _ h.nodupK, h.nodupI, cover_touch_upd _ _ _ _ h.coverK, h.coverI, ?_, h.nonnegE, ?_⟩
      · intro k'; simp only [upd_apply]; split
        · have := h.nonnegB k; omega
        · exact h.nonnegB k'
      · simp only [held]
        rw [sumOver_touch_upd _ _ _ _ h.nodupK h.coverK]; omega
  | burn k n =>
    simp only [tstep]
    split
    · exact h
    · rename_i hn
      refine ⟨touch_nodup _ _ h.nodupK, h.nodupI, cover_touch_upd _ _ _ _ h.coverK, h.coverI, ?_, h.nonnegE, ?_⟩
      · intro k'; simp only [upd_apply]; split
        · omega
        · exact h.nonnegB k'
      · simp only [held]
        rw [sumOver_touch_upd _ _ _ _ h.nodupK h.coverK]; omega
  | move a b n =>
    simp only [tstep]
    split
    · exact h
    · rename_i hn
      have hn1 := touch_nodup s.keys a h.nodupK
      have hc1 := cover_touch_upd s.keys s.bal a (s.bal a - n) h.coverK
      refine ⟨touch_nodup _ _ hn1, h.nodupI, cover_touch_upd _ _ _ _ hc1, h.coverI, ?_, h.nonnegE, ?_⟩
      · intro k'
        simp only [upd_apply]
        split
        · split
          · omega
          · have := h.nonnegB b; omega
        · split
          · omega
          · exact h.nonnegB k'
      · simp only [held]
        rw [sumOver_touch_upd _ _ _ _ hn1 hc1, sumOver_touch_upd _ _ _ _ h.nodupK h.coverK]
        simp only [upd_apply]
        split <;> omega
  | escrowIn id k n =>
    simp only [tstep]
    split
    · exact h
    · rename_i hn
      refine ⟨touch_nodup _ _ h.nodupK, touch_nodup _ _ h.nodupI, cover_touch_upd _ _ _ _ h.coverK,
        cover_touch_upd _ _ _ _ h.coverI, ?_, ?_, ?_⟩
      · intro k'; simp only [upd_apply]; split
        · omega
        · exact h.nonnegB k'
      · intro i; simp only [upd_apply]; split
        · omega
        · exact h.nonnegE i
      · simp only [held]
        rw [sumOver_touch_upd _ _ _ _ h.nodupK h.coverK, sumOver_touch_upd _ _ _ _ h.nodupI h.coverI]
        have : s.escrow id = 0 := by
          apply Classical.byContradiction; intro hne; exact hn (Or.inr (Or.inr hne))
        omega
  | escrowOut id k =>
    simp only [tstep]
    split
    · exact h
    · rename_i hn
      have hmem : id ∈ s.ids := h.coverI id hn
      refine ⟨touch_nodup _ _ h.nodupK, h.nodupI, cover_touch_upd _ _ _ _ h.coverK, ?_, ?_, ?_, ?_⟩
      · intro i hi
        simp only at hi ⊢
        by_cases hik : i = id
        · subst hik; exact hmem
        · rw [upd_other _ _ _ _ hik] at hi; exact h.coverI i hi
      · intro k'; simp only [upd_apply]; split
        · have := h.nonnegB k; have := h.nonnegE id; omega
        · exact h.nonnegB k'
      · intro i; simp only [upd_apply]; split
        · omega
        · exact h.nonnegE i
      · simp only [held]
        rw [sumOver_touch_upd _ _ _ _ h.nodupK h.coverK]
        have hother : ∀ x, x ≠ id → s.escrow x = upd s.escrow id 0 x := by
          intro x hx; simp [upd_other _ _ _ _ hx]
        rw [sumOver_change s.ids s.escrow _ id hother h.nodupI hmem]
        simp; omega

/-- `conservation`: in every state reachable by any sequence of emissions, burns, moves (transfers,
    fee legs, locks, forced transfers, purchases), escrow-in (swap / multi-swap begin) and
    escrow-out (cancellation, or robot completion into the given-out counter), the units of the
    token held in its channel — spendable + locked + given out + escrowed in open swaps — equal the
    recorded total emission; only `emit` and `burn` change either side. No balance and no escrow is
    ever negative. -/
theorem conservation (s : Tok) (h : TInv s) (ops : List TOp) :
    held (trun s ops) = (trun s ops).emission ∧
    (∀ k, 0 ≤ (trun s ops).bal k) ∧ (∀ i, 0 ≤ (trun s ops).escrow i) := by
  have : TInv (trun s ops) := by
    unfold trun
    induction ops generalizing s with
    | nil => exact h
    | cons op ops ih => simp only [List.foldl_cons]; exact ih _ (tstep_inv s h op)
  exact ⟨this.conserved, this.nonnegB, this.nonnegE⟩

theorem tinv_empty : TInv tok0 :=
  ⟨List.nodup_nil, List.nodup_nil, by intro k h; simp [tok0] at h, by intro k h; simp [tok0] at h,
   by intro k; simp [tok0], by intro k; simp [tok0], by simp [held, tok0, sumOver]⟩

/-- only emission and burning change the emission record -/
theorem emission_changes_only_by_emit_burn (s : Tok) (op : TOp) :
    (tstep s op).emission = s.emission ∨ (∃ k n, op = .emit k n) ∨ (∃ k n, op = .burn k n) := by
  cases op with
  | emit k n => exact Or.inr (Or.inl ⟨k, n, rfl⟩)
  | burn k n => exact Or.inr (Or.inr ⟨k, n, rfl⟩)
  | move a b n => left; simp only [tstep]; split <;> rfl
  | escrowIn id k n => left; simp only [tstep]; split <;> rfl
  | escrowOut id k => left; simp only [tstep]; split <;> rfl

/-! ### non-vacuity -/
def A : PK := ⟨"2b", "alice", ""⟩
def B : PK := ⟨"2b", "bob", ""⟩
def G : PK := ⟨"2d", "CC", ""⟩
def exT : Tok := trun tok0 [.emit A 1000, .move A B 300, .escrowIn "s1" A 450, .escrowOut "s1" G, .burn B 100, .move B A 500]

example : exT.bal A = 250 ∧ exT.bal B = 200 ∧ exT.bal G = 450 ∧ exT.emission = 900 ∧ held exT = 900 := by decide

end Foundation.Balance
