import Foundation.Model.ChTransfer
/-!
# C10 — cross-channel transfer: exactly-once debit/credit, legal record life cycle

`step` guards are quantified over *all* callers holding the robot identity (and all users for the
initiation); `allowed` is the protocol hypothesis on the robot for the two steps a chaincode
cannot police because the other ledger is invisible to it (createTo needs the origin record,
deleteTo/deleteFrom/cancel need the state of the other side).
-/
namespace Foundation.ChTransfer

/-! ## record life cycle (code guards, all callers) -/

/-- `from_lifecycle`: the origin record moves only absent → open → committed → absent, or
    open → absent by cancellation; every other attempt is rejected (without effect). -/
theorem from_lifecycle (s : S) (id : String) :
    ((s.fromRec id).isSome = true → ∀ u a, step s (.createFrom id u a) = none) ∧            -- duplicate id
    (s.fromRec id = none → step s (.commit id) = none ∧ step s (.cancel id) = none ∧ step s (.deleteFrom id) = none) ∧
    (∀ u a, s.fromRec id = some ⟨u, a, true⟩ → step s (.commit id) = none ∧ step s (.cancel id) = none) ∧  -- repeated commit, cancel after commit
    (∀ u a, s.fromRec id = some ⟨u, a, false⟩ → step s (.deleteFrom id) = none) := by               -- delete before commit
  refine ⟨?_, ?_, ?_, ?_⟩
  · intro h u a; simp [step, h]
  · intro h; simp [step, h]
  · intro u a h; simp [step, h]
  · intro u a h; simp [step, h]

/-- the destination record: created once, deleted only when present -/
theorem to_lifecycle (s : S) (id : String) :
    ((s.toRec id).isSome = true → ∀ r, step s (.createTo id r) = none) ∧
    (s.toRec id = none → step s (.deleteTo id) = none) := by
  constructor
  · intro h r; simp [step, h]
  · intro h; simp [step, h]

/-- `debit_once`: a successful initiation debits the user exactly once by exactly the amount and
    stores the open record; under-funded or negative amounts are rejected. -/
theorem debit_once (s s' : S) (id u : String) (a : Int) (h : step s (.createFrom id u a) = some s') :
    0 ≤ a ∧ a ≤ s.srcA u ∧ s.fromRec id = none ∧ s'.srcA u = s.srcA u - a ∧
    (∀ v, v ≠ u → s'.srcA v = s.srcA v) ∧ s'.fromRec id = some ⟨u, a, false⟩ ∧ s'.dstB = s.dstB := by
  simp only [step] at h
  split at h
  · cases h
  · rename_i hg
    injection h with h; subst h
    have hn : s.fromRec id = none := by
      cases hx : s.fromRec id with
      | none => rfl
      | some _ => exact absurd (Or.inr (Or.inl (by simp [hx]))) hg
    refine ⟨by omega, by omega, hn, by simp, ?_, by simp, rfl⟩
    intro v hv; simp [upd_other _ _ _ _ hv]

/-- `refund_exact`: cancellation is possible only while the record is open and restores exactly
    the debited balance (and, for the forward direction, the given-out counter). -/
theorem refund_exact (s s' : S) (id : String) (h : step s (.cancel id) = some s') :
    ∃ u a, s.fromRec id = some ⟨u, a, false⟩ ∧ s'.srcA u = s.srcA u + a ∧ s'.fromRec id = none ∧
      s'.givenA = (if s.fwd then s.givenA - a else s.givenA) ∧ s'.dstB = s.dstB := by
  simp only [step] at h
  split at h
  · rename_i u a hf
    split at h
    · cases h
    · injection h with h; subst h
      exact ⟨u, a, hf, by simp, by simp, rfl, rfl⟩
  · cases h

/-! ## the protocol invariant -/

structure Inv (K : String → Int) (s : S) : Prop where
  nodup : s.log.Nodup
  logged : ∀ id, s.fromRec id ≠ none ∨ s.toRec id ≠ none → id ∈ s.log
  paired : ∀ id r, s.toRec id = some r → ∃ c, s.fromRec id = some ⟨r.user, r.amount, c⟩
  amt : ∀ id r, s.fromRec id = some r → 0 ≤ r.amount
  value : ∀ u, s.srcA u + s.dstB u + total s u = K u
  flow : s.debited = s.credited + sumOver s.log (inflightAll s)

theorem inflight_nonneg (s : S) (u id : String) (h : ∀ id r, s.fromRec id = some r → 0 ≤ r.amount) :
    0 ≤ inflight s u id := by
  unfold inflight
  split
  · rename_i u' a hf _; split
    · exact h id _ hf
    · omega
  · omega

/-- one accepted, protocol-conforming step preserves the invariant -/
theorem step_inv (K : String → Int) (s s' : S) (st : Step) (hi : Inv K s)
    (ha : allowed s st = true) (hs : step s st = some s') : Inv K s' := by
  have hval := hi.value
  have hflow := hi.flow
  unfold total at hval
  cases st with
  | createFrom id u a =>
    simp only [step] at hs
    split at hs
    · cases hs
    · rename_i hg
      injection hs with hs; subst hs
      have hfn : s.fromRec id = none := by
        cases hx : s.fromRec id with
        | none => rfl
        | some _ => exact absurd (Or.inr (Or.inl (by simp [hx]))) hg
      have htn : s.toRec id = none := by
        cases hx : s.toRec id with
        | none => rfl
        | some r => obtain ⟨c, hc⟩ := hi.paired id r hx; rw [hfn] at hc; cases hc
      have ha0 : 0 ≤ a := by omega
      refine ⟨touch_nodup _ _ hi.nodup, ?_, ?_, ?_, ?_, ?_⟩
      · intro k hk
        rw [mem_touch]
        by_cases hkid : k = id
        · exact Or.inl hkid
        · right; apply hi.logged k
          simp only [upd_other _ _ _ _ hkid] at hk; exact hk
      · intro k r hk
        simp only at hk ⊢
        by_cases hkid : k = id
        · subst hkid; rw [htn] at hk; cases hk
        · simp only [upd_other _ _ _ _ hkid]; exact hi.paired k r hk
      · intro k r hk
        simp only at hk
        by_cases hkid : k = id
        · subst hkid; simp only [upd_same, Option.some.injEq] at hk; subst hk; exact ha0
        · simp only [upd_other _ _ _ _ hkid] at hk; exact hi.amt k r hk
      · intro v
        simp only [total]
        rw [sumOver_touch_change s.log (inflight s v) _ id
          (by intro k hk; simp [inflight, upd_other _ _ _ _ hk]) hi.nodup
          (by intro _; simp [inflight, hfn])]
        have h0 : inflight s v id = 0 := by simp [inflight, hfn]
        rw [h0]
        have := hval v
        by_cases hv : v = u
        · subst hv; simp [inflight, htn]; omega
        · simp [inflight, htn, upd_other _ _ _ _ hv, Ne.symm hv]; omega
      · simp only
        rw [sumOver_touch_change s.log (inflightAll s) _ id
          (by intro k hk; simp [inflightAll, upd_other _ _ _ _ hk]) hi.nodup
          (by intro _; simp [inflightAll, hfn])]
        simp [inflightAll, hfn, htn]; omega
  | createTo id r =>
    simp only [step] at hs
    split at hs
    · cases hs
    · rename_i hg
      injection hs with hs; subst hs
      have htn : s.toRec id = none := by
        cases hx : s.toRec id with
        | none => rfl
        | some _ => exact absurd (Or.inr (Or.inl (by simp [hx]))) hg
      -- protocol: the origin record is open and has exactly this content
      simp only [allowed, htn, Option.isNone_none, Bool.and_true] at ha
      cases hf : s.fromRec id with
      | none => simp [hf] at ha
      | some fr =>
        obtain ⟨fu, fa, fc⟩ := fr
        cases fc with
        | true => simp [hf] at ha
        | false =>
          simp only [hf, Bool.and_eq_true, decide_eq_true_eq] at ha
          obtain ⟨hu, hamt⟩ := ha
          have hmem : id ∈ s.log := hi.logged id (Or.inl (by simp [hf]))
          have htouch : touch s.log id = s.log := by simp [touch, hmem]
          refine ⟨by rw [htouch]; exact hi.nodup, ?_, ?_, hi.amt, ?_, ?_⟩
          · intro k hk
            rw [htouch]
            by_cases hkid : k = id
            · subst hkid; exact hmem
            · apply hi.logged k
              simp only [upd_other _ _ _ _ hkid] at hk; exact hk
          · intro k r' hk
            simp only at hk ⊢
            by_cases hkid : k = id
            · subst hkid
              simp only [upd_same, Option.some.injEq] at hk; subst hk
              exact ⟨false, by rw [hf, hu, hamt]⟩
            · simp only [upd_other _ _ _ _ hkid] at hk; exact hi.paired k r' hk
          · intro v
            simp only [total, htouch]
            rw [sumOver_change s.log (inflight s v) _ id
              (by intro k hk; simp [inflight, upd_other _ _ _ _ hk]) hi.nodup hmem]
            have := hval v
            by_cases hv : v = r.user
            · subst hv; simp [inflight, hf, htn, hu, hamt]; omega
            · have hv' : fu ≠ v := by rw [hu]; exact Ne.symm hv
              simp [inflight, hf, htn, hv', upd_other _ _ _ _ hv]; omega
          · simp only [htouch]
            rw [sumOver_change s.log (inflightAll s) _ id
              (by intro k hk; simp [inflightAll, upd_other _ _ _ _ hk]) hi.nodup hmem]
            simp [inflightAll, hf, htn, hamt]; omega
  | commit id =>
    simp only [step] at hs
    split at hs
    · rename_i u a hf
      injection hs with hs; subst hs
      -- protocol: the destination record exists
      simp only [allowed] at ha
      cases ht : s.toRec id with
      | none => simp [ht] at ha
      | some tr =>
        have hmem : id ∈ s.log := hi.logged id (Or.inl (by simp [hf]))
        refine ⟨hi.nodup, ?_, ?_, ?_, ?_, ?_⟩
        · intro k hk
          by_cases hkid : k = id
          · subst hkid; exact hmem
          · apply hi.logged k; simp only [upd_other _ _ _ _ hkid] at hk; exact hk
        · intro k r hk
          simp only at hk ⊢
          by_cases hkid : k = id
          · subst hkid
            obtain ⟨c, hc⟩ := hi.paired k r hk
            rw [hf] at hc; injection hc with hc; injection hc with h1 h2 h3
            exact ⟨true, by simp [h1, h2]⟩
          · simp only [upd_other _ _ _ _ hkid]; exact hi.paired k r hk
        · intro k r hk
          simp only at hk
          by_cases hkid : k = id
          · subst hkid; simp only [upd_same, Option.some.injEq] at hk; subst hk; exact hi.amt k ⟨u, a, false⟩ hf
          · simp only [upd_other _ _ _ _ hkid] at hk; exact hi.amt k r hk
        · intro v
          simp only [total]
          rw [sumOver_change s.log (inflight s v) _ id
            (by intro k hk; simp [inflight, upd_other _ _ _ _ hk]) hi.nodup hmem]
          have := hval v
          simp [inflight, hf, ht]; omega
        · simp only
          rw [sumOver_change s.log (inflightAll s) _ id
            (by intro k hk; simp [inflightAll, upd_other _ _ _ _ hk]) hi.nodup hmem]
          simp [inflightAll, hf, ht]; omega
    · cases hs
  | deleteTo id =>
    simp only [step] at hs
    split at hs
    · rename_i tr ht
      injection hs with hs; subst hs
      -- protocol: the origin record is committed
      simp only [allowed] at ha
      cases hf : s.fromRec id with
      | none => simp [hf] at ha
      | some fr =>
        obtain ⟨fu, fa, fc⟩ := fr
        cases fc with
        | false => simp [hf] at ha
        | true =>
          have hmem : id ∈ s.log := hi.logged id (Or.inl (by simp [hf]))
          refine ⟨hi.nodup, ?_, ?_, hi.amt, ?_, ?_⟩
          · intro k hk
            by_cases hkid : k = id
            · subst hkid; exact hmem
            · apply hi.logged k; simp only [upd_other _ _ _ _ hkid] at hk; exact hk
          · intro k r hk
            simp only at hk
            by_cases hkid : k = id
            · subst hkid; simp at hk
            · simp only [upd_other _ _ _ _ hkid] at hk; exact hi.paired k r hk
          · intro v
            simp only [total]
            rw [sumOver_change s.log (inflight s v) _ id
              (by intro k hk; simp [inflight, upd_other _ _ _ _ hk]) hi.nodup hmem]
            have := hval v
            simp [inflight, hf]; omega
          · simp only
            rw [sumOver_change s.log (inflightAll s) _ id
              (by intro k hk; simp [inflightAll, upd_other _ _ _ _ hk]) hi.nodup hmem]
            simp [inflightAll, hf]; omega
    · cases hs
  | deleteFrom id =>
    simp only [step] at hs
    split at hs
    · rename_i u a hf
      injection hs with hs; subst hs
      simp only [allowed] at ha
      have ht : s.toRec id = none := by
        cases hx : s.toRec id with
        | none => rfl
        | some _ => simp [hx] at ha
      have hmem : id ∈ s.log := hi.logged id (Or.inl (by simp [hf]))
      refine ⟨hi.nodup, ?_, ?_, ?_, ?_, ?_⟩
      · intro k hk
        by_cases hkid : k = id
        · subst hkid; exact hmem
        · apply hi.logged k; simp only [upd_other _ _ _ _ hkid] at hk; exact hk
      · intro k r hk
        simp only at hk ⊢
        by_cases hkid : k = id
        · subst hkid; rw [ht] at hk; cases hk
        · simp only [upd_other _ _ _ _ hkid]; exact hi.paired k r hk
      · intro k r hk
        simp only at hk
        by_cases hkid : k = id
        · subst hkid; simp at hk
        · simp only [upd_other _ _ _ _ hkid] at hk; exact hi.amt k r hk
      · intro v
        simp only [total]
        rw [sumOver_change s.log (inflight s v) _ id
          (by intro k hk; simp [inflight, upd_other _ _ _ _ hk]) hi.nodup hmem]
        have := hval v
        simp [inflight, hf]; omega
      · simp only
        rw [sumOver_change s.log (inflightAll s) _ id
          (by intro k hk; simp [inflightAll, upd_other _ _ _ _ hk]) hi.nodup hmem]
        simp [inflightAll, hf]; omega
    · cases hs
  | cancel id =>
    simp only [step] at hs
    split at hs
    · rename_i u a hf
      split at hs
      · cases hs
      · injection hs with hs; subst hs
        simp only [allowed] at ha
        have ht : s.toRec id = none := by
          cases hx : s.toRec id with
          | none => rfl
          | some _ => simp [hx] at ha
        have hmem : id ∈ s.log := hi.logged id (Or.inl (by simp [hf]))
        refine ⟨hi.nodup, ?_, ?_, ?_, ?_, ?_⟩
        · intro k hk
          by_cases hkid : k = id
          · subst hkid; exact hmem
          · apply hi.logged k; simp only [upd_other _ _ _ _ hkid] at hk; exact hk
        · intro k r hk
          simp only at hk ⊢
          by_cases hkid : k = id
          · subst hkid; rw [ht] at hk; cases hk
          · simp only [upd_other _ _ _ _ hkid]; exact hi.paired k r hk
        · intro k r hk
          simp only at hk
          by_cases hkid : k = id
          · subst hkid; simp at hk
          · simp only [upd_other _ _ _ _ hkid] at hk; exact hi.amt k r hk
        · intro v
          simp only [total]
          rw [sumOver_change s.log (inflight s v) _ id
            (by intro k hk; simp [inflight, upd_other _ _ _ _ hk]) hi.nodup hmem]
          have := hval v
          by_cases hv : v = u
          · subst hv; simp [inflight, hf, ht]; omega
          · simp [inflight, hf, ht, upd_other _ _ _ _ hv, Ne.symm hv]; omega
        · simp only
          rw [sumOver_change s.log (inflightAll s) _ id
            (by intro k hk; simp [inflightAll, upd_other _ _ _ _ hk]) hi.nodup hmem]
          simp [inflightAll, hf, ht]; omega
    · cases hs

/-- schedules: any interleaving of user initiations, rejected attempts (no effect) and
    protocol-conforming robot steps, with arbitrary stops in between (a stop is just "no step") -/
inductive Reachable (s0 : S) : S → Prop
  | base : Reachable s0 s0
  | step (s s' : S) (st : Step) : Reachable s0 s → allowed s st = true → step s st = some s' → Reachable s0 s'
  | rejected (s : S) (st : Step) : Reachable s0 s → step s st = none → Reachable s0 s

theorem inv_init (fwd : Bool) (srcA : String → Int) (g : Int) : Inv srcA (init fwd srcA g) := by
  refine ⟨List.nodup_nil, ?_, ?_, ?_, ?_, ?_⟩
  · intro id h; simp [init] at h
  · intro id r h; simp [init] at h
  · intro id r h; simp [init] at h
  · intro u; simp [init, total, sumOver]
  · simp [init, sumOver]

theorem reachable_inv (fwd : Bool) (srcA : String → Int) (g : Int) (s : S)
    (h : Reachable (init fwd srcA g) s) : Inv srcA s := by
  induction h with
  | base => exact inv_init fwd srcA g
  | step s s' st _ ha hs ih => exact step_inv srcA s s' st ih ha hs
  | rejected s st _ _ ih => exact ih

/-- `never_spendable_twice`: for every user, at every step of every schedule, what is spendable
    on the origin plus what is spendable on the destination never exceeds what the user started
    with: units are never spendable in both channels at once. -/
theorem never_spendable_twice (fwd : Bool) (srcA : String → Int) (g : Int) (s : S)
    (h : Reachable (init fwd srcA g) s) (u : String) : s.srcA u + s.dstB u ≤ srcA u := by
  have hi := reachable_inv fwd srcA g s h
  have hv := hi.value u
  have : 0 ≤ total s u := sumOver_nonneg _ _ (fun k _ => inflight_nonneg s u k hi.amt)
  omega

/-- `credit_at_most_once`: a destination credit for an id whose destination record exists (or
    whose origin is already committed) is impossible; the credit that does happen carries the
    origin record's user and amount. -/
theorem credit_at_most_once (s s' : S) (id : String) (r : ToRec)
    (ha : allowed s (.createTo id r) = true) (hs : step s (.createTo id r) = some s') :
    s.toRec id = none ∧ s.fromRec id = some ⟨r.user, r.amount, false⟩ ∧
    s'.dstB r.user = s.dstB r.user + r.amount ∧
    (∀ r', allowed s' (.createTo id r') = false) := by
  simp only [step] at hs
  split at hs
  · cases hs
  · rename_i hg
    injection hs with hs; subst hs
    have htn : s.toRec id = none := by
      cases hx : s.toRec id with
      | none => rfl
      | some _ => exact absurd (Or.inr (Or.inl (by simp [hx]))) hg
    simp only [allowed, htn, Option.isNone_none, Bool.and_true] at ha
    cases hf : s.fromRec id with
    | none => simp [hf] at ha
    | some fr =>
      obtain ⟨fu, fa, fc⟩ := fr
      cases fc with
      | true => simp [hf] at ha
      | false =>
        simp only [hf, Bool.and_eq_true, decide_eq_true_eq] at ha
        obtain ⟨hu, hamt⟩ := ha
        refine ⟨htn, by rw [hu, hamt], by simp, ?_⟩
        intro r'; simp [allowed]

/-- `given_matches_when_idle`: when no transfer is in flight (no open origin record without its
    destination record), everything debited on the origin has been credited on the destination —
    so in the forward direction the growth of the origin's given-out counter equals the amount
    credited in the destination, and in the backward direction the destination's counter shrank by
    exactly what it credited. -/
theorem given_matches_when_idle (fwd : Bool) (srcA : String → Int) (g : Int) (s : S)
    (h : Reachable (init fwd srcA g) s) (hidle : ∀ id, inflightAll s id = 0) :
    s.debited = s.credited := by
  have hi := reachable_inv fwd srcA g s h
  have : sumOver s.log (inflightAll s) = 0 := by
    have := sumOver_congr s.log (inflightAll s) (fun _ => 0) (fun k _ => hidle k)
    rw [← this]; simp [sumOver]
    induction s.log with
    | nil => rfl
    | cons x xs ih => simp [ih]
  have := hi.flow
  omega

/-- the given-out counters follow the ghost flows exactly (code-level, every accepted step) -/
theorem given_tracks_flow (s s' : S) (st : Step) (hs : step s st = some s') :
    s'.fwd = s.fwd ∧
    (s.fwd = true → s'.givenA - s'.debited = s.givenA - s.debited ∧ s'.givenB = s.givenB) ∧
    (s.fwd = false → s'.givenB + s'.credited = s.givenB + s.credited ∧ s'.givenA = s.givenA) := by
  cases st with
  | createFrom id u a =>
    simp only [step] at hs
    split at hs
    · cases hs
    · injection hs with hs; subst hs
      refine ⟨rfl, ?_, ?_⟩ <;> intro hf <;> simp [hf] <;> omega
  | createTo id r =>
    simp only [step] at hs
    split at hs
    · cases hs
    · injection hs with hs; subst hs
      refine ⟨rfl, ?_, ?_⟩ <;> intro hf <;> simp [hf] <;> omega
  | commit id =>
    simp only [step] at hs
    split at hs
    · injection hs with hs; subst hs; exact ⟨rfl, fun _ => ⟨rfl, rfl⟩, fun _ => ⟨rfl, rfl⟩⟩
    · cases hs
  | deleteTo id =>
    simp only [step] at hs
    split at hs
    · injection hs with hs; subst hs; exact ⟨rfl, fun _ => ⟨rfl, rfl⟩, fun _ => ⟨rfl, rfl⟩⟩
    · cases hs
  | deleteFrom id =>
    simp only [step] at hs
    split at hs
    · injection hs with hs; subst hs; exact ⟨rfl, fun _ => ⟨rfl, rfl⟩, fun _ => ⟨rfl, rfl⟩⟩
    · cases hs
  | cancel id =>
    simp only [step] at hs
    split at hs
    · split at hs
      · cases hs
      · injection hs with hs; subst hs
        refine ⟨rfl, ?_, ?_⟩ <;> intro hf <;> simp [hf] <;> omega
    · cases hs

/-! ### non-vacuity: a full forward transfer, with a refused second credit and a refused late cancel -/
def ex0 : S := init true (fun u => if u = "alice" then 100 else 0) 0
def ex1 : S := exec (exec (exec ex0 (.createFrom "t1" "alice" 40)) (.createTo "t1" ⟨"alice", 40⟩)) (.commit "t1")

example : ex1.srcA "alice" = 60 ∧ ex1.dstB "alice" = 40 ∧ ex1.givenA = 40 ∧
    step ex1 (.createTo "t1" ⟨"alice", 40⟩) = none ∧ step ex1 (.cancel "t1") = none ∧
    allowed ex1 (.deleteTo "t1") = true := by decide

end Foundation.ChTransfer
