import Foundation.Model.Locks
/-!
# C13 — external lock accounting

All statements are for one balance kind (the code paths of the token kind and the allowed kind are
the same up to the account key) and for histories of arbitrary length in which unlock requests
name the lock's own account (the restriction the property states).
-/
namespace Foundation.Locks

/-- the hypothesis of the property: an unlock request names the account of the lock it unlocks -/
def OwnAcct (s : St) : Op → Prop
  | .unlock r => ∀ l, s.locks r.id = some l → l.acct = r.acct
  | .lock _ => True

structure Inv (s : St) : Prop where
  nodup : s.log.Nodup
  logged : ∀ id, s.locks id ≠ none → id ∈ s.log
  pos : ∀ id l, s.locks id = some l → 0 < l.cur ∧ l.cur ≤ l.init ∧ l.cur + s.unlockedSum id = l.init
  lockedEq : ∀ a, s.locked a = sumOver s.log (curOf s a)
  nonneg : ∀ a, 0 ≤ s.spend a

theorem inv_init (spend : String → Int) (h : ∀ a, 0 ≤ spend a) : Inv (init spend) :=
  ⟨List.nodup_nil, by intro id h; simp [init] at h, by intro id l h; simp [init] at h,
   by intro a; simp [init, sumOver], h⟩

/-- what an accepted lock did -/
theorem lock_result (s s' : St) (r : Req) (h : lock s r = some s') :
    r.admin = true ∧ s.locks r.id = none ∧ 0 < r.amount ∧ r.amount ≤ s.spend r.acct ∧
    s' = { s with
      spend := upd s.spend r.acct (s.spend r.acct - r.amount),
      locked := upd s.locked r.acct (s.locked r.acct + r.amount),
      locks := upd s.locks r.id (some ⟨r.acct, r.amount, r.amount⟩),
      log := if r.id ∈ s.log then s.log else r.id :: s.log,
      unlockedSum := upd s.unlockedSum r.id 0 } := by
  unfold lock at h
  by_cases h1 : (!r.admin) = true
  · simp [h1] at h
  simp only [h1, Bool.false_eq_true, if_false] at h
  by_cases h2 : r.id = "" ∨ (!r.wellFormed) = true
  · rw [if_pos h2] at h; cases h
  rw [if_neg h2] at h
  by_cases h3 : (s.locks r.id).isSome = true
  · simp [h3] at h
  simp only [h3, Bool.false_eq_true, if_false] at h
  have hnone : s.locks r.id = none := by
    cases hx : s.locks r.id with
    | none => rfl
    | some _ => simp [hx] at h3
  by_cases h4 : r.amount ≤ 0
  · simp [h4] at h
  simp only [h4, if_false] at h
  by_cases h5 : s.spend r.acct < r.amount
  · simp [h5] at h
  simp only [h5, if_false, Option.some.injEq] at h
  exact ⟨by simpa using h1, hnone, by omega, by omega, h.symm⟩

/-- what an accepted unlock did -/
theorem unlock_result (s s' : St) (r : Req) (h : unlock s r = some s') :
    ∃ l, s.locks r.id = some l ∧ r.admin = true ∧ r.amount ≤ l.cur ∧ 0 ≤ r.amount ∧ r.amount ≤ s.locked r.acct ∧
    s' = { s with
      locked := upd s.locked r.acct (s.locked r.acct - r.amount),
      spend := upd s.spend r.acct (s.spend r.acct + r.amount),
      locks := upd s.locks r.id (if l.cur = r.amount then none else some { l with cur := l.cur - r.amount }),
      unlockedSum := upd s.unlockedSum r.id (s.unlockedSum r.id + r.amount) } := by
  unfold unlock at h
  by_cases h1 : (!r.admin) = true
  · simp [h1] at h
  simp only [h1, Bool.false_eq_true, if_false] at h
  by_cases h2 : r.id = "" ∨ (!r.wellFormed) = true
  · rw [if_pos h2] at h; cases h
  rw [if_neg h2] at h
  cases hl : s.locks r.id with
  | none => simp [hl] at h
  | some l =>
    simp only [hl] at h
    by_cases h3 : l.cur < r.amount
    · simp [h3] at h
    simp only [h3, if_false] at h
    by_cases h4 : r.amount < 0
    · simp [h4] at h
    simp only [h4, if_false] at h
    by_cases h5 : s.locked r.acct < r.amount
    · simp [h5] at h
    simp only [h5, if_false, Option.some.injEq] at h
    exact ⟨l, rfl, by simpa using h1, by omega, by omega, by omega, h.symm⟩

theorem lock_inv (s s' : St) (r : Req) (hi : Inv s) (h : lock s r = some s') : Inv s' := by
  unfold lock at h
  by_cases h1 : (!r.admin) = true
  · simp [h1] at h
  simp only [h1, Bool.false_eq_true, if_false] at h
  by_cases h2 : r.id = "" ∨ (!r.wellFormed) = true
  · rw [if_pos h2] at h; cases h
  rw [if_neg h2] at h
  by_cases h3 : (s.locks r.id).isSome = true
  · simp [h3] at h
  simp only [h3, Bool.false_eq_true, if_false] at h
  have hnone : s.locks r.id = none := by
    cases hx : s.locks r.id with
    | none => rfl
    | some _ => simp [hx] at h3
  by_cases h4 : r.amount ≤ 0
  · simp [h4] at h
  simp only [h4, if_false] at h
  by_cases h5 : s.spend r.acct < r.amount
  · simp [h5] at h
  simp only [h5, if_false, Option.some.injEq] at h
  subst h
  have hcur0 : ∀ a, curOfL s.locks a r.id = 0 := by intro a; simp [curOfL, hnone]
  have hother : ∀ a k, k ≠ r.id → curOfL s.locks a k =
      curOfL (upd s.locks r.id (some ⟨r.acct, r.amount, r.amount⟩)) a k := by
    intro a k hk; simp [curOfL, upd_other _ _ _ _ hk]
  refine ⟨?_, ?_, ?_, ?_, ?_⟩
  · simp only
    split
    · exact hi.nodup
    · rename_i hn; exact List.nodup_cons.mpr ⟨hn, hi.nodup⟩
  · intro id hid
    simp only at hid ⊢
    by_cases hk : id = r.id
    · subst hk; split <;> simp_all
    · simp only [upd_other _ _ _ _ hk] at hid
      have := hi.logged id hid
      split
      · exact this
      · exact List.mem_cons_of_mem _ this
  · intro id l hl
    simp only at hl ⊢
    by_cases hk : id = r.id
    · subst hk
      simp only [upd_same, Option.some.injEq] at hl
      subst hl
      simp; omega
    · simp only [upd_other _ _ _ _ hk] at hl ⊢
      exact hi.pos id l hl
  · intro a
    show upd s.locked r.acct (s.locked r.acct + r.amount) a =
      sumOver (if r.id ∈ s.log then s.log else r.id :: s.log) (curOfL (upd s.locks r.id (some ⟨r.acct, r.amount, r.amount⟩)) a)
    have hl := hi.lockedEq a
    unfold curOf at hl
    by_cases hmem : r.id ∈ s.log
    · simp only [hmem, if_true]
      rw [sumOver_change s.log (curOfL s.locks a) _ r.id (hother a) hi.nodup hmem, hcur0 a, ← hl]
      by_cases ha : a = r.acct
      · subst ha; simp [curOfL]
      · simp [curOfL, upd_other _ _ _ _ ha, Ne.symm ha]
    · simp only [hmem, if_false]
      rw [sumOver_new s.log (curOfL s.locks a) _ r.id (hother a) hmem, ← hl]
      by_cases ha : a = r.acct
      · subst ha; simp [curOfL]
      · simp [curOfL, upd_other _ _ _ _ ha, Ne.symm ha]
  · intro a
    simp only
    by_cases ha : a = r.acct
    · subst ha; simp; omega
    · simp [upd_other _ _ _ _ ha]; exact hi.nonneg a

theorem unlock_inv (s s' : St) (r : Req) (hi : Inv s) (hown : OwnAcct s (.unlock r))
    (h : unlock s r = some s') : Inv s' := by
  unfold unlock at h
  by_cases h1 : (!r.admin) = true
  · simp [h1] at h
  simp only [h1, Bool.false_eq_true, if_false] at h
  by_cases h2 : r.id = "" ∨ (!r.wellFormed) = true
  · rw [if_pos h2] at h; cases h
  rw [if_neg h2] at h
  cases hl : s.locks r.id with
  | none => simp [hl] at h
  | some l =>
    simp only [hl] at h
    by_cases h3 : l.cur < r.amount
    · simp [h3] at h
    simp only [h3, if_false] at h
    by_cases h4 : r.amount < 0
    · simp [h4] at h
    simp only [h4, if_false] at h
    by_cases h5 : s.locked r.acct < r.amount
    · simp [h5] at h
    simp only [h5, if_false, Option.some.injEq] at h
    subst h
    have hacct : l.acct = r.acct := hown l hl
    obtain ⟨hp1, hp2, hp3⟩ := hi.pos r.id l hl
    have hmem : r.id ∈ s.log := hi.logged r.id (by simp [hl])
    refine ⟨hi.nodup, ?_, ?_, ?_, ?_⟩
    · intro id hid
      simp only at hid
      by_cases hk : id = r.id
      · subst hk; exact hmem
      · simp only [upd_other _ _ _ _ hk] at hid; exact hi.logged id hid
    · intro id l' hl'
      simp only at hl' ⊢
      by_cases hk : id = r.id
      · subst hk
        simp only [upd_same] at hl' ⊢
        by_cases he : l.cur = r.amount
        · simp [he] at hl'
        · simp only [he, if_false, Option.some.injEq] at hl'
          subst hl'
          simp; omega
      · simp only [upd_other _ _ _ _ hk] at hl' ⊢
        exact hi.pos id l' hl'
    · intro a
      show upd s.locked r.acct (s.locked r.acct - r.amount) a =
        sumOver s.log (curOfL (upd s.locks r.id (if l.cur = r.amount then none else some { l with cur := l.cur - r.amount })) a)
      have hother : ∀ k, k ≠ r.id → curOfL s.locks a k =
          curOfL (upd s.locks r.id (if l.cur = r.amount then none else some { l with cur := l.cur - r.amount })) a k := by
        intro k hk; simp [curOfL, upd_other _ _ _ _ hk]
      have hle := hi.lockedEq a
      unfold curOf at hle
      rw [sumOver_change s.log (curOfL s.locks a) _ r.id hother hi.nodup hmem, ← hle]
      by_cases ha : a = r.acct
      · subst ha
        by_cases he : l.cur = r.amount
        · simp [curOfL, hl, he, hacct]
        · simp [curOfL, hl, he, hacct]; omega
      · have hne : l.acct ≠ a := by rw [hacct]; exact Ne.symm ha
        by_cases he : l.cur = r.amount
        · simp [curOfL, hl, he, hne, upd_other _ _ _ _ ha]
        · simp [curOfL, hl, he, hne, upd_other _ _ _ _ ha]
    · intro a
      simp only
      by_cases ha : a = r.acct
      · subst ha; simp; have := hi.nonneg r.acct; omega
      · simp [upd_other _ _ _ _ ha]; exact hi.nonneg a

/-- the invariant holds in every state reachable by any history respecting `OwnAcct` -/
inductive Reachable (s0 : St) : St → Prop
  | base : Reachable s0 s0
  | step (s : St) (op : Op) : Reachable s0 s → OwnAcct s op → Reachable s0 (step s op)

theorem reachable_inv (spend : String → Int) (h0 : ∀ a, 0 ≤ spend a) (s : St)
    (hr : Reachable (init spend) s) : Inv s := by
  induction hr with
  | base => exact inv_init spend h0
  | step s op _ hown ih =>
    cases op with
    | lock r =>
      simp only [step]
      cases hl : lock s r with
      | none => simpa using ih
      | some s' => simpa using lock_inv s s' r ih hl
    | unlock r =>
      simp only [step]
      cases hl : unlock s r with
      | none => simpa using ih
      | some s' => simpa using unlock_inv s s' r ih hown hl

/-- `remaining_eq`: for every lock, remaining = initial − everything unlocked so far, and it is
    strictly positive while the record exists (never below zero, gone exactly at zero). -/
theorem remaining_eq (spend : String → Int) (h0 : ∀ a, 0 ≤ spend a) (s : St)
    (hr : Reachable (init spend) s) (id : String) (l : Lock) (hl : s.locks id = some l) :
    l.cur = l.init - s.unlockedSum id ∧ 0 < l.cur := by
  obtain ⟨h1, _, h3⟩ := (reachable_inv spend h0 s hr).pos id l hl
  exact ⟨by omega, h1⟩

/-- `gone_iff_zero`: after a successful unlock the record exists iff something remains -/
theorem gone_iff_zero (s s' : St) (r : Req) (l : Lock) (hl : s.locks r.id = some l)
    (h : unlock s r = some s') :
    (s'.locks r.id = none ↔ l.cur = r.amount) ∧
    (∀ l', s'.locks r.id = some l' → l'.cur = l.cur - r.amount ∧ l'.init = l.init) := by
  obtain ⟨l2, hl2, _, _, _, _, hs'⟩ := unlock_result s s' r h
  rw [hl] at hl2; injection hl2 with hl2; subst hl2
  subst hs'
  by_cases he : l.cur = r.amount
  · simp [he]
  · simp [he]

/-- `locked_eq_sum_of_locks`: an account's locked balance is the sum of the remaining amounts of
    its locks, in every reachable state. -/
theorem locked_eq_sum_of_locks (spend : String → Int) (h0 : ∀ a, 0 ≤ spend a) (s : St)
    (hr : Reachable (init spend) s) (a : String) : s.locked a = sumOver s.log (curOf s a) :=
  (reachable_inv spend h0 s hr).lockedEq a

/-- `sum_preserved`: spendable + locked of every account is unchanged by any lock or unlock request,
    accepted or refused. -/
theorem sum_preserved (s : St) (op : Op) (a : String) :
    (step s op).spend a + (step s op).locked a = s.spend a + s.locked a := by
  cases op with
  | lock r =>
    simp only [step]
    cases hl : lock s r with
    | none => rfl
    | some s' =>
      obtain ⟨_, _, _, _, hs'⟩ := lock_result s s' r hl
      subst hs'
      by_cases ha : a = r.acct
      · subst ha; simp; omega
      · simp [upd_other _ _ _ _ ha]
  | unlock r =>
    simp only [step]
    cases hl : unlock s r with
    | none => rfl
    | some s' =>
      obtain ⟨l, _, _, _, _, _, hs'⟩ := unlock_result s s' r hl
      subst hs'
      by_cases ha : a = r.acct
      · subst ha; simp; omega
      · simp [upd_other _ _ _ _ ha]

/-- `unlock_guarded` / `lock_guarded`: the refusals the property lists -/
theorem lock_guarded (s : St) (r : Req) :
    (r.admin = false → lock s r = none) ∧ ((s.locks r.id).isSome = true → lock s r = none) ∧
    (r.amount ≤ 0 → lock s r = none) ∧ (s.spend r.acct < r.amount → lock s r = none) := by
  unfold lock
  refine ⟨?_, ?_, ?_, ?_⟩ <;> intro h <;> repeat' split <;> simp_all <;> omega

theorem unlock_guarded (s : St) (r : Req) :
    (r.admin = false → unlock s r = none) ∧ (s.locks r.id = none → unlock s r = none) ∧
    (∀ l, s.locks r.id = some l → l.cur < r.amount → unlock s r = none) ∧
    (r.amount < 0 → unlock s r = none) := by
  unfold unlock
  refine ⟨?_, ?_, ?_, ?_⟩
  · intro h; simp [h]
  · intro h; simp [h]
  · intro l hl h; simp [hl, h]
  · intro h
    split
    · rfl
    · split
      · rfl
      · split
        · rfl
        · repeat' split
          all_goals first | rfl | omega

/-- no balance ever becomes negative -/
theorem balances_nonneg (spend : String → Int) (h0 : ∀ a, 0 ≤ spend a) (s : St)
    (hr : Reachable (init spend) s) (a : String) : 0 ≤ s.spend a ∧ 0 ≤ s.locked a := by
  have hi := reachable_inv spend h0 s hr
  refine ⟨hi.nonneg a, ?_⟩
  rw [hi.lockedEq a]
  apply sumOver_nonneg
  intro k _
  unfold curOf curOfL
  cases hk : s.locks k with
  | none => simp
  | some l =>
    have := (hi.pos k l hk).1
    simp only
    split <;> omega

/-! ### non-vacuity -/
def exSt : St := (step (step (init (fun a => if a = "A" then 100 else 0))
  (.lock ⟨true, "L1", "A", 60, true⟩)) (.unlock ⟨true, "L1", "A", 25, true⟩))

example : exSt.spend "A" = 65 ∧ exSt.locked "A" = 35 ∧ exSt.locks "L1" = some ⟨"A", 60, 35⟩ := by decide

end Foundation.Locks
