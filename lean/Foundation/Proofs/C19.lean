import Foundation.Model.Token
/-!
# C19 — fee and price arithmetic is exact and all legs settle together
-/
namespace Foundation.Token

theorem feeUnit_pos : 0 < feeUnit := by unfold feeUnit; exact Nat.pow_pos (by decide)
theorem rateUnit_pos : 0 < rateUnit := by unfold rateUnit; exact Nat.pow_pos (by decide)

/-- per-run obligation on the extracted constants: both decimals are 8 (10^8 = 100 %) -/
theorem facts_decimals : Foundation.Facts.feeDecimals = 8 ∧ Foundation.Facts.rateDecimal = 8 := by decide

/-- the closed form the statement quotes -/
def clamp (floor cap f : Nat) : Nat :=
  let g := max floor f
  if cap > 0 then min cap g else g

/-- `fee_closed_form` (own currency): fee = clamp (⌊amount·share/10^8⌋). -/
theorem fee_closed_form_own (c : Cfg) (a : Nat) (hs : c.feeSet = true) (hsh : c.share ≠ 0)
    (hown : c.feeCur = c.symbol) :
    calcFee c a = some (clamp c.floor c.cap (a * c.share / feeUnit)) := by
  unfold calcFee clamp
  simp only [hs, hsh, hown, Bool.not_true, Bool.false_or, decide_false, Bool.false_eq_true, if_false, if_true]
  congr 1
  simp only [Nat.max_def, Nat.min_def]
  repeat' split
  all_goals omega

/-- `fee_closed_form` (foreign currency with a buyToken rate `r`):
    fee = clamp (⌊⌊amount·share/10^8⌋·rate/10^8⌋). -/
theorem fee_closed_form_foreign (c : Cfg) (a : Nat) (r : Rate) (hs : c.feeSet = true) (hsh : c.share ≠ 0)
    (hf : c.feeCur ≠ c.symbol) (hr : findRate c.rates "buyToken" c.feeCur = some r) :
    calcFee c a = some (clamp c.floor c.cap (a * c.share / feeUnit * r.rate / rateUnit)) := by
  unfold calcFee clamp
  simp only [hs, hsh, hf, hr, Bool.not_true, Bool.false_or, decide_false, Bool.false_eq_true, if_false]
  congr 1
  simp only [Nat.max_def, Nat.min_def]
  repeat' split
  all_goals omega

/-- a foreign fee currency without a rate makes the calculation (and the transfer) fail -/
theorem fee_foreign_without_rate (c : Cfg) (a : Nat) (hs : c.feeSet = true) (hsh : c.share ≠ 0)
    (hf : c.feeCur ≠ c.symbol) (hr : findRate c.rates "buyToken" c.feeCur = none) :
    calcFee c a = none := by
  unfold calcFee
  simp [hs, hsh, hf, hr]

/-- `fee_zero_cases`: no fee configured, or a zero share ⇒ zero; same user on both ends ⇒ zero. -/
theorem fee_zero_cases (c : Cfg) (a : Nat) :
    (c.feeSet = false → calcFee c a = some 0) ∧ (c.share = 0 → calcFee c a = some 0) ∧
    (∀ u, u ≠ "" → ∀ f, calcFee c a = some f → calcTransferFee c a u u = some 0) := by
  refine ⟨?_, ?_, ?_⟩
  · intro h; simp [calcFee, h]
  · intro h; simp [calcFee, h]
  · intro u hu f hf; simp [calcTransferFee, hf, hu]

/-- different (or unknown) users pay exactly `calcFee` -/
theorem fee_charged_between_users (c : Cfg) (a f : Nat) (u v : String) (h : calcFee c a = some f)
    (hd : u = "" ∨ v = "" ∨ u ≠ v) : calcTransferFee c a u v = some f := by
  unfold calcTransferFee
  simp only [h]
  by_cases hf0 : f > 0
  · have : ¬ (u ≠ "" ∧ v ≠ "" ∧ u = v) := by
      rintro ⟨h1, h2, h3⟩; rcases hd with h | h | h <;> simp_all
    simp [this, hf0]
  · have : f = 0 := by omega
    simp [this]

/-- `fee_floor_cap_bounds`: with a fee configured (share ≠ 0) the fee is at least the floor, and —
    given the setter's invariant — at most a positive cap. -/
theorem fee_floor_cap_bounds (c : Cfg) (a f : Nat) (hs : c.feeSet = true) (hsh : c.share ≠ 0)
    (hinv : FeeInv c) (h : calcFee c a = some f) :
    c.floor ≤ f ∧ (c.cap > 0 → f ≤ c.cap) := by
  unfold calcFee at h
  simp only [hs, hsh, Bool.not_true, Bool.false_or, decide_false, Bool.false_eq_true, if_false] at h
  obtain ⟨_, hcap⟩ := hinv
  split at h
  · cases h
  · rename_i f1 _
    injection h with h
    subst h
    repeat' split
    all_goals omega

/-- `fee_rounds_down`: unclamped, in the token's own currency, the fee is the floor of the exact share. -/
theorem fee_rounds_down (a share : Nat) :
    (a * share / feeUnit) * feeUnit ≤ a * share ∧ a * share < (a * share / feeUnit + 1) * feeUnit := by
  have hp := feeUnit_pos
  constructor
  · exact Nat.div_mul_le_self _ _
  · have := Nat.lt_mul_div_succ (a * share) hp
    rw [Nat.mul_comm feeUnit] at this; exact this

theorem clamp_mono (floor cap : Nat) {f g : Nat} (h : f ≤ g) : clamp floor cap f ≤ clamp floor cap g := by
  unfold clamp
  simp only [Nat.max_def, Nat.min_def]
  repeat' split
  all_goals omega

/-- `fee_monotone` (own currency): a larger amount never pays a smaller fee. -/
theorem fee_monotone_own (c : Cfg) (a b : Nat) (hab : a ≤ b) (hs : c.feeSet = true) (hsh : c.share ≠ 0)
    (hown : c.feeCur = c.symbol) :
    ∃ fa fb, calcFee c a = some fa ∧ calcFee c b = some fb ∧ fa ≤ fb := by
  refine ⟨_, _, fee_closed_form_own c a hs hsh hown, fee_closed_form_own c b hs hsh hown, ?_⟩
  apply clamp_mono
  exact Nat.div_le_div_right (Nat.mul_le_mul_right _ hab)

/-- `setFee_preserves_inv`: whatever `TxSetFee` accepts satisfies the invariant used above. -/
theorem setFee_preserves_inv (c c' : Cfg) (cur : String) (share floor cap : Nat)
    (h : setFee c cur share floor cap = some c') : FeeInv c' ∧ c'.feeSet = true := by
  unfold setFee at h
  by_cases h1 : share > feeUnit
  · simp [h1] at h
  · by_cases h2 : cap > 0 ∧ floor > cap
    · simp [h1, h2] at h
    · simp only [h1, h2, if_false] at h
      split at h
      · injection h with h
        subst h
        refine ⟨⟨by simp; omega, ?_⟩, rfl⟩
        simp
        by_cases hc : cap = 0
        · left; exact hc
        · right
          have : ¬ floor > cap := fun hf => h2 ⟨by omega, hf⟩
          omega
      · cases h

/-! ### the legs of a transfer -/

theorem moveTok_effect (s s' : St) (a b : String) (n : Nat) (h : moveTok s a b n = some s') (hab : a ≠ b) :
    n ≤ s.tok a ∧ s'.tok a = s.tok a - n ∧ s'.tok b = s.tok b + n ∧
    (∀ x, x ≠ a → x ≠ b → s'.tok x = s.tok x) ∧ s'.alw = s.alw ∧ s'.cfg = s.cfg ∧ s'.uid = s.uid := by
  unfold moveTok subTok at h
  by_cases hlt : s.tok a < n
  · simp [hlt] at h
  · simp only [hlt, if_false, Option.map_some, Option.some.injEq] at h
    subst h
    have hba : b ≠ a := fun x => hab x.symm
    refine ⟨by omega, ?_, ?_, ?_, rfl, rfl, rfl⟩
    · simp [addTok, upd_other _ _ _ _ hab]
    · simp [addTok, upd_other _ _ _ _ hba]
    · intro x hxa hxb
      simp [addTok, upd_other _ _ _ _ hxa, upd_other _ _ _ _ hxb]

/-- an under-funded leg fails -/
theorem moveTok_unfunded (s : St) (a b : String) (n : Nat) (h : s.tok a < n) : moveTok s a b n = none := by
  simp [moveTok, subTok, h]

theorem moveAlw_unfunded (s : St) (a b cur : String) (n : Nat) (h : s.alw a cur < n) : moveAlw s a b cur n = none := by
  simp [moveAlw, subAlw, h]

/-- `transfer_effect` (own-currency fee, three distinct parties): on success the sender is debited
    by amount + fee, the recipient credited by exactly the amount, the fee address by exactly the
    fee, and nobody else's token balance changes; allowed balances are untouched. -/
theorem transfer_effect_own (s s' : St) (frm to fa : String) (amount : Nat)
    (h : transfer s frm to amount = some s')
    (hfa : s.cfg.feeAddr = some fa) (hown : s.cfg.feeCur = s.cfg.symbol)
    (hd1 : frm ≠ to) (hd2 : frm ≠ fa) (hd3 : to ≠ fa) :
    ∃ fee, calcTransferFee s.cfg amount (s.uid frm) (s.uid to) = some fee ∧
      amount + fee ≤ s.tok frm ∧
      s'.tok frm = s.tok frm - (amount + fee) ∧ s'.tok to = s.tok to + amount ∧
      s'.tok fa = s.tok fa + fee ∧ (∀ x, x ≠ frm → x ≠ to → x ≠ fa → s'.tok x = s.tok x) ∧
      s'.alw = s.alw := by
  unfold transfer at h
  simp only [hd1, if_false] at h
  by_cases ha0 : amount = 0
  · simp [ha0] at h
  · simp only [ha0, if_false] at h
    cases hm : moveTok s frm to amount with
    | none => simp [hm] at h
    | some s1 =>
      simp only [hm] at h
      obtain ⟨m1, m2, m3, m4, m5, m6, m7⟩ := moveTok_effect s s1 frm to amount hm hd1
      by_cases hg1 : s.cfg.feeSet = true ∧ s.cfg.feeAddr = none
      · simp [hg1] at h
      · simp only [hg1, if_false] at h
        by_cases hg2 : s.cfg.feeSet = true ∧ s.cfg.feeCur = ""
        · simp [hg2] at h
        · simp only [hg2, if_false] at h
          cases hf : calcTransferFee s.cfg amount (s.uid frm) (s.uid to) with
          | none => simp [hf] at h
          | some fee =>
            simp only [hf] at h
            refine ⟨fee, rfl, ?_⟩
            by_cases hf0 : fee = 0
            · simp only [hf0, if_true, Option.some.injEq] at h
              subst h; subst hf0
              have hfa1 : fa ≠ frm := fun x => hd2 x.symm
              have hfa2 : fa ≠ to := fun x => hd3 x.symm
              refine ⟨by omega, by simp [m2], by simp [m3], by simp [m4 fa hfa1 hfa2], ?_, m5⟩
              intro x h1 h2 _; exact m4 x h1 h2
            · simp only [hf0, if_false, hfa, hown, if_true] at h
              obtain ⟨n1, n2, n3, n4, n5, _, _⟩ := moveTok_effect s1 s' frm fa fee h hd2
              have hfa1 : fa ≠ frm := fun x => hd2 x.symm
              have hfa2 : fa ≠ to := fun x => hd3 x.symm
              refine ⟨by omega, by rw [n2, m2]; omega, ?_, ?_, ?_, by rw [n5, m5]⟩
              · rw [n4 to (fun x => hd1 x.symm) hd3, m3]
              · rw [n3, m4 fa hfa1 hfa2]
              · intro x h1 h2 h3; rw [n4 x h1 h3, m4 x h1 h2]

/-- any unfunded or refused leg makes the whole transfer fail (and with C04 nothing is written) -/
theorem transfer_unfunded_fails (s : St) (frm to : String) (amount : Nat) (h : s.tok frm < amount) :
    transfer s frm to amount = none := by
  unfold transfer
  by_cases h1 : frm = to <;> by_cases h2 : amount = 0 <;> simp [h1, h2, moveTok_unfunded s frm to amount h]

/-! ### prices and limits -/

/-- `price_exact`: the price is ⌊amount·rate/10^8⌋ -/
theorem price_exact (r : Rate) (a : Nat) :
    calcPrice r a * rateUnit ≤ a * r.rate ∧ a * r.rate < (calcPrice r a + 1) * rateUnit := by
  unfold calcPrice
  refine ⟨Nat.div_mul_le_self _ _, ?_⟩
  have := Nat.lt_mul_div_succ (a * r.rate) rateUnit_pos
  rw [Nat.mul_comm rateUnit] at this; exact this

/-- `limits_respected`: in the limits iff `min ≤ amount` and (`max = 0` or `amount ≤ max`) -/
theorem limits_respected (r : Rate) (a : Nat) :
    inLimit r a = true ↔ (r.min ≤ a ∧ (r.max = 0 ∨ a ≤ r.max)) := by
  simp [inLimit]

/-- `buy_effect`: a successful purchase found a buyToken rate, respected its limits, and moved
    exactly ⌊amount·rate/10^8⌋ of the currency against exactly `amount` tokens. -/
theorem buy_effect (s s' : St) (issuer buyer : String) (a : Nat) (cur : String)
    (h : buy s issuer buyer a cur = some s') :
    buyer ≠ issuer ∧ a ≠ 0 ∧ ∃ r, findRate s.cfg.rates "buyToken" cur = some r ∧ inLimit r a = true ∧
      ∃ s1, moveAlw s buyer issuer cur (calcPrice r a) = some s1 ∧ moveTok s1 issuer buyer a = some s' := by
  unfold buy at h
  by_cases h1 : buyer = issuer
  · simp [h1] at h
  · by_cases h2 : a = 0
    · simp [h1, h2] at h
    · simp only [h1, h2, if_false] at h
      cases hr : findRate s.cfg.rates "buyToken" cur with
      | none => simp [hr] at h
      | some r =>
        simp only [hr] at h
        by_cases hl : inLimit r a = true
        · simp only [hl, Bool.not_true, Bool.false_eq_true, if_false] at h
          cases hm : moveAlw s buyer issuer cur (calcPrice r a) with
          | none => simp [hm] at h
          | some s1 =>
            simp only [hm] at h
            exact ⟨h1, h2, r, rfl, hl, s1, hm, h⟩
        · simp [hl] at h

theorem buyBack_effect (s s' : St) (issuer seller : String) (a : Nat) (cur : String)
    (h : buyBack s issuer seller a cur = some s') :
    seller ≠ issuer ∧ a ≠ 0 ∧ ∃ r, findRate s.cfg.rates "buyBack" cur = some r ∧ inLimit r a = true ∧
      ∃ s1, moveAlw s issuer seller cur (calcPrice r a) = some s1 ∧ moveTok s1 seller issuer a = some s' := by
  unfold buyBack at h
  by_cases h1 : seller = issuer
  · simp [h1] at h
  · by_cases h2 : a = 0
    · simp [h1, h2] at h
    · simp only [h1, h2, if_false] at h
      cases hr : findRate s.cfg.rates "buyBack" cur with
      | none => simp [hr] at h
      | some r =>
        simp only [hr] at h
        by_cases hl : inLimit r a = true
        · simp only [hl, Bool.not_true, Bool.false_eq_true, if_false] at h
          cases hm : moveAlw s issuer seller cur (calcPrice r a) with
          | none => simp [hm] at h
          | some s1 =>
            simp only [hm] at h
            exact ⟨h1, h2, r, rfl, hl, s1, hm, h⟩
        · simp [hl] at h

/-! ### non-vacuity -/
def exCfg : Cfg := ⟨"VT", true, "VT", 500000, 3, 10, some "F", []⟩

example : FeeInv exCfg := by unfold FeeInv exCfg feeUnit; decide
example : calcFee exCfg 1000 = some 5 ∧ calcFee exCfg 100 = some 3 ∧ calcFee exCfg 100000 = some 10 := by
  unfold calcFee exCfg feeUnit; decide

/-! ### withdrawing a rate (`TxDeleteRate`) -/

/-- at most one rate per (deal type, currency) -/
def Uniq (rs : List Rate) : Prop := rs.Pairwise (fun a b => ¬ (a.deal = b.deal ∧ a.cur = b.cur))

theorem upd_key (deal cur : String) (rate : Nat) (r : Rate) :
    (if r.deal = deal ∧ r.cur = cur then { r with rate := rate } else r).deal = r.deal ∧
    (if r.deal = deal ∧ r.cur = cur then { r with rate := rate } else r).cur = r.cur := by
  split <;> simp

theorem setRate_uniq (c c' : Cfg) (deal cur : String) (rate : Nat) (h : Uniq c.rates)
    (hs : setRate c deal cur rate = some c') : Uniq c'.rates := by
  unfold setRate at hs
  split at hs
  · cases hs
  · split at hs
    · cases hs
    · split at hs
      · injection hs with hs; subst hs
        simp only
        unfold Uniq at *
        rw [List.pairwise_map]
        refine h.imp ?_
        intro a b hab
        rw [(upd_key deal cur rate a).1, (upd_key deal cur rate a).2, (upd_key deal cur rate b).1, (upd_key deal cur rate b).2]
        exact hab
      · rename_i hnone
        injection hs with hs; subst hs
        simp only
        unfold Uniq at *
        rw [List.pairwise_append]
        refine ⟨h, List.pairwise_singleton _ _, ?_⟩
        intro a ha b hb
        simp only [List.mem_singleton] at hb
        subst hb
        simp only
        intro hab
        apply hnone
        simp only [List.any_eq_true, decide_eq_true_eq]
        exact ⟨a, ha, hab⟩

theorem deleteRate_uniq (c c' : Cfg) (deal cur : String) (h : Uniq c.rates)
    (hs : deleteRate c deal cur = some c') : Uniq c'.rates := by
  unfold deleteRate at hs
  split at hs
  · cases hs
  · injection hs with hs; subst hs
    exact h.sublist (List.eraseP_sublist)

theorem eraseP_no_match (deal cur : String) : ∀ (rs : List Rate), Uniq rs →
    ∀ r ∈ rs.eraseP (fun r => r.deal = deal ∧ r.cur = cur), ¬ (r.deal = deal ∧ r.cur = cur) := by
  intro rs
  induction rs with
  | nil => intro _ r hr; simp at hr
  | cons x xs ih =>
    intro h r hr hmatch
    have hu := List.pairwise_cons.mp h
    by_cases hx : x.deal = deal ∧ x.cur = cur
    · rw [List.eraseP_cons_of_pos (by simpa using hx)] at hr
      exact hu.1 r hr ⟨hx.1.trans hmatch.1.symm, hx.2.trans hmatch.2.symm⟩
    · rw [List.eraseP_cons_of_neg (by simpa using hx)] at hr
      rcases List.mem_cons.mp hr with e | e
      · subst e; exact hx hmatch
      · exact ih hu.2 r e hmatch

/-- after a rate was withdrawn, no rate is found for that pair: buying, buying back and a fee in that
    currency fail until it is set again -/
theorem deleteRate_removes (c c' : Cfg) (deal cur : String) (h : Uniq c.rates)
    (hs : deleteRate c deal cur = some c') : findRate c'.rates deal cur = none := by
  unfold deleteRate at hs
  split at hs
  · cases hs
  · injection hs with hs; subst hs
    simp only [findRate, List.find?_eq_none, decide_eq_true_eq]
    exact eraseP_no_match deal cur c.rates h


example : Uniq ([] : List Rate) := List.Pairwise.nil

end Foundation.Token
