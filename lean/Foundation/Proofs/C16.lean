import Foundation.Model.Balance
/-!
# C16 — the reverse balance index always agrees with the balances
-/
namespace Foundation.Balance

theorem put_indexed (s : St) (kind : String) (h : Indexed s kind) (k : PK) (v : Int) :
    Indexed (put s k v) kind := by
  intro a t ht
  unfold put
  by_cases hk : (⟨kind, a, t⟩ : PK) = k
  · subst hk; simp [ht]
  · by_cases hkt : k.token = ""
    · simp [hkt, upd_other _ _ _ _ hk]; exact h a t ht
    · simp [hkt, upd_other _ _ _ _ hk]; exact h a t ht

theorem add_indexed (s s' : St) (kind : String) (h : Indexed s kind) (k : PK) (a : Int)
    (hs : add s k a = .ok s') : Indexed s' kind := by
  unfold add at hs
  by_cases h1 : a < 0
  · simp [h1] at hs
  · simp only [h1, if_false] at hs
    injection hs with hs; subst hs
    exact put_indexed s kind h k _

theorem sub_indexed (s s' : St) (kind : String) (h : Indexed s kind) (k : PK) (a : Int)
    (hs : sub s k a = .ok s') : Indexed s' kind := by
  unfold sub at hs
  by_cases h1 : a < 0
  · simp [h1] at hs
  · simp only [h1, if_false] at hs
    by_cases h2 : get s k < a
    · simp [h2] at hs
    · simp only [h2, if_false] at hs
      injection hs with hs; subst hs
      exact put_indexed s kind h k _

theorem move_indexed (s s' : St) (kind : String) (h : Indexed s kind) (src dst : PK) (a : Int)
    (hs : move s src dst a = .ok s') : Indexed s' kind := by
  unfold move at hs
  cases h1 : sub s src a with
  | error e => simp [h1] at hs
  | ok s1 =>
    simp only [h1] at hs
    exact add_indexed s1 s' kind (sub_indexed s s1 kind h src a h1) dst a hs

theorem step_indexed (s : St) (kind : String) (h : Indexed s kind) (op : Op) : Indexed (step s op) kind := by
  cases op with
  | put k v =>
    simp only [step]
    split
    · exact h
    · exact put_indexed s kind h k v
  | add k a =>
    simp only [step]
    cases hr : add s k a with
    | error e => exact h
    | ok s' => exact add_indexed s s' kind h k a hr
  | sub k a =>
    simp only [step]
    cases hr : sub s k a with
    | error e => exact h
    | ok s' => exact sub_indexed s s' kind h k a hr
  | move src dst n =>
    simp only [step]
    cases hr : move s src dst n with
    | error e => exact h
    | ok s' => exact move_indexed s s' kind h src dst n hr

/-- `index_inv`: from an indexed-consistent state, after any sequence of put/add/sub/move (to zero
    and back, any kinds, tokens and addresses, failing or not), for every kind the inverse entry of
    (kind, token, address) equals the primary entry of (kind, address, token). -/
theorem index_inv (s : St) (kind : String) (h : Indexed s kind) (ops : List Op) : Indexed (run s ops) kind := by
  unfold run
  induction ops generalizing s with
  | nil => exact h
  | cons op ops ih => simp only [List.foldl_cons]; exact ih _ (step_indexed s kind h op)

/-- the empty ledger is indexed -/
theorem empty_indexed (kind : String) : Indexed ⟨fun _ => 0, fun _ => 0⟩ kind := by
  intro a t _; rfl

/-- `list_owners_exact`: in an indexed state, listing the owners of a token returns exactly the
    addresses (of the universe of addresses in key order) whose balance of that token is non-zero,
    with the amounts a direct read returns, each once (for a duplicate-free universe). -/
theorem list_owners_exact (s : St) (kind token : String) (ht : token ≠ "") (h : Indexed s kind)
    (U : List String) (a : String) (v : Int) :
    (a, v) ∈ listOwners s U kind token ↔ (a ∈ U ∧ get s ⟨kind, a, token⟩ = v ∧ v ≠ 0) := by
  unfold listOwners get
  simp only [List.mem_map, List.mem_filter]
  constructor
  · rintro ⟨a', ⟨hu, hne⟩, heq⟩
    injection heq with h1 h2
    subst h1
    rw [h a' token ht] at hne h2
    exact ⟨hu, h2, by subst h2; simpa using hne⟩
  · rintro ⟨hu, hv, hne⟩
    refine ⟨a, ⟨hu, ?_⟩, ?_⟩
    · rw [h a token ht, hv]; simpa using hne
    · rw [h a token ht, hv]

theorem list_owners_nodup (s : St) (kind token : String) (U : List String) (hU : U.Nodup) :
    ((listOwners s U kind token).map (·.1)).Nodup := by
  unfold listOwners
  simp only [List.map_map]
  have : (fun a => (a, s.inv ⟨kind, a, token⟩)) = fun a => (a, s.inv ⟨kind, a, token⟩) := rfl
  have hm : List.map (Prod.fst ∘ fun a => (a, s.inv ⟨kind, a, token⟩)) (U.filter (fun a => decide (s.inv ⟨kind, a, token⟩ ≠ 0)))
      = U.filter (fun a => decide (s.inv ⟨kind, a, token⟩ ≠ 0)) := by
    simp [Function.comp_def]
  rw [hm]
  exact List.Nodup.sublist List.filter_sublist hU

/-- `create_index_establishes`: from legacy data (no inverse entries of that kind) `createIndex kind`
    yields an indexed-consistent state for `kind` … -/
theorem create_index_establishes (s : St) (kind : String)
    (hlegacy : ∀ a t, s.inv ⟨kind, a, t⟩ = 0) : Indexed (createIndex s kind) kind := by
  intro a t ht
  simp only [createIndex]
  by_cases hz : s.prim ⟨kind, a, t⟩ = 0
  · simp [hz, hlegacy a t]
  · simp [ht, hz]

/-- … it is idempotent on an already indexed state … -/
theorem create_index_keeps_indexed (s : St) (kind : String) (h : Indexed s kind) :
    Indexed (createIndex s kind) kind := by
  intro a t ht
  simp only [createIndex]
  by_cases hz : s.prim ⟨kind, a, t⟩ = 0
  · simp [hz]; rw [h a t ht]; exact hz
  · simp [ht, hz]

/-- … and `create_index_keeps_balances`: it changes no balance, and no inverse entry of another kind. -/
theorem create_index_keeps_balances (s : St) (kind : String) :
    (createIndex s kind).prim = s.prim ∧
    ∀ k : PK, k.kind ≠ kind → (createIndex s kind).inv k = s.inv k := by
  refine ⟨rfl, ?_⟩
  intro k hk
  simp [createIndex, hk]

/-! ### non-vacuity -/
def k1 : PK := ⟨"2c", "alice", "USD"⟩
def k2 : PK := ⟨"2c", "bob", "USD"⟩
def ex : St := run ⟨fun _ => 0, fun _ => 0⟩ [.add k1 10, .move k1 k2 10, .add k1 3, .sub k2 4]

example : listOwners ex ["alice", "bob", "carol"] "2c" "USD" = [("alice", 3), ("bob", 6)] := by decide

end Foundation.Balance
