import Foundation.Model.Paging
/-!
# C20 — paged listing of origin-side transfers is complete and duplicate-free
-/
namespace Foundation.Paging

theorem filter_ge_suffix : ∀ (pre S : List Key) (b : Key), Sorted (pre ++ b :: S) →
    (pre ++ b :: S).filter (fun k => decide (b ≤ k)) = b :: S := by
  intro pre
  induction pre with
  | nil =>
    intro S b h
    simp only [List.nil_append] at h ⊢
    have hS : ∀ x ∈ S, b < x := (List.pairwise_cons.mp h).1
    rw [List.filter_cons]
    simp only [String.le_refl, decide_true, if_true]
    congr 1
    apply List.filter_eq_self.mpr
    intro x hx
    have := hS x hx
    exact decide_eq_true (Std.le_of_not_ge (fun a => a this))
  | cons p pre ih =>
    intro S b h
    have hp : p < b := (List.pairwise_cons.mp h).1 b (by simp)
    have h' : Sorted (pre ++ b :: S) := (List.pairwise_cons.mp h).2
    simp only [List.cons_append]
    rw [List.filter_cons]
    have : decide (b ≤ p) = false := decide_eq_false (String.not_le.mpr hp)
    simp only [this, Bool.false_eq_true, if_false]
    exact ih S b h'

/-- from any suffix of the range, the loop returns exactly that suffix -/
theorem collect_suffix (size : Nat) (hsz : 1 ≤ size) :
    ∀ (n : Nat) (pre S : List Key) (b : Key), (b :: S).length ≤ n → Sorted (pre ++ b :: S) →
      collect (pre ++ b :: S) size (n + 1) (some b) = b :: S := by
  intro n
  induction n with
  | zero => intro pre S b hlen _; simp at hlen
  | succ n ih =>
    intro pre S b hlen hs
    unfold collect
    simp only [page]
    rw [filter_ge_suffix pre S b hs]
    cases hd : ((b :: S).drop size).head? with
    | none =>
      simp only
      have : (b :: S).drop size = [] := by simpa using hd
      have hle : (b :: S).length ≤ size := by simpa using List.drop_eq_nil_iff.mp this
      exact List.take_of_length_le hle
    | some b' =>
      simp only
      obtain ⟨S', hS'⟩ : ∃ S', (b :: S).drop size = b' :: S' := by
        cases hdr : (b :: S).drop size with
        | nil => simp [hdr] at hd
        | cons x xs => simp [hdr] at hd; exact ⟨xs, by rw [hd]⟩
      have hsplit : pre ++ b :: S = (pre ++ (b :: S).take size) ++ b' :: S' := by
        rw [List.append_assoc, ← hS', List.take_append_drop]
      have hlen' : (b' :: S').length ≤ n := by
        have h1 : ((b :: S).drop size).length = (b :: S).length - size := List.length_drop
        rw [hS'] at h1
        omega
      have := ih (pre ++ (b :: S).take size) S' b' hlen' (by rw [← hsplit]; exact hs)
      rw [← hsplit] at this
      rw [this, ← hS', List.take_append_drop]

/-- `paging_complete`: for every strictly sorted range, every page size ≥ 1, following the
    bookmarks from the empty one terminates (within `|R|+1` pages) and the concatenation of the
    pages is exactly the range — each key once, in key order. -/
theorem paging_complete (R : List Key) (size : Nat) (hsz : 1 ≤ size) (hs : Sorted R) :
    collect R size (R.length + 1) none = R := by
  unfold collect
  simp only [page]
  cases hd : (R.drop size).head? with
  | none =>
    simp only
    have : R.drop size = [] := by simpa using hd
    exact List.take_of_length_le (List.drop_eq_nil_iff.mp this)
  | some b =>
    simp only
    obtain ⟨S, hS⟩ : ∃ S, R.drop size = b :: S := by
      cases hdr : R.drop size with
      | nil => simp [hdr] at hd
      | cons x xs => simp [hdr] at hd; exact ⟨xs, by rw [hd]⟩
    have hsplit : R = R.take size ++ b :: S := by rw [← hS, List.take_append_drop]
    have hlen : (b :: S).length ≤ R.length - 1 := by
      have h1 : (R.drop size).length = R.length - size := List.length_drop
      rw [hS] at h1; omega
    have hR : R.length = (R.length - 1) + 1 := by
      have : (R.drop size).length = R.length - size := List.length_drop
      rw [hS] at this; simp at this; omega
    have := collect_suffix size hsz (R.length - 1) (R.take size) S b hlen (by rw [← hsplit]; exact hs)
    rw [← hsplit] at this
    rw [hR, this, ← hS, List.take_append_drop]

/-- the range of a sorted ledger is sorted, so `paging_complete` applies to the real query -/
theorem rangeKeys_sorted (keys : List Key) (h : Sorted keys) : Sorted (rangeKeys keys) :=
  List.Pairwise.sublist List.filter_sublist h

/-- listing the ledger: the pages are exactly the ledger keys inside `[prefix, prefix+MaxRune)` -/
theorem listing_complete (keys : List Key) (size : Nat) (hsz : 1 ≤ size) (hs : Sorted keys) :
    collect (rangeKeys keys) size ((rangeKeys keys).length + 1) none = rangeKeys keys :=
  paging_complete _ size hsz (rangeKeys_sorted keys hs)

theorem lt_of_common (p : List Char) (a b : List Char) (h : a < b) : p ++ a < p ++ b := by
  induction p with
  | nil => simpa using h
  | cons c cs ih => exact List.Lex.cons ih

theorem le_append (p a : List Char) : p ≤ p ++ a := by
  induction p with
  | nil => exact List.nil_le _
  | cons c cs ih =>
    simp only [List.cons_append]
    exact List.cons_le_cons_iff.mpr (Or.inr ⟨rfl, ih⟩)

/-- `record_key_in_range`: the key `prefix ++ id` of an origin-side record lies in the listed range
    for **every** id (any characters, U+10FFFF included, the empty id too). -/
theorem record_key_in_range (id : String) :
    fromPrefix ≤ fromPrefix ++ id ∧ fromPrefix ++ id < endKey := by
  constructor
  · show ¬ (fromPrefix ++ id).toList < fromPrefix.toList
    rw [String.toList_append]
    exact List.not_lt.mpr (le_append _ _)
  · show (fromPrefix ++ id).toList < endKey.toList
    rw [String.toList_append]
    have h1 : fromPrefix.toList = "/transfer/from".toList ++ ['/'] := by decide
    have h2 : endKey.toList = "/transfer/from".toList ++ ['0'] := by decide
    rw [h1, h2, List.append_assoc]
    apply lt_of_common
    exact List.Lex.rel (by decide)

/-- `every_record_listed`: following the bookmarks lists every existing origin-side record,
    whatever its id, for every page size of at least one. -/
theorem every_record_listed (keys : List Key) (size : Nat) (hsz : 1 ≤ size) (hs : Sorted keys)
    (id : String) (h : fromPrefix ++ id ∈ keys) :
    fromPrefix ++ id ∈ collect (rangeKeys keys) size ((rangeKeys keys).length + 1) none := by
  rw [listing_complete keys size hsz hs]
  unfold rangeKeys
  have := record_key_in_range id
  simp only [List.mem_filter, Bool.and_eq_true, decide_eq_true_eq]
  exact ⟨h, this.1, this.2⟩

/-- only record keys are listed: a listed key starts with the prefix -/
theorem listed_keys_are_records (keys : List Key) (k : Key) (h : k ∈ rangeKeys keys) :
    fromPrefix ≤ k ∧ k < endKey := by
  unfold rangeKeys at h
  simp only [List.mem_filter, Bool.and_eq_true, decide_eq_true_eq] at h
  exact h.2

/-- every page has at most `size` entries -/
theorem page_size_le (R : List Key) (b : Option Key) (size : Nat) : (page R b size).1.length ≤ size := by
  simp [page, List.length_take]; omega

/-- only keys of the range are ever returned -/
theorem page_subset (R : List Key) (b : Option Key) (size : Nat) : ∀ k ∈ (page R b size).1, k ∈ R := by
  intro k hk
  simp only [page] at hk
  have := List.mem_of_mem_take hk
  cases b with
  | none => exact this
  | some b => exact (List.mem_filter.mp this).1

/-- `bad_requests_rejected`: a non-positive page size, or a non-empty bookmark that does not start
    with the transfer-record prefix, is rejected. -/
theorem bad_requests_rejected (keys : List Key) (size : Int) (bm : String) :
    (size ≤ 0 → query keys size bm = .error .pageSize) ∧
    (0 < size → bm ≠ "" → fromPrefix.isPrefixOf bm = false → query keys size bm = .error .bookmark) := by
  constructor
  · intro h; simp [query, h]
  · intro h hb hp
    have : ¬ size ≤ 0 := by omega
    simp [query, this, hb, hp]

/-- a valid request returns one page of the range -/
theorem good_request (keys : List Key) (size : Int) (bm : String) (hs : 0 < size)
    (hb : bm = "" ∨ fromPrefix.isPrefixOf bm = true) :
    ∃ r, query keys size bm = .ok r ∧ r.1.length ≤ size.toNat ∧ ∀ k ∈ r.1, k ∈ rangeKeys keys := by
  have h1 : ¬ size ≤ 0 := by omega
  have h2 : ¬ (bm ≠ "" ∧ ¬ fromPrefix.isPrefixOf bm = true) := by
    rcases hb with h | h
    · simp [h]
    · simp [h]
  refine ⟨_, by simp only [query, h1, if_false, h2]; rfl, page_size_le _ _ _, page_subset _ _ _⟩

/-! ### non-vacuity -/
example : collect ["/transfer/from/a", "/transfer/from/b", "/transfer/from/c"] 2 4 none =
    ["/transfer/from/a", "/transfer/from/b", "/transfer/from/c"] := by decide

example : rangeKeys ["/transfer/from", "/transfer/from/a", "/transfer/from0", "/transfer/to/a"] =
    ["/transfer/from/a"] := by decide

end Foundation.Paging
