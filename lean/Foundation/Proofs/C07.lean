import Foundation.Model.Process
import Foundation.Lemmas.Cache
import Foundation.Proofs.C12
import Foundation.Gen.Facts
/-!
# C07 — execution is deterministic and independent of the process's history

Property theorems only.  `run`, `invoke`, `history`, `committedReplies`, the library bodies and
`disciplined` are in `Model/Process.lean`; the cache (`sortKeys`, `txWrites`, `commitVia`) is
`Model/Cache.lean`.
-/
namespace Foundation.Process
open Foundation.Token

/-- `mem_irrelevant` (core): a body that touches the in-memory metadata only after a load gives the
    same replies and the same ledger whatever object an earlier invocation left in memory. -/
theorem run_mem_irrelevant : ∀ (b : List Step), disciplined b = true → ∀ (m₁ m₂ : Meta) (l : Led) (o : List String),
    (run false m₁ l o b).2 = (run false m₂ l o b).2 := by
  intro b
  induction b with
  | nil => intro _ m₁ m₂ l o; rfl
  | cons s r ih =>
    intro h m₁ m₂ l o
    cases s with
    | load => simp [run, loadMeta]
    | stub f =>
      simp only [run]
      cases f l.bal with
      | none => rfl
      | some b => exact ih (by simpa [disciplined] using h) m₁ m₂ _ o
    | save => simp [disciplined] at h
    | mem f => simp [disciplined] at h
    | mix f => simp [disciplined] at h
    | out g => simp [disciplined] at h

/-- one proposal: reply and resulting ledger do not depend on the process memory -/
theorem invoke_mem_irrelevant (p : Proposal) (h : disciplined p.body = true) (m₁ m₂ : Meta) (l : Led) :
    (invoke false m₁ l p).2 = (invoke false m₂ l p).2 := by
  have := run_mem_irrelevant p.body h m₁ m₂ l []
  unfold invoke
  rcases h1 : run false m₁ l [] p.body with ⟨a1, r1⟩
  rcases h2 : run false m₂ l [] p.body with ⟨a2, r2⟩
  rw [h1, h2] at this
  simp only at this
  subst this
  cases r1 with
  | none => rfl
  | some x => rfl

/-- `mem_irrelevant` (full): for every history of proposals (committed or dropped, succeeding or
    failing, any bodies following the discipline), every reply and the final ledger are the same
    whatever the instance had in memory at the start — in particular a long-lived instance and a
    freshly created one (`Meta.zero`) agree on every step. -/
theorem history_mem_irrelevant : ∀ (ps : List Proposal), (∀ p ∈ ps, disciplined p.body = true) →
    ∀ (m₁ m₂ : Meta) (l : Led), history false m₁ l ps = history false m₂ l ps := by
  intro ps
  induction ps with
  | nil => intros; rfl
  | cons p ps ih =>
    intro h m₁ m₂ l
    have hp := invoke_mem_irrelevant p (h p (by simp)) m₁ m₂ l
    simp only [history]
    have e1 : (invoke false m₁ l p).2.1 = (invoke false m₂ l p).2.1 := by rw [hp]
    have e2 : (invoke false m₁ l p).2.2 = (invoke false m₂ l p).2.2 := by rw [hp]
    rw [e1, e2, ih (fun q hq => h q (by simp [hq])) (invoke false m₁ l p).1 (invoke false m₂ l p).1]

/-- a dropped proposal leaves the ledger alone -/
theorem dropped_keeps_ledger (m : Meta) (l : Led) (p : Proposal) (h : p.committed = false) :
    (invoke false m l p).2.1 = l := by
  unfold invoke
  rcases run false m l [] p.body with ⟨a, r⟩
  cases r with
  | none => rfl
  | some x => simp [h]

/-- `dropped_simulation_irrelevant`: inserting any number of simulated-and-dropped proposals
    between the committed ones changes neither a committed reply nor the final ledger: the committed
    replies of a history equal the replies of the history with the dropped proposals removed, run on
    an instance with arbitrary memory. -/
theorem dropped_simulation_irrelevant : ∀ (ps : List Proposal), (∀ p ∈ ps, disciplined p.body = true) →
    ∀ (m m' : Meta) (l : Led),
    committedReplies false m l ps = history false m' l (ps.filter (·.committed)) := by
  intro ps
  induction ps with
  | nil => intros; rfl
  | cons p ps ih =>
    intro h m m' l
    have hrest := fun q hq => h q (List.mem_cons_of_mem p hq)
    cases hc : p.committed with
    | false =>
      simp only [committedReplies, List.filter_cons, hc, Bool.false_eq_true, if_false]
      rw [dropped_keeps_ledger m l p hc]
      exact ih hrest _ m' l
    | true =>
      simp only [committedReplies, List.filter_cons, hc, if_true, history]
      have hp := invoke_mem_irrelevant p (h p (by simp)) m m' l
      have e1 : (invoke false m l p).2.1 = (invoke false m' l p).2.1 := by rw [hp]
      have e2 : (invoke false m l p).2.2 = (invoke false m' l p).2.2 := by rw [hp]
      rw [e1, e2, ih hrest (invoke false m l p).1 (invoke false m' l p).1]

/-- the bodies of the library's metadata-touching methods follow the discipline, for all arguments -/
theorem library_bodies_disciplined (u v cur deal : String) (a b c : Nat) :
    disciplined (emitBody u a) = true ∧ disciplined (setFeeBody cur a b c) = true ∧
    disciplined (setFeeAddrBody u) = true ∧ disciplined (setRateBody deal cur a) = true ∧
    disciplined (transferBody u v a) = true ∧ disciplined metaBody = true ∧
    disciplined (predictBody a) = true := by
  simp [emitBody, setFeeBody, setFeeAddrBody, setRateBody, transferBody, metaBody, predictBody, disciplined]

/-! ### the repaired defect, kept as a proved counterexample of the pre-fix behaviour -/

def exLed : Led := ⟨Meta.zero "VT", false, ⟨cfg0 "VT", fun a => if a = "a" then 10 else 0, fun _ _ => 0, fun _ => ""⟩⟩

/-- memory a long-lived legacy instance holds after a *rejected and dropped* `setFee` with an
    unknown currency on a ledger without metadata: the fee object exists in memory only -/
def staleMem : Meta := (invoke true (Meta.zero "VT") exLed ⟨setFeeBody "XYZ" 1 0 0, false⟩).1

/-- `stale_fee_counterexample` (pre-fix code, `legacy = true`): the same transfer on the same ledger
    is accepted by a fresh instance and refused ("fee address is not set") by the long-lived one —
    the finding `instance_divergence`, fixed by 3e5f873. With the repaired load both accept. -/
theorem stale_fee_counterexample :
    (invoke true (Meta.zero "VT") exLed ⟨transferBody "a" "b" 1, true⟩).2.2 = some [] ∧
    (invoke true staleMem exLed ⟨transferBody "a" "b" 1, true⟩).2.2 = none ∧
    (invoke false staleMem exLed ⟨transferBody "a" "b" 1, true⟩).2.2 = some [] := by
  refine ⟨?_, ?_, ?_⟩ <;> decide

/-! ### in-process iteration order -/
end Foundation.Process

namespace Foundation.Cache

theorem sorted_ext : ∀ (l₁ l₂ : List Key), SortedKeys l₁ → SortedKeys l₂ → (∀ a, a ∈ l₁ ↔ a ∈ l₂) → l₁ = l₂ := by
  intro l₁
  induction l₁ with
  | nil =>
    intro l₂ _ _ h
    cases l₂ with
    | nil => rfl
    | cons y ys => exact absurd ((h y).mpr (by simp)) (by simp)
  | cons x xs ih =>
    intro l₂ h1 h2 h
    cases l₂ with
    | nil => exact absurd ((h x).mp (by simp)) (by simp)
    | cons y ys =>
      have hx := List.pairwise_cons.mp h1
      have hy := List.pairwise_cons.mp h2
      have hxy : x = y := by
        have hxm : x ∈ y :: ys := (h x).mp (by simp)
        have hym : y ∈ x :: xs := (h y).mpr (by simp)
        rcases List.mem_cons.mp hxm with e | hxin
        · exact e
        · rcases List.mem_cons.mp hym with e | hyin
          · exact e.symm
          · exact absurd (String.lt_trans (hy.1 x hxin) (hx.1 y hyin)) (String.lt_irrefl y)
      subst hxy
      congr 1
      apply ih ys hx.2 hy.2
      intro a
      constructor
      · intro ha
        have : a ∈ x :: ys := (h a).mp (by simp [ha])
        rcases List.mem_cons.mp this with e | h3
        · subst e; exact absurd (hx.1 a ha) (String.lt_irrefl a)
        · exact h3
      · intro ha
        have : a ∈ x :: xs := (h a).mpr (by simp [ha])
        rcases List.mem_cons.mp this with e | h3
        · subst e; exact absurd (hy.1 a ha) (String.lt_irrefl a)
        · exact h3

/-- `perm_irrelevant` (sorting): the sorted key list handed back by a transaction commit is a
    function of the *set* of written keys — any iteration order of the Go map (any list with the
    same members, duplicates or not) sorts to the same list. -/
theorem sortKeys_order_irrelevant (log₁ log₂ : List Key) (h : ∀ a, a ∈ log₁ ↔ a ∈ log₂) :
    sortKeys log₁ = sortKeys log₂ :=
  sorted_ext _ _ (sorted_sortKeys _) (sorted_sortKeys _) (by intro a; rw [mem_sortKeys, mem_sortKeys]; exact h a)

/-- the reported write list of a transaction does not depend on the map's iteration order -/
theorem txWrites_order_irrelevant (s : St) (log₂ : List Key) (h : ∀ a, a ∈ s.twLog ↔ a ∈ log₂) :
    txWrites s = txWrites { s with twLog := log₂ } := by
  unfold txWrites
  rw [sortKeys_order_irrelevant s.twLog log₂ h]

/-- `perm_irrelevant` (commit): two iteration orders of the batch write cache that both visit every
    written key leave the same ledger. -/
theorem commit_order_irrelevant (s : St) (o₁ o₂ : List Key)
    (h₁ : ∀ k, s.bw k ≠ none → k ∈ o₁) (h₂ : ∀ k, s.bw k ≠ none → k ∈ o₂) :
    commitVia s o₁ = commitVia s o₂ := by
  rw [commit_exact s o₁ h₁, commit_exact s o₂ h₂]

end Foundation.Cache

namespace Foundation.Process

/-! ### per-run obligations over the facts extracted from the source -/

/-- the discipline on extracted events: the first event of a function is a load -/
def evOk : List String → Bool
  | [] => true
  | "L" :: _ => true
  | _ => false

/-- events of a model body -/
def events : List Step → List String
  | [] => []
  | .load :: r => "L" :: events r
  | .save :: r => "S" :: events r
  | .stub _ :: r => events r
  | _ :: r => "U" :: events r

/-- the event discipline is the model's discipline -/
theorem evOk_iff_disciplined : ∀ (b : List Step), evOk (events b) = disciplined b := by
  intro b
  induction b with
  | nil => rfl
  | cons s r ih =>
    cases s with
    | stub f => simpa [events, disciplined] using ih
    | load => simp [events, evOk, disciplined]
    | save => simp [events, evOk, disciplined]
    | mem f => simp [events, evOk, disciplined]
    | mix f => simp [events, evOk, disciplined]
    | out g => simp [events, evOk, disciplined]

/-- per-run obligations: in the current source (a) every `BaseToken` method that touches
    `bt.config` calls `loadConfigUnlessLoaded` before its first use, (b) the load assigns a fresh
    object unconditionally, (c) `Invoke` loads and applies the configuration before dispatching and
    `Configure` applies all three layers by plain assignment, (d) the long-lived objects have exactly
    the fields the model accounts for and the library never writes a package-level variable after its
    declaration, except the logger. -/
theorem facts_process :
    (Foundation.Facts.tokenCfgEvents.splitBy (fun _ b => b ≠ "fn")).all (fun f => evOk (f.drop 2)) = true ∧
    Foundation.Facts.tokenLoadFresh = 1 ∧
    Foundation.Facts.invokeConfiguresFirst = 1 ∧
    Foundation.Facts.configureApplies = ["ApplyContractConfig", "ApplyTokenConfig", "ApplyExtConfig"] ∧
    Foundation.Facts.plainConfigSetters = ["ApplyContractConfig", "ApplyTokenConfig"] ∧
    Foundation.Facts.persistentFields =
      ["Chaincode.contract", "Chaincode.configMapper",
       "BaseContract.envs", "BaseContract.srcFs", "BaseContract.config", "BaseContract.tracingHandler",
       "BaseContract.lockTH", "BaseContract.isService", "BaseContract.router",
       "BaseToken.core.BaseContract", "BaseToken.tokenConfig", "BaseToken.config",
       "BatchCacheStub.shim.ChaincodeStubInterface", "BatchCacheStub.batchWriteCache",
       "BatchCacheStub.batchReadeCache", "BatchCacheStub.invokeResultCache", "BatchCacheStub.Swaps",
       "BatchCacheStub.MultiSwaps", "TxCacheStub.BatchCacheStub", "TxCacheStub.txID",
       "TxCacheStub.txWriteCache", "TxCacheStub.events", "TxCacheStub.Accounting"] ∧
    Foundation.Facts.packageVarsWritten = ["core/logger.lg"] := by
  decide

/-! ### non-vacuity -/
example : disciplined (setFeeBody "VT" 1 0 0) = true ∧ disciplined [.save] = false := by decide
example : (invoke false (Meta.zero "VT") exLed ⟨emitBody "a" 5, true⟩).2.2 = some [] := by decide
example : Foundation.Cache.sortKeys ["b", "a", "b"] = Foundation.Cache.sortKeys ["a", "b"] := by decide

end Foundation.Process
