import Foundation.Model.Env
import Foundation.Gen.Facts
/-!
# C17 — concurrent invocations on one chaincode instance are isolated

Property theorems only. Model: `Model/Env.lean`.

Partial by nature (stated in the evidence): the model interleaves invocations at the granularity
of context-table operations. Go-memory-model data races on fields that every invocation rewrites
with the same value (`BaseContract.config`, `BaseToken.tokenConfig`, `BaseToken.config`) are
outside it.
-/
namespace Foundation.Env

theorem stepT_other (g : G) (t u : Nat) (h : u ≠ t) :
    (stepT g t).envs u = g.envs u ∧ (stepT g t).th u = g.th u := by
  simp [stepT, upd_other _ _ _ _ h]

theorem stepT_self (g : G) (t : Nat) :
    ((stepT g t).envs t, (stepT g t).th t) = local1 (g.envs t) (g.th t) := by
  simp [stepT]

theorem solo_succ (n : Nat) (x : Option Nat × Th) : solo (n + 1) x = local1 (solo n x).1 (solo n x).2 := by
  induction n generalizing x with
  | zero => rfl
  | succ k ih => simp only [solo] at ih ⊢; rw [ih]

/-- `isolation` (main theorem): for every number of threads, every program of every thread and
    every schedule, the table cell and the state of thread `t` after the schedule are exactly what
    `t` reaches by taking the same number of steps *alone* — nothing any other thread does, at any
    point, is visible to it. -/
theorem isolation (sched : List Nat) (t : Nat) : ∀ (g : G),
    ((run g sched).envs t, (run g sched).th t) = solo (sched.count t) (g.envs t, g.th t) := by
  induction sched with
  | nil => intro g; rfl
  | cons u xs ih =>
    intro g
    have hr : run g (u :: xs) = run (stepT g u) xs := rfl
    rw [hr, ih (stepT g u)]
    by_cases hu : u = t
    · subst hu
      rw [stepT_self]
      simp [solo]
    · have := stepT_other g u t (Ne.symm hu)
      rw [this.1, this.2]
      simp [List.count_cons, hu]

/-- alone, a thread's `GetStub()` calls return the stub of its nearest enclosing install -/
theorem solo_seen (p : List Act) : ∀ (c : Option Nat) (seen : List (Option Nat)),
    (solo p.length (c, ⟨p, seen⟩)).2 = ⟨[], seen ++ expected c p⟩ := by
  induction p with
  | nil => intro c seen; simp [solo, expected]
  | cons a r ih =>
    intro c seen
    cases a with
    | set s => simp only [List.length_cons, solo, local1, expected]; exact ih _ _
    | get => simp only [List.length_cons, solo, local1, expected]; rw [ih]; simp
    | del => simp only [List.length_cons, solo, local1, expected]; exact ih _ _

/-- `own_context`: under every schedule that lets thread `t` finish its program, every `GetStub()`
    of `t` returned the stub `t` itself installed (the nearest enclosing one), whatever programs
    the other threads ran and however they were interleaved. -/
theorem own_context (sched : List Nat) (t : Nat) (g : G) (p : List Act)
    (hp : g.th t = ⟨p, []⟩) (hfin : sched.count t = p.length) :
    ((run g sched).th t).seen = expected (g.envs t) p := by
  have h := isolation sched t g
  rw [hfin, hp] at h
  have h2 := solo_seen p (g.envs t) []
  have : (run g sched).th t = (solo p.length (g.envs t, ⟨p, []⟩)).2 := by rw [← h]
  rw [this, h2]; simp

/-- a well-formed program never sees a missing or foreign context: every value returned is a stub
    installed by the same program -/
theorem expected_own (p : List Act) : ∀ (c : Option Nat), wellFormed c p = true →
    ∀ x ∈ expected c p, ∃ s, x = some s ∧ (c = some s ∨ Act.set s ∈ p) := by
  induction p with
  | nil => intro c _ x hx; simp [expected] at hx
  | cons a r ih =>
    intro c hw x hx
    cases a with
    | set s =>
      simp only [wellFormed, expected] at hw hx
      obtain ⟨s', h1, h2⟩ := ih (some s) hw x hx
      refine ⟨s', h1, Or.inr ?_⟩
      rcases h2 with h2 | h2
      · simp at h2; subst h2; simp
      · simp [h2]
    | get =>
      simp only [wellFormed, expected, Bool.and_eq_true] at hw hx
      rcases List.mem_cons.mp hx with hxe | hx
      · cases c with
        | none => simp at hw
        | some s => exact ⟨s, hxe, Or.inl rfl⟩
      · obtain ⟨s', h1, h2⟩ := ih c hw.2 x hx
        exact ⟨s', h1, h2.elim Or.inl (fun h => Or.inr (by simp [h]))⟩
    | del =>
      simp only [wellFormed, expected] at hw hx
      obtain ⟨s', h1, h2⟩ := ih none hw x hx
      refine ⟨s', h1, Or.inr ?_⟩
      rcases h2 with h2 | h2
      · simp at h2
      · simp [h2]

/-- the design matters: with one shared slot two interleaved invocations read each other's stub -/
theorem shared_slot_counterexample :
    let g : G := ⟨fun _ => none, fun t => if t = 1 then ⟨[.set 11, .get, .del], []⟩ else if t = 2 then ⟨[.set 22, .get, .del], []⟩ else ⟨[], []⟩⟩
    ((runShared g [1, 2, 1, 2, 1, 2]).th 1).seen = [some 22] ∧
    ((run g [1, 2, 1, 2, 1, 2]).th 1).seen = [some 11] := by
  decide

/-- per-run obligations: the three table operations are keyed by the goroutine id, `GetStub()`
    reads the table, and the context is installed and removed (deferred) in exactly the two
    functions the model knows (every install with a deferred removal — checked by the extractor). -/
theorem facts_env :
    Foundation.Facts.envKeyedByGoid = ["delEnv:Delete", "getEnv:Load", "setEnv:Store"] ∧
    Foundation.Facts.envInstallSites = ["Invoke", "InvokeContractMethod"] ∧
    Foundation.Facts.getStubReadsEnv = 1 := by
  decide

/-! ### non-vacuity -/
example : wellFormed none [.set 1, .get, .set 2, .get, .del] = true ∧
    expected none [.set 1, .get, .set 2, .get, .del] = [some 1, some 2] := by decide

end Foundation.Env
