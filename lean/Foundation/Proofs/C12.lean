import Foundation.Lemmas.Cache
/-!
# C12 — the layered write cache behaves like the ledger for point operations

Property theorems only (helper lemmas are in `Lemmas/Cache.lean`). `St`, `step`, `txCommit`,
`txDiscard`, `batchCommit`, `commitVia`, `txWrites` mirror `core/cachestub`; `Spec` is the
plain-map reading of the property ("most recent write of the same transaction, else of an earlier
committed transaction, else the ledger").
-/
namespace Foundation.Cache

/-- `read_cache_coherent`: in every state reachable from a fresh batch stub by any list of
    transactions (any ops, committed or discarded in any pattern), a cached read equals the
    ledger value. -/
theorem read_cache_coherent (ledger : Key → Val) (ts : List Tx) :
    Inv (runTxs (init ledger) ts).1 := by
  have hgen : ∀ (ts : List Tx) (s : St), Inv s → Fresh s → Inv (runTxs s ts).1 := by
    intro ts
    induction ts with
    | nil => intro s h _; exact h
    | cons t ts ih =>
      intro s h hf
      obtain ⟨_, _, c, d, _⟩ := runTx_props s h (fresh_logInv hf) t
      exact ih _ c d
  exact hgen ts (init ledger) (by intro k v h; simp [init] at h) ⟨fun _ => rfl, rfl⟩

/-- `get_is_view`: every single stub call returns what the plain-map spec returns and moves the
    abstract state as the spec does: a `tget` yields the transaction's own latest write/delete,
    else the committed view; a `bget` yields the committed view. -/
theorem get_is_view (s : St) (h : Inv s) (hl : LogInv s) (op : Op) :
    (step s op).2 = (specStep (abs s) op).2 ∧ abs (step s op).1 = (specStep (abs s) op).1 := by
  obtain ⟨a, b, _⟩ := step_props s h hl op
  exact ⟨a, b⟩

/-- the three shadowing rules spelled out -/
theorem tget_own_write (s : St) (k : Key) (w : W) (h : s.tw k = some w) :
    (step s (.tget k)).2 = some w.read := by
  simp [step, h]

theorem tget_falls_through (s : St) (hi : Inv s) (k : Key) (h : s.tw k = none) :
    (step s (.tget k)).2 = some (cview s k) := by
  have := (batchGet_props s hi k).1
  simp [step, h, this]

theorem cview_committed_or_ledger (s : St) (k : Key) :
    cview s k = (match s.bw k with | some w => w.read | none => s.ledger k) := rfl

/-- `discard_invisible`: dropping a transaction changes nothing but the tx layer; in particular
    the committed view, the ledger and every later read are as if it had never run. -/
theorem discard_invisible (s : St) (h : Inv s) (hf : Fresh s) (ops : List Op)
    (hops : ∀ op ∈ ops, match op with | .bput .. | .bdel .. => False | _ => True) :
    cview (txDiscard (run s ops).1) = cview s ∧ (txDiscard (run s ops).1).ledger = s.ledger ∧
    Fresh (txDiscard (run s ops).1) ∧ Inv (txDiscard (run s ops).1) := by
  have key : ∀ (ops : List Op) (s : St), Inv s → LogInv s →
      (∀ op ∈ ops, match op with | .bput .. | .bdel .. => False | _ => True) →
      cview (run s ops).1 = cview s := by
    intro ops
    induction ops with
    | nil => intro s _ _ _; rfl
    | cons op ops ih =>
      intro s h hl hops
      obtain ⟨_, b, c, d, e⟩ := step_props s h hl op
      have h1 := ih (step s op).1 c d (fun o ho => hops o (List.mem_cons_of_mem _ ho))
      simp only [run]
      rw [h1]
      have hop := hops op (List.mem_cons_self)
      have : (abs (step s op).1).c = (abs s).c := by
        rw [b]; cases op <;> simp [specStep] at hop ⊢
      exact this
  obtain ⟨_, _, c, _, e⟩ := run_props ops s h (fresh_logInv hf)
  refine ⟨?_, e, ⟨fun _ => rfl, rfl⟩, c⟩
  have := key ops s h (fresh_logInv hf) hops
  funext k
  have hk := congrFun this k
  simpa [cview, txDiscard] using hk

/-- `commit_exact`: the ledger after the batch commit is the ledger overlaid with the batch write
    cache (a tombstone or an empty value is a delete) — whatever order the Go map is iterated in,
    as long as every written key is visited; no other key is touched. -/
theorem commit_exact (s : St) (order : List Key) (hcover : ∀ k, s.bw k ≠ none → k ∈ order) :
    commitVia s order = batchCommit s := by
  have gen : ∀ (order : List Key) (m : Key → Val),
      (order.foldl (applyW s) m) =
      fun k => if k ∈ order then (match s.bw k with | some w => w.read | none => m k) else m k := by
    intro order
    induction order with
    | nil => intro m; funext k; simp
    | cons x xs ih =>
      intro m
      simp only [List.foldl_cons]
      rw [ih]
      funext k
      unfold applyW
      by_cases hkx : k = x
      · subst hkx
        cases hb : s.bw k with
        | none => simp
        | some w => simp
      · by_cases hk : k ∈ xs
        · cases hb : s.bw k with
          | none =>
            simp only [hk, if_true, List.mem_cons, or_true]
            cases hx : s.bw x with
            | none => rfl
            | some w => simp [upd_other _ _ _ _ hkx]
          | some w => simp [hk]
        · simp only [hk, if_false, List.mem_cons, hkx, false_or]
          cases hx : s.bw x with
          | none => rfl
          | some w => simp [upd_other _ _ _ _ hkx]
  unfold commitVia batchCommit
  rw [gen]
  funext k
  cases hb : s.bw k with
  | none => by_cases hk : k ∈ order <;> simp [hk]
  | some w => have := hcover k (by simp [hb]); simp [this]

theorem commit_touches_only_written (s : St) (k : Key) (h : s.bw k = none) :
    batchCommit s k = s.ledger k := by
  simp [batchCommit, h]

/-- `cache_refines_map` (main theorem): for every initial ledger and every list of transactions —
    each an arbitrary list of stub calls on either layer, committed or discarded in any pattern —
    every read returns what the plain-map spec returns and the ledger written by the batch commit
    is the spec's committed map. -/
theorem cache_refines_map (ledger : Key → Val) (ts : List Tx) :
    (runTxs (init ledger) ts).2 = (specTxs ⟨ledger, fun _ => none, []⟩ ts).2 ∧
    batchCommit (runTxs (init ledger) ts).1 = (specTxs ⟨ledger, fun _ => none, []⟩ ts).1.c := by
  have gen : ∀ (ts : List Tx) (s : St), Inv s → Fresh s →
      (runTxs s ts).2 = (specTxs (abs s) ts).2 ∧ abs (runTxs s ts).1 = (specTxs (abs s) ts).1 := by
    intro ts
    induction ts with
    | nil => intro s _ _; exact ⟨rfl, rfl⟩
    | cons t ts ih =>
      intro s h hf
      obtain ⟨a, b, c, d, _⟩ := runTx_props s h (fresh_logInv hf) t
      obtain ⟨a2, b2⟩ := ih (runTx s t).1 c d
      simp only [runTxs, specTxs]
      exact ⟨by rw [a, a2, b], by rw [b2, b]⟩
  have h0 := gen ts (init ledger) (by intro k v h; simp [init] at h) ⟨fun _ => rfl, rfl⟩
  have habs : abs (init ledger) = ⟨ledger, fun _ => none, []⟩ := by
    simp only [abs, init]; congr 1
  rw [habs] at h0
  refine ⟨h0.1, ?_⟩
  rw [← h0.2]
  rfl

/-- `writes_sorted_lastwins`: the write list returned by `TxCacheStub.Commit` is strictly sorted by
    key (hence duplicate-free), contains exactly the keys the transaction wrote, and carries each
    key's last value or tombstone. -/
theorem writes_sorted_lastwins (s : St) (hl : LogInv s) :
    List.Pairwise (· < ·) ((txWrites s).map Prod.fst) ∧
    (∀ k w, (k, w) ∈ txWrites s ↔ s.tw k = some w) := by
  constructor
  · have hs := sorted_sortKeys s.twLog
    unfold txWrites
    generalize sortKeys s.twLog = l at hs
    induction l with
    | nil => simp
    | cons x xs ih =>
      have hx := List.pairwise_cons.mp hs
      simp only [List.filterMap_cons]
      cases hw : s.tw x with
      | none => simpa [hw] using ih hx.2
      | some w =>
        simp only [Option.map_some, List.map_cons]
        apply List.pairwise_cons.mpr
        refine ⟨?_, ih hx.2⟩
        intro a ha
        simp only [List.mem_map, List.mem_filterMap] at ha
        obtain ⟨⟨k', w'⟩, ⟨k'', hk'', hm⟩, rfl⟩ := ha
        cases hw2 : s.tw k'' with
        | none => simp [hw2] at hm
        | some w2 =>
          simp [hw2] at hm
          obtain ⟨rfl, _⟩ := hm
          exact hx.1 _ hk''
  · intro k w
    unfold txWrites
    simp only [List.mem_filterMap]
    constructor
    · rintro ⟨k', _, hm⟩
      cases hw : s.tw k' with
      | none => simp [hw] at hm
      | some w' => simp [hw] at hm; obtain ⟨rfl, rfl⟩ := hm; exact hw
    · intro h
      refine ⟨k, (mem_sortKeys _ _).mpr (hl k (by simp [h])), by simp [h]⟩

/-! ### non-vacuity: concrete states meet the hypotheses -/

example : Inv (init (fun k => if k = "a" then "1" else "")) ∧ Fresh (init (fun _ => "")) :=
  ⟨by intro k v h; simp [init] at h, ⟨fun _ => rfl, rfl⟩⟩

/-- a delete over a put over a ledger value, then a re-put, read back on the tx layer; a discarded
    transaction between two committed ones is invisible -/
example :
    let led : Key → Val := fun k => if k = "a" then "L" else ""
    (runTxs (init led)
      [⟨[.tget "a", .tput "a" "1", .tget "a", .tdel "a", .tget "a", .tput "a" "2", .tget "a"], true⟩,
       ⟨[.tput "a" "X", .tget "a"], false⟩,
       ⟨[.tget "a", .tput "b" "", .tget "b"], true⟩]).2
    = [[some "L", none, some "1", none, some "", none, some "2"],
       [none, some "X"],
       [some "2", none, some ""]] := by decide

example :
    let s := (run (init (fun _ => "")) [.tput "b" "1", .tput "a" "2", .tdel "b"]).1
    txWrites s = [("a", .put "2"), ("b", .del)] := by decide

end Foundation.Cache
