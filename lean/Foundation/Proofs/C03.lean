import Foundation.Proofs.C01
/-!
# C03 — a signed request is valid only for exactly what was signed, and only there

The object of study is `message fn args signers` (the bytes that are verified) together with the
positions fixed by `parse`. Acceptance implies that every presented signature is a genuine
signature over exactly `message fn args signers` (`sig_binds_message`), so any tamper that changes
the message invalidates the request; the theorems below say which tampers change it. The one that
does not — moving the boundary between two neighbouring covered arguments — is the known finding
`boundary_counterexample`.
-/
namespace Foundation.Auth

/-- acceptance ⇒ every non-blank signature presented is a genuine signature, by the key in its
    slot and for the key type in force, over exactly the message of *this* request. -/
theorem sig_binds_message (e : Env) (fn : String) (argc : Nat) (args : List String) (acl : AclReply)
    (r : String × List String × String) (h : authorize e fn argc args acl = .ok r) :
    ∃ p kts, parse argc args = .ok p ∧ ∀ x ∈ triples e p kts, x.2.1 ≠ "" →
      x.2.2 ≠ .other ∧ e.sigOf x.2.1 = .valid x.2.2 x.1 (message fn args p.signers) := by
  obtain ⟨A, ia, nn⟩ := r
  obtain ⟨p, kts, _, _, _, _, hp, _, _, _, _, hall, _⟩ := (authorize_ok_iff e fn argc args acl A ia nn).mp h
  refine ⟨p, kts, hp, ?_⟩
  intro x hx hne
  have hv := hall x hx hne
  have hk : x.2.2 ≠ .other := by
    intro hk; rw [hk] at hv; cases hv
  exact ⟨hk, (verify_iff _ hk _ _ _).mp hv⟩

/-- `message_covers`: for a parsed request the verified bytes are the function name followed by
    request id, chaincode name, channel name, all method arguments, the nonce and **all public
    keys** — i.e. every argument except the signatures themselves. -/
theorem message_covers (fn : String) (argc : Nat) (args : List String) (p : Parsed)
    (hp : parse argc args = .ok p) :
    message fn args p.signers = fn ++ String.join (args.take ((argc - 1) + 4 + p.signers)) ∧
    p.keys = (args.take ((argc - 1) + 4 + p.signers)).drop ((argc - 1) + 4) ∧
    p.nonce = args.getD ((argc - 1) + 3) "" ∧ p.ccArg = args.getD 1 "" ∧ p.chArg = args.getD 2 "" := by
  unfold parse at hp
  simp only at hp
  split at hp
  · cases hp
  · split at hp
    · cases hp
    · split at hp
      · cases hp
      · rename_i h1 h2 h3
        injection hp with hp
        subst hp
        simp only
        have hlen : args.length - (args.length - (argc - 1 + 4)) / 2 = argc - 1 + 4 + (args.length - (argc - 1 + 4)) / 2 := by
          omega
        refine ⟨by unfold message; rw [hlen], ?_, by congr 1, by trivial, by trivial⟩
        rw [List.drop_take]
        congr 1
        omega

/-- `single_field_tamper`: replacing one covered argument by a different string — same or different
    length, so substitution, truncation and extension are all included — changes the message. -/
theorem single_field_tamper (fn : String) (pre post : List String) (x y : String) (signers : Nat)
    (hxy : x ≠ y)
    (hs : signers ≤ post.length) :
    message fn (pre ++ x :: post) signers ≠ message fn (pre ++ y :: post) signers := by
  unfold message
  have h1 : ∀ z, (pre ++ z :: post).take ((pre ++ z :: post).length - signers) =
      pre ++ z :: post.take (post.length - signers) := by
    intro z
    have : (pre ++ z :: post).length - signers = pre.length + (1 + (post.length - signers)) := by
      simp; omega
    rw [this, List.take_append, List.take_of_length_le (by omega)]
    simp
    rw [Nat.add_comm 1, List.take_succ_cons]
  rw [h1 x, h1 y]
  simp only [String.join_append, String.join_cons]
  intro h
  have h2 := (String.append_right_inj fn).mp h
  have h3 := (String.append_right_inj (String.join pre)).mp h2
  have h4 := (String.append_left_inj _).mp h3
  exact hxy h4

/-- changing the function name (all arguments unchanged) changes the message -/
theorem fn_tamper (fn fn' : String) (args : List String) (signers : Nat) (h : fn ≠ fn') :
    message fn args signers ≠ message fn' args signers := by
  unfold message
  intro heq
  exact h ((String.append_left_inj _).mp heq)

/-- `env_binding`: an accepted request names the chaincode and channel it is executed on … -/
theorem env_binding (e : Env) (fn : String) (argc : Nat) (args : List String) (acl : AclReply)
    (r : String × List String × String) (h : authorize e fn argc args acl = .ok r) :
    args.getD 1 "" = e.cc ∧ args.getD 2 "" = e.ch := by
  obtain ⟨A, ia, nn⟩ := r
  obtain ⟨p, _, _, _, _, _, hp, hcc, hch, _⟩ := (authorize_ok_iff e fn argc args acl A ia nn).mp h
  obtain ⟨_, _, _, h4, h5⟩ := message_covers fn argc args p hp
  rw [← h4, ← h5]; exact ⟨hcc, hch⟩

/-- … so the same request is rejected by every other chaincode or channel. -/
theorem retarget_rejected (e e' : Env) (fn : String) (argc : Nat) (args : List String) (acl acl' : AclReply)
    (r : String × List String × String) (h : authorize e fn argc args acl = .ok r)
    (hd : e'.cc ≠ e.cc ∨ e'.ch ≠ e.ch) : ∀ r', authorize e' fn argc args acl' ≠ .ok r' := by
  intro r' h'
  obtain ⟨h1, h2⟩ := env_binding e fn argc args acl r h
  obtain ⟨h1', h2'⟩ := env_binding e' fn argc args acl' r' h'
  rcases hd with hd | hd
  · exact hd (by rw [← h1', h1])
  · exact hd (by rw [← h2', h2])

/-- `tamper_rejected`: a request whose (non-blank) signature was made over `m` is rejected as soon
    as its message differs from `m` — whatever was changed, on every route. -/
theorem tamper_rejected (e : Env) (fn : String) (argc : Nat) (args : List String) (acl : AclReply)
    (p : Parsed) (hp : parse argc args = .ok p)
    (hsig : ∃ i kt k m, i < p.signers ∧ p.sigs.getD i "" ≠ "" ∧ i < p.keys.length ∧ i < p.sigs.length ∧
      e.sigOf (p.sigs.getD i "") = .valid kt k m ∧ m ≠ message fn args p.signers) :
    ∀ r, authorize e fn argc args acl ≠ .ok r := by
  intro r h
  obtain ⟨p', kts, hp', hall⟩ := sig_binds_message e fn argc args acl r h
  rw [hp] at hp'; injection hp' with hp'; subst hp'
  obtain ⟨i, kt, k, m, _, hne, hik, his, hm, hdiff⟩ := hsig
  -- the i-th triple is in the list the verifier walks
  by_cases hlen : i < (keyTypes e kts p.keys).length
  · have hmem : (p.keys[i], p.sigs[i], (keyTypes e kts p.keys)[i]) ∈ triples e p kts := by
      unfold triples
      apply List.mem_iff_getElem.mpr
      refine ⟨i, by simp; omega, by simp⟩
    have hsi : p.sigs.getD i "" = p.sigs[i] := by simp [List.getD_eq_getElem?_getD, his]
    rw [hsi] at hne hm
    obtain ⟨_, hval⟩ := hall _ hmem hne
    rw [hm] at hval
    injection hval with _ _ h3
    exact hdiff h3
  · -- keyTypes always has one entry per key
    unfold keyTypes at hlen
    split at hlen
    · rename_i hk; omega
    · simp at hlen; omega

/-- the full statement "moving the boundary between two neighbouring arguments invalidates the
    request" is FALSE of plain concatenation: two different argument vectors of the same arity with
    the same message (known finding, signature `boundary-shift`). -/
theorem boundary_counterexample :
    ["", "vt", "vt", "BOB", "10", "7x", "1700000000001", "K0", "S0"] ≠
    ["", "vt", "vt", "BOB", "107", "x", "1700000000001", "K0", "S0"] ∧
    message "transfer" ["", "vt", "vt", "BOB", "10", "7x", "1700000000001", "K0", "S0"] 1 =
    message "transfer" ["", "vt", "vt", "BOB", "107", "x", "1700000000001", "K0", "S0"] 1 := by
  decide

/-- … and the tampered request is accepted with the original signature -/
theorem boundary_shift_accepted :
    res (authorize exEnv "transfer" 4 ["", "vt", "vt", "BOB1", "00r", "", "1700000000001", "K0", "S0"]
      (.ok "A0" [.ed] 0 true false false)) = (some ("A0", ["BOB1", "00r", ""], "1700000000001"), none) := by
  decide

/-- exactly when two requests share a message: equal flattenings of function name + covered args -/
theorem message_eq_iff (fn fn' : String) (args args' : List String) (s s' : Nat) :
    message fn args s = message fn' args' s' ↔
    fn ++ String.join (args.take (args.length - s)) = fn' ++ String.join (args'.take (args'.length - s')) :=
  Iff.rfl

end Foundation.Auth
