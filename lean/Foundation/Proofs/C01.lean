import Foundation.Lemmas.Auth
/-!
# C01 — sender authentication cannot be forged

`authorize` mirrors `validateAndExtractInvocationContext` (after the repair bd1f49e that counts
verified signatures). All three routes (batched submission, task execution, immediate invocation)
call this one function with the request's function name and arguments, so the statements below
hold on every route (see `Dispatch` for the routes themselves).
-/
namespace Foundation.Auth

/-- the triples (key, signature, key type) the verification loop walks over -/
def triples (e : Env) (p : Parsed) (kts : List KT) : List (String × String × KT) :=
  p.keys.zip (p.sigs.zip (keyTypes e kts p.keys))

/-- `authorize_ok_iff` — exact characterisation of acceptance (decision logic stated outright). -/
theorem authorize_ok_iff (e : Env) (fn : String) (argc : Nat) (args : List String) (acl : AclReply)
    (A : String) (ia : List String) (nn : String) :
    authorize e fn argc args acl = .ok (A, ia, nn) ↔
    ∃ p kts n ha b g,
      parse argc args = .ok p ∧ p.ccArg = e.cc ∧ p.chArg = e.ch ∧
      acl = .ok A kts n ha b g ∧ ¬ (ha = true ∧ (b = true ∨ g = true)) ∧
      allVerify e (message fn args p.signers) (triples e p kts) ∧
      required p.signers n ≤ (((triples e p kts).filter (good e (message fn args p.signers))).map (·.1)).eraseDups.length ∧
      isNumeric p.nonce = true ∧ ia = (args.drop 3).take (argc - 1) ∧ nn = p.nonce := by
  unfold authorize
  cases hp : parse argc args with
  | error x => simp
  | ok p =>
    simp only
    by_cases henv : p.ccArg ≠ e.cc ∨ p.chArg ≠ e.ch
    · simp only [henv, if_true]
      constructor
      · intro h; cases h
      · rintro ⟨p', _, _, _, _, _, hp', h1, h2, _⟩
        injection hp' with hp'; subst hp'
        rcases henv with h | h
        · exact absurd h1 h
        · exact absurd h2 h
    · simp only [henv, if_false]
      have hcc : p.ccArg = e.cc := by
        apply Classical.byContradiction; intro h; exact henv (Or.inl h)
      have hch : p.chArg = e.ch := by
        apply Classical.byContradiction; intro h; exact henv (Or.inr h)
      cases acl with
      | status => simp
      | empty => simp
      | garbled => simp
      | ok addr kts n ha b g =>
        simp only
        by_cases hl : ha = true ∧ (b = true ∨ g = true)
        · simp only [hl, if_true]
          constructor
          · intro h; cases h
          · rintro ⟨_, _, _, _, _, _, _, _, _, hacl, hnl, _⟩
            injection hacl with _ _ _ h4 h5 h6
            subst h4 h5 h6
            exact (hnl ⟨by first | rfl | exact hl.1, hl.2⟩).elim
        · simp only [hl, if_false]
          cases hv : verifyAll e (message fn args p.signers) (p.keys.zip (p.sigs.zip (keyTypes e kts p.keys))) with
          | error x =>
            simp only
            constructor
            · intro h; cases h
            · rintro ⟨p', kts', n', ha', b', g', hp', _, _, hacl, _, hall, _⟩
              injection hp' with hp'; subst hp'
              injection hacl with _ h2 _ _ _ _
              subst h2
              have := (verifyAll_ok_iff e _ _ _).mpr ⟨hall, rfl⟩
              unfold triples at this
              rw [hv] at this; cases this
          | ok verified =>
            simp only
            obtain ⟨hall, hver⟩ := (verifyAll_ok_iff e _ _ _).mp hv
            by_cases ht : verified.eraseDups.length < required p.signers n
            · simp only [ht, if_true]
              constructor
              · intro h; cases h
              · rintro ⟨p', kts', n', ha', b', g', hp', _, _, hacl, _, _, hreq, _⟩
                injection hp' with hp'; subst hp'
                injection hacl with _ h2 h3 _ _ _
                subst h2 h3
                unfold triples at hreq
                rw [← hver] at hreq
                omega
            · simp only [ht, if_false]
              by_cases hn : isNumeric p.nonce = true
              · simp only [hn, Bool.not_true, Bool.false_eq_true, if_false]
                constructor
                · intro h
                  injection h with h
                  injection h with h1 h2
                  injection h2 with h2 h3
                  subst h1 h2 h3
                  refine ⟨p, kts, n, ha, b, g, rfl, hcc, hch, rfl, hl, hall, ?_, hn, rfl, rfl⟩
                  unfold triples; rw [← hver]; omega
                · rintro ⟨p', kts', n', ha', b', g', hp', _, _, hacl, _, _, _, _, hia, hnn⟩
                  injection hp' with hp'; subst hp'
                  injection hacl with h1 _ _ _ _ _
                  subst h1 hia hnn
                  rfl
              · simp only [hn, Bool.not_false, if_true]
                constructor
                · intro h; cases h
                · rintro ⟨p', _, _, _, _, _, hp', _, _, _, _, _, _, hnum, _⟩
                  injection hp' with hp'; subst hp'
                  exact absurd hnum hn

/-- `auth_sound`: a request is executed for address `A` only if the access-control service maps
    its key list to `A`, the account is neither black- nor grey-listed, and at least the required
    number of distinct signer keys carry a genuine signature (right algorithm, that key) over exactly
    this request — 1 for a single key, the policy's N (default: all) for several. -/
theorem auth_sound (e : Env) (fn : String) (argc : Nat) (args : List String) (acl : AclReply)
    (A : String) (ia : List String) (nn : String)
    (h : authorize e fn argc args acl = .ok (A, ia, nn)) :
    ∃ p kts n ha b g, parse argc args = .ok p ∧ acl = .ok A kts n ha b g ∧
      ¬ (ha = true ∧ (b = true ∨ g = true)) ∧
      required p.signers n ≤ (genuineSigners e fn args p (keyTypes e kts p.keys)).length := by
  obtain ⟨p, kts, n, ha, b, g, hp, _, _, hacl, hnl, _, hreq, _⟩ := (authorize_ok_iff e fn argc args acl A ia nn).mp h
  refine ⟨p, kts, n, ha, b, g, hp, hacl, hnl, ?_⟩
  have : genuineSigners e fn args p (keyTypes e kts p.keys) =
      (((triples e p kts).filter (good e (message fn args p.signers))).map (·.1)).eraseDups := by
    unfold genuineSigners triples good
    congr 2
    apply List.filter_congr
    intro x _
    simp
  rw [this]; exact hreq

/-- the threshold is never zero: at least one genuine signature is always needed -/
theorem required_pos (signers n : Nat) : 1 ≤ required signers n := by
  unfold required
  repeat' split
  all_goals omega

/-- `auth_rejects` (signatures): no genuine signature over this request at all — missing, blank,
    junk, made by another key, for another algorithm or over another message — ⇒ rejected. -/
theorem reject_without_genuine_signature (e : Env) (fn : String) (argc : Nat) (args : List String)
    (acl : AclReply) (hnone : ∀ p kts, parse argc args = .ok p →
      genuineSigners e fn args p (keyTypes e kts p.keys) = []) :
    ∀ r, authorize e fn argc args acl ≠ .ok r := by
  intro r h
  obtain ⟨A, ia, nn⟩ := r
  obtain ⟨p, kts, n, _, _, _, hp, _, _, hreq⟩ := auth_sound e fn argc args acl A ia nn h
  rw [hnone p kts hp] at hreq
  have := required_pos p.signers n
  simp at hreq
  omega

/-- below the multi-signature threshold ⇒ rejected -/
theorem reject_below_threshold (e : Env) (fn : String) (argc : Nat) (args : List String)
    (A : String) (kts : List KT) (n : Nat) (ha b g : Bool) (p : Parsed) (hp : parse argc args = .ok p)
    (hlt : (genuineSigners e fn args p (keyTypes e kts p.keys)).length < required p.signers n) :
    ∀ r, authorize e fn argc args (.ok A kts n ha b g) ≠ .ok r := by
  intro r h
  obtain ⟨A', ia, nn⟩ := r
  obtain ⟨p', kts', n', _, _, _, hp', hacl, _, hreq⟩ := auth_sound e fn argc args _ A' ia nn h
  rw [hp] at hp'; injection hp' with hp'; subst hp'
  injection hacl with _ h2 h3 _ _ _
  subst h2 h3
  omega

/-- a non-blank signature that does not verify is fatal, whatever else is present -/
theorem reject_bad_signature (e : Env) (fn : String) (argc : Nat) (args : List String) (acl : AclReply)
    (hbad : ∀ p kts, parse argc args = .ok p → ∃ x ∈ triples e p kts, x.2.1 ≠ "" ∧
      verify x.2.2 x.1 (message fn args p.signers) (e.sigOf x.2.1) = false) :
    ∀ r, authorize e fn argc args acl ≠ .ok r := by
  intro r h
  obtain ⟨A, ia, nn⟩ := r
  obtain ⟨p, kts, _, _, _, _, hp, _, _, _, _, hall, _⟩ := (authorize_ok_iff e fn argc args acl A ia nn).mp h
  obtain ⟨x, hx, hne, hf⟩ := hbad p kts hp
  have := hall x hx hne
  rw [hf] at this; cases this

/-- `auth_rejects` (access control): error status, empty or garbled answer ⇒ rejected. -/
theorem reject_unconfirmed (e : Env) (fn : String) (argc : Nat) (args : List String) (acl : AclReply)
    (h : acl = .status ∨ acl = .empty ∨ acl = .garbled) :
    ∀ r, authorize e fn argc args acl ≠ .ok r := by
  intro r hr
  obtain ⟨A, ia, nn⟩ := r
  obtain ⟨_, _, _, _, _, _, _, _, _, hacl, _⟩ := (authorize_ok_iff e fn argc args acl A ia nn).mp hr
  rcases h with h | h | h <;> rw [h] at hacl <;> cases hacl

/-- black- or grey-listed signer ⇒ rejected. -/
theorem reject_listed (e : Env) (fn : String) (argc : Nat) (args : List String)
    (A : String) (kts : List KT) (n : Nat) (b g : Bool) (h : b = true ∨ g = true) :
    ∀ r, authorize e fn argc args (.ok A kts n true b g) ≠ .ok r := by
  intro r hr
  obtain ⟨A', ia, nn⟩ := r
  obtain ⟨_, _, _, _, _, _, _, _, _, hacl, hnl, _⟩ := (authorize_ok_iff e fn argc args _ A' ia nn).mp hr
  injection hacl with _ _ _ h4 h5 h6
  subst h4 h5 h6
  exact hnl ⟨rfl, h⟩

/-- no signature arguments at all, or an odd tail ⇒ rejected. -/
theorem reject_unsigned (e : Env) (fn : String) (argc : Nat) (args : List String) (acl : AclReply)
    (h : args.length ≤ (argc - 1) + 4 ∨ (args.length - ((argc - 1) + 4)) % 2 = 1) :
    ∀ r, authorize e fn argc args acl ≠ .ok r := by
  intro r hr
  obtain ⟨A, ia, nn⟩ := r
  obtain ⟨p, _, _, _, _, _, hp, _⟩ := (authorize_ok_iff e fn argc args acl A ia nn).mp hr
  unfold parse at hp
  simp only at hp
  split at hp
  · cases hp
  · split at hp
    · cases hp
    · split at hp
      · cases hp
      · rename_i h1 h2 h3
        rcases h with h | h
        · have : (args.length - (argc - 1 + 4)) / 2 = 0 := by
            have : args.length - (argc - 1 + 4) = 0 := by omega
            rw [this]
          exact h3 this
        · omega

/-- `auth_keytype_uniform`: soundness does not depend on the key type; an unknown key type never verifies. -/
theorem unknown_keytype_never_verifies (pk msg : String) (σ : SigV) : verify .other pk msg σ = false := rfl

theorem verify_iff (kt : KT) (hk : kt ≠ .other) (pk msg : String) (σ : SigV) :
    verify kt pk msg σ = true ↔ σ = .valid kt pk msg := by
  cases kt <;> simp [verify] at hk ⊢

/-- `checkSign_sound` (the legacy helper `CheckSign`): a request is authenticated as `A` only if
    the access-control service maps its key list to `A`, there is at least one key, and **every**
    listed key carries a genuine ed25519 signature over exactly `fn ++ args ++ keys`. -/
theorem checkSign_sound (e : Env) (fn : String) (plain auth : List String) (acl : AclReply) (A : String)
    (h : checkSign e fn plain auth acl = .ok A) :
    1 ≤ auth.length / 2 ∧
    (∃ kts n ha b g, acl = .ok A kts n ha b g ∧ ¬ (ha = true ∧ g = true)) ∧
    ∀ ks ∈ (auth.take (auth.length / 2)).zip ((auth.drop (auth.length / 2)).take (auth.length / 2)),
      e.sigOf ks.2 = .valid .ed ks.1 (fn ++ String.join (plain ++ auth.take (auth.length / 2))) := by
  unfold checkSign at h
  by_cases h0 : auth.length / 2 = 0
  · simp [h0] at h
  · simp only [h0, if_false] at h
    split at h
    · cases h
    · rename_i hall
      simp only [Bool.not_eq_true', Bool.not_eq_false] at hall
      refine ⟨by omega, ?_, ?_⟩
      · cases acl with
        | status => cases h
        | empty => cases h
        | garbled => cases h
        | ok addr kts n ha b g =>
          simp only at h
          split at h
          · cases h
          · rename_i hg
            injection h with h
            subst h
            exact ⟨kts, n, ha, b, g, rfl, by simpa using hg⟩
      · intro ks hks
        have hv := List.all_eq_true.mp hall ks hks
        simp only [verify] at hv
        exact beq_iff_eq.mp hv

/-! ### non-vacuity: a concrete accepted request, and the same request with a blank signature -/

def exEnv : Env := ⟨"vt", "vt",
  fun s => if s = "S0" then .valid .ed "K0" "transfervtvtBOB100r1700000000001K0" else .blank,
  fun _ => .ed⟩

def res {α} : Except Err α → Option α × Option Err
  | .ok a => (some a, none)
  | .error x => (none, some x)

example : res (authorize exEnv "transfer" 4 ["", "vt", "vt", "BOB", "100", "r", "1700000000001", "K0", "S0"]
    (.ok "A0" [.ed] 0 true false false)) = (some ("A0", ["BOB", "100", "r"], "1700000000001"), none) := by decide

example : res (authorize exEnv "transfer" 4 ["", "vt", "vt", "BOB", "100", "r", "1700000000001", "K0", ""]
    (.ok "A0" [.ed] 0 true false false)) = (none, some .threshold) := by decide

end Foundation.Auth
