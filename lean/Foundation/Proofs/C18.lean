import Foundation.Model.Config
import Foundation.Gen.Facts
/-!
# C18 — configuration integrity

Property theorems only. Model: `Model/Config.lean`.
-/
namespace Foundation.Config

/-- `stored_iff_valid`: an initialisation is accepted iff the caller carries the admin OU, the
    arguments decode, and the decoded configuration satisfies the schema; what is stored is then
    exactly that configuration. -/
theorem stored_iff_valid (st : Stored) (ou : Bool) (a : InitArgs) :
    ((init st ou a).2 = true ↔ ou = true ∧ ∃ c, decodeInit a = some c ∧ valid c = true) ∧
    ((init st ou a).2 = true → (init st ou a).1 = decodeInit a) := by
  unfold init
  cases ou with
  | false => simp
  | true =>
    cases h : decodeInit a with
    | none => simp
    | some c => cases hv : valid c <;> simp [hv]

/-- `rejected_init_keeps_previous` -/
theorem rejected_init_keeps_previous (st : Stored) (ou : Bool) (a : InitArgs)
    (h : (init st ou a).2 = false) : (init st ou a).1 = st := by
  unfold init at *
  cases ou with
  | false => rfl
  | true =>
    cases hd : decodeInit a with
    | none => simp
    | some c =>
      cases hv : valid c with
      | false => simp [hv]
      | true => simp [hd, hv] at h

theorem init_fst (st : Stored) (ou : Bool) (a : InitArgs) :
    (init st ou a).1 = keep st (accepted (.init ou a)) := by
  cases ou with
  | false => simp [init, accepted, keep]
  | true =>
    cases hd : decodeInit a with
    | none => simp [init, accepted, hd, keep]
    | some c => cases hv : valid c <;> simp [init, accepted, hd, hv, keep]

/-- the ledger after any history holds the last successfully stored configuration -/
theorem run_final : ∀ (h : List Req) (st : Stored), (run st h).2 = lastStored st h := by
  intro h
  induction h with
  | nil => intro st; rfl
  | cons r rest ih =>
    intro st
    cases r with
    | invoke => simp only [run, lastStored, List.foldl_cons, accepted, keep]; exact ih st
    | init ou a =>
      simp only [run, lastStored, List.foldl_cons]
      rw [ih, init_fst]; rfl

theorem run_append (pre post : List Req) : ∀ (st : Stored),
    (run st (pre ++ post)).1 = (run st pre).1 ++ (run (run st pre).2 post).1 := by
  induction pre with
  | nil => intro st; rfl
  | cons r rest ih =>
    intro st
    cases r with
    | invoke => simp only [List.cons_append, run]; rw [ih]
    | init ou a => simp only [List.cons_append, run]; rw [ih]

/-- `invoke_uses_last_stored`: in every history of initialisations (accepted or rejected, by any
    caller, JSON or positional) and invocations, the configuration in force during an invocation is
    the decoding of the last successfully stored one — or the invocation is refused when there is
    none. -/
theorem invoke_uses_last_stored (pre post : List Req) (st : Stored) :
    (run st (pre ++ Req.invoke :: post)).1[pre.length]? = some (Sum.inr (inForce (lastStored st pre))) := by
  rw [run_append]
  have hl : (run st pre).1.length = pre.length := by
    clear post
    induction pre generalizing st with
    | nil => rfl
    | cons r rest ih => cases r <;> simp [run, ih]
  rw [List.getElem?_append_right (by omega)]
  simp [hl, run, run_final]

/-- `no_config_refuses_all` -/
theorem no_config_refuses_all : inForce none = none := rfl

/-- as long as no initialisation succeeds, every invocation is refused -/
theorem refused_until_first_valid_init (h : List Req)
    (hbad : ∀ ou a, Req.init ou a ∈ h → (init none ou a).2 = false) (post : List Req) :
    (run none (h ++ Req.invoke :: post)).1[h.length]? = some (Sum.inr none) := by
  rw [invoke_uses_last_stored]
  have : ∀ (h : List Req), (∀ ou a, Req.init ou a ∈ h → (init none ou a).2 = false) → lastStored none h = none := by
    intro h
    induction h with
    | nil => intro _; rfl
    | cons r rest ih =>
      intro hb
      cases r with
      | invoke =>
        simp only [lastStored, List.foldl_cons, accepted, keep]
        exact ih (fun ou a hm => hb ou a (by simp [hm]))
      | init ou a =>
        have h1 := rejected_init_keeps_previous none ou a (hb ou a (by simp))
        rw [init_fst] at h1
        simp only [lastStored, List.foldl_cons]
        rw [h1]
        exact ih (fun ou a hm => hb ou a (by simp [hm]))
  rw [this h hbad]; rfl

/-! ### what the schema demands (read off `valid`) -/

theorem valid_needs_contract (c : Cfg) (h : valid c = true) : contractSet c = true := by
  unfold valid at h; simp only [Bool.and_eq_true] at h; exact h.1.1.1.1

theorem valid_formats (c : Cfg) (h : valid c = true) :
    symbolOk (strOf (inC c c.symbol)) = true ∧ skiOk (strOf (inC c c.robotSKI)) = true ∧
    walletOkIfSet (inC c c.admin) = true := by
  unfold valid at h; simp only [Bool.and_eq_true] at h; exact ⟨h.1.1.1.2, h.1.1.2, h.1.2⟩

/-- an issuer wherever token settings are given -/
theorem token_needs_issuer (c : Cfg) (h : valid c = true) (ht : tokenSet c = true) :
    ∃ a, walletOf (inT c c.issuer) = some a ∧ addressOk a = true := by
  unfold valid at h
  simp only [Bool.and_eq_true, Bool.or_eq_true, Bool.not_eq_true', ht] at h
  have h2 := h.2
  simp at h2
  obtain ⟨⟨⟨⟨hi, hw⟩, _⟩, _⟩, _⟩ := h2
  cases hv : walletOf (inT c c.issuer) with
  | none => simp [hv] at hi
  | some a => exact ⟨a, rfl, by simpa [walletOkIfSet, hv] using hw⟩

/-- no unknown fields, no duplicates, no values of the wrong kind -/
theorem malformed_json_rejected (st : Stored) (c : Cfg) (h : c.unknownField = true ∨ c.duplicate = true ∨ c.contract = .wrongKind ∨ c.token = .wrongKind) :
    init st true (.json c) = (st, false) := by
  have : decodes c = false := by
    unfold decodes
    rcases h with h | h | h | h <;> simp [h, anyWrong]
  simp [init, decodeInit, this]

theorem non_admin_rejected (st : Stored) (a : InitArgs) : init st false a = (st, false) := rfl

/-- the empty string satisfies none of the three patterns; the symbol needs two characters -/
theorem empty_fails_patterns : symbolOk "" = false ∧ skiOk "" = false ∧ addressOk "" = false ∧ symbolOk "A" = false := by
  decide

/-- per-run obligations: the patterns the model recognises are the ones in the generated
    validators and they are applied to the fields the model applies them to; contract and issuer
    are the two required members; Init checks the creator first and saves only after validation;
    the validator chain and the legacy channel table are the ones modelled. -/
theorem facts_config :
    Foundation.Facts.configPatterns =
      ["_ContractConfig_RobotSKI_Pattern=^[0-9a-f]+$", "_ContractConfig_Symbol_Pattern=^[A-Z]+[A-Z0-9]+(-[A-Z0-9]+)?$",
       "_Wallet_Address_Pattern=^[1-9A-HJ-NP-Za-km-z]+$"] ∧
    Foundation.Facts.configPatternUses =
      ["ContractConfig:_ContractConfig_RobotSKI_Pattern:m.GetRobotSKI", "ContractConfig:_ContractConfig_Symbol_Pattern:m.GetSymbol",
       "Wallet:_Wallet_Address_Pattern:m.GetAddress"] ∧
    Foundation.Facts.configRequired = ["Config.GetContract", "TokenConfig.GetIssuer"] ∧
    Foundation.Facts.initCallOrder = ["GetCreator", "ValidateAdminCreator", "IsJSON", "MapConfig", "FromInitArgs", "Validate", "Save"] ∧
    Foundation.Facts.validateChain = ["ValidateConfig", "ValidateTokenConfig", "ValidateExtConfig"] ∧
    Foundation.Facts.baseValidateRequiresContract = 1 ∧ Foundation.Facts.tokenValidateWholeConfig = 1 ∧
    Foundation.Facts.invokeConfiguresFirst = 1 := by
  decide

def mapperName : Mapper → String
  | .withAdmin => "FromArgsWithAdmin" | .issuerAndAdmin => "FromArgsWithIssuerAndAdmin"
  | .issuerFeeSetterFeeASetter => "FromArgsWithIssuerFeeSetterAndFeeAddressSetter" | .issuerAndFeeSetter => "FromArgsWithIssuerAndFeeSetter"

/-- the model's channel table is the extracted one, entry by entry -/
theorem facts_legacy_table :
    (Foundation.Facts.legacyChannels.zip Foundation.Facts.legacyMappers).all (fun e =>
      (mapperOf e.1).map mapperName = some e.2) = true ∧
    Foundation.Facts.legacyChannels.length = 20 ∧ Foundation.Facts.legacyMappers.length = 20 := by
  decide

/-! ### non-vacuity -/
def exCfg : Cfg := ⟨.str "", .str "VT", .str "ab12", .str "2d53vh", [], .str "", .str "t", .str "2d53vh", .absent, .absent, .absent, false, false⟩
example : valid exCfg = true ∧ decodes exCfg = true := by decide
example : valid { exCfg with issuer := .absent } = false ∧ valid { exCfg with token := .absent } = true ∧
    valid { exCfg with symbol := .str "vt" } = false ∧ valid { exCfg with admin := .emptyObj } = false := by decide
example : symbolOk "VT-2A" = true ∧ symbolOk "V-T" = false ∧ symbolOk "VT-" = false ∧ symbolOk "1VT" = false := by decide

end Foundation.Config
