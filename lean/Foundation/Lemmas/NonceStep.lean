import Foundation.Lemmas.NonceInv
open GoSort
namespace Nonce

theorem sorted_append_single {W : List Nat} {n : Nat} (h : Sorted W) (hn : ∀ w ∈ W, w < n) : Sorted (W ++ [n]) := by
  apply List.pairwise_append.mpr
  refine ⟨h, by simp, ?_⟩
  intro a ha b hb
  simp at hb; subst hb; exact hn a ha

/-- new-maximum branch -/
theorem step_gt {ttl n : Nat} {acc W : List Nat} {l : Nat} (h : Inv ttl acc W)
    (hl : W.getLast? = some l) (hgt : n > l) :
    let xs := W ++ [n]
    let idx := search xs.length (fun i => decide (n - xs.getD i 0 ≤ ttl))
    (n ∉ acc ∧ ∀ m ∈ acc, m ≤ n + ttl) ∧ Inv ttl (acc ++ [n]) (xs.drop idx) := by
  intro xs idx
  obtain ⟨hlW, hlacc, haccmax, hWmax⟩ := last_is_max h hl
  have hnacc : n ∉ acc := by intro hn; have := haccmax n hn; omega
  have hwin : ∀ m ∈ acc, m ≤ n + ttl := by intro m hm; have := haccmax m hm; omega
  refine ⟨⟨hnacc, hwin⟩, ?_⟩
  have hxs : Sorted xs := sorted_append_single h.sorted (by intro w hw; have := hWmax w hw; omega)
  have hmono : Mono xs.length (fun i => decide (n - xs.getD i 0 ≤ ttl)) := by
    intro a b hab hb ha
    have ha' := of_decide_eq_true ha
    apply decide_eq_true
    have := sorted_getD_le hxs hab hb
    omega
  obtain ⟨hle, hlo, hhi⟩ := search_spec xs.length _ hmono
  constructor
  · exact List.Pairwise.sublist (List.drop_sublist _ _) hxs
  · intro a
    rw [mem_drop_iff]
    constructor
    · rintro ⟨i, hki, hil, rfl⟩
      have hp := of_decide_eq_true (hhi i hki hil)
      have hmem : xs.getD i 0 ∈ xs := by rw [getD_eq hil]; exact List.getElem_mem _
      generalize xs.getD i 0 = y at hp hmem ⊢
      have hmem' : y ∈ W ∨ y = n := by simpa [xs] using hmem
      have hle_n : y ≤ n := by
        rcases hmem' with hm | hm
        · have := hWmax _ hm; omega
        · omega
      refine ⟨?_, ?_⟩
      · rcases hmem' with hm | hm
        · exact List.mem_append_left _ ((h.mem _).mp hm).1
        · subst hm; simp
      · intro m hm
        rcases List.mem_append.mp hm with hm | hm
        · have := haccmax m hm; omega
        · simp at hm; omega
    · rintro ⟨ha, hall⟩
      have hna : n ≤ a + ttl := hall n (by simp)
      have haxs : a ∈ xs := by
        simp [xs] at ha ⊢
        rcases ha with ha | ha
        · left; exact (h.mem a).mpr ⟨ha, fun m hm => hall m (by simp [hm])⟩
        · right; exact ha
      obtain ⟨i, hi, rfl⟩ := List.mem_iff_getElem.mp haxs
      refine ⟨i, ?_, hi, getD_eq hi⟩
      apply Classical.byContradiction
      intro hlt
      have := of_decide_eq_false (hlo i (by omega))
      rw [getD_eq hi] at this
      omega

end Nonce
