import Std.Data.String.ToInt
import Foundation.Model.FullBatch
/-! The text codec of swap records (`FullBatch.enc` / `dec`): a stored record decodes to itself. -/
namespace Foundation.FullBatch

theorem splitC_intercalate (c : Char) (l : List String) (hl : ∀ s ∈ l, c ∉ s.toList) (hne : l ≠ []) :
    splitC c (String.intercalate (String.singleton c) l) = l := by
  unfold splitC
  rw [String.toList_split_intercalate hl]
  simp [hne]

theorem repr_chars (n : Int) (c : Char) (hc : c ∈ (Int.repr n).toList) : c.isDigit = true ∨ c = '_' ∨ c = '-' := by
  have h := Int.isInt_repr n
  rw [String.isInt_iff] at h
  rcases h with h | ⟨t, ht, hn⟩
  · rw [String.isNat_iff] at h
    rcases h.2.1 c hc with h1 | h1
    · exact Or.inl h1
    · exact Or.inr (Or.inl h1)
  · rw [ht, String.toList_append] at hc
    rcases List.mem_append.1 hc with h1 | h1
    · have : "-".toList = ['-'] := by decide
      rw [this] at h1
      simp at h1
      exact Or.inr (Or.inr h1)
    · rw [String.isNat_iff] at hn
      rcases hn.2.1 c h1 with h2 | h2
      · exact Or.inl h2
      · exact Or.inr (Or.inl h2)

theorem mem_intercalate (sep : String) : ∀ (l : List String) (c : Char),
    c ∈ (sep.intercalate l).toList → c ∈ sep.toList ∨ ∃ s ∈ l, c ∈ s.toList := by
  intro l
  induction l with
  | nil => intro c h; simp at h
  | cons t l ih =>
    intro c h
    cases l with
    | nil => rw [String.intercalate_singleton] at h; exact Or.inr ⟨t, by simp, h⟩
    | cons u l =>
      rw [String.intercalate_cons_cons, String.toList_append, String.toList_append] at h
      rcases List.mem_append.1 h with h1 | h1
      · rcases List.mem_append.1 h1 with h2 | h2
        · exact Or.inr ⟨t, by simp, h2⟩
        · exact Or.inl h2
      · rcases ih c h1 with h3 | ⟨s, hs, hc⟩
        · exact Or.inl h3
        · exact Or.inr ⟨s, List.mem_cons_of_mem _ hs, hc⟩

/-- a group name may contain anything but the three separators -/
def CleanG (g : String) : Prop := '/' ∉ g.toList ∧ ',' ∉ g.toList ∧ '=' ∉ g.toList
def CleanF (s : String) : Prop := '/' ∉ s.toList

theorem repr_no (n : Int) (c : Char) (hd : c.isDigit = false) (h1 : c ≠ '_') (h2 : c ≠ '-') : c ∉ (Int.repr n).toList := by
  intro hc
  rcases repr_chars n c hc with h | h | h
  · rw [hd] at h; cases h
  · exact h1 h
  · exact h2 h

theorem decPair_encPair (a : String × Int) (h : '=' ∉ a.1.toList) : decPair (encPair a) = some a := by
  unfold decPair encPair
  have hs : String.singleton '=' = "=" := by decide
  have : splitC '=' (String.intercalate "=" [a.1, toString a.2]) = [a.1, toString a.2] := by
    rw [← hs]
    apply splitC_intercalate
    · intro s hs'
      simp at hs'
      rcases hs' with rfl | rfl
      · exact h
      · exact repr_no a.2 '=' (by decide) (by decide) (by decide)
    · simp
  rw [this]
  have : (toString a.2) = a.2.repr := rfl
  simp [this, Int.toInt?_repr]

theorem encPair_no (a : String × Int) (hg : CleanG a.1) (c : Char) (hc : c = '/' ∨ c = ',') : c ∉ (encPair a).toList := by
  intro hm
  unfold encPair at hm
  rcases mem_intercalate "=" _ c hm with h | ⟨s, hs, hcs⟩
  · have : "=".toList = ['='] := by decide
    rw [this] at h; simp at h
    rcases hc with rfl | rfl <;> cases h
  · simp at hs
    rcases hs with rfl | rfl
    · rcases hc with rfl | rfl
      · exact hg.1 hcs
      · exact hg.2.1 hcs
    · rcases hc with rfl | rfl
      · exact repr_no a.2 '/' (by decide) (by decide) (by decide) hcs
      · exact repr_no a.2 ',' (by decide) (by decide) (by decide) hcs

theorem mapM_decPair (as : List (String × Int)) (h : ∀ a ∈ as, CleanG a.1) :
    (as.map encPair).mapM decPair = some as := by
  induction as with
  | nil => rfl
  | cons a rest ih =>
    have ha := decPair_encPair a (h a (List.mem_cons_self ..)).2.2
    have hr := ih (fun x hx => h x (List.mem_cons_of_mem _ hx))
    simp [List.mapM_cons, ha, hr]

theorem decAssets_enc (as : List (String × Int)) (h : ∀ a ∈ as, CleanG a.1) :
    decAssets (encAssets as) = some as := by
  unfold decAssets encAssets
  have hs : String.singleton ',' = "," := by decide
  have : splitC ',' (String.intercalate "," ("#" :: as.map encPair)) = "#" :: as.map encPair := by
    rw [← hs]
    apply splitC_intercalate
    · intro s hs'
      rcases List.mem_cons.1 hs' with rfl | hm
      · decide
      · obtain ⟨a, ha, rfl⟩ := List.mem_map.1 hm
        exact encPair_no a (h a ha) ',' (Or.inr rfl)
    · simp
  rw [this]
  exact mapM_decPair as h

theorem encAssets_no_slash (as : List (String × Int)) (h : ∀ a ∈ as, CleanG a.1) : '/' ∉ (encAssets as).toList := by
  intro hm
  unfold encAssets at hm
  rcases mem_intercalate "," _ '/' hm with h1 | ⟨s, hs, hcs⟩
  · have : ",".toList = [','] := by decide
    rw [this] at h1; simp at h1
  · rcases List.mem_cons.1 hs with rfl | hm'
    · have : "#".toList = ['#'] := by decide
      rw [this] at hcs; simp at hcs
    · obtain ⟨a, ha, rfl⟩ := List.mem_map.1 hm'
      exact encPair_no a (h a ha) '/' (Or.inl rfl) hcs

/-- `dec_enc`: a stored record decodes to itself — for every record whose text fields contain no
    `/` and whose group names contain none of `/`, `,`, `=` (amounts are any integers) -/
theorem dec_enc (r : Rec) (h1 : CleanF r.owner) (h2 : CleanF r.token) (h3 : CleanF r.src) (h4 : CleanF r.dst)
    (h5 : CleanF r.hash) (h6 : CleanF r.creator) (ha : ∀ a ∈ r.assets, CleanG a.1) : dec (enc r) = some r := by
  unfold dec enc
  have hs : String.singleton '/' = "/" := by decide
  have : splitC '/' (String.intercalate "/" [r.owner, r.token, r.src, r.dst, r.hash, r.creator, encAssets r.assets])
      = [r.owner, r.token, r.src, r.dst, r.hash, r.creator, encAssets r.assets] := by
    rw [← hs]
    apply splitC_intercalate
    · intro s hs'
      simp at hs'
      rcases hs' with rfl | rfl | rfl | rfl | rfl | rfl | rfl
      · exact h1
      · exact h2
      · exact h3
      · exact h4
      · exact h5
      · exact h6
      · exact encAssets_no_slash r.assets ha
    · simp
  rw [this]
  simp [decAssets_enc r.assets ha]
end Foundation.FullBatch
