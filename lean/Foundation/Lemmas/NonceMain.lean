import Foundation.Lemmas.NonceStep2
open GoSort
namespace Nonce

theorem inv_init (ttl : Nat) : Inv ttl [] [] := ⟨List.Pairwise.nil, by simp⟩

/-- One call of setNonce decides exactly like the full history, and keeps the invariant. -/
theorem setNonce_refines {ttl n : Nat} {acc W : List Nat} (h : Inv ttl acc W) :
    (∀ W', setNonce ttl n W = .ok W' → Accepts ttl acc n ∧ Inv ttl (acc ++ [n]) W') ∧
    (∀ e, setNonce ttl n W = .error e → ¬ Accepts ttl acc n) := by
  unfold setNonce
  by_cases hf : is13 n = true
  · simp only [hf, Bool.not_true, Bool.false_eq_true, if_false]
    cases hl : W.getLast? with
    | none =>
      have hW : W = [] := by simpa using hl
      subst hW
      have hacc := inv_nil_acc h
      subst hacc
      simp only
      refine ⟨?_, (by intro e he; cases he)⟩
      intro W' hW'
      cases hW'
      refine ⟨⟨hf, by simp, by simp⟩, List.pairwise_singleton _ _, ?_⟩
      intro a; simp; intro ha; omega
    | some l =>
      simp only
      by_cases hgt : n > l
      · simp only [hgt, if_true]
        obtain ⟨⟨h1, h2⟩, h3⟩ := step_gt h hl hgt
        refine ⟨?_, (by intro e he; cases he)⟩
        intro W' hW'
        cases hW'
        exact ⟨⟨hf, h1, h2⟩, h3⟩
      · simp only [hgt, if_false]
        have hle : n ≤ l := by omega
        by_cases hold : l - n > ttl
        · simp only [hold, if_true]
          refine ⟨(by intro W' hW'; cases hW'), ?_⟩
          intro e _ hacc
          obtain ⟨_, hlacc, _, _⟩ := last_is_max h hl
          have := hacc.2.2 l hlacc
          omega
        · simp only [hold, if_false]
          obtain ⟨hall, hdup, hins⟩ := step_le h hl hle (by omega)
          split
          · rename_i hd
            refine ⟨(by intro W' hW'; cases hW'), ?_⟩
            intro e _ hacc
            exact hacc.2.1 (hdup hd)
          · rename_i hd
            refine ⟨?_, (by intro e he; cases he)⟩
            intro W' hW'
            cases hW'
            obtain ⟨hn, hinv⟩ := hins hd
            exact ⟨⟨hf, hn, hall⟩, hinv⟩
  · have hf' : is13 n = false := by simpa using hf
    simp only [hf', Bool.not_false, if_true]
    refine ⟨(by intro W' hW'; cases hW'), ?_⟩
    intro e _ hacc
    rw [hacc.1] at hf'
    cases hf'

end Nonce
