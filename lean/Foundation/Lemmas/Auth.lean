import Foundation.Model.Auth
namespace Foundation.Auth

/-- the entries of a (key, sig, kt) list that carry a non-blank verifying signature -/
def good (e : Env) (msg : String) (x : String × String × KT) : Bool :=
  decide (x.2.1 ≠ "") && verify x.2.2 x.1 msg (e.sigOf x.2.1)

/-- every non-blank signature verifies -/
def allVerify (e : Env) (msg : String) (l : List (String × String × KT)) : Prop :=
  ∀ x ∈ l, x.2.1 ≠ "" → verify x.2.2 x.1 msg (e.sigOf x.2.1) = true

theorem verifyAll_ok_iff (e : Env) (msg : String) (l : List (String × String × KT)) (ks : List String) :
    verifyAll e msg l = .ok ks ↔ (allVerify e msg l ∧ ks = (l.filter (good e msg)).map (·.1)) := by
  induction l generalizing ks with
  | nil => simp [verifyAll, allVerify]
  | cons x rest ih =>
    obtain ⟨key, sig, kt⟩ := x
    unfold verifyAll
    by_cases hb : sig = ""
    · simp only [hb, if_true]
      rw [ih]
      constructor
      · rintro ⟨h1, h2⟩
        refine ⟨?_, ?_⟩
        · intro y hy hne
          rcases List.mem_cons.mp hy with rfl | hy
          · exact absurd rfl hne
          · exact h1 y hy hne
        · simp [good, h2]
      · rintro ⟨h1, h2⟩
        refine ⟨fun y hy hne => h1 y (List.mem_cons_of_mem _ hy) hne, ?_⟩
        simpa [good] using h2
    · simp only [hb, if_false]
      by_cases hv : verify kt key msg (e.sigOf sig) = true
      · simp only [hv, if_true]
        cases hr : verifyAll e msg rest with
        | error x =>
          simp only
          constructor
          · intro h; cases h
          · rintro ⟨h1, _⟩
            have : allVerify e msg rest := fun y hy hne => h1 y (List.mem_cons_of_mem _ hy) hne
            have := (ih ((rest.filter (good e msg)).map (·.1))).mpr ⟨this, rfl⟩
            rw [hr] at this; cases this
        | ok ks' =>
          simp only
          have ih' := (ih ks').mp hr
          constructor
          · intro h
            injection h with h
            subst h
            refine ⟨?_, ?_⟩
            · intro y hy hne
              rcases List.mem_cons.mp hy with rfl | hy
              · exact hv
              · exact ih'.1 y hy hne
            · simp [good, hb, hv, ih'.2]
          · rintro ⟨_, h2⟩
            rw [h2]
            simp [good, hb, hv, ih'.2]
      · simp only [hv, if_false]
        constructor
        · intro h; cases h
        · rintro ⟨h1, _⟩
          exact absurd (h1 (key, sig, kt) (List.mem_cons_self) hb) hv

end Foundation.Auth
