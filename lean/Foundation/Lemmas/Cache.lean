import Foundation.Model.Cache
/-! Helper lemmas for C12 (and C04, which builds on the cache). -/
namespace Foundation.Cache

/-- read cache coherent with the ledger -/
def Inv (s : St) : Prop := ∀ k v, s.rd k = some v → v = s.ledger k

/-- the tx-key log covers the tx write cache -/
def LogInv (s : St) : Prop := ∀ k, s.tw k ≠ none → k ∈ s.twLog

def Fresh (s : St) : Prop := (∀ k, s.tw k = none) ∧ s.twLog = []

theorem batchGet_props (s : St) (h : Inv s) (k : Key) :
    (batchGet s k).2 = cview s k ∧ Inv (batchGet s k).1 ∧
    (batchGet s k).1.ledger = s.ledger ∧ (batchGet s k).1.bw = s.bw ∧
    (batchGet s k).1.tw = s.tw ∧ (batchGet s k).1.twLog = s.twLog := by
  unfold batchGet cview
  cases h2 : s.bw k <;> simp
  · cases h3 : s.rd k <;> simp
    · intro k' v hv
      by_cases hk : k' = k
      · subst hk; simp at hv; exact hv.symm
      · simp only [upd_other _ _ _ _ hk] at hv; exact h k' v hv
    · exact ⟨h k _ h3, h⟩
  · exact h

theorem abs_t (s : St) : (abs s).t = view s := by
  funext k
  simp only [Spec.t, abs, view]

theorem step_props (s : St) (h : Inv s) (hl : LogInv s) (op : Op) :
    (step s op).2 = (specStep (abs s) op).2 ∧
    abs (step s op).1 = (specStep (abs s) op).1 ∧
    Inv (step s op).1 ∧ LogInv (step s op).1 ∧ (step s op).1.ledger = s.ledger := by
  cases op with
  | tget k =>
    cases h1 : s.tw k with
    | some w =>
      have hs : step s (.tget k) = (s, some w.read) := by simp [step, h1]
      rw [hs]
      refine ⟨?_, rfl, h, hl, rfl⟩
      simp [specStep, Spec.t, abs, h1]
    | none =>
      obtain ⟨a, b, c, d, e, f⟩ := batchGet_props s h k
      have hs : step s (.tget k) = ((batchGet s k).1, some (batchGet s k).2) := by simp [step, h1]
      rw [hs]
      refine ⟨?_, ?_, b, ?_, c⟩
      · simp [specStep, a, Spec.t, abs, h1]
      · simp only [specStep, abs, e, f]
        congr 1
        funext k'; simp [cview, c, d]
      · intro k' hk'; rw [f]; rw [e] at hk'; exact hl k' hk'
  | tput k v =>
    refine ⟨rfl, rfl, h, ?_, rfl⟩
    intro k' hk'
    simp only [step] at hk' ⊢
    by_cases hk : k' = k
    · subst hk; simp
    · simp only [upd_other _ _ _ _ hk] at hk'
      exact List.mem_cons_of_mem _ (hl k' hk')
  | tdel k =>
    refine ⟨rfl, rfl, h, ?_, rfl⟩
    intro k' hk'
    simp only [step] at hk' ⊢
    by_cases hk : k' = k
    · subst hk; simp
    · simp only [upd_other _ _ _ _ hk] at hk'
      exact List.mem_cons_of_mem _ (hl k' hk')
  | bget k =>
    obtain ⟨a, b, c, d, e, f⟩ := batchGet_props s h k
    simp only [step, specStep]
    refine ⟨by simp [a, abs], ?_, b, ?_, c⟩
    · simp only [abs, e, f]
      congr 1
      funext k'; simp [cview, c, d]
    · intro k' hk'; rw [f]; rw [e] at hk'; exact hl k' hk'
  | bput k v =>
    refine ⟨rfl, ?_, h, hl, rfl⟩
    simp only [step, specStep, abs]
    congr 1
    funext k'
    by_cases hk : k' = k
    · subst hk; simp [cview, W.read]
    · simp [cview, upd_other _ _ _ _ hk]
  | bdel k =>
    refine ⟨rfl, ?_, h, hl, rfl⟩
    simp only [step, specStep, abs]
    congr 1
    funext k'
    by_cases hk : k' = k
    · subst hk; simp [cview, W.read]
    · simp [cview, upd_other _ _ _ _ hk]

theorem run_props (ops : List Op) : ∀ (s : St), Inv s → LogInv s →
    (run s ops).2 = (specRun (abs s) ops).2 ∧
    abs (run s ops).1 = (specRun (abs s) ops).1 ∧
    Inv (run s ops).1 ∧ LogInv (run s ops).1 ∧ (run s ops).1.ledger = s.ledger := by
  induction ops with
  | nil => intro s h hl; simp [run, specRun, h, hl]
  | cons op ops ih =>
    intro s h hl
    obtain ⟨a, b, c, d, e⟩ := step_props s h hl op
    obtain ⟨a2, b2, c2, d2, e2⟩ := ih (step s op).1 c d
    simp only [run, specRun]
    refine ⟨by rw [a, a2, b], by rw [b2, b], c2, d2, by rw [e2, e]⟩

theorem abs_txCommit (s : St) : abs (txCommit s) = (abs s).commit := by
  simp only [abs, Spec.commit, txCommit]
  congr 1
  funext k
  simp only [cview, Spec.t]
  cases s.tw k <;> rfl

theorem abs_txDiscard (s : St) : abs (txDiscard s) = (abs s).discard := by
  simp only [abs, Spec.discard, txDiscard]
  congr 1

theorem abs_writes (s : St) : (abs s).writes = txWrites s := rfl

theorem runTx_props (s : St) (h : Inv s) (hl : LogInv s) (t : Tx) :
    (runTx s t).2 = (specTx (abs s) t).2 ∧ abs (runTx s t).1 = (specTx (abs s) t).1 ∧
    Inv (runTx s t).1 ∧ Fresh (runTx s t).1 ∧ (runTx s t).1.ledger = s.ledger := by
  obtain ⟨a, b, c, _, e⟩ := run_props t.ops s h hl
  unfold runTx specTx
  cases hc : t.commit
  · simp only [Bool.false_eq_true, if_false]
    exact ⟨a, by rw [abs_txDiscard, b], c, ⟨fun _ => rfl, rfl⟩, e⟩
  · simp only [if_true]
    exact ⟨a, by rw [abs_txCommit, b], c, ⟨fun _ => rfl, rfl⟩, e⟩

theorem fresh_logInv {s : St} (h : Fresh s) : LogInv s := by
  intro k hk; exact absurd (h.1 k) hk

/-! ### sorted key lists -/

abbrev SortedKeys (l : List Key) : Prop := List.Pairwise (· < ·) l

theorem mem_insertKey (k a : Key) (l : List Key) : a ∈ insertKey k l ↔ a = k ∨ a ∈ l := by
  induction l with
  | nil => simp [insertKey]
  | cons x xs ih =>
    unfold insertKey
    split
    · simp
    · split
      · rename_i h2; subst h2; simp
      · simp [ih]; constructor
        · rintro (h | h | h) <;> simp [h]
        · rintro (h | h | h) <;> simp [h]

theorem sorted_insertKey (k : Key) (l : List Key) (h : SortedKeys l) : SortedKeys (insertKey k l) := by
  induction l with
  | nil => simp [insertKey]
  | cons x xs ih =>
    have hx := List.pairwise_cons.mp h
    unfold insertKey
    split
    · rename_i hlt
      apply List.pairwise_cons.mpr
      refine ⟨?_, h⟩
      intro a ha
      simp at ha
      rcases ha with rfl | ha
      · exact hlt
      · exact String.lt_trans hlt (hx.1 a ha)
    · split
      · exact h
      · rename_i hnlt hne
        apply List.pairwise_cons.mpr
        refine ⟨?_, ih hx.2⟩
        intro a ha
        rcases (mem_insertKey k a xs).mp ha with hak | ha
        · subst hak
          have h1 : x ≤ a := String.not_lt.mp hnlt
          by_cases h2 : x < a
          · exact h2
          · exact absurd (String.le_antisymm (String.not_lt.mp h2) h1) hne
        · exact hx.1 a ha

theorem sorted_sortKeys (log : List Key) : SortedKeys (sortKeys log) := by
  induction log with
  | nil => simp [sortKeys]
  | cons k ks ih => simp only [sortKeys, List.foldr_cons]; exact sorted_insertKey k _ ih

theorem mem_sortKeys (log : List Key) (a : Key) : a ∈ sortKeys log ↔ a ∈ log := by
  induction log with
  | nil => simp [sortKeys]
  | cons k ks ih =>
    simp only [sortKeys, List.foldr_cons] at ih ⊢
    rw [mem_insertKey, ih]; simp

end Foundation.Cache
