import Foundation.Lemmas.NonceStep
open GoSort
namespace Nonce

theorem take_append_drop_mem {l : List Nat} {k a : Nat} : a ∈ l ↔ a ∈ l.take k ∨ a ∈ l.drop k := by
  conv => lhs; rw [← List.take_append_drop k l]
  exact List.mem_append

/-- in-window branch: `n ≤ l`, `l - n ≤ ttl` -/
theorem step_le {ttl n : Nat} {acc W : List Nat} {l : Nat} (h : Inv ttl acc W)
    (hl : W.getLast? = some l) (hle : n ≤ l) (hwin : l - n ≤ ttl) :
    let idx := search W.length (fun i => decide (W.getD i 0 ≥ n))
    (∀ m ∈ acc, m ≤ n + ttl) ∧
    ((idx ≠ W.length ∧ W.getD idx 0 = n) → n ∈ acc) ∧
    (¬(idx ≠ W.length ∧ W.getD idx 0 = n) →
        n ∉ acc ∧ Inv ttl (acc ++ [n]) (W.take idx ++ [n] ++ W.drop idx)) := by
  intro idx
  obtain ⟨hlW, hlacc, haccmax, hWmax⟩ := last_is_max h hl
  have hall : ∀ m ∈ acc, m ≤ n + ttl := by intro m hm; have := haccmax m hm; omega
  have hmono : Mono W.length (fun i => decide (W.getD i 0 ≥ n)) := by
    intro a b hab hb ha
    have ha' := of_decide_eq_true ha
    apply decide_eq_true
    have := sorted_getD_le h.sorted hab hb
    omega
  obtain ⟨hidx, hlo, hhi⟩ := search_spec W.length _ hmono
  refine ⟨hall, ?_, ?_⟩
  · rintro ⟨hne, heq⟩
    have hi : idx < W.length := by omega
    have : n ∈ W := by rw [← heq, getD_eq hi]; exact List.getElem_mem _
    exact ((h.mem n).mp this).1
  · intro hnd
    -- n is not in W
    have hnW : n ∉ W := by
      intro hn
      obtain ⟨k, hk, hkn⟩ := List.mem_iff_getElem.mp hn
      have hk' : W.getD k 0 = n := by rw [getD_eq hk]; exact hkn
      have hidxk : idx ≤ k := by
        apply Classical.byContradiction
        intro hc
        have := of_decide_eq_false (hlo k (by omega))
        omega
      have hidxlt : idx < W.length := by omega
      have hge := of_decide_eq_true (hhi idx (Nat.le_refl _) hidxlt)
      have hle2 := sorted_getD_le h.sorted hidxk hk
      exact hnd ⟨by omega, by omega⟩
    have hnacc : n ∉ acc := fun hn => hnW ((h.mem n).mpr ⟨hn, hall⟩)
    refine ⟨hnacc, ?_, ?_⟩
    · -- sortedness of take ++ [n] ++ drop
      have htake : ∀ a ∈ W.take idx, a < n := by
        intro a ha
        obtain ⟨i, hik, hil, rfl⟩ := mem_take_iff.mp ha
        have := of_decide_eq_false (hlo i hik)
        omega
      have hdrop : ∀ a ∈ W.drop idx, n < a := by
        intro a ha
        obtain ⟨i, hik, hil, rfl⟩ := mem_drop_iff.mp ha
        have hge := of_decide_eq_true (hhi i hik hil)
        have hne : W.getD i 0 ≠ n := by
          intro he
          exact hnW (by rw [← he, getD_eq hil]; exact List.getElem_mem _)
        omega
      have hs1 : Sorted (W.take idx) := List.Pairwise.sublist (List.take_sublist _ _) h.sorted
      have hs2 : Sorted (W.drop idx) := List.Pairwise.sublist (List.drop_sublist _ _) h.sorted
      apply List.pairwise_append.mpr
      refine ⟨sorted_append_single hs1 htake, hs2, ?_⟩
      intro a ha b hb
      rcases List.mem_append.mp ha with ha | ha
      · have := htake a ha; have := hdrop b hb; omega
      · simp at ha; subst ha; exact hdrop b hb
    · intro a
      have hsplit : a ∈ W.take idx ++ [n] ++ W.drop idx ↔ a ∈ W ∨ a = n := by
        rw [take_append_drop_mem (l := W) (k := idx) (a := a)]
        simp only [List.mem_append, List.mem_singleton]
        constructor
        · rintro ((h1 | h1) | h1)
          · exact Or.inl (Or.inl h1)
          · exact Or.inr h1
          · exact Or.inl (Or.inr h1)
        · rintro ((h1 | h1) | h1)
          · exact Or.inl (Or.inl h1)
          · exact Or.inr h1
          · exact Or.inl (Or.inr h1)
      rw [hsplit]
      constructor
      · rintro (ha | rfl)
        · obtain ⟨ha1, ha2⟩ := (h.mem a).mp ha
          refine ⟨List.mem_append_left _ ha1, ?_⟩
          intro m hm
          rcases List.mem_append.mp hm with hm | hm
          · exact ha2 m hm
          · simp at hm; subst hm
            have := ha2 l hlacc
            omega
        · refine ⟨by simp, ?_⟩
          intro m hm
          rcases List.mem_append.mp hm with hm | hm
          · exact hall m hm
          · simp at hm; omega
      · rintro ⟨ha, hall2⟩
        rcases List.mem_append.mp ha with ha | ha
        · exact Or.inl ((h.mem a).mpr ⟨ha, fun m hm => hall2 m (List.mem_append_left _ hm)⟩)
        · simp at ha; exact Or.inr ha

end Nonce
