import Foundation.Model.Nonce
open GoSort
namespace Nonce

/-- Sorted strictly increasing -/
abbrev Sorted (l : List Nat) : Prop := List.Pairwise (· < ·) l

theorem getD_eq {l : List Nat} {i : Nat} (h : i < l.length) : l.getD i 0 = l[i] := by
  simp [List.getD_eq_getElem?_getD, h]

theorem sorted_getD_lt {l : List Nat} (h : Sorted l) {i j : Nat} (hij : i < j) (hj : j < l.length) :
    l.getD i 0 < l.getD j 0 := by
  have hi : i < l.length := by omega
  rw [getD_eq hi, getD_eq hj]
  exact List.pairwise_iff_getElem.mp h i j hi hj hij

theorem sorted_getD_le {l : List Nat} (h : Sorted l) {i j : Nat} (hij : i ≤ j) (hj : j < l.length) :
    l.getD i 0 ≤ l.getD j 0 := by
  rcases Nat.lt_or_eq_of_le hij with h1 | h1
  · exact Nat.le_of_lt (sorted_getD_lt h h1 hj)
  · subst h1; exact Nat.le_refl _

theorem mem_drop_iff {l : List Nat} {k a : Nat} :
    a ∈ l.drop k ↔ ∃ i, k ≤ i ∧ i < l.length ∧ l.getD i 0 = a := by
  constructor
  · intro h
    obtain ⟨i, hi, rfl⟩ := List.mem_iff_getElem.mp h
    simp at hi
    refine ⟨k + i, by omega, by omega, ?_⟩
    rw [getD_eq (by omega)]
    simp
  · rintro ⟨i, hki, hil, rfl⟩
    rw [getD_eq hil]
    apply List.mem_iff_getElem.mpr
    refine ⟨i - k, by simp; omega, ?_⟩
    simp
    congr 1; omega

theorem mem_take_iff {l : List Nat} {k a : Nat} :
    a ∈ l.take k ↔ ∃ i, i < k ∧ i < l.length ∧ l.getD i 0 = a := by
  constructor
  · intro h
    obtain ⟨i, hi, rfl⟩ := List.mem_iff_getElem.mp h
    simp at hi
    refine ⟨i, by omega, by omega, ?_⟩
    rw [getD_eq (by omega)]
    simp
  · rintro ⟨i, hki, hil, rfl⟩
    rw [getD_eq hil]
    apply List.mem_iff_getElem.mpr
    exact ⟨i, by simp; omega, by simp⟩

end Nonce
