import Foundation.Model.System
import Foundation.Lemmas.NonceMain
/-! Helper lemmas for the end-to-end pipeline model: the combined invariant and its preservation by
    every operation. Property statements are in Proofs/System.lean. -/
namespace Foundation.System
open Foundation Foundation.Auth

/-- re-execution of a log of bodies from a ledger -/
def replayLog (c : Ctx) : List Exec → Led → Led
  | [], l => l
  | e :: es, l => replayLog c es ((c.body e.fn e.sender e.args l).getD l)

theorem replayLog_append (c : Ctx) (es : List Exec) (e : Exec) (l : Led) :
    replayLog c (es ++ [e]) l = (c.body e.fn e.sender e.args (replayLog c es l)).getD (replayLog c es l) := by
  induction es generalizing l with
  | nil => rfl
  | cons x xs ih => simp [replayLog, ih]

/-- the method call `fn(sender, margs)` with this nonce was requested by a request of `reqs` that
    passes authentication for exactly this sender, these arguments and this nonce -/
def Authd (c : Ctx) (reqs : List Req) (fn sender : String) (margs : List String) (nonce : Nat) : Prop :=
  ∃ r ∈ reqs, r.fn = fn ∧ ∃ mi ns, c.methods fn = some mi ∧ c.disabled fn = false ∧
    authorize c.env fn mi.argc r.args r.acl = .ok (sender, margs, ns) ∧ nonceOf ns = nonce ∧
    c.argsOk fn margs = true

theorem Authd.mono {c : Ctx} {reqs reqs' : List Req} {fn sender margs nonce}
    (h : Authd c reqs fn sender margs nonce) (hs : ∀ r ∈ reqs, r ∈ reqs') :
    Authd c reqs' fn sender margs nonce := by
  obtain ⟨r, hr, rest⟩ := h
  exact ⟨r, hs r hr, rest⟩

def batched (e : Exec) : Bool := e.route != .nb

def ids (l : List Exec) : List (String × Nat) := (l.filter batched).map (fun e => (e.sender, e.nonce))

structure Inv (c : Ctx) (reqs : List Req) (s : St) : Prop where
  nonce : ∀ a, Nonce.Inv c.ttl (s.win a).2 (s.win a).1
  logged : ∀ e ∈ s.log, batched e = true → e.nonce ∈ (s.win e.sender).2
  nodup : (ids s.log).Nodup
  pendAuth : ∀ id p, s.pend id = some p → Authd c reqs p.fn p.sender p.args p.nonce
  logAuth : ∀ e ∈ s.log, Authd c reqs e.fn e.sender e.args e.nonce
  replay : s.led = replayLog c s.log led0

theorem inv_init (c : Ctx) (reqs : List Req) : Inv c reqs init := by
  refine ⟨fun _ => Nonce.inv_init _, ?_, ?_, ?_, ?_, rfl⟩
  · intro e he; simp [init] at he
  · simp [init, ids]
  · intro id p h; simp [init] at h
  · intro e he; simp [init] at he

theorem Inv.mono {c : Ctx} {reqs reqs' : List Req} {s : St} (h : Inv c reqs s)
    (hs : ∀ r ∈ reqs, r ∈ reqs') : Inv c reqs' s :=
  ⟨h.nonce, h.logged, h.nodup, fun id p hp => (h.pendAuth id p hp).mono hs,
   fun e he => (h.logAuth e he).mono hs, h.replay⟩

/-- `gate` succeeds only for an authenticated request -/
theorem gate_ok {c : Ctx} {r : Req} {mi sender margs nonce}
    (h : gate c r = .ok (mi, sender, margs, nonce)) (reqs : List Req) (hr : r ∈ reqs) :
    Authd c reqs r.fn sender margs nonce := by
  unfold gate at h
  cases hm : c.methods r.fn with
  | none => simp [hm] at h
  | some mi' =>
    simp only [hm] at h
    by_cases hd : c.disabled r.fn = true
    · simp [hd] at h
    · simp only [hd] at h
      cases ha : authorize c.env r.fn mi'.argc r.args r.acl with
      | error e => simp [ha] at h
      | ok t =>
        obtain ⟨sd, ma, ns⟩ := t
        simp only [ha] at h
        by_cases hk : c.argsOk r.fn ma = true
        · simp [hk] at h
          obtain ⟨h1, h2, h3, h4⟩ := h
          subst h1 h2 h3 h4
          exact ⟨r, hr, rfl, mi', ns, hm, by simpa using hd, ha, rfl, hk⟩
        · simp [hk] at h

theorem ids_append_nb (l : List Exec) (e : Exec) (h : batched e = false) : ids (l ++ [e]) = ids l := by
  simp [ids, List.filter_append, h]

theorem ids_append_b (l : List Exec) (e : Exec) (h : batched e = true) :
    ids (l ++ [e]) = ids l ++ [(e.sender, e.nonce)] := by
  simp [ids, List.filter_append, h]

theorem mem_ids {l : List Exec} {p : String × Nat} (h : p ∈ ids l) :
    ∃ e ∈ l, batched e = true ∧ (e.sender, e.nonce) = p := by
  simp only [ids, List.mem_map, List.mem_filter] at h
  obtain ⟨e, ⟨he, hb⟩, hp⟩ := h
  exact ⟨e, he, hb, hp⟩

/-- the core step shared by the batch and task routes keeps the invariant -/
theorem execute_inv {c : Ctx} {reqs : List Req} {s : St} (h : Inv c reqs s) (route : Route)
    (hroute : route ≠ .nb) (fn sender : String) (margs : List String) (nonce : Nat)
    (ha : Authd c reqs fn sender margs nonce) :
    Inv c reqs (execute c s route fn sender margs nonce).1 := by
  unfold execute
  cases hs : Nonce.setNonce c.ttl nonce (s.win sender).1 with
  | error e =>
    have : (Nonce.stepSt c.ttl (s.win sender) nonce).2 = false := by simp [Nonce.stepSt, hs]
    simp only [this, if_true]
    exact h
  | ok W' =>
    have hstep : Nonce.stepSt c.ttl (s.win sender) nonce = ((W', (s.win sender).2 ++ [nonce]), true) := by
      simp [Nonce.stepSt, hs]
    obtain ⟨hacc, hinv'⟩ := (Nonce.setNonce_refines (h.nonce sender)).1 W' hs
    have hfresh : nonce ∉ (s.win sender).2 := hacc.2.1
    simp only [hstep, Bool.true_eq_false, if_false]
    -- the state after the nonce was consumed
    have hwin : ∀ a, Nonce.Inv c.ttl ((upd s.win sender (W', (s.win sender).2 ++ [nonce])) a).2
        ((upd s.win sender (W', (s.win sender).2 ++ [nonce])) a).1 := by
      intro a
      by_cases hea : a = sender
      · subst hea; simpa using hinv'
      · rw [upd_other _ _ _ _ hea]; exact h.nonce a
    have hlogged : ∀ e ∈ s.log, batched e = true →
        e.nonce ∈ ((upd s.win sender (W', (s.win sender).2 ++ [nonce])) e.sender).2 := by
      intro e he hb
      by_cases hes : e.sender = sender
      · rw [hes]; simp only [upd_same]
        exact List.mem_append_left _ (hes ▸ h.logged e he hb)
      · rw [upd_other _ _ _ _ hes]; exact h.logged e he hb
    cases hb : c.body fn sender margs s.led with
    | none =>
      simp only
      exact ⟨hwin, hlogged, h.nodup, h.pendAuth, h.logAuth, h.replay⟩
    | some l =>
      simp only
      have hbt : batched ⟨route, fn, sender, margs, nonce⟩ = true := by
        cases route <;> simp [batched] at hroute ⊢
      refine ⟨hwin, ?_, ?_, h.pendAuth, ?_, ?_⟩
      · intro e he hbe
        rcases List.mem_append.mp he with he | he
        · exact hlogged e he hbe
        · simp only [List.mem_singleton] at he
          subst he
          simp
      · rw [ids_append_b _ _ hbt]
        apply List.nodup_append.mpr
        refine ⟨h.nodup, by simp, ?_⟩
        intro a ha' b hb'
        simp only [List.mem_singleton] at hb'
        subst hb'
        intro heq
        subst heq
        obtain ⟨e, he, hbe, hp⟩ := mem_ids ha'
        have hs' : e.sender = sender := by simpa using congrArg Prod.fst hp
        have hn' : e.nonce = nonce := by simpa using congrArg Prod.snd hp
        have := h.logged e he hbe
        rw [hs', hn'] at this
        exact hfresh this
      · intro e he
        rcases List.mem_append.mp he with he | he
        · exact h.logAuth e he
        · simp only [List.mem_singleton] at he
          subst he
          exact ha
      · rw [replayLog_append, ← h.replay]
        simp [hb]

theorem submit_inv {c : Ctx} {reqs : List Req} {s : St} (h : Inv c reqs s) (txid : String) (r : Req)
    (hr : r ∈ reqs) : Inv c reqs (submit c s txid r).1 := by
  unfold submit
  cases ha : gate c r with
  | error e => exact h
  | ok t =>
    obtain ⟨mi, sender, margs, nonce⟩ := t
    have hau := gate_ok ha reqs hr
    simp only
    cases mi.kind with
    | tx =>
      simp only
      refine ⟨h.nonce, h.logged, h.nodup, ?_, h.logAuth, h.replay⟩
      intro id p hp
      by_cases hid : id = txid
      · subst hid
        simp only [upd_same, Option.some.injEq] at hp
        subst hp
        exact hau
      · dsimp only at hp
        rw [upd_other _ _ _ _ hid] at hp
        exact h.pendAuth id p hp
    | nb =>
      simp only
      cases hb : c.body r.fn sender margs s.led with
      | none => exact h
      | some l =>
        simp only
        have hnb : batched ⟨.nb, r.fn, sender, margs, nonce⟩ = false := by simp [batched]
        refine ⟨h.nonce, ?_, ?_, h.pendAuth, ?_, ?_⟩
        · intro e he hbe
          rcases List.mem_append.mp he with he | he
          · exact h.logged e he hbe
          · simp only [List.mem_singleton] at he
            subst he
            simp [batched] at hbe
        · rw [ids_append_nb _ _ hnb]; exact h.nodup
        · intro e he
          rcases List.mem_append.mp he with he | he
          · exact h.logAuth e he
          · simp only [List.mem_singleton] at he
            subst he
            exact hau
        · rw [replayLog_append, ← h.replay]
          simp [hb]

theorem batchItem_inv {c : Ctx} {reqs : List Req} {s : St} (h : Inv c reqs s) (id : String) :
    Inv c reqs (batchItem c s id).1 := by
  unfold batchItem
  cases hp : s.pend id with
  | none => exact h
  | some p =>
    simp only
    have h1 : Inv c reqs { s with pend := upd s.pend id none } := by
      refine ⟨h.nonce, h.logged, h.nodup, ?_, h.logAuth, h.replay⟩
      intro id' p' hp'
      by_cases hid : id' = id
      · subst hid; simp at hp'
      · simp only [upd_other _ _ _ _ hid] at hp'
        exact h.pendAuth id' p' hp'
    cases hm : c.methods p.fn with
    | none => exact h1
    | some mi =>
      simp only
      exact execute_inv h1 .batch (by simp) p.fn p.sender p.args p.nonce (h.pendAuth id p hp)

theorem batchItems_inv {c : Ctx} {reqs : List Req} (ids : List String) {s : St} (h : Inv c reqs s) :
    Inv c reqs (batchItems c s ids).1 := by
  induction ids generalizing s with
  | nil => exact h
  | cons id rest ih =>
    simp only [batchItems]
    exact ih (batchItem_inv h id)

theorem taskItem_inv {c : Ctx} {reqs : List Req} {s : St} (h : Inv c reqs s) (r : Req) (hr : r ∈ reqs) :
    Inv c reqs (taskItem c s r).1 := by
  unfold taskItem
  cases ha : gate c r with
  | error e => exact h
  | ok t =>
    obtain ⟨mi, sender, margs, nonce⟩ := t
    simp only
    exact execute_inv h .task (by simp) r.fn sender margs nonce (gate_ok ha reqs hr)

theorem taskItems_inv {c : Ctx} {reqs : List Req} (ts : List Req) {s : St} (h : Inv c reqs s)
    (hr : ∀ r ∈ ts, r ∈ reqs) : Inv c reqs (taskItems c s ts).1 := by
  induction ts generalizing s with
  | nil => exact h
  | cons t rest ih =>
    simp only [taskItems]
    exact ih (taskItem_inv h t (hr t (by simp))) (fun r hr' => hr r (by simp [hr']))

theorem step_inv {c : Ctx} {reqs : List Req} {s : St} (h : Inv c reqs s) (o : Op)
    (hr : ∀ r ∈ requestsOf [o], r ∈ reqs) : Inv c reqs (step c s o).1 := by
  cases o with
  | submit txid r => exact submit_inv h txid r (hr r (by simp [requestsOf]))
  | batch creator ids =>
    simp only [step]
    split
    · exact h
    · exact batchItems_inv ids h
  | tasks ts =>
    simp only [step]
    split
    · exact h
    · exact taskItems_inv ts h (fun r hr' => hr r (by simp [requestsOf, hr']))

theorem requestsOf_append (a b : List Op) : requestsOf (a ++ b) = requestsOf a ++ requestsOf b := by
  induction a with
  | nil => rfl
  | cons o os ih => cases o <;> simp [requestsOf, ih]

theorem run_inv (c : Ctx) (ops : List Op) : ∀ (s : St) (reqs : List Req), Inv c reqs s →
    Inv c (reqs ++ requestsOf ops) (run c s ops) := by
  induction ops with
  | nil => intro s reqs h; simpa [run, requestsOf] using h
  | cons o os ih =>
    intro s reqs h
    have h1 : Inv c (reqs ++ requestsOf [o]) (step c s o).1 :=
      step_inv (h.mono (fun r hr => List.mem_append_left _ hr)) o (fun r hr => List.mem_append_right _ hr)
    have := ih (step c s o).1 _ h1
    have e : requestsOf (o :: os) = requestsOf [o] ++ requestsOf os := requestsOf_append [o] os
    rw [e, ← List.append_assoc]
    exact this

end Foundation.System
