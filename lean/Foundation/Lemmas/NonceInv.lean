import Foundation.Lemmas.NonceList
open GoSort
namespace Nonce

structure Inv (ttl : Nat) (acc W : List Nat) : Prop where
  sorted : Sorted W
  mem : ∀ a, a ∈ W ↔ a ∈ acc ∧ ∀ m ∈ acc, m ≤ a + ttl

theorem exists_max : ∀ (l : List Nat), l ≠ [] → ∃ M ∈ l, ∀ m ∈ l, m ≤ M := by
  intro l
  induction l with
  | nil => intro h; exact absurd rfl h
  | cons x xs ih =>
    intro _
    by_cases hx : xs = []
    · subst hx; exact ⟨x, by simp, by simp⟩
    · obtain ⟨M, hM, hmax⟩ := ih hx
      by_cases hle : M ≤ x
      · refine ⟨x, by simp, ?_⟩
        intro m hm
        simp at hm
        rcases hm with rfl | hm
        · exact Nat.le_refl _
        · exact Nat.le_trans (hmax m hm) hle
      · refine ⟨M, by simp [hM], ?_⟩
        intro m hm
        simp at hm
        rcases hm with rfl | hm
        · omega
        · exact hmax m hm

theorem inv_nil_acc {ttl acc} (h : Inv ttl acc []) : acc = [] := by
  by_cases hacc : acc = []
  · exact hacc
  · obtain ⟨M, hM, hmax⟩ := exists_max acc hacc
    have : M ∈ ([] : List Nat) := (h.mem M).mpr ⟨hM, fun m hm => Nat.le_trans (hmax m hm) (Nat.le_add_right _ _)⟩
    simp at this

theorem last_is_max {ttl acc W l} (h : Inv ttl acc W) (hl : W.getLast? = some l) :
    l ∈ W ∧ l ∈ acc ∧ (∀ m ∈ acc, m ≤ l) ∧ (∀ w ∈ W, w ≤ l) := by
  have hlW : l ∈ W := List.mem_of_getLast? hl
  have hlacc : l ∈ acc := ((h.mem l).mp hlW).1
  have hWmax : ∀ w ∈ W, w ≤ l := by
    intro w hw
    obtain ⟨i, hi, rfl⟩ := List.mem_iff_getElem.mp hw
    have hne : W.length ≠ 0 := by omega
    have : l = W[W.length - 1]'(by omega) := by
      rw [List.getLast?_eq_getElem?] at hl
      have h2 : W.length - 1 < W.length := by omega
      simp [h2] at hl
      exact hl.symm
    subst this
    by_cases hi2 : i = W.length - 1
    · subst hi2; exact Nat.le_refl _
    · exact Nat.le_of_lt (List.pairwise_iff_getElem.mp h.sorted i (W.length-1) hi (by omega) (by omega))
  refine ⟨hlW, hlacc, ?_, hWmax⟩
  have hacc : acc ≠ [] := by intro h0; subst h0; simp at hlacc
  obtain ⟨M, hM, hmax⟩ := exists_max acc hacc
  have hMW : M ∈ W := (h.mem M).mpr ⟨hM, fun m hm => Nat.le_trans (hmax m hm) (Nat.le_add_right _ _)⟩
  have h1 : M ≤ l := hWmax M hMW
  have h2 : l ≤ M := hmax l hlacc
  intro m hm
  have := hmax m hm
  omega

end Nonce
