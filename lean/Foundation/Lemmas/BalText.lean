import Std.Data.String.ToInt
import Foundation.Model.Batch
/-! Balances are stored as decimal text (`Batch.showBal`, `Batch.readBal`): reading back what was
    written yields the number written — for every integer, by the toolchain's own lemmas about
    `Int.repr` / `String.toInt?` (`Std.Data.String.ToInt`; part of Lean's standard library, not Mathlib). -/
namespace Foundation.Batch

theorem toInt_empty : "".toInt? = none := by
  rw [String.toInt?_eq_none_iff]
  cases h : "".isInt with
  | false => rfl
  | true =>
    rw [String.isInt_iff] at h
    rcases h with h | ⟨t, ht, _⟩
    · rw [String.isNat_iff] at h; exact absurd rfl h.1
    · have h0 : ("" : String).length = ("-" ++ t).length := by rw [← ht]
      rw [String.length_append] at h0
      have h1 : "-".length = 1 := by decide
      have h2 : ("" : String).length = 0 := by decide
      omega

/-- what is read back is what was written -/
theorem readBal_showBal (n : Int) : readBal (showBal n) = n := by
  unfold readBal showBal
  by_cases h : n = 0
  · subst h; simp [toInt_empty]
  · simp only [h, if_false]
    have : (toString n) = n.repr := rfl
    rw [this, Int.toInt?_repr]; rfl

end Foundation.Batch
