"""Per-property configuration of ./check (modules to build and audit, trusted base, hypotheses)."""

PROPS = {
    "C12": {
        "modules": ["Foundation.Proofs.C12"],
        "level_text": "Machine-checked refinement: for every initial ledger and every list of transactions (arbitrary stub calls on both cache layers, committed or discarded in any pattern) all reads and the ledger written at batch commit equal a plain map; commit is independent of map iteration order; the returned write list is sorted, duplicate-free and last-wins. The model is tied to core/cachestub by exhaustive short and random long op sequences run on the real types.",
        "level_note": "Trusted: Lean kernel + propext/Classical.choice/Quot.sound; the hand-written model Foundation.Cache corresponds to core/cachestub only as far as the differential run exercises it; simulated peer semantics; point operations only.",
        "trusted_base": [
            "core/cachestub is modelled by Foundation.Cache (Model/Cache.lean); the Go map's key set is a ghost list",
            "PutState(k, empty) at the ledger is a delete (Fabric); nil and empty values are one observation",
        ],
        "hypotheses": [],
        "not_modelled": ["InvokeChaincode result cache of BatchCacheStub (covered under C04)", "range queries (bypass the cache by design)"],
        "assumptions": ["range/iterator reads are outside the statement (point operations only)"],
    },
}

NOT_APPLICABLE = {}
