"""Per-property configuration of ./check (modules to build and audit, trusted base, hypotheses)."""

PROPS = {
    "C12": {
        "modules": ["Foundation.Proofs.C12"],
        "level_text": "Machine-checked refinement: for every initial ledger and every list of transactions (arbitrary stub calls on both cache layers, committed or discarded in any pattern) all reads and the ledger written at batch commit equal a plain map; commit is independent of map iteration order; the returned write list is sorted, duplicate-free and last-wins. The model is tied to core/cachestub by exhaustive short and random long op sequences run on the real types.",
        "level_note": "Trusted: Lean kernel + propext/Classical.choice/Quot.sound; the hand-written model Foundation.Cache corresponds to core/cachestub only as far as the differential run exercises it; simulated peer semantics; point operations only.",
        "trusted_base": [
            "core/cachestub is modelled by Foundation.Cache (Model/Cache.lean); the Go map's key set is a ghost list",
            "PutState(k, empty) at the ledger is a delete (Fabric); nil and empty values are one observation",
        ],
        "hypotheses": [],
        "not_modelled": ["InvokeChaincode result cache of BatchCacheStub (covered under C04)", "range queries (bypass the cache by design)", "failing ledger reads are handled by the driver around the model (a read that reaches the ledger fails and caches nothing), not inside Cache.step and its theorems"],
        "assumptions": ["range/iterator reads are outside the statement (point operations only)"],
    },
}

PROPS["C02"] = {
    "modules": ["Foundation.Proofs.C02"],
    "facts": True,
    "level_text": "Machine-checked refinement of the literal setNonce (incl. Go's sort.Search) to the full-history spec: for every TTL and every unbounded history a nonce is accepted iff it is 13-digit, never accepted before and not older than any accepted nonce by more than the TTL; corollaries at_most_once, too_old_rejected, exact window edge, bad_format_rejected, fresh_accepted, reject_keeps_state, sender independence (per-sender projection). Constants 50 s / 13 digits are re-extracted from the source each run. The model is tied to the code by exhaustive symbolic sequences on the exported setNonce and by end-to-end batch/task histories with replayed signed requests.",
    "level_note": "Trusted: Lean kernel + 3 standard axioms; decimal length 13 <-> 10^12<=n<10^13 is proved (is13_iff_decimal_length, over Lean's Nat.toDigits 10; strconv.FormatUint is trusted to be the decimal representation); protobuf round-trip of proto.Nonce; one sender <-> one composite key; legacy single-integer nonce encoding excluded; the model is the hand transcription checked by the differential run.",
    "trusted_base": ["core/nonce.go setNonce/checkNonce modelled by Nonce.setNonce/stepMulti", "strconv.FormatUint(n,10) is the decimal representation Nat.toDigits 10 n (length law proved: is13_iff_decimal_length)", "proto.Nonce marshal/unmarshal round-trip"],
    "hypotheses": ["stored windows were produced by setNonce from the empty window (legacy single-integer records excluded)"],
    "not_modelled": ["legacy nonce decoding (a stored single-integer record is modelled as that one accepted nonce, op `legacy`; the byte-level fallback decision of proto.Unmarshal is not)", "NBTx/immediate route (nonce not checked there by design of the code; property quantifies over batches and task lists)"],
    "assumptions": ["Fabric delivers unique tx ids; ACL maps a key to one address"],
}

PROPS["C20"] = {
    "modules": ["Foundation.Proofs.C20"],
    "level_text": "Machine-checked: for every strictly sorted key list and every page size >= 1, following bookmarks from the empty one terminates and the concatenated pages equal the key range exactly (each key once, in order); pages never exceed the size and contain only range keys; non-positive sizes and foreign bookmarks are rejected. The model (query validation + the stub's pagination contract) is tied to QueryChannelTransfersFrom/LoadCCFromTransfers by histories of records created, committed, cancelled and deleted through the real chaincode next to unrelated keys.",
    "level_note": "Trusted: Lean kernel + 3 axioms; the stub pagination contract (first `size` keys >= bookmark, next key as bookmark) as implemented by the simulated peer and assumed of Fabric's paginator; UTF-8 byte order = code point order; keys are built by concatenating the prefix and the id.",
    "trusted_base": ["GetStateByRangeWithPagination contract (simulated peer; Fabric's paginator trusted to meet it)", "record life cycle (mk/commit/cancel/del) modelled minimally; full treatment under C10"],
    "hypotheses": ["ledger keys are strictly sorted (a map has no duplicate keys)"],
    "not_modelled": ["decoding of record values (protojson)"],
    "assumptions": [],
}

PROPS["C19"] = {
    "modules": ["Foundation.Proofs.C19"],
    "facts": True,
    "level_text": "Machine-checked for all amounts and settings: the fee is clamp(floor, cap, floor-div of amount*share/1e8, converted by the buyToken rate when foreign), zero without a share or between addresses of one user, bounded by floor and (positive) cap under the invariant TxSetFee maintains, rounded down, monotone; a successful transfer debits amount+fee, credits exactly amount and exactly fee and touches nobody else; unfunded legs fail; prices are floor(amount*rate/1e8) within the limits. The model is tied to the token code by histories through Invoke with amounts at every break point and full balance dumps after every step.",
    "level_note": "Trusted: Lean kernel + 3 axioms; big.Int = unbounded Nat; the enclosing transaction is all-or-nothing (C04); ACL user ids as reported by the simulated ACL; model = hand transcription of token/transfer.go, buy_buyback.go, limit.go, methods.go checked by the differential run.",
    "trusted_base": ["token/transfer.go, buy_buyback.go, proto/limit.go, methods.go modelled by Foundation.Token", "feeDecimals/RateDecimal re-extracted each run (facts_decimals)"],
    "hypotheses": ["transfer_effect is stated for three distinct parties; aliasing (fee address = sender/recipient) is covered by the correspondence run only"],
    "not_modelled": ["industrial (grouped) allowed-balance transfers (covered by the LAPI workload under C06: token.TxAllowedIndustrialBalanceTransfer)"],
    "assumptions": [],
}

PROPS["C01"] = {
    "modules": ["Foundation.Proofs.C01"],
    "level_text": "Machine-checked exact characterisation of acceptance (authorize_ok_iff) of the authentication function all three routes share: a request is executed for address A iff it parses, names this chaincode and channel, the ACL confirms A and does not list it, every non-blank signature verifies and at least the required number (1, or the policy's N, default all) of distinct signer keys carry a genuine signature of the right algorithm over exactly this request; corollaries reject every listed bad case. Crypto is symbolic. Tied to the code by ~3000 really-signed requests (3 key types x 3 routes x all signature-state combinations x ACL answers) with the authenticated sender and the ledger diff observed.",
    "level_note": "Trusted: Lean kernel + 3 axioms; EUF-CMA of ed25519/secp256k1/GOST (symbolic signatures); base58; the ACL service as the authority for key->address; the model is the hand transcription of cc_auth.go after fix bd1f49e, checked by the differential run; AddAddrIfChanged not modelled here.",
    "trusted_base": ["symbolic signatures: verify kt pk m s <-> s = valid kt pk m", "core/cc_auth.go modelled by Foundation.Auth.authorize"],
    "hypotheses": [],
    "not_modelled": ["secp256k1 64-byte truncation, GOST malformed-key error vs false (both are rejections)", "AddAddrIfChanged (C15)"],
    "assumptions": [],
}
PROPS["C03"] = {
    "modules": ["Foundation.Proofs.C03"],
    "level_text": "Machine-checked: acceptance implies every presented signature is genuine over exactly message(fn,args) (sig_binds_message); the message covers function name, request id, names, all arguments, nonce and all keys (message_covers); changing any single covered field or the function name changes the message (append cancellation, any lengths); an accepted request names the executing chaincode and channel and is rejected everywhere else. The boundary-shift clause of the statement is false of plain concatenation: proved counterexample, listed as known finding. Tied to the code by mutating really-signed requests with every operator at every position on three routes.",
    "level_note": "Trusted: as C01. Known finding (not repaired, wire format): bytes moved across the boundary of two adjacent covered fields keep the signature valid.",
    "trusted_base": ["symbolic signatures", "message construction in cc_auth.go:90 modelled by Foundation.Auth.message"],
    "hypotheses": [],
    "not_modelled": [],
    "assumptions": [],
}

PROPS["C11"] = {
    "modules": ["Foundation.Proofs.C11"],
    "facts": True,
    "level_text": "Machine-checked decision logic of the entry points: batch execution and the five transfer-robot functions reach their bodies only for a certificate whose key id or hash equals the configured robot value; Init only for an admin-OU certificate; the admin-only methods take effect only for the configured admin address; a method disabled by name or by the swap/multi-swap switch is never reached or recorded on the direct, batched and task routes; missing configuration or an unparsable creator refuses everything. The switch skeleton (case order, guarded cases, returning cases, place of the disabled test, its two call sites) is re-extracted from the source each run and checked by decide. Tied to the code by the matrix entry point x identity x configuration x route x sender through Invoke, with the router's real method table fed to the model.",
    "level_note": "Trusted: Lean kernel + 3 axioms; x509/ECDSA parsing; response classes are derived from error texts (coarse); the model is the hand transcription of Invoke/TasksExecutor after fix bbe070f checked by the differential run; issuer/fee-setter role checks are outside this property.",
    "trusted_base": ["core/cc_core_init_invoke.go Invoke switch modelled by Dispatch.invoke; skeleton facts re-extracted per run", "hlfcreator (x509 parsing) modelled as abstract Creator"],
    "hypotheses": [],
    "not_modelled": ["execution of an already pending record whose method was disabled afterwards is not among the three routes of the statement; the code executes and consumes it (exercised under C05, op `disable`)"],
    "assumptions": [],
}

PROPS["C15"] = {
    "modules": ["Foundation.Proofs.C15"],
    "facts": True,
    "level_text": "Machine-checked: if every mutating stub method is overridden by a no-op, then for every query body (any list of stub calls, any arguments) running it through queryStub leaves writes, event, validation parameters and private data unchanged (induction on the body); with the overrides re-extracted from core/query_stub.go each run this is instantiated by decide (query_readonly); on both routes the body of a query method receives the read-only stub; per-run obligations: no unknown mutator in the shim interface, wrap sites, wrap before authentication. Tied to the code by scripted query bodies trying every mutating call on both routes and by every library Query* function, observing the simulated transaction's write-set/event/validation/private data.",
    "level_note": "Trusted: Lean kernel + 3 axioms; the fact extractor (an override counts as inert only if its body is a bare `return nil`); InvokeChaincode from a query body is outside the statement; simulated peer records effects faithfully.",
    "trusted_base": ["core/query_stub.go overrides and shim interface method set re-extracted per run", "Dispatch model for the two routes (C11)"],
    "hypotheses": [],
    "not_modelled": ["InvokeChaincode issued by a query body (excluded by the property's own list)"],
    "assumptions": [],
}

PROPS["C13"] = {
    "modules": ["Foundation.Proofs.C13"],
    "level_text": "Machine-checked invariant over every history (any length) of lock/unlock requests naming the lock's own account: every existing lock has 0 < remaining <= initial and remaining = initial - everything unlocked so far; the record disappears exactly when the remaining amount reaches zero; an account's locked balance equals the sum of the remaining amounts of its locks (sum over a ghost log of ids); spendable + locked is unchanged by every request; no balance is negative; non-admin, duplicate id, non-positive amount, unfunded lock, unknown id, over-unlock and negative unlock are refused. Tied to the code by random histories through the four admin methods of both kinds with amounts around the remaining amount and read-back of records and balances.",
    "level_note": "Trusted: Lean kernel + 3 axioms; the enclosing transaction is all-or-nothing (C04); JSON/proto decoding of requests; one model for both balance kinds (account = address or (address, token)); model = hand transcription of bc_external_locks.go after fix 5e7eca3 checked by the differential run.",
    "trusted_base": ["core/bc_external_locks.go modelled by Foundation.Locks (one kind at a time)"],
    "hypotheses": ["unlock requests name the lock's own address (the property's restriction); other requests are mirrored by the model but not covered by the invariant"],
    "not_modelled": ["events emitted by lock/unlock", "docs/payload fields"],
    "assumptions": [],
}

PROPS["C16"] = {
    "modules": ["Foundation.Proofs.C16"],
    "level_text": "Machine-checked: Put writes the inverse entry with the primary's bytes, so from an indexed state every sequence of put/add/sub/move (any kinds, tokens, addresses, to zero and back, failing or not) keeps inverse(kind,token,addr) = primary(kind,addr,token) (induction over the op list); listing owners then returns exactly the addresses with a non-zero direct read, with those amounts, each once; createIndex from legacy data establishes the invariant for its kind, keeps it when already indexed, and changes no balance and no other kind's entries. Tied to balance.* by random histories run directly and through the cache layers, optionally from legacy data + createIndex, comparing ListOwnersByToken with direct reads for the full matrix.",
    "level_note": "Trusted: Lean kernel + 3 axioms; injectivity of Fabric's composite-key encoding; 0 = empty bytes = absent key; range iteration in key order (simulated peer); point operations through the cache are transparent (C12).",
    "trusted_base": ["core/balance storage/operations/queries/indexer modelled by Foundation.Balance", "composite keys as structured triples"],
    "hypotheses": ["legacy data has no inverse entries of the kind being indexed"],
    "not_modelled": ["ListBalancesByAddress (primary-side listing)", "range reads inside a batch (bypass the cache by design)"],
    "assumptions": [],
}

PROPS["C06"] = {
    "modules": ["Foundation.Proofs.C06"],
    "level_text": "Machine-checked: (primitive layer) any sequence of balance Add/Sub/Move with any amounts keeps every balance >= 0; an unfunded or negative operation errors and leaves the state as it was; a successful one changes exactly the balances it names by exactly the amount (incl. self-moves). (token layer) for every sequence of emit, burn, moves (transfer, fee, lock, forced transfer, purchase), escrow-in (swap begin) and escrow-out (cancel / robot completion into the given-out counter): spendable + locked + given + escrow = total emission, only emit/burn change it, nothing is negative — sums over ghost logs, unbounded histories and amounts. Tied to the code by histories through Invoke with amounts around the balance, 2^64+1 and 2^256, dumping all balances, given, open-swap escrow and total_emission after every step; the judge recomputes the conservation sum from the implementation's dump.",
    "level_note": "Trusted: Lean kernel + 3 axioms; big.Int = unbounded Int; the enclosing transaction is all-or-nothing (C04); business operations are mapped to moves/escrow steps by the driver (plain token only; grouped tokens and the destination-side steps are under C08-C10).",
    "trusted_base": ["core/balance/operations.go modelled by Foundation.Balance.add/sub/move", "business operations of the own token as TOp sequences (driver mapping, checked differentially)"],
    "hypotheses": [],
    "not_modelled": ["grouped (industrial) tokens and allowed balances in the conservation statement", "multi-swap (C09)"],
    "assumptions": [],
}

PROPS["C04"] = {
    "modules": ["Foundation.Proofs.C04"],
    "level_text": "Machine-checked general simulation: every program over the two cache layers (arbitrary control flow depending on every value read: batchExecute, executeTasks and any scripted or library body are instances) computes on the layered cache exactly what it computes on a plain map with an own-writes overlay; hence batch and task execution equal serial execution, reply entry by reply entry (error class or write list, reads, events, accounting) and in the committed ledger; a failing or panicking body leaves the committed map untouched, a succeeding one has its final view committed and reports exactly its writes; unknown ids are local. Tied to the code by batches and task lists of scripted bodies (writes before failure, panics, balance moves between senders) run through batchExecute and executeTasks; the judge executes the serial semantics.",
    "level_note": "Trusted: Lean kernel + 3 axioms; Go's recover semantics; nonce bookkeeping on the batch level is covered under C02; accounting records are compared as multisets; bodies are the harness token's script language (incl. the library's TokenBalanceTransfer) - other library methods are covered through C06/C13/C19 which run inside batches.",
    "trusted_base": ["core/cc_batch.go, task_executor.go modelled by Batch.txProg/batchProg/taskProg over the C12 cache model"],
    "hypotheses": [],
    "not_modelled": ["InvokeChaincode result cache", "tracing pairs"],
    "assumptions": [],
}
PROPS["C05"] = {
    "modules": ["Foundation.Proofs.C05"],
    "level_text": "Machine-checked on the batch model: a submission changes exactly one key (the pending record) or nothing; after the turn of a listed id - unknown method, undecodable record, failing, panicking or succeeding body - the id is consumed, stays consumed through the rest of the batch and every later batch, and every further listing (duplicates, re-listing) runs no body and answers not-found for that id only; an unknown id leaves the rest of the batch exactly as without it. Tied to the code by histories interleaving submissions with batches over multisets of fresh, executed, duplicated and unknown ids, observing submission diffs, per-id replies and pending-record presence.",
    "level_note": "Trusted: as C04; Fabric never reuses a transaction id for a new submission; no method body writes a batchTransactions key (hypothesis Clean).",
    "trusted_base": ["BatchHandler/saveToBatch modelled as one ledger write", "C04 batch model"],
    "hypotheses": ["transaction ids of submissions are unique (Fabric)", "no method body writes a pending-record key"],
    "not_modelled": [],
    "assumptions": [],
}

PROPS["C10"] = {
    "modules": ["Foundation.Proofs.C10"],
    "level_text": "Machine-checked over a two-ledger model with any number of ids and users, both directions: the record life cycle (duplicate id, repeated commit, cancel after commit, delete before commit, any step on an absent record are rejected; initiation debits exactly once; cancel refunds exactly) holds for all callers; for every interleaving of user steps, rejected attempts and protocol robot steps (robot may stop anywhere and resume from ledger state) the invariant srcA(u)+dstB(u)+in-flight(u)=funding(u) holds, hence units are never spendable in both channels, a destination credit happens at most once per id with the origin's user and amount, and when nothing is in flight everything debited has been credited (given counters follow these flows exactly). Tied to the code by an exhaustive walk of all step sequences to depth 4 (quick) / 5 (thorough) on one id and random two-id/two-user histories on two real chaincode instances.",
    "level_note": "Trusted: Lean kernel + 3 axioms; the robot obeys the stated protocol for create-to / delete-to / delete-from / cancel ordering (the chaincode cannot see the other ledger) - hypothesis `allowed`, printed in the evidence; batched steps are atomic (C04); keys built by concatenation (fix 54b00c3).",
    "trusted_base": ["core/bc_chtransfer.go modelled by Foundation.ChTransfer.step; protocol by ChTransfer.allowed"],
    "hypotheses": ["robot protocol: create-to only for an open origin record with its exact content and no destination record; commit only when the destination record exists; delete-to only after commit; delete-from and cancel only when the destination record is absent"],
    "not_modelled": ["initiation by the admin on behalf of a user (same code path after the admin check, C11)", "time stamps"],
    "assumptions": [],
}

PROPS["C08"] = {
    "modules": ["Foundation.Proofs.C08"],
    "level_text": "Machine-checked over a two-ledger model with any number of swaps and owners, direct and reverse: completions and cancellations of absent records and wrong keys are rejected on both sides, the origin record can never be user-completed, a released record is gone; for every interleaving of user steps, rejected attempts and actor steps respecting the documented order (robot answers an origin record once with its content and closes the origin only after a destination completion; origin cancel only after a successful destination cancel) the invariant srcA(u)+dstB(u)+owed(u)=funding(u) holds: no gain, at most one of credit/refund per swap, and when no record is open the origin closed exactly what the destination credited (given counter follows). Tied to the code by an exhaustive walk of all step sequences on one swap and random two-swap histories incl. the task-route id collision, on two real chaincode instances.",
    "level_note": "Trusted: Lean kernel + 3 axioms; sha3 preimage resistance (keys are right/wrong); platform and robot obey the stated protocol (hypothesis `allowed`); swap ids of begun swaps are not re-used after they finished (Fabric tx ids; the task route lets callers pick ids - re-use of an open id is refused since fix c149971); robot completion called on the destination copy is outside the protocol and not modelled.",
    "trusted_base": ["core/bc_swap.go, core/swap/swap.go modelled by Foundation.Swap.step; protocol by Swap.allowed"],
    "hypotheses": ["robot: answers an origin record at most once, with its exact content; closes the origin only with a key published by a destination completion", "platform: cancels the origin only after a successful destination cancel of the same id (doc/swap.md rules 3-4)", "ids of new swaps carry no completion/cancellation history"],
    "not_modelled": ["RobotDone invoked on the destination copy is outside the protocol model (robot content off protocol); the whole-batch model FBATCH executes it as the code does", "swap timeouts (not checked by the code)", "OnSwapDoneEvent listener"],
    "assumptions": [],
}

PROPS["C09"] = {
    "modules": ["Foundation.Proofs.C09", "Foundation.Proofs.C09Value"],
    "level_text": "Machine-checked on a two-ledger model with asset lists (repeated groups, both read semantics): begin is all-or-nothing (sequential debit = per-group totals; empty list, existing id, negative or any under-funded asset refuse everything); cancel only by the creator at/after the timeout, refunding every asset; the answered copy can be cancelled by nobody; wrong keys and completions of absent records are refused, a successful completion had the right key; release_once_partial: under the documented order (origin cancelled only for an id the robot has abandoned) at most one of refund/release happens. The unrestricted exactly-once statement is FALSE of the code: two proved counterexamples (creator cancels after the timeout and still completes in the destination; a group listed twice is credited once by the direct completion) are listed as known findings and detected on the implementation by the judge. Tied to the code by random and directed histories on two real chaincode instances with both peer clocks controlled.",
    "level_note": "Trusted: Lean kernel + 3 axioms; sha3 preimage resistance; committed-read semantics of a real peer as implemented by the simulated peer; per-group value conservation over both channels is proved for asset lists naming each group once (group_value_conserved_partial, no_gain_partial, released_in_full, refunded_in_full) and monitored by the judge on the implementation's dumps for all lists. Known findings (not repaired: protocol-level): cancel_then_done, dup_group_direct.",
    "trusted_base": ["core/bc_multiswap.go, core/multiswap/multiswap.go modelled by Foundation.MultiSwap.step (two read semantics)"],
    "hypotheses": ["release_once_partial: the origin is cancelled only when no answered copy exists or can still be created (robot abandoned the id)", "group_value_conserved_partial: every begin lists each group once and does not re-use the id of a released swap (the repeated-group case is the proved counterexample dup_group_direct)"],
    "not_modelled": ["RobotDone on the destination copy is outside the protocol model; the whole-batch model FBATCH executes it as the code does", "OnMultiSwapDoneEvent listener"],
    "assumptions": [],
}

NOT_APPLICABLE = {}

PROPS["C07"] = {
    "modules": ["Foundation.Proofs.C07"],
    "facts": True,
    "level_text": "Machine-checked: for every history of proposals (committed or simulated-and-dropped, succeeding or failing) whose bodies touch the in-memory token metadata only after a load, every reply and the final ledger are independent of what the process had in memory (history_mem_irrelevant), so a long-lived and a fresh instance agree on every step, and dropped proposals change nothing (dropped_simulation_irrelevant); sorted write lists and the batch commit are independent of map iteration order. Per-run obligations re-extracted from the source: every BaseToken method loads before its first use of bt.config, the load assigns a fresh object, Invoke re-applies the configuration first, and the long-lived objects / package variables are exactly the ones accounted for. The pre-fix behaviour is kept as a proved counterexample (stale_fee_counterexample). Tie: the property's own experiment - every proposal of a random history is simulated on the long-lived instance, on a fresh one and again, and compared byte for byte (reply, write-set, event).",
    "level_note": "Trusted: Lean kernel + 3 axioms; the fact extractor's syntactic reading of token/*.go (source order stands for control flow); Go map iteration order is exercised only by chance (repeated runs); the model's method bodies are hand transcriptions checked by the differential run; tracing/logging state is not modelled; Go memory-model races between concurrent invocations are out of scope (C17).",
    "trusted_base": ["token/token.go, token/*.go metadata users modelled by Foundation.Process (bodies as Step lists)", "facts: tokenCfgEvents, tokenLoadFresh, invokeConfiguresFirst, configureApplies, persistentFields, packageVars (go/parser, re-extracted each run)"],
    "hypotheses": ["bodies are disciplined (first touch of bt.config is a load) - discharged for the current source by facts_process"],
    "not_modelled": ["telemetry/tracing handler state", "logger", "data races on shared fields under true parallelism"],
    "assumptions": ["the simulated peer gives all three simulations the same committed state, tx id, timestamp and creator"],
    "timeout": 3000,
}

PROPS["C14"] = {
    "modules": ["Foundation.Proofs.C14"],
    "facts": True,
    "level_text": "Machine-checked for every skeleton: if every goroutine has a frame with a deferred recover, no panic below it kills the process (contained_sound), the innermost recover wins, and with a recover per item a batch / task list / swap section returns one entry per item with every non-panicking item unaffected (item_scoped_sound, panic_is_local); without it one panic loses the whole request. Per-run obligations on the skeleton re-extracted from the source: Invoke, batchedTxExecute, ExecuteTask, swap/multiswap Answer and RobotDone defer a recover at the expected position, every `go` statement starts a recovering function, the item loops call exactly those functions, and the library never exits on purpose. Partial by nature: Init has no recover (covered by enumeration only: contained_partial) and runtime fatal errors, stack/memory exhaustion and deadlock are outside any skeleton. Tie: the chaincode runs in a child process; ~2000 (quick) generated invocations over every entry point x argument counts x creators x access-control faults, signed requests with arbitrary arguments, scripted panicking items and malformed swap sections; a death or missing reply is observed, confirmed alone and reported.",
    "level_note": "Trusted: Lean kernel + 3 axioms; Go's recover semantics; the syntactic extractor (go/parser) finding every `go` statement and deferred recover in the library packages; the shim runs each transaction on its own goroutine without recover. Not covered by a theorem: panics inside Init, runtime fatal errors, OOM, stack overflow, deadlock (a hang is detected by a 40 s timeout in the harness).",
    "trusted_base": ["panic propagation modelled by Foundation.Panic (unwind to the innermost recovering frame of the same goroutine)", "facts: recoverFns (with positions), goStmts, itemLoops, exitCalls re-extracted each run"],
    "hypotheses": ["Init is excluded from contained_partial: no recover exists there; no panicking Init input was found by enumeration"],
    "not_modelled": ["runtime fatal errors (concurrent map writes), out-of-memory, stack overflow, deadlock", "panics in third-party goroutines (otel exporters, gRPC)"],
    "assumptions": ["a panic escaping Init/Invoke on the calling goroutine is counted as process death (the shim has no recover)"],
    "timeout": 3000,
}

PROPS["C17"] = {
    "modules": ["Foundation.Proofs.C17"],
    "facts": True,
    "level_text": "Machine-checked for any number of invocations, any programs and every schedule: the context table is keyed by the goroutine, so the table cell and the state of an invocation after any interleaving are exactly what it reaches running alone (isolation), hence every GetStub() returns the stub that invocation itself installed (own_context, expected_own); a single shared slot is proved to leak (shared_slot_counterexample). Per-run obligations re-extracted from the source: setEnv/getEnv/delEnv are keyed by goid(), GetStub reads the table, the context is installed with a deferred removal at exactly the known sites. Tie: 2-3 invocations (immediate method, batchExecute, executeTasks, swap completion) run on ONE instance on separate goroutines with separate simulated transactions; a scheduler forces every interleaving of the switch points immediately before each GetStub(); reply, write-set and event of each are compared with its solo run and with the model's prediction.",
    "level_note": "Trusted: Lean kernel + 3 axioms; goroutine ids are unique among live goroutines; sync.Map is linearizable; the scheduler's switch points are the scripted bodies' GetStub() calls (library-internal GetStub() calls are not switch points). Partial by nature: Go-memory-model data races on fields every invocation rewrites (BaseContract.config, BaseToken.tokenConfig, BaseToken.config) are outside an interleaving model.",
    "trusted_base": ["context table modelled by Foundation.Env (cell per thread id)", "facts: envKeyedByGoid, envInstallSites, getStubReadsEnv re-extracted each run"],
    "hypotheses": ["each invocation runs on its own goroutine (Fabric shim)"],
    "not_modelled": ["data races on shared configuration fields under true parallelism", "switch points inside library code other than stub operations (state reads and writes and access-control calls of the token methods ARE switch points in the transfer / setFee runs)"],
    "assumptions": [],
    "timeout": 3000,
}

PROPS["C18"] = {
    "modules": ["Foundation.Proofs.C18"],
    "facts": True,
    "level_text": "Machine-checked over configuration trees (every field absent / null / wrong kind / empty object / any string; unknown and duplicate members; JSON or legacy positional arguments for any channel name) and arbitrary histories: an initialisation is accepted iff the caller carries the admin OU, the arguments decode and the schema predicate holds (patterns for symbol, robot key and every given wallet, contract required, issuer required wherever a token section is given), and then exactly that configuration is stored (stored_iff_valid); a rejected one leaves the stored configuration untouched; in every history each invocation runs under the last successfully stored configuration or is refused when there is none (invoke_uses_last_stored, refused_until_first_valid_init). The three patterns are structural recognisers; per-run obligations tie them, the required members, the Init step order, the validator chain and the 20-entry legacy channel table to the source. Tie: ~500 (quick) histories of field-wise mutated configurations, callers, positional arguments and repeated initialisations, observing the Init reply, the __config key and the configuration in force on the next invocation.",
    "level_note": "Trusted: Lean kernel + 3 axioms; protojson's treatment of unknown/duplicate members, null and wrong kinds as exercised by the differential run; the generated validators apply each pattern to the field the extractor reports; x509 parsing of the creator certificate; regular-expression semantics of the three patterns (hand-written recognisers, exercised at their boundaries).",
    "trusted_base": ["Init/Validate/Configure modelled by Foundation.Config", "facts: configPatterns, configPatternUses, configRequired, initCallOrder, validateChain, legacyChannels/legacyMappers re-extracted each run"],
    "hypotheses": ["the contract is a token (BaseToken): the whole-config validator runs; a plain BaseContract only runs the base validator"],
    "not_modelled": ["ext_config (google.protobuf.Any)", "tracing collector endpoint settings", "config mapper option (WithConfigMapperFunc)"],
    "assumptions": [],
    "timeout": 3000,
}

# --------------------------------------------------------------------------------------------
# Additional workloads shared by several properties. SYS = the end-to-end pipeline model
# (Model/System.lean, Proofs/System.lean, Driver/Sys.lean, harness/drive/sys.go). Its judge's
# violation clauses belong to one property each; a clause that is not listed counts for every
# property the workload is attached to.
PROPS_EXTRA = {
    "SYS": {
        "clauses": {
            "forged_sender_e2e": "C01",
            "replay_executed": "C02",
            "phantom_tx": "C05",
            "pending_lost": "C05",
            "invalid_submission_recorded": "C05",
            "negative_balance_e2e": "C06",
            "conservation_e2e": "C06",
            "batch_not_robot": "C11",
        },
    },
    # LAPI = the balance API (Model/LedgerApi.lean, Proofs/LedgerApi.lean, Driver/Lapi.lean, harness/drive/lapi.go)
    "LAPI": {
        "clauses": {
            "negative_balance_api": "C06",
            "api_conservation": "C06",
            "failed_call_changed_state": "C06",
            "negative_amount_accepted": "C06",
            "index_mismatch_api": "C16",
        },
    },
    # FBATCH = the whole of batchExecute: listed transactions + the robot's four lists behind their switches
    # (Model/FullBatch.lean, Proofs/FullBatch.lean, Driver/FBatch.lean, harness/drive/fbatch.go). Its judge clauses
    # (whole_batch_refines_serial, reply_matches_ledger) belong to every property it is attached to.
    "FBATCH": {"clauses": {}},
}

_SYS_TEXT = " End to end (Proofs/System.lean): over every history of submissions, batches and task lists of the composed pipeline model (authentication + pending records + nonce windows + token bodies) "
for _p, _t in (("C01", "every body that ran is backed by a request of the history carrying the required genuine signatures for exactly its sender and arguments (e2e_genuine_signatures)."),
               ("C02", "no two bodies that ran on the batch or task routes have the same sender and nonce (e2e_replay_protected)."),
               ("C05", "a batched submission only records; every stored record was written by an authenticated submission; a listed id is consumed whether it succeeds or fails; unknown ids touch nothing."),
               ("C06", "with the token bodies no balance is negative and the units held equal the emission; the ledger is exactly the replay of the logged executions (e2e_conservation, e2e_ledger_is_log_replay)."),
               ("C11", "batchExecute by anyone but the robot changes nothing on the composed pipeline (non_robot_batch_noop).")):
    PROPS[_p]["modules"] = PROPS[_p]["modules"] + ["Foundation.Proofs.System"]
    PROPS[_p]["also"] = ["SYS"]
    PROPS[_p]["level_text"] += _SYS_TEXT + _t + " The composed model is tied to the code by histories on the real chaincode with balances, emission, pending ids and stored nonce windows read back from the ledger after every batch."
    PROPS[_p]["trusted_base"] = PROPS[_p]["trusted_base"] + ["end-to-end pipeline: core/cc_core.go BatchHandler/noBatchHandler, cc_batch.go batchedTxExecute/loadFromBatch, task_executor.go ExecuteTask modelled by Foundation.System.step (method table: transfer, emit, transferNb)"]

_LAPI_TEXT = " Over the whole balance API (Proofs/LedgerApi.lean; all 27 mutating functions of core/ledger/balances.go as re-exported by BaseContract, through a table of primitive, balance kinds and token-component rule): "
for _p, _t in (("C06", "no call makes a balance negative, a successful single-asset call changes exactly the balances it names by exactly its amount, unfunded or negative calls fail (api_nonneg, api_effect, api_unfunded_fails)."),
               ("C16", "every call keeps the reverse index exact for every balance kind (api_indexed).")):
    PROPS[_p]["modules"] = PROPS[_p]["modules"] + ["Foundation.Proofs.LedgerApi"]
    PROPS[_p]["also"] = PROPS[_p].get("also", []) + ["LAPI"]
    PROPS[_p]["level_text"] += _LAPI_TEXT + _t + " The table is tied to the code by histories calling every function on the real chaincode with all balances and index entries read back from the ledger's composite keys after every call."
    PROPS[_p]["trusted_base"] = PROPS[_p]["trusted_base"] + ["core/ledger/balances.go + core/bc_balances.go modelled by the table LedgerApi.shape (27 functions)"]

_FB_TEXT = " Whole batches (Proofs/FullBatch.lean; batchExecute with the listed transactions and the robot's swap / multi-swap answer and key lists as programs over the two cache layers): "
for _p, _t in (("C04", "the whole batch on the layered cache yields the replies and the committed ledger of its serial reading on a plain map (full_batch_refines_serial); every robot item is all-or-nothing (item_all_or_nothing, answer_txOnly, robotDone_txOnly)."),
               ("C08", "a refused answer or key leaves the committed map untouched; an accepted one commits exactly what its transaction layer saw and reports exactly its writes (refused_answer_invisible, refused_key_invisible, item_all_or_nothing)."),
               ("C09", "a multi-swap answer whose home-coming asset list the given-out counter does not cover in full is refused with no partial debit left (refused_answer_invisible with subAll), keys likewise."),
               ("C11", "with a swap switch off the batch is the same program as the batch without the lists of that kind (switched_off_lists_ignored).")):
    PROPS[_p]["modules"] = PROPS[_p]["modules"] + ["Foundation.Proofs.FullBatch"]
    PROPS[_p]["also"] = PROPS[_p].get("also", []) + ["FBATCH"]
    PROPS[_p]["level_text"] += _FB_TEXT + _t + " Tied to the code by random whole batches on the real chaincode (transactions, answers, keys, switches changed by re-initialisation), every reply entry and the whole ledger - balances, counters, pending ids, decoded swap records - compared after every batch."
    PROPS[_p]["trusted_base"] = PROPS[_p]["trusted_base"] + ["core/cc_batch.go batchExecute sections, swap.Answer/RobotDone, multiswap.Answer/RobotDone modelled by FullBatch.fullBatchProg (records as text, hashes symbolic)"]
