#!/bin/bash
# Runs the repository's stable baseline with the verif guard OFF and compares with BASELINE.json.
# usage: ./run_baseline.sh [outdir]
OUT=${1:-/verif/.work/baseline}
mkdir -p "$OUT"
export GOPROXY=off GOSUMDB=off GOTOOLCHAIN=local
: > "$OUT/gotest.json"
for m in . ./fixture/gost ./test/integration; do
  (cd /repo/$m && go test -mod=mod -json -vet=off -count=1 -timeout 25m ./... >> "$OUT/gotest.json" 2>/dev/null)
done
python3 - "$OUT/gotest.json" <<'PY'
import json,sys
res={}
for line in open(sys.argv[1]):
    try: e=json.loads(line)
    except Exception: continue
    if e.get("Test") and e.get("Action") in ("pass","fail","skip"):
        res[e["Package"]+"::"+e["Test"]]=e["Action"]
base=json.load(open("/root/.vp/BASELINE.json"))
stable=base["stable_pass"]
missing=[t for t in stable if res.get(t)!="pass"]
print("stable baseline tests:",len(stable),"passing now:",len(stable)-len(missing))
for t in missing: print("NOT PASSING:",t,res.get(t))
sys.exit(1 if missing else 0)
PY
