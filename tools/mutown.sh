#!/bin/bash
# mutown.sh <id>: for every kept seeded change of property <id> (seeded/<id>-*/patch.diff) apply it in a scratch
# worktree /tmp/mutown/<id> (created from /repo HEAD, removed afterwards) and run the property's OWN check
# (quick) from a copy of committed /verif (git archive HEAD -> /tmp/mutown/vm_<id>); writes
# /tmp/mutown/out/<id>-<v>.txt = "<rc> <rev> <summary line>". /repo itself is never touched.
id=$1
rev=$(git -C /verif rev-parse --short HEAD)
mkdir -p /tmp/mutown/out
wt=/tmp/mutown/$id; vm=/tmp/mutown/vm_$id
git -C /repo worktree remove --force $wt 2>/dev/null; rm -rf $wt
git -C /repo worktree add --detach $wt >/dev/null 2>&1 || exit 2
rm -rf $vm && mkdir -p $vm && git -C /verif archive HEAD | tar -x -C $vm && mkdir -p $vm/.work
for d in /verif/seeded/$id-*; do
  v=${d##*-}
  (cd $wt && git checkout -q -- . && git clean -fdq && git apply $d/patch.diff) || { echo "2 $rev cannot-apply" > /tmp/mutown/out/$id-$v.txt; continue; }
  (cd $vm && VERIF_REPO=$wt timeout 3000 ./check $id --tier quick > $vm/.work/own.log 2>&1; rc=$?; echo "$rc $rev $(grep -m1 VIOLATION $vm/.work/own.log | cut -c1-120) :: $(tail -1 $vm/.work/own.log | cut -c1-140)" > /tmp/mutown/out/$id-$v.txt)
done
(cd $wt && git checkout -q -- . && git clean -fdq)
git -C /repo worktree remove --force $wt; rm -rf $vm
