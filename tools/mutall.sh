#!/bin/bash
# mutall.sh <id> <A|B> [tier]: apply the mutant to its scratch worktree /tmp/mut/<id> and run EVERY
# claimed check from the scratch copy /tmp/vm of /verif against it (VERIF_REPO). /repo is not touched.
# Writes /tmp/mut/out/<id>/<v>/matrix_<tier>.txt (one line per property).
id=$1; v=$2; tier=${3:-quick}
MUT=${MUT:-/tmp/mut}
wt=$MUT/$id; out=$MUT/out/$id/$v
VM=${VM:-/tmp/vm}
exec 9>$VM.lock; flock 9
rm -rf ${VM}_src && mkdir -p ${VM}_src $VM && git -C /verif archive ${VERIF_REV:-HEAD} | tar -x -C ${VM}_src
rsync -a --delete --exclude .work --exclude lean/.lake --exclude replay ${VM}_src/ $VM/
mkdir -p $VM/.work
cd $wt && git checkout -q -- . && git clean -fdq && git apply $out/patch.diff || { echo "cannot apply"; exit 2; }
cd $VM
ids=$(python3 -c "import json;print(' '.join(c['property_id'] for c in json.load(open('MANIFEST.json'))['checks']))")
export VERIF_REPO=$wt
printf '%s\n' $ids | xargs -P ${PAR:-5} -I{} sh -c "timeout 3000 ./check {} --tier $tier > $out/check_{}_$tier.log 2>&1; echo {} rc=\$? \$(grep -m1 VIOLATION $out/check_{}_$tier.log) :: \$(tail -1 $out/check_{}_$tier.log | cut -c1-160)" | sort > $out/matrix_$tier.txt
cd $wt && git checkout -q -- . && git clean -fdq
echo "== $id/$v caught by: $(grep -v 'rc=0' $out/matrix_$tier.txt | cut -d' ' -f1 | tr '\n' ' ')"
