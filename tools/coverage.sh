#!/bin/bash
# coverage.sh: run every quick workload on a coverage-instrumented build of the harness and list the
# functions of the library (core, token, hlfcreator, keys) that were never entered.
# Output: /tmp/vcov/func.txt (go tool covdata func), /tmp/vcov/uncovered.txt
export GOFLAGS=-mod=mod GOPROXY=off GOSUMDB=off GOTOOLCHAIN=local CORE_CHAINCODE_LOGGING_LEVEL=critical
rm -rf /tmp/vcov && mkdir -p /tmp/vcov/data /tmp/vcov/out
cd /verif/harness && go build -tags verif -cover -coverpkg=all -o /tmp/vcov/vh ./cmd/vh || exit 2
for wl in C01 C02 C03 C04 C05 C06 C07 C08 C09 C10 C11 C12 C13 C14 C15 C16 C17 C18 C19 C20 SYS LAPI FBATCH; do
  GOCOVERDIR=/tmp/vcov/data timeout 1800 /tmp/vcov/vh run $wl -tier quick -seed 1 -out /tmp/vcov/out > /dev/null 2>&1
  echo "$wl rc=$?"
done
go tool covdata func -i=/tmp/vcov/data 2>/dev/null | grep 'anoideaopen/foundation/\(core\|token\|hlfcreator\|keys\)' > /tmp/vcov/func.txt
grep -v '_test.go\|/mocks\|/proto/\|verif_export' /tmp/vcov/func.txt | awk '$NF=="0.0%"' > /tmp/vcov/uncovered.txt
wc -l /tmp/vcov/func.txt /tmp/vcov/uncovered.txt
