#!/usr/bin/env python3
"""Copy confirmed seeded changes from /tmp/mut/out/<id>/<v>/ to /verif/seeded/<id>-<v>/.
A change is kept only if confirm.json (written by tools/confirm_mutant.sh, i.e. re-checked by us in a
scratch worktree) says: demo passes without the patch, fails with it, library builds, the unedited
suite passes with it. meta.json gets what was run and which checks caught the change."""
import json, os, re, shutil, sys
SRC, DST = os.environ.get("MUT", "/tmp/mut") + "/out", "/verif/seeded"
kept = []


def matrix(d):
    caught = {}
    for tier in ("quick", "thorough"):
        mp = os.path.join(d, "matrix_%s.txt" % tier)
        if os.path.isfile(mp):
            rows = {}
            for line in open(mp):
                m = re.match(r"(C\d+) rc=(\d+)(.*)", line)
                if m:
                    rows[m.group(1)] = {"rc": int(m.group(2)), "no_failing_input": "no-failing-input-found" in m.group(3)}
            if rows:
                caught[tier] = {"caught_by": sorted(k for k, r in rows.items() if r["rc"] == 1),
                                "with_concrete_replay": sorted(k for k, r in rows.items() if r["rc"] == 1 and not r["no_failing_input"]),
                                "checks_run": len(rows)}
    return caught


for pid in sorted(os.listdir(SRC)):
    if not re.match(r"C\d+$", pid):
        continue
    for v in ("A", "B", "C", "D", "E", "F", "G", "H"):
        d = os.path.join(SRC, pid, v)
        cj = os.path.join(d, "confirm.json")
        if not (os.path.isfile(cj) and os.path.isfile(os.path.join(d, "patch.diff")) and os.path.isfile(os.path.join(d, "meta.json"))):
            # a change kept earlier, re-run against the current checks: refresh the matrix only
            mj = os.path.join(DST, "%s-%s" % (pid, v), "meta.json")
            if os.path.isfile(mj) and matrix(d):
                meta = json.load(open(mj))
                meta["checks"] = matrix(d)
                json.dump(meta, open(mj, "w"), indent=1, sort_keys=True)
                print("matrix refreshed", pid, v)
            continue
        c = json.load(open(cj))
        ok = c["demo_without_rc"] == 0 and c["demo_with_rc"] != 0 and c["build_rc"] == 0 and c["suite_with_rc"] == 0
        if not ok:
            print("NOT KEPT", pid, v, c)
            continue
        out = os.path.join(DST, "%s-%s" % (pid, v))
        os.makedirs(out, exist_ok=True)
        shutil.copyfile(os.path.join(d, "patch.diff"), os.path.join(out, "patch.diff"))
        if os.path.isdir(os.path.join(out, "demo")):
            shutil.rmtree(os.path.join(out, "demo"))
        shutil.copytree(os.path.join(d, "demo"), os.path.join(out, "demo"))
        try:
            meta = json.load(open(os.path.join(d, "meta.json")))
        except Exception as e:  # sub-agent wrote something unparsable: keep the text
            meta = {"raw": open(os.path.join(d, "meta.json")).read()}
        meta["breaks_property"] = pid
        meta["confirmed"] = {
            "how": "tools/confirm_mutant.sh in a scratch worktree of /repo HEAD: demo_cmd without the patch, demo_cmd with the patch, go build of the library packages, then the unedited suite (go test ./core/... ./token/... ./hlfcreator/... ./version/... ./test/unit/...) with the patch and without the demo files",
            "result": c}
        caught = matrix(d)
        if caught:
            meta["checks"] = caught
            meta["checks_how"] = "tools/mutall.sh: patch applied in a scratch worktree, every registered check run from a copy of /verif with VERIF_REPO pointing at the worktree"
        json.dump(meta, open(os.path.join(out, "meta.json"), "w"), indent=1, sort_keys=True)
        kept.append("%s-%s" % (pid, v))
print("kept:", " ".join(kept))
