#!/bin/bash
# run_benign.sh [tier]: every registered check against every behaviour-preserving patch in /verif/benign
# (each applied in a scratch worktree of /repo under /tmp; /repo itself is not touched). Expected: no alarm.
tier=${1:-quick}
wt=/tmp/benign_wt; vm=/tmp/benign_vm
git -C /repo worktree remove --force $wt 2>/dev/null; git -C /repo worktree add --detach $wt HEAD >/dev/null || exit 2
mkdir -p $vm && rsync -a --delete --exclude .git --exclude .work --exclude lean/.lake --exclude replay /verif/ $vm/ && mkdir -p $vm/.work
ids=$(python3 -c "import json;print(' '.join(c['property_id'] for c in json.load(open('/verif/MANIFEST.json'))['checks']))")
for d in /verif/benign/*/; do
  n=$(basename $d)
  (cd $wt && git checkout -q -- . && git clean -fdq && git apply $d/patch.diff) || { echo "$n: patch does not apply"; continue; }
  alarms=$(cd $vm && printf '%s\n' $ids | VERIF_REPO=$wt xargs -P 5 -I{} sh -c "./check {} --tier $tier > .work/benign_{}.log 2>&1 || echo {}" | tr '\n' ' ')
  echo "$n alarms: $alarms"
done
git -C /repo worktree remove --force $wt; rm -rf $vm
