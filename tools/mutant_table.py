#!/usr/bin/env python3
"""Print the markdown table of seeded changes (seeded/*/meta.json) for DESIGN.md §10.8."""
import json, glob, os, re
rows = []
for f in sorted(glob.glob(os.path.join(os.path.dirname(__file__), "..", "seeded", "*", "meta.json"))):
    m = json.load(open(f))
    name = os.path.basename(os.path.dirname(f))
    q = m.get("checks", {}).get("quick", {})
    own = m.get("breaks_property")
    caught = q.get("caught_by", [])
    conc = q.get("with_concrete_replay", [])
    summ = re.sub(r"\s+", " ", m.get("summary", m.get("raw", "")))[:230]
    files = ", ".join(m.get("files_touched", [])[:3]) if isinstance(m.get("files_touched"), list) else str(m.get("files_touched"))
    oh = m.get("own_check_at_head")
    if oh is not None:       # the property's own check re-run against the change at the final state of /verif
        caught = sorted(set(caught) | ({own} if oh["rc"] == 1 else set()) - (set() if oh["rc"] == 1 else {own}))
        conc = sorted(set(conc) | ({own} if oh["rc"] == 1 and not oh.get("no_failing_input") else set()))
    mark = "yes" if own in caught else "**no**"
    others = " ".join(c for c in caught if c != own) or "–"
    rows.append("| %s | %s | %s | %s%s | %s |" % (name, files, summ.replace("|", "/"), mark, "" if own not in caught or own in conc else " (tie only)", others))
print("| change | files | what it does | caught by its own check | also caught by |")
print("|---|---|---|---|---|")
print("\n".join(rows))
