#!/bin/bash
# mutrun.sh <id> <A|B> <tier> <prop>...: apply the mutant to its scratch worktree and run the given
# checks from the scratch copy /tmp/vm of /verif against that worktree (VERIF_REPO). /repo is not touched.
id=$1; v=$2; tier=$3; shift 3
wt=/tmp/mut/$id; out=/tmp/mut/out/$id/$v
exec 9>/tmp/vm.lock; flock 9
cd $wt && git checkout -q -- . && git clean -fdq && git apply $out/patch.diff || { echo "cannot apply"; exit 2; }
cd /tmp/vm
for p in "$@"; do
  VERIF_REPO=$wt timeout 3000 ./check $p --tier $tier > $out/check_${p}_$tier.log 2>&1; rc=$?
  echo "$id/$v $p rc=$rc :: $(grep -m1 VIOLATION $out/check_${p}_$tier.log) :: $(tail -1 $out/check_${p}_$tier.log)"
done
cd $wt && git checkout -q -- . && git clean -fdq
