#!/bin/bash
# sweep_par.sh <tier> <seed> <par> <prop>...: the given checks at the tier/seed, <par> at a time
cd "$(dirname "$0")/.."
tier=$1; seed=$2; par=$3; shift 3
./check --setup >/dev/null 2>&1
printf '%s\n' "$@" | xargs -P $par -I{} sh -c "./check {} --tier $tier --seed $seed 2>&1 | grep -E 'VIOLATION|tier=' | cut -c1-220"
