#!/bin/bash
# sweep_some.sh <tier> <seed> <prop>...: the given checks at the tier/seed, sequentially
cd "$(dirname "$0")/.."
tier=$1; seed=$2; shift 2
./check --setup >/dev/null 2>&1
for p in "$@"; do ./check $p --tier $tier --seed $seed 2>&1 | grep -E 'VIOLATION|KNOWN|tier=' | cut -c1-220; done
