#!/bin/bash
# run_on_mutant.sh <patch> <prop> [tier] [seed]: apply the patch to /repo, run ./check <prop>, undo.
# Holds an exclusive lock so that only one mutant is applied to /repo at a time.
patch=$1; prop=$2; tier=${3:-quick}; seed=${4:-1}
exec 9>/verif/.work/repo.lock; flock 9
cd /repo || exit 2
if ! git diff --quiet; then echo "/repo has uncommitted changes"; exit 2; fi
git apply "$patch" || { echo "patch does not apply to /repo"; exit 2; }
cd /verif; ./check $prop --tier $tier --seed $seed; rc=$?
git -C /repo checkout -- .
# regenerate facts for the unchanged tree so later builds are no-ops
exit $rc
