#!/usr/bin/env python3
"""Rewrites the seeded-changes table in DESIGN.md (between the seeded-table markers)."""
import subprocess, os
root = os.path.join(os.path.dirname(os.path.abspath(__file__)), "..")
t = subprocess.run(["python3", os.path.join(root, "tools", "mutant_table.py")], capture_output=True, text=True).stdout
p = os.path.join(root, "DESIGN.md")
s = open(p).read()
a, b = "<!-- seeded-table:begin -->", "<!-- seeded-table:end -->"
i, j = s.index(a), s.index(b)
s = s[:i] + a + "\n" + t + s[j:]
open(p, "w").write(s)
