#!/usr/bin/env python3
"""Merge /tmp/mutown/out/<id>-<v>.txt (tools/mutown.sh) into seeded/<id>-<v>/meta.json as own_check_at_head."""
import json, os, glob
for f in sorted(glob.glob("/tmp/mutown/out/*.txt")):
    name = os.path.basename(f)[:-4]
    mj = os.path.join("/verif/seeded", name, "meta.json")
    if not os.path.isfile(mj):
        continue
    parts = open(f).read().strip().split(" ", 2)
    m = json.load(open(mj))
    m["own_check_at_head"] = {"rc": int(parts[0]), "verif_rev": parts[1], "line": parts[2] if len(parts) > 2 else "",
                              "no_failing_input": "no-failing-input-found" in (parts[2] if len(parts) > 2 else "")}
    json.dump(m, open(mj, "w"), indent=1, sort_keys=True)
    print(name, parts[0])
