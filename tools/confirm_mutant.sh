#!/bin/bash
# confirm_mutant.sh <id> <A|B>: in the scratch worktree /tmp/mut/<id>, confirm that the demo passes
# without the patch, fails with it, and that the pinned unit suite still passes with it.
# Writes /tmp/mut/out/<id>/<v>/confirm.json
id=$1; v=$2
MUT=${MUT:-/tmp/mut}
wt=$MUT/$id; out=$MUT/out/$id/$v
export GOFLAGS=-mod=mod GOPROXY=off GOSUMDB=off GOTOOLCHAIN=local CORE_CHAINCODE_LOGGING_LEVEL=critical
cd $wt || exit 2
git checkout -q -- . ; git clean -fdq
[ -f $out/patch.diff ] || { echo "no patch"; exit 2; }
cp -r $out/demo/. $wt/
cmd=$(python3 -c "import json;print(json.load(open('$out/meta.json'))['demo_cmd'])")
( eval "$cmd" ) > $out/confirm_demo_without.log 2>&1; r1=$?
git apply $out/patch.diff || { echo "patch does not apply"; exit 2; }
( eval "$cmd" ) > $out/confirm_demo_with.log 2>&1; r2=$?
# move demo files away for the suite run (the suite must pass *unedited*)
(cd $out/demo && find . -type f) | while read f; do rm -f "$wt/$f"; done
go build ./core/... ./token/... ./hlfcreator/... ./keys/... ./proto/... > $out/confirm_build.log 2>&1; rb=$?
go test -vet=off -count=1 -timeout 20m ./core/... ./token/... ./hlfcreator/... ./version/... ./test/unit/... > $out/confirm_suite.log 2>&1; r3=$?
git checkout -q -- . ; git clean -fdq
echo "{\"demo_without_rc\": $r1, \"demo_with_rc\": $r2, \"build_rc\": $rb, \"suite_with_rc\": $r3}" > $out/confirm.json
cat $out/confirm.json
