#!/bin/bash
# mutdev.sh <id> <A|B> <tier> <prop>...: like mutall.sh but from the WORKING TREE of /verif (scratch copy
# /tmp/vm2) and only for the given properties - for developing a check against a seeded change.
id=$1; v=$2; tier=$3; shift 3
MUT=${MUT:-/tmp/mut}
wt=$MUT/$id; out=$MUT/out/$id/$v
exec 8>/tmp/vm2.lock; flock 8
mkdir -p /tmp/vm2
rsync -a --delete --exclude .git --exclude .work --exclude lean/.lake --exclude replay /verif/ /tmp/vm2/
mkdir -p /tmp/vm2/.work
cd $wt && git checkout -q -- . && git clean -fdq && git apply $out/patch.diff || { echo "cannot apply"; exit 2; }
cd /tmp/vm2
for p in "$@"; do
  VERIF_REPO=$wt timeout 3000 ./check $p --tier $tier > /tmp/vm2/.work/dev_$p.log 2>&1; rc=$?
  echo "$id/$v $p rc=$rc :: $(grep -m1 VIOLATION /tmp/vm2/.work/dev_$p.log | cut -c1-200) :: $(tail -1 /tmp/vm2/.work/dev_$p.log | cut -c1-160)"
done
cd $wt && git checkout -q -- . && git clean -fdq
