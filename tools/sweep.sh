#!/bin/bash
# sweep.sh <tier> <seed>...: every claimed check at the tier for each seed, sequentially; prints summary lines
cd "$(dirname "$0")/.."
tier=$1; shift
./check --setup >/dev/null 2>&1
ids=$(python3 -c "import json;print(' '.join(c['property_id'] for c in json.load(open('MANIFEST.json'))['checks']))")
for s in "$@"; do for p in $ids; do ./check $p --tier $tier --seed $s 2>&1 | grep -E 'VIOLATION|KNOWN|tier=' ; done; done
