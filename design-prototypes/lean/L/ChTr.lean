/-! C10 prototype (forward direction, one user, many ids): origin ledger A, destination ledger B.
    Shows the multi-id invariant technique: ghost log of ids (nodup) + sum over the log. -/
namespace ChTr
abbrev Id := Nat

structure FromRec where
  amount : Int
  committed : Bool
deriving DecidableEq

structure S where
  fromRec  : Id → Option FromRec
  toRec    : Id → Option Int          -- amount credited
  balA     : Int                      -- user's token balance on the origin
  givenA   : Int                      -- given[B] on the origin
  allowedB : Int                      -- user's allowed balance on the destination
  log      : List Id                  -- ghost: ids ever used (monotone history)

def upd {β} (f : Id → β) (k : Id) (b : β) : Id → β := fun k' => if k' = k then b else f k'

inductive Step where
  | createFrom (id : Id) (a : Int)     -- user (batched)
  | createTo (id : Id)                 -- robot, copies the origin record
  | commit (id : Id) | deleteTo (id : Id) | deleteFrom (id : Id) | cancel (id : Id)

/-- code guards + effects (literal); `none` = rejected without effect -/
def step (s : S) : Step → Option S
  | .createFrom id a =>
    if s.fromRec id = none ∧ 0 ≤ a ∧ a ≤ s.balA then
      some { s with fromRec := upd s.fromRec id (some ⟨a, false⟩), balA := s.balA - a, givenA := s.givenA + a,
                    log := if id ∈ s.log then s.log else id :: s.log }
    else none
  | .createTo id =>
    match s.fromRec id, s.toRec id with
    | some r, none => some { s with toRec := upd s.toRec id (some r.amount), allowedB := s.allowedB + r.amount }
    | _, _ => none
  | .commit id =>
    match s.fromRec id with
    | some ⟨a, false⟩ => some { s with fromRec := upd s.fromRec id (some ⟨a, true⟩) }
    | _ => none
  | .deleteTo id =>
    match s.toRec id with
    | some _ => some { s with toRec := upd s.toRec id none }
    | none => none
  | .deleteFrom id =>
    match s.fromRec id with
    | some ⟨_, true⟩ => some { s with fromRec := upd s.fromRec id none }
    | _ => none
  | .cancel id =>
    match s.fromRec id with
    | some ⟨a, false⟩ => some { s with fromRec := upd s.fromRec id none, balA := s.balA + a, givenA := s.givenA - a }
    | _ => none

/-- protocol: what the robot may do, as a function of both ledgers (user steps always allowed) -/
def allowed (s : S) : Step → Bool
  | .createFrom _ _ => true
  | .createTo id => (match s.fromRec id with | some ⟨_, false⟩ => true | _ => false) && (s.toRec id).isNone
  | .commit id => (s.toRec id).isSome
  | .deleteTo id => (match s.fromRec id with | some ⟨_, true⟩ => true | _ => false)
  | .deleteFrom id => (s.toRec id).isNone
  | .cancel id => (s.toRec id).isNone

/-- units of id that left the origin balance but are not (yet) credited -/
def inflight (s : S) (id : Id) : Int :=
  match s.fromRec id, s.toRec id with
  | some ⟨a, false⟩, none => a
  | _, _ => 0

def total (s : S) : Int := (s.log.map (inflight s)).sum

structure Inv (K : Int) (s : S) : Prop where
  nodup : s.log.Nodup
  logged : ∀ id, s.fromRec id ≠ none ∨ s.toRec id ≠ none → id ∈ s.log
  -- a destination record only exists next to an origin record of the same amount (protocol)
  paired : ∀ id a, s.toRec id = some a → ∃ c, s.fromRec id = some ⟨a, c⟩
  value : s.balA + s.allowedB + total s = K
  nonneg : 0 ≤ total s

theorem sum_map_congr_except (l : List Id) (f g : Id → Int) (id : Id)
    (h : ∀ k, k ≠ id → f k = g k) (hn : l.Nodup) (hm : id ∈ l) :
    (l.map g).sum = (l.map f).sum - f id + g id := by
  induction l with
  | nil => simp at hm
  | cons x xs ih =>
    simp only [List.map_cons, List.sum_cons]
    have hnx := (List.nodup_cons.mp hn)
    by_cases hx : x = id
    · subst hx
      have : xs.map g = xs.map f := by
        apply List.map_congr_left
        intro k hk
        have : k ≠ x := by intro e; subst e; exact hnx.1 hk
        exact (h k this).symm
      rw [this]; omega
    · have hm' : id ∈ xs := by
        rcases List.mem_cons.mp hm with e | e
        · exact absurd e.symm hx
        · exact e
      rw [ih hnx.2 hm', h x hx]; omega

theorem sum_map_congr_all (l : List Id) (f g : Id → Int) (h : ∀ k ∈ l, f k = g k) :
    (l.map g).sum = (l.map f).sum := by
  rw [List.map_congr_left (fun k hk => (h k hk).symm)]

end ChTr
