/-! C12 prototype: BatchCacheStub / TxCacheStub as function stores, refinement to a plain map. -/
namespace Cache
abbrev Key := String
abbrev Val := List UInt8   -- [] = absent

inductive W where | put (v : Val) | del
deriving Repr, DecidableEq

def W.read : W → Val | .put v => v | .del => []

structure St where
  ledger : Key → Val
  rd     : Key → Option Val     -- batchReadeCache
  bw     : Key → Option W       -- batchWriteCache
  tw     : Key → Option W       -- txWriteCache

def upd {β} (f : Key → β) (k : Key) (b : β) : Key → β := fun k' => if k' = k then b else f k'

@[simp] theorem upd_same {β} (f : Key → β) k b : upd f k b k = b := by simp [upd]
theorem upd_other {β} (f : Key → β) k k' b (h : k' ≠ k) : upd f k b k' = f k' := by simp [upd, h]

inductive Op where | get (k : Key) | put (k : Key) (v : Val) | del (k : Key)

def batchGet (s : St) (k : Key) : St × Val :=
  match s.bw k with
  | some w => (s, w.read)
  | none => match s.rd k with
    | some v => (s, v)
    | none => ({ s with rd := upd s.rd k (some (s.ledger k)) }, s.ledger k)

def txStep (s : St) : Op → St × Option Val
  | .get k => match s.tw k with
    | some w => (s, some w.read)
    | none => let r := batchGet s k; (r.1, some r.2)
  | .put k v => ({ s with tw := upd s.tw k (some (.put v)) }, none)
  | .del k => ({ s with tw := upd s.tw k (some .del) }, none)

def txRun (s : St) : List Op → St × List (Option Val)
  | [] => (s, [])
  | op :: ops => let r := txStep s op; let r2 := txRun r.1 ops; (r2.1, r.2 :: r2.2)

def txCommit (s : St) : St :=
  { s with bw := fun k => match s.tw k with | some w => some w | none => s.bw k, tw := fun _ => none }
def txDiscard (s : St) : St := { s with tw := fun _ => none }

def batchCommit (s : St) : Key → Val := fun k =>
  match s.bw k with | some w => w.read | none => s.ledger k

/-- committed view and transaction view -/
def cview (s : St) (k : Key) : Val := match s.bw k with | some w => w.read | none => s.ledger k
def view (s : St) (k : Key) : Val := match s.tw k with | some w => w.read | none => cview s k

def Inv (s : St) : Prop := ∀ k v, s.rd k = some v → v = s.ledger k

/-- spec: a plain map -/
def specStep (m : Key → Val) : Op → (Key → Val) × Option Val
  | .get k => (m, some (m k))
  | .put k v => (upd m k v, none)
  | .del k => (upd m k [], none)
def specRun (m : Key → Val) : List Op → (Key → Val) × List (Option Val)
  | [] => (m, [])
  | op :: ops => let r := specStep m op; let r2 := specRun r.1 ops; (r2.1, r.2 :: r2.2)

theorem batchGet_props (s : St) (h : Inv s) (k : Key) :
    (batchGet s k).2 = cview s k ∧ Inv (batchGet s k).1 ∧
    (batchGet s k).1.ledger = s.ledger ∧ (batchGet s k).1.bw = s.bw ∧ (batchGet s k).1.tw = s.tw := by
  unfold batchGet cview
  cases h2 : s.bw k <;> simp
  · cases h3 : s.rd k <;> simp
    · intro k' v hv
      by_cases hk : k' = k
      · subst hk; simp at hv; exact hv.symm
      · simp only [upd_other _ _ _ _ hk] at hv; exact h k' v hv
    · exact ⟨h k _ h3, h⟩
  · exact h

theorem txStep_props (s : St) (h : Inv s) (op : Op) :
    (txStep s op).2 = (specStep (view s) op).2 ∧
    view (txStep s op).1 = (specStep (view s) op).1 ∧
    cview (txStep s op).1 = cview s ∧ Inv (txStep s op).1 ∧ (txStep s op).1.ledger = s.ledger := by
  cases op with
  | get k =>
    cases h1 : s.tw k with
    | some w => simp [txStep, specStep, view, h1, h]
    | none =>
      obtain ⟨a, b, c, d, e⟩ := batchGet_props s h k
      have hs : txStep s (.get k) = ((batchGet s k).1, some (batchGet s k).2) := by simp [txStep, h1]
      rw [hs]
      refine ⟨by simp [specStep, a, view, h1], ?_, ?_, b, c⟩
      · funext k'; simp [specStep, view, cview, c, d, e]
      · funext k'; simp [cview, c, d]
  | put k v =>
    unfold txStep specStep
    refine ⟨rfl, ?_, ?_, h, rfl⟩
    · funext k'
      by_cases hk : k' = k
      · subst hk; simp [view, W.read]
      · simp [view, upd_other _ _ _ _ hk, cview]
    · funext k'; simp [cview]
  | del k =>
    unfold txStep specStep
    refine ⟨rfl, ?_, ?_, h, rfl⟩
    · funext k'
      by_cases hk : k' = k
      · subst hk; simp [view, W.read]
      · simp [view, upd_other _ _ _ _ hk, cview]
    · funext k'; simp [cview]

theorem txRun_props (ops : List Op) : ∀ (s : St), Inv s →
    (txRun s ops).2 = (specRun (view s) ops).2 ∧
    view (txRun s ops).1 = (specRun (view s) ops).1 ∧
    cview (txRun s ops).1 = cview s ∧ Inv (txRun s ops).1 ∧ (txRun s ops).1.ledger = s.ledger := by
  induction ops with
  | nil => intro s h; simp [txRun, specRun, h]
  | cons op ops ih =>
    intro s h
    obtain ⟨a, b, c, d, e⟩ := txStep_props s h op
    obtain ⟨a2, b2, c2, d2, e2⟩ := ih (txStep s op).1 d
    simp only [txRun, specRun]
    refine ⟨by rw [a, a2, b], by rw [b2, b], by rw [c2, c], d2, by rw [e2, e]⟩

/-- a transaction: its ops and whether it is committed (method returned nil) or discarded -/
structure Tx where
  ops : List Op
  commit : Bool

def runTx (s : St) (t : Tx) : St × List (Option Val) :=
  let r := txRun s t.ops
  (if t.commit then txCommit r.1 else txDiscard r.1, r.2)

def runTxs (s : St) : List Tx → St × List (List (Option Val))
  | [] => (s, [])
  | t :: ts => let r := runTx s t; let r2 := runTxs r.1 ts; (r2.1, r.2 :: r2.2)

/-- serial spec: each transaction on a scratch copy that replaces the map only on commit -/
def specTx (m : Key → Val) (t : Tx) : (Key → Val) × List (Option Val) :=
  let r := specRun m t.ops
  (if t.commit then r.1 else m, r.2)
def specTxs (m : Key → Val) : List Tx → (Key → Val) × List (List (Option Val))
  | [] => (m, [])
  | t :: ts => let r := specTx m t; let r2 := specTxs r.1 ts; (r2.1, r.2 :: r2.2)

def Fresh (s : St) : Prop := ∀ k, s.tw k = none

theorem view_eq_cview_of_fresh {s : St} (h : Fresh s) : view s = cview s := by
  funext k; simp [view, h k]

theorem runTx_props (s : St) (h : Inv s) (hf : Fresh s) (t : Tx) :
    (runTx s t).2 = (specTx (cview s) t).2 ∧ cview (runTx s t).1 = (specTx (cview s) t).1 ∧
    Inv (runTx s t).1 ∧ Fresh (runTx s t).1 ∧ (runTx s t).1.ledger = s.ledger := by
  obtain ⟨a, b, c, d, e⟩ := txRun_props t.ops s h
  rw [view_eq_cview_of_fresh hf] at a b
  unfold runTx specTx
  cases hc : t.commit
  · simp only [Bool.false_eq_true, if_false]
    refine ⟨a, ?_, d, by intro k; rfl, e⟩
    rw [← c]; funext k; simp [cview, txDiscard]
  · simp only [if_true]
    refine ⟨a, ?_, d, by intro k; rfl, e⟩
    rw [← b]; funext k
    simp only [cview, view, txCommit]
    cases (txRun s t.ops).1.tw k <;> rfl

/-- C12 main theorem: any sequence of committed/discarded transactions behaves like the plain map,
    for reads and for the ledger written at batch commit. -/
theorem cache_refines_map (ts : List Tx) : ∀ (s : St), Inv s → Fresh s →
    (runTxs s ts).2 = (specTxs (cview s) ts).2 ∧
    batchCommit (runTxs s ts).1 = (specTxs (cview s) ts).1 := by
  induction ts with
  | nil => intro s _ _; exact ⟨rfl, rfl⟩
  | cons t ts ih =>
    intro s h hf
    obtain ⟨a, b, c, d, _⟩ := runTx_props s h hf t
    obtain ⟨a2, b2⟩ := ih (runTx s t).1 c d
    simp only [runTxs, specTxs]
    exact ⟨by rw [a, a2, b], by rw [b2, b]⟩

/-- starting from a fresh batch stub over `ledger`, the committed ledger is the serial result -/
def init (ledger : Key → Val) : St := ⟨ledger, fun _ => none, fun _ => none, fun _ => none⟩

theorem batch_equals_serial (ledger : Key → Val) (ts : List Tx) :
    (runTxs (init ledger) ts).2 = (specTxs ledger ts).2 ∧
    batchCommit (runTxs (init ledger) ts).1 = (specTxs ledger ts).1 := by
  have h := cache_refines_map ts (init ledger) (by intro k v h; simp [init] at h) (by intro k; rfl)
  have hc : cview (init ledger) = ledger := by funext k; rfl
  rw [hc] at h
  exact h

end Cache
