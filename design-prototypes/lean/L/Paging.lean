/-! C20 prototype: following bookmarks yields every key of the range exactly once, in order. Keys = Nat here;
    the framework version is generic over a linear order (String). -/
namespace Paging

abbrev Sorted (l : List Nat) : Prop := List.Pairwise (· < ·) l

/-- one paginated range read, as `GetStateByRangeWithPagination` does it: iterate keys ≥ start,
    return `size` of them and the next key as bookmark (none = ""). `R` = keys of the range, sorted. -/
def page (R : List Nat) (start : Option Nat) (size : Nat) : List Nat × Option Nat :=
  let rest := match start with
    | none => R
    | some b => R.filter (fun k => decide (b ≤ k))
  (rest.take size, (rest.drop size).head?)

/-- client loop: follow bookmarks until it is empty -/
def collect (R : List Nat) (size : Nat) : Nat → Option Nat → List Nat
  | 0, _ => []
  | fuel+1, start =>
    let r := page R start size
    match r.2 with
    | none => r.1
    | some b => r.1 ++ collect R size fuel (some b)

theorem filter_ge_suffix : ∀ (pre S : List Nat) (b : Nat), Sorted (pre ++ b :: S) →
    (pre ++ b :: S).filter (fun k => decide (b ≤ k)) = b :: S := by
  intro pre
  induction pre with
  | nil =>
    intro S b h
    simp only [List.nil_append] at h ⊢
    have hS : ∀ x ∈ S, b < x := (List.pairwise_cons.mp h).1
    rw [List.filter_cons]
    simp only [Nat.le_refl, decide_true, if_true]
    congr 1
    apply List.filter_eq_self.mpr
    intro x hx
    have := hS x hx
    exact decide_eq_true (by omega)
  | cons p pre ih =>
    intro S b h
    have hp : p < b := by
      have := (List.pairwise_cons.mp h).1 b (by simp)
      exact this
    have h' : Sorted (pre ++ b :: S) := (List.pairwise_cons.mp h).2
    simp only [List.cons_append]
    rw [List.filter_cons]
    have : decide (b ≤ p) = false := decide_eq_false (by omega)
    simp only [this, Bool.false_eq_true, if_false]
    exact ih S b h'

/-- from any suffix of the range, the loop returns exactly that suffix -/
theorem collect_suffix (size : Nat) (hsz : 1 ≤ size) :
    ∀ (n : Nat) (pre S : List Nat) (b : Nat), (b :: S).length ≤ n → Sorted (pre ++ b :: S) →
      collect (pre ++ b :: S) size (n + 1) (some b) = b :: S := by
  intro n
  induction n with
  | zero => intro pre S b hlen _; simp at hlen
  | succ n ih =>
    intro pre S b hlen hs
    unfold collect
    simp only [page]
    rw [filter_ge_suffix pre S b hs]
    cases hd : ((b :: S).drop size).head? with
    | none =>
      simp only
      have : (b :: S).drop size = [] := by simpa using hd
      have hle : (b :: S).length ≤ size := by simpa using List.drop_eq_nil_iff.mp this
      exact List.take_of_length_le hle
    | some b' =>
      simp only
      -- the remaining part is itself a suffix starting at b'
      obtain ⟨S', hS'⟩ : ∃ S', (b :: S).drop size = b' :: S' := by
        cases hdr : (b :: S).drop size with
        | nil => simp [hdr] at hd
        | cons x xs => simp [hdr] at hd; exact ⟨xs, by rw [hd]⟩
      have hsplit : pre ++ b :: S = (pre ++ (b :: S).take size) ++ b' :: S' := by
        rw [List.append_assoc, ← hS', List.take_append_drop]
      have hlen' : (b' :: S').length ≤ n := by
        have h1 : ((b :: S).drop size).length = (b :: S).length - size := List.length_drop
        rw [hS'] at h1
        omega
      have := ih (pre ++ (b :: S).take size) S' b' hlen' (by rw [← hsplit]; exact hs)
      rw [← hsplit] at this
      -- fuel: n+1 here
      rw [this, ← hS', List.take_append_drop]

/-- C20: listing page by page from the empty bookmark yields the whole range once, in order -/
theorem paging_complete (R : List Nat) (size : Nat) (hsz : 1 ≤ size) (hs : Sorted R) :
    collect R size (R.length + 1) none = R := by
  unfold collect
  simp only [page]
  cases hd : (R.drop size).head? with
  | none =>
    simp only
    have : R.drop size = [] := by simpa using hd
    exact List.take_of_length_le (List.drop_eq_nil_iff.mp this)
  | some b =>
    simp only
    obtain ⟨S, hS⟩ : ∃ S, R.drop size = b :: S := by
      cases hdr : R.drop size with
      | nil => simp [hdr] at hd
      | cons x xs => simp [hdr] at hd; exact ⟨xs, by rw [hd]⟩
    have hsplit : R = R.take size ++ b :: S := by rw [← hS, List.take_append_drop]
    have hlen : (b :: S).length ≤ R.length - 1 := by
      have h1 : (R.drop size).length = R.length - size := List.length_drop
      rw [hS] at h1; omega
    have hR : R.length = (R.length - 1) + 1 := by
      have : (R.drop size).length = R.length - size := List.length_drop
      rw [hS] at this; simp at this; omega
    have := collect_suffix size hsz (R.length - 1) (R.take size) S b hlen (by rw [← hsplit]; exact hs)
    rw [← hsplit] at this
    rw [hR, this, ← hS, List.take_append_drop]

example : collect [3, 5, 8, 13, 21] 2 6 none = [3, 5, 8, 13, 21] := by decide
end Paging
