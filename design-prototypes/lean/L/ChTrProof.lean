import L.ChTr
namespace ChTr

theorem upd_same {β} (f : Id → β) k b : upd f k b k = b := by simp [upd]
theorem upd_other {β} (f : Id → β) k k' b (h : k' ≠ k) : upd f k b k' = f k' := by simp [upd, h]

/-- if only id's records change, the total changes by the difference of id's inflight -/
theorem total_change (s s' : S) (id : Id) (hlog : s'.log = s.log) (hn : s.log.Nodup) (hm : id ∈ s.log)
    (hf : ∀ k, k ≠ id → s'.fromRec k = s.fromRec k) (ht : ∀ k, k ≠ id → s'.toRec k = s.toRec k) :
    total s' = total s - inflight s id + inflight s' id := by
  unfold total
  rw [hlog]
  apply sum_map_congr_except _ _ _ id _ hn hm
  intro k hk
  simp [inflight, hf k hk, ht k hk]

theorem inflight_nonneg_of (s : S) (id : Id) (h : ∀ r, s.fromRec id = some r → 0 ≤ r.amount) : 0 ≤ inflight s id := by
  unfold inflight
  split
  · rename_i a h1 h2; exact h ⟨a, false⟩ h1
  · exact Int.le_refl 0

end ChTr
