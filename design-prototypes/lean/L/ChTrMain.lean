import L.ChTrProof
namespace ChTr

structure Inv2 (K : Int) (s : S) : Prop where
  nodup : s.log.Nodup
  logged : ∀ id, s.fromRec id ≠ none ∨ s.toRec id ≠ none → id ∈ s.log
  paired : ∀ id a, s.toRec id = some a → ∃ c, s.fromRec id = some ⟨a, c⟩
  amt : ∀ id r, s.fromRec id = some r → 0 ≤ r.amount
  value : s.balA + s.allowedB + total s = K

/-- createTo: credit moves `inflight` into the destination balance -/
theorem createTo_pres {K s s'} (h : Inv2 K s) (id : Id) (ha : allowed s (.createTo id) = true)
    (hs : step s (.createTo id) = some s') : Inv2 K s' := by
  unfold step at hs
  unfold allowed at ha
  cases hf : s.fromRec id with
  | none => simp [hf] at hs
  | some r =>
    cases ht : s.toRec id with
    | some a => simp [hf, ht] at hs
    | none =>
      simp only [hf, ht, Option.some.injEq] at hs
      subst hs
      obtain ⟨a, c⟩ := r
      have hc : c = false := by
        cases c
        · rfl
        · simp [hf] at ha
      subst hc
      have hmem : id ∈ s.log := h.logged id (Or.inl (by simp [hf]))
      have hinf : inflight s id = a := by simp [inflight, hf, ht]
      have htot := total_change s
        { s with toRec := upd s.toRec id (some a), allowedB := s.allowedB + a } id rfl h.nodup hmem
        (by intro k _; rfl) (by intro k hk; exact upd_other _ _ _ _ hk)
      have hinf' : inflight { s with toRec := upd s.toRec id (some a), allowedB := s.allowedB + a } id = 0 := by
        simp [inflight, hf, upd_same]
      refine ⟨h.nodup, ?_, ?_, h.amt, ?_⟩
      · intro k hk
        by_cases hkid : k = id
        · subst hkid; exact hmem
        · apply h.logged k
          rcases hk with hk | hk
          · exact Or.inl hk
          · simp only [upd_other _ _ _ _ hkid] at hk; exact Or.inr hk
      · intro k b hk
        by_cases hkid : k = id
        · subst hkid
          simp only [upd_same, Option.some.injEq] at hk
          subst hk
          exact ⟨false, hf⟩
        · simp only [upd_other _ _ _ _ hkid] at hk
          exact h.paired k b hk
      · have := h.value
        simp only [] at htot ⊢
        rw [htot, hinf, hinf']
        omega

/-- cancel: refund is exactly the inflight amount; needs the protocol (destination absent) -/
theorem cancel_pres {K s s'} (h : Inv2 K s) (id : Id) (ha : allowed s (.cancel id) = true)
    (hs : step s (.cancel id) = some s') : Inv2 K s' := by
  unfold step at hs
  unfold allowed at ha
  cases hf : s.fromRec id with
  | none => simp [hf] at hs
  | some r =>
    obtain ⟨a, c⟩ := r
    cases c with
    | true => simp [hf] at hs
    | false =>
      simp only [hf, Option.some.injEq] at hs
      subst hs
      have ht : s.toRec id = none := by
        cases hto : s.toRec id with
        | none => rfl
        | some b => simp [hto] at ha
      have hmem : id ∈ s.log := h.logged id (Or.inl (by simp [hf]))
      have hinf : inflight s id = a := by simp [inflight, hf, ht]
      have htot := total_change s
        { s with fromRec := upd s.fromRec id none, balA := s.balA + a, givenA := s.givenA - a } id rfl h.nodup hmem
        (by intro k hk; exact upd_other _ _ _ _ hk) (by intro k _; rfl)
      have hinf' : inflight { s with fromRec := upd s.fromRec id none, balA := s.balA + a, givenA := s.givenA - a } id = 0 := by
        simp [inflight, upd_same]
      refine ⟨h.nodup, ?_, ?_, ?_, ?_⟩
      · intro k hk
        by_cases hkid : k = id
        · subst hkid; exact hmem
        · apply h.logged k
          rcases hk with hk | hk
          · simp only [upd_other _ _ _ _ hkid] at hk; exact Or.inl hk
          · exact Or.inr hk
      · intro k b hk
        by_cases hkid : k = id
        · subst hkid; simp [ht] at hk
        · obtain ⟨c, hc⟩ := h.paired k b hk
          exact ⟨c, by simp only [upd_other _ _ _ _ hkid]; exact hc⟩
      · intro k r hk
        by_cases hkid : k = id
        · subst hkid; simp [upd_same] at hk
        · simp only [upd_other _ _ _ _ hkid] at hk; exact h.amt k r hk
      · have := h.value
        simp only [] at htot ⊢
        rw [htot, hinf, hinf']
        omega

end ChTr
