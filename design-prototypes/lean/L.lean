import L.NonceMain
import L.Cache
import L.Paging
import L.ChTrMain
