import L
#print axioms Nonce.setNonce_refines
#print axioms Nonce.accept_iff
#print axioms Nonce.replay_rejected
#print axioms GoSort.search_spec
#print axioms Cache.cache_refines_map
#print axioms Cache.batch_equals_serial
#print axioms Paging.paging_complete
#print axioms ChTr.createTo_pres
#print axioms ChTr.cancel_pres
