// Package trace writes the line-protocol trace shared by the Go harness and the Lean driver:
// one "<op> => <observed>" line per operation, histories separated by reset ops.
package trace

import (
	"bufio"
	"crypto/sha256"
	"encoding/json"
	"fmt"
	"os"
	"sort"
	"strings"
)

type T struct {
	f        *os.File
	w        *bufio.Writer
	Lines    int
	hist     []string
	seen     map[[32]byte]struct{}
	Hist     int            // histories
	Distinct int            // distinct non-trivial histories
	Dist     map[string]int // input distribution counters
	Samples  []string
	maxSamp  int
	Notes    []string // harness-side oracle findings: "signature\tdetail"
}

func New(path string) (*T, error) {
	f, err := os.Create(path)
	if err != nil {
		return nil, err
	}
	return &T{f: f, w: bufio.NewWriterSize(f, 1<<20), seen: map[[32]byte]struct{}{}, Dist: map[string]int{}, maxSamp: 6}, nil
}

// Enc encodes a possibly empty token.
func Enc(s string) string {
	if s == "" {
		return "-"
	}
	return s
}

// Op records one operation and what the implementation did.
func (t *T) Op(op string, observed string) {
	line := op + " => " + Enc(observed)
	t.w.WriteString(line)
	t.w.WriteByte('\n')
	t.Lines++
	t.hist = append(t.hist, line)
	w := op
	if i := strings.IndexByte(op, ' '); i > 0 {
		w = op[:i]
	}
	t.Dist["op:"+w]++
	o := observed
	if strings.HasPrefix(o, "err ") {
		f := strings.Fields(o)
		o = "err_" + f[1]
	} else if i := strings.IndexAny(o, " ,:;="); i > 0 {
		o = o[:i]
	}
	if len(o) <= 20 && !strings.ContainsAny(o, "0123456789") {
		t.Dist["out:"+w+":"+Enc(o)]++
	}
}

// Count bumps a distribution counter.
func (t *T) Count(key string) { t.Dist[key]++ }

// End closes the current history; nontrivial says whether it counts by the property's rule.
func (t *T) End(nontrivial bool) {
	if len(t.hist) == 0 {
		return
	}
	t.Hist++
	if nontrivial {
		h := sha256.Sum256([]byte(strings.Join(t.hist, "\n")))
		if _, ok := t.seen[h]; !ok {
			t.seen[h] = struct{}{}
			t.Distinct++
			if len(t.Samples) < t.maxSamp && (t.Distinct%97 == 1 || t.Distinct < 3) {
				t.Samples = append(t.Samples, strings.Join(t.hist, " ; "))
			}
		}
	}
	t.hist = t.hist[:0]
}

// Violation records a harness-side oracle finding (ground truth the model cannot see).
func (t *T) Violation(signature, detail string) {
	t.Notes = append(t.Notes, signature+"\t"+detail)
	fmt.Fprintf(t.w, "#!violation %s\t%s\n", signature, detail)
}

// Comment writes a comment line (ignored by the driver).
func (t *T) Comment(s string) { fmt.Fprintf(t.w, "# %s\n", s) }

type Stats struct {
	Evaluations        int            `json:"evaluations"`
	Histories          int            `json:"histories"`
	DistinctNontrivial int            `json:"distinct_nontrivial"`
	Rule               string         `json:"rule"`
	Samples            []string       `json:"samples"`
	Distribution       map[string]int `json:"input_distribution"`
	Exhaustive         bool           `json:"exhaustive"`
	OracleFindings     []string       `json:"oracle_findings"`
	Extra              map[string]any `json:"extra,omitempty"`
}

func (t *T) Close(rule string, exhaustive bool, extra map[string]any, statsPath string) error {
	if err := t.w.Flush(); err != nil {
		return err
	}
	if err := t.f.Close(); err != nil {
		return err
	}
	keys := make([]string, 0, len(t.Dist))
	for k := range t.Dist {
		keys = append(keys, k)
	}
	sort.Strings(keys)
	st := Stats{Evaluations: t.Lines, Histories: t.Hist, DistinctNontrivial: t.Distinct, Rule: rule,
		Samples: t.Samples, Distribution: t.Dist, Exhaustive: exhaustive, OracleFindings: t.Notes, Extra: extra}
	b, _ := json.MarshalIndent(st, "", " ")
	return os.WriteFile(statsPath, b, 0o644)
}
