// Package world assembles simulated peers, identities and users for the drivers.
package world

import (
	"encoding/hex"
	"fmt"
	"io"
	stdlog "log"
	"os"
	"strconv"

	"verifharness/contracts"
	"verifharness/simpeer"

	"github.com/anoideaopen/foundation/core"
	"github.com/anoideaopen/foundation/core/logger"
	fpb "github.com/anoideaopen/foundation/proto"
	"github.com/golang/protobuf/proto" //nolint:staticcheck
	"github.com/op/go-logging"
	"github.com/sirupsen/logrus"
	"google.golang.org/protobuf/encoding/protojson"
)

func init() {
	logrus.SetOutput(io.Discard)
	logrus.SetLevel(logrus.PanicLevel)
	stdlog.SetOutput(io.Discard)
	// the library's logger is created lazily without synchronisation: create it now, silenced
	os.Setenv("CORE_CHAINCODE_LOGGING_LEVEL", "critical")
	lg := logger.Logger()
	lg.SetBackend(logging.AddModuleLevel(logging.NewLogBackend(io.Discard, "", 0)))
}

// World is a set of channels sharing one ACL service and one cast of users.
type World struct {
	ACL     *simpeer.ACL
	Admin   *simpeer.Identity // OU=admin certificate (may initialise)
	Robot   *simpeer.Identity // the configured robot
	Client  *simpeer.Identity // ordinary certificate
	Issuer  *simpeer.User
	AdminU  *simpeer.User // the configured admin address
	FeeSet  *simpeer.User
	FeeASet *simpeer.User
	Users   []*simpeer.User
	Peers   map[string]*Chan
	nonce   uint64
}

// Chan is one channel with its chaincode instance(s).
type Chan struct {
	*simpeer.Peer
	W      *World
	Symbol string
	Token  *contracts.VT
	Cfg    string
}

// Options for a channel configuration.
type Options struct {
	Disabled          []string
	DisableSwaps      bool
	DisableMultiSwaps bool
	NoOptions         bool
	Tracing           bool // a trace collector endpoint is configured (nothing listens there)
}

func New(nUsers int, kt fpb.KeyType) *World {
	w := &World{ACL: simpeer.NewACL(), Peers: map[string]*Chan{}, nonce: 1700000000000}
	w.Admin = simpeer.NewIdentity("platformMSP", "admin")
	w.Robot = simpeer.NewIdentity("platformMSP", "client")
	w.Client = simpeer.NewIdentity("platformMSP", "client")
	mk := func(name string) *simpeer.User {
		u := simpeer.NewUser(name, kt)
		w.ACL.Register(u)
		return u
	}
	w.Issuer, w.AdminU, w.FeeSet, w.FeeASet = mk("issuer"), mk("admin"), mk("feeSetter"), mk("feeAddrSetter")
	for i := 0; i < nUsers; i++ {
		w.Users = append(w.Users, mk("u"+strconv.Itoa(i)))
	}
	return w
}

// AddUser creates and registers one more user with the given key type.
func (w *World) AddUser(name string, kt fpb.KeyType) *simpeer.User {
	u := simpeer.NewUser(name, kt)
	w.ACL.Register(u)
	w.Users = append(w.Users, u)
	return u
}

// ConfigJSON renders the channel configuration.
func (w *World) ConfigJSON(symbol string, o Options) string {
	cfg := &fpb.Config{
		Contract: &fpb.ContractConfig{
			Symbol:   symbol,
			RobotSKI: w.Robot.SKIHex,
			Admin:    &fpb.Wallet{Address: w.AdminU.Addr},
		},
		Token: &fpb.TokenConfig{
			Name:             symbol + " token",
			Decimals:         8,
			Issuer:           &fpb.Wallet{Address: w.Issuer.Addr},
			FeeSetter:        &fpb.Wallet{Address: w.FeeSet.Addr},
			FeeAddressSetter: &fpb.Wallet{Address: w.FeeASet.Addr},
		},
	}
	if o.Tracing {
		cfg.Contract.TracingCollectorEndpoint = &fpb.CollectorEndpoint{Endpoint: "127.0.0.1:4318"}
	}
	if !o.NoOptions {
		cfg.Contract.Options = &fpb.ChaincodeOptions{DisabledFunctions: o.Disabled, DisableSwaps: o.DisableSwaps, DisableMultiSwaps: o.DisableMultiSwaps}
	}
	b, _ := protojson.Marshal(cfg)
	return string(b)
}

// NewInstance creates a fresh chaincode instance (process) for a symbol.
func NewInstance() (*core.Chaincode, *contracts.VT) {
	t := &contracts.VT{}
	cc, err := core.NewCC(t)
	if err != nil {
		panic(err)
	}
	return cc, t
}

// AddChannel deploys a VT chaincode on a new channel named lower(symbol) and initialises it.
func (w *World) AddChannel(symbol string, o Options) *Chan {
	name := lower(symbol)
	cc, t := NewInstance()
	p := &simpeer.Peer{Channel: name, CCName: name, L: simpeer.NewLedger(), CC: cc, ACL: w.ACL, Clock: 1700000000}
	c := &Chan{Peer: p, W: w, Symbol: symbol, Token: t, Cfg: w.ConfigJSON(symbol, o)}
	r := p.Init(w.Admin.Creator, simpeer.NewTxID(), c.Cfg)
	if !r.OK() {
		panic(fmt.Sprintf("init failed: %v %v", r.Resp.Message, r.Panic))
	}
	w.Peers[name] = c
	return c
}

// Reconfigure re-initialises the channel with new options (same symbol).
func (c *Chan) Reconfigure(o Options) {
	c.Cfg = c.W.ConfigJSON(c.Symbol, o)
	r := c.Init(c.W.Admin.Creator, simpeer.NewTxID(), c.Cfg)
	if !r.OK() {
		panic("reconfigure failed: " + r.Resp.Message)
	}
}

// FreshInstance replaces the chaincode process by a new one on the same committed state.
func (c *Chan) FreshInstance() {
	cc, t := NewInstance()
	c.CC, c.Token = cc, t
}

func lower(s string) string {
	b := []byte(s)
	for i, ch := range b {
		if ch >= 'A' && ch <= 'Z' {
			b[i] = ch + 32
		}
	}
	return string(b)
}

// NextNonce returns a fresh, strictly increasing 13-digit nonce.
func (w *World) NextNonce() string {
	w.nonce += 7
	return strconv.FormatUint(w.nonce, 10)
}

// Signed builds a correctly signed request of fn for this channel.
func (c *Chan) Signed(u *simpeer.User, fn string, args ...string) []string {
	return simpeer.SignedArgs(fn, c.CCName, c.Channel, args, c.W.NextNonce(), []*simpeer.User{u})
}

// SignedN is Signed with an explicit nonce.
func (c *Chan) SignedN(u *simpeer.User, nonce string, fn string, args ...string) []string {
	return simpeer.SignedArgs(fn, c.CCName, c.Channel, args, nonce, []*simpeer.User{u})
}

// Submit sends a batched request (stored as pending); returns its tx id and the result.
func (c *Chan) Submit(fn string, args []string) (string, *simpeer.Result) {
	id := simpeer.NewTxID()
	return id, c.Invoke(c.W.Client.Creator, id, fn, args...)
}

// Batch is the parsed outcome of batchExecute / executeTasks.
type Batch struct {
	Res   *simpeer.Result
	Resp  *fpb.BatchResponse
	Event *fpb.BatchEvent
}

func (c *Chan) parseBatch(r *simpeer.Result, evName string) *Batch {
	b := &Batch{Res: r}
	if r.OK() {
		b.Resp = &fpb.BatchResponse{}
		if err := proto.Unmarshal(r.Resp.Payload, b.Resp); err != nil {
			b.Resp = nil
		}
		if r.Stub.Event != nil && r.Stub.Event.EventName == evName {
			b.Event = &fpb.BatchEvent{}
			if err := proto.Unmarshal(r.Stub.Event.Payload, b.Event); err != nil {
				b.Event = nil
			}
		}
	}
	return b
}

// ExecBatch runs batchExecute as the robot with the given proto.Batch.
func (c *Chan) ExecBatch(b *fpb.Batch) *Batch {
	data, _ := proto.Marshal(b)
	r := c.Invoke(c.W.Robot.Creator, simpeer.NewTxID(), "batchExecute", string(data))
	return c.parseBatch(r, "batchExecute")
}

// ExecIDs runs batchExecute over hex tx ids.
func (c *Chan) ExecIDs(ids ...string) *Batch {
	b := &fpb.Batch{}
	for _, id := range ids {
		x, err := hex.DecodeString(id)
		if err != nil {
			x = []byte(id)
		}
		b.TxIDs = append(b.TxIDs, x)
	}
	return c.ExecBatch(b)
}

// ExecTasks runs executeTasks (any creator may call it).
func (c *Chan) ExecTasks(tasks ...*fpb.Task) *Batch {
	data, _ := proto.Marshal(&fpb.ExecuteTasksRequest{Tasks: tasks})
	r := c.Invoke(c.W.Client.Creator, simpeer.NewTxID(), "executeTasks", string(data))
	return c.parseBatch(r, "executeTasks")
}

// Do submits a signed batched call and executes it alone in a batch; returns the error text ("" = ok).
func (c *Chan) Do(u *simpeer.User, fn string, args ...string) string {
	id, r := c.Submit(fn, c.Signed(u, fn, args...))
	if !r.OK() {
		return "submit: " + r.Resp.Message
	}
	b := c.ExecIDs(id)
	if b.Resp == nil {
		return "batch: " + b.Res.Resp.Message
	}
	if e := b.Resp.TxResponses[0].GetError(); e != nil {
		return e.GetError()
	}
	return ""
}

// Query calls a function directly and returns payload or error text.
func (c *Chan) Query(fn string, args ...string) (string, string) {
	r := c.Simulate(c.W.Client.Creator, simpeer.NewTxID(), fn, args...)
	if !r.OK() {
		return "", r.Resp.Message
	}
	return string(r.Resp.Payload), ""
}

// RobotBatched submits a sender-less batched function as the robot and executes it alone in a
// batch; returns error text ("" = ok).
func (c *Chan) RobotBatched(fn string, args ...string) string {
	id := simpeer.NewTxID()
	r := c.Invoke(c.W.Robot.Creator, id, fn, args...)
	if !r.OK() {
		return "submit: " + r.Resp.Message
	}
	b := c.ExecIDs(id)
	if b.Resp == nil {
		return "batch: " + b.Res.Resp.Message
	}
	if e := b.Resp.TxResponses[0].GetError(); e != nil {
		return e.GetError()
	}
	return ""
}

// RobotNB invokes an immediate (NBTx) function as the robot; returns error text ("" = ok).
func (c *Chan) RobotNB(fn string, args ...string) string {
	r := c.Invoke(c.W.Robot.Creator, simpeer.NewTxID(), fn, args...)
	if !r.OK() {
		if r.Panic != nil {
			return "panic"
		}
		return r.Resp.Message
	}
	return ""
}
