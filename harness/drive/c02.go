package drive

import (
	"fmt"
	"math/big"
	"strconv"
	"strings"

	"verifharness/simpeer"
	"verifharness/world"

	"github.com/anoideaopen/foundation/core"
	fpb "github.com/anoideaopen/foundation/proto"
)

func init() { Registry["C02"] = &Prop{Gen: genC02, New: func() Executor { return &c02ex{} }} }

var sharedWorld *world.World

func theWorld() *world.World {
	if sharedWorld == nil {
		sharedWorld = world.New(4, fpb.KeyType_ed25519)
	}
	return sharedWorld
}

type c02req struct {
	sender *simpeer.User
	args   []string
}

type c02ex struct {
	base
	pure map[string][]uint64
	c    *world.Chan
	reqs []c02req
}

func classifyNonceErr(e string) string {
	switch {
	case e == "":
		return "ok"
	case strings.Contains(e, "incorrect nonce format"):
		return "err:format"
	case strings.Contains(e, "less than"):
		return "err:old"
	case strings.Contains(e, "already exists"):
		return "err:dup"
	case strings.Contains(e, "scripted failure"):
		return "ok" // the body failed after the nonce had been accepted
	}
	return "err:" + otherClass(e)
}

func (e *c02ex) user(name string) *simpeer.User {
	w := theWorld()
	for _, u := range w.Users {
		if u.Name == name {
			return u
		}
	}
	return nil
}

func (e *c02ex) Exec(op string) string {
	w := strings.Fields(op)
	if len(w) == 0 {
		return "bad-op"
	}
	switch w[0] {
	case "reset":
		e.pure = map[string][]uint64{}
		e.c = theWorld().AddChannel("VT", world.Options{})
		e.reqs = nil
		return "ok"
	case "nonce":
		if len(w) != 3 || e.pure == nil {
			return "bad-op"
		}
		n, err := strconv.ParseUint(w[2], 10, 64)
		if err != nil {
			return "bad-op"
		}
		e.nontrivial = e.nontrivial || len(e.pure[w[1]]) > 0
		win, err := core.VerifSetNonce(n, e.pure[w[1]], core.VerifDefaultNonceTTL)
		if err != nil {
			return "err " + strings.TrimPrefix(classifyNonceErr(err.Error()), "err:")
		}
		e.pure[w[1]] = win
		parts := make([]string, len(win))
		for i, x := range win {
			parts[i] = strconv.FormatUint(x, 10)
		}
		return "ok " + strings.Join(parts, ",")
	case "legacy":
		// a nonce record written by an early version of the library: the newest nonce as a raw
		// big-endian integer instead of the list message
		if len(w) != 3 || e.c == nil || e.user(w[1]) == nil {
			return "bad-op"
		}
		n, ok := new(big.Int).SetString(w[2], 10)
		if !ok || n.Sign() <= 0 {
			return "bad-op"
		}
		e.c.L.State["\x002a\x00"+e.user(w[1]).Addr+"\x00"] = n.Bytes()
		return "ok"
	case "sign":
		if len(w) != 4 || e.c == nil {
			return "bad-op"
		}
		u := e.user(w[1])
		if u == nil {
			return "bad-op"
		}
		e.reqs = append(e.reqs, c02req{u, e.c.SignedN(u, w[2], "script", w[3])})
		return "ok"
	case "run":
		if len(w) < 2 || e.c == nil {
			return "bad-op"
		}
		var picked []c02req
		for _, k := range w[2:] {
			i, err := strconv.Atoi(k)
			if err != nil || i < 0 || i >= len(e.reqs) {
				return "bad-op"
			}
			picked = append(picked, e.reqs[i])
		}
		e.nontrivial = true
		out := make([]string, len(picked))
		switch w[1] {
		case "batch":
			var ids []string
			idx := map[int]int{}
			for i, r := range picked {
				id, res := e.c.Submit("script", r.args)
				if !res.OK() {
					out[i] = "err:submit"
					continue
				}
				idx[len(ids)] = i
				ids = append(ids, id)
			}
			if len(ids) > 0 {
				b := e.c.ExecIDs(ids...)
				if b.Resp == nil || len(b.Resp.TxResponses) != len(ids) {
					return "err:batch(" + b.Res.Resp.Message + ")"
				}
				for j, tr := range b.Resp.TxResponses {
					out[idx[j]] = classifyNonceErr(tr.GetError().GetError())
				}
			}
		case "tasks":
			if len(picked) == 0 {
				return ""
			}
			var tasks []*fpb.Task
			for _, r := range picked {
				tasks = append(tasks, &fpb.Task{Id: simpeer.NewTxID(), Method: "script", Args: r.args})
			}
			b := e.c.ExecTasks(tasks...)
			if b.Resp == nil || len(b.Resp.TxResponses) != len(tasks) {
				return "err:tasks(" + strings.ReplaceAll(b.Res.Resp.Message, " ", "_") + fmt.Sprint(b.Res.Panic) + ")"
			}
			for j, tr := range b.Resp.TxResponses {
				out[j] = classifyNonceErr(tr.GetError().GetError())
			}
		default:
			return "bad-op"
		}
		return strings.Join(out, ",")
	case "getnonce":
		if len(w) != 2 || e.c == nil {
			return "bad-op"
		}
		u := e.user(w[1])
		if u == nil {
			return "bad-op"
		}
		p, errs := e.c.Query("getNonce", u.Addr)
		if errs != "" {
			return "err:" + errs
		}
		return strings.Trim(p, "\"")
	}
	return "bad-op"
}

var users0 = []string{"u0", "u1", "u2"}

func genC02(c *Cfg, emit func([]string)) {
	const b = uint64(1700000000000)
	ttl := uint64(core.VerifDefaultNonceTTL) * 1000
	sym := []uint64{b, b - 1, b + 1, b - ttl, b + ttl, b - ttl - 1, b - ttl + 1, b + ttl + 1, b + ttl - 1, b + 2*ttl,
		999999999999, 1000000000000, 9999999999999, 10000000000000}
	maxLen, nWalk, nE2E := 4, 20000, 400
	if c.Thorough() {
		maxLen, nWalk, nE2E = 5, 600000, 6000
	}
	// (a) pure function, exhaustive over the symbolic alphabet
	var rec func(prefix []string, depth int)
	rec = func(prefix []string, depth int) {
		if depth > 0 {
			emit(append([]string{"reset"}, prefix...))
		}
		if depth == maxLen {
			return
		}
		for _, n := range sym {
			rec(append(prefix[:len(prefix):len(prefix)], "nonce p0 "+strconv.FormatUint(n, 10)), depth+1)
		}
	}
	// emitting only maximal sequences would lose nothing (prefixes are contained), so do that
	var recMax func(prefix []string, depth int)
	recMax = func(prefix []string, depth int) {
		if depth == maxLen {
			emit(append([]string{"reset"}, prefix...))
			return
		}
		for _, n := range sym {
			recMax(append(prefix[:len(prefix):len(prefix)], "nonce p0 "+strconv.FormatUint(n, 10)), depth+1)
		}
	}
	_ = rec
	recMax(nil, 0)
	// (b) random walks with mixed step sizes, two senders interleaved
	steps := []int64{1, -1, 2, -2, 7, -7, 1000, -1000, int64(ttl), -int64(ttl), int64(ttl) + 1, -int64(ttl) - 1, int64(ttl) - 1, -int64(ttl) + 1, 3 * int64(ttl), 0}
	for i := 0; i < nWalk; i++ {
		cur := map[string]uint64{"p0": b, "p1": b + 12345}
		var seen []uint64
		h := []string{"reset"}
		n := 5 + c.Rng.Intn(25)
		for j := 0; j < n; j++ {
			s := "p" + strconv.Itoa(c.Rng.Intn(2))
			var v uint64
			switch r := c.Rng.Intn(10); {
			case r == 0 && len(seen) > 0:
				v = seen[c.Rng.Intn(len(seen))] // exact duplicate of something sent earlier
			case r == 1:
				v = sym[10+c.Rng.Intn(4)] // 12/13/14-digit boundary
			default:
				v = uint64(int64(cur[s]) + steps[c.Rng.Intn(len(steps))])
				if c.Rng.Intn(2) == 0 {
					cur[s] = v
				}
			}
			seen = append(seen, v)
			h = append(h, fmt.Sprintf("nonce %s %d", s, v))
		}
		emit(h)
	}
	// (b') long walks inside one validity window: hundreds of accepted nonces of one sender within
	// 50 s (the stored list grows that long), then the earliest ones again
	nLong := 12
	if c.Thorough() {
		nLong = 300
	}
	for i := 0; i < nLong; i++ {
		h := []string{"reset"}
		cur := b + uint64(c.Rng.Intn(100000))
		var sent []uint64
		n := 130 + c.Rng.Intn(200)
		for j := 0; j < n; j++ {
			cur += uint64(1 + c.Rng.Intn(int(ttl)/n))
			v := cur
			if c.Rng.Intn(6) == 0 && len(sent) > 3 {
				v = sent[len(sent)-1-c.Rng.Intn(3)] - 1 // just below a recent one: inside the window, unused or used
			}
			sent = append(sent, v)
			h = append(h, fmt.Sprintf("nonce p0 %d", v))
		}
		for j := 0; j < 12; j++ {
			h = append(h, fmt.Sprintf("nonce p0 %d", sent[c.Rng.Intn(20)]), fmt.Sprintf("nonce p0 %d", sent[c.Rng.Intn(len(sent))]))
		}
		emit(h)
	}
	// (c') a sender whose stored record is in the old single-integer format: the stored value counts
	// like an accepted nonce on both routes
	for i := 0; i < 8; i++ {
		old := b + uint64(c.Rng.Intn(1000000))
		u := users0[i%3]
		h := []string{"reset", fmt.Sprintf("legacy %s %d", u, old), "getnonce " + u,
			fmt.Sprintf("sign %s %d nop", u, old), fmt.Sprintf("sign %s %d nop", u, old-ttl-1), fmt.Sprintf("sign %s %d nop", u, old-ttl), fmt.Sprintf("sign %s %d nop", u, old+5),
			fmt.Sprintf("sign %s %d nop", users0[(i+1)%3], old)}
		route := []string{"batch", "tasks"}[i%2]
		other := []string{"tasks", "batch"}[i%2]
		h = append(h, "run "+route+" 0", "run "+other+" 0 1", "run "+route+" 2 3 4", "getnonce "+u, "run "+other+" 0 3 2")
		emit(h)
	}
	// (c) end to end through Invoke: batches and task lists interleaved, identical signed requests
	// re-submitted (same batch, later batch, other route), failing bodies
	users := []string{"u0", "u1", "u2"}
	for i := 0; i < nE2E; i++ {
		h := []string{"reset"}
		nreq := 0
		var sent []uint64
		base := b + uint64(c.Rng.Intn(1000))
		rounds := 2 + c.Rng.Intn(4)
		for r := 0; r < rounds; r++ {
			k := 1 + c.Rng.Intn(4)
			var ks []string
			for j := 0; j < k; j++ {
				if nreq > 0 && c.Rng.Intn(4) == 0 {
					ks = append(ks, strconv.Itoa(c.Rng.Intn(nreq))) // replay an earlier signed request
					continue
				}
				var v uint64
				switch x := c.Rng.Intn(8); {
				case x == 0 && len(sent) > 0:
					v = sent[c.Rng.Intn(len(sent))]
				case x == 1:
					v = sym[10+c.Rng.Intn(4)]
				default:
					v = uint64(int64(base) + steps[c.Rng.Intn(len(steps))])
					if c.Rng.Intn(2) == 0 {
						base = v
					}
				}
				sent = append(sent, v)
				body := "nop"
				if c.Rng.Intn(4) == 0 {
					body = "fail"
				}
				h = append(h, fmt.Sprintf("sign %s %d %s", users[c.Rng.Intn(len(users))], v, body))
				ks = append(ks, strconv.Itoa(nreq))
				nreq++
			}
			route := "batch"
			if c.Rng.Intn(2) == 0 {
				route = "tasks"
			}
			h = append(h, "run "+route+" "+strings.Join(ks, " "))
			if c.Rng.Intn(3) == 0 {
				h = append(h, "getnonce "+users[c.Rng.Intn(len(users))])
			}
		}
		emit(h)
	}
	c.Rule = fmt.Sprintf("(a) all sequences of length %d over a 14-value symbolic nonce alphabet {b, b±1, b±ttl, b±(ttl±1), b+2ttl, 10^12-1, 10^12, 10^13-1, 10^13} on the exported setNonce (exhaustive; window printed after each step); (b) %d random walks of 5..29 steps over 2 senders with duplicates and format boundaries, and walks of 130..330 accepted nonces inside one window followed by their replays; (c') senders whose stored record has the old single-integer format; (c) %d end-to-end histories through Invoke: signed requests of 3 senders executed by batchExecute and executeTasks interleaved, identical signed requests replayed in the same/later batch and through the other route, failing bodies; non-trivial = at least two nonce decisions for one store; distinct = sha256 of op+output text", maxLen, nWalk, nE2E)
	c.Extra = map[string]any{"alphabet": len(sym), "exhaustive_len": maxLen, "random_walks": nWalk, "e2e_histories": nE2E, "ttl_ms": ttl}
}
