package drive

import (
	"bytes"
	"encoding/hex"
	"fmt"
	"math/big"
	"sort"
	"strconv"
	"strings"

	"verifharness/simpeer"
	"verifharness/trace"
	"verifharness/world"

	fpb "github.com/anoideaopen/foundation/proto"
	"github.com/golang/protobuf/proto" //nolint:staticcheck
	"golang.org/x/crypto/sha3"
)

// FBATCH: whole batches - listed transactions plus the robot's four lists (swap answers, swap keys,
// multi-swap answers, multi-swap keys) - against Foundation.FullBatch.fullBatchProg.
func init() {
	Registry["FBATCH"] = &Prop{Gen: genFBatch, New: func() Executor { return &fbEx{} }}
}

type fbEx struct {
	batchEx
	swapIDs map[string]string // swap sym -> hex id
	swapSym map[string]string // hex id -> swap sym
	keysyms map[string]bool
}

func (e *fbEx) sid(sym string) string {
	if id, ok := e.swapIDs[sym]; ok {
		return id
	}
	id := simpeer.NewTxID()
	e.swapIDs[sym], e.swapSym[id] = id, sym
	return id
}

func fbHash(keysym string) []byte {
	h := sha3.Sum256([]byte("key-" + keysym))
	return h[:]
}

func (e *fbEx) hashText(h []byte) string {
	for k := range e.keysyms {
		if bytes.Equal(fbHash(k), h) {
			return "H(" + k + ")"
		}
	}
	return "H?"
}

func (e *fbEx) who(raw []byte) string {
	if string(raw) == "0000" {
		return "0000"
	}
	return e.symOfAddr(raw)
}

// recText renders a stored swap / multi-swap record the way the model's `enc` does.
func (e *fbEx) recText(multi bool, v []byte) string {
	if multi {
		m := &fpb.MultiSwap{}
		if err := proto.Unmarshal(v, m); err != nil {
			return "undecodable"
		}
		as := []string{"#"} // the model's text of an asset list: "#", then ",group=amount" per asset
		for _, a := range m.GetAssets() {
			as = append(as, a.GetGroup()+"="+new(big.Int).SetBytes(a.GetAmount()).String())
		}
		return strings.Join([]string{e.who(m.GetOwner()), m.GetToken(), m.GetFrom(), m.GetTo(), e.hashText(m.GetHash()), e.who(m.GetCreator()), strings.Join(as, ",")}, "/")
	}
	s := &fpb.Swap{}
	if err := proto.Unmarshal(v, s); err != nil {
		return "undecodable"
	}
	return strings.Join([]string{e.who(s.GetOwner()), s.GetToken(), s.GetFrom(), s.GetTo(), e.hashText(s.GetHash()), e.who(s.GetCreator()), "#,=" + new(big.Int).SetBytes(s.GetAmount()).String()}, "/")
}

// fbKey: canonical name of a ledger key of this workload: kind 'S'/'M' record, 'G' given counter
func (e *fbEx) fbKey(k string) (string, byte, bool) {
	parts := strings.Split(k, "\x00")
	if len(parts) < 3 || parts[0] != "" {
		return "", 0, false
	}
	switch parts[1] {
	case "swaps", "multi_swap":
		kind, pre := byte('S'), "S:"
		if parts[1] == "multi_swap" {
			kind, pre = 'M', "M:"
		}
		if s, ok := e.swapSym[parts[2]]; ok {
			return pre + s, kind, true
		}
		return pre + "?" + parts[2], kind, true
	case "2d":
		return "G:" + parts[2], 'G', true
	}
	return "", 0, false
}

func (e *fbEx) showWrites(ws []*fpb.WriteElement) string {
	var out []string
	for _, w := range ws {
		k, kind, ok := e.fbKey(w.GetKey())
		if !ok {
			ck, isBal, known := e.canonKey(w.GetKey())
			if !known {
				ck = "?" + strings.ReplaceAll(w.GetKey(), "\x00", "|")
			}
			k = ck
			if isBal {
				kind = 'G'
			}
		}
		switch {
		case w.GetIsDeleted():
			out = append(out, k+"=DEL")
		case kind == 'G':
			out = append(out, k+"="+trace.Enc(balStr(w.GetValue())))
		case kind == 'S' || kind == 'M':
			out = append(out, k+"="+trace.Enc(e.recText(kind == 'M', w.GetValue())))
		default:
			out = append(out, k+"="+trace.Enc(string(w.GetValue())))
		}
	}
	sort.Slice(out, func(i, j int) bool { return strings.SplitN(out[i], "=", 2)[0] < strings.SplitN(out[j], "=", 2)[0] })
	return orDash(out, ";")
}

func classifyItemErr(s string) string {
	switch {
	case strings.Contains(s, "insufficient"):
		return "insufficient"
	case strings.Contains(s, "incorrect key"):
		return "key"
	case strings.Contains(s, "incorrect swap"):
		return "incorrect"
	case strings.Contains(s, "doesn't exist"), strings.Contains(s, "not found"):
		return "notfound"
	case strings.Contains(s, "panic"):
		return "panic"
	}
	return otherClass(s)
}

func (e *fbEx) showItems(rs []*fpb.SwapResponse) string {
	var out []string
	for _, r := range rs {
		if r.GetError() != nil {
			out = append(out, "err:"+classifyItemErr(r.GetError().GetError()))
		} else {
			out = append(out, "ok w="+e.showWrites(r.GetWrites()))
		}
	}
	return orDash(out, " | ")
}

// parseRec: id:owner:token:src:dst:keysym:assets
func (e *fbEx) parseRec(multi bool, it string) (id string, owner *simpeer.User, f []string, assets []*fpb.Asset, amount *big.Int, ok bool) {
	f = strings.Split(it, ":")
	if len(f) != 7 {
		return
	}
	owner = e.user(f[1])
	if owner == nil {
		return
	}
	e.keysyms[f[5]] = true
	id = e.sid(f[0])
	if multi {
		if f[6] != "-" {
			for _, ga := range strings.Split(f[6], "+") {
				p := strings.Split(ga, "=")
				if len(p) != 2 {
					return
				}
				n, okn := new(big.Int).SetString(p[1], 10)
				if !okn || n.Sign() < 0 {
					return
				}
				assets = append(assets, &fpb.Asset{Group: p[0], Amount: n.Bytes()})
			}
		}
		return id, owner, f, assets, nil, true
	}
	n, okn := new(big.Int).SetString(f[6], 10)
	if !okn || n.Sign() < 0 {
		return
	}
	return id, owner, f, nil, n, true
}

func (e *fbEx) Exec(op string) string {
	w := strings.Fields(op)
	if len(w) == 0 {
		return "bad-op"
	}
	switch w[0] {
	case "reset":
		e.swapIDs, e.swapSym, e.keysyms = map[string]string{}, map[string]string{}, map[string]bool{}
		return e.batchEx.Exec(op)
	case "batch", "tasks":
		return "bad-op"
	}
	if e.c == nil {
		return "bad-op"
	}
	switch w[0] {
	case "cfg":
		if len(w) != 3 {
			return "bad-op"
		}
		// (the ledger of this workload refuses CouchDB-illegal keys; the configuration key is one, and is
		// written by the peer's system path in reality: re-initialise with the rule suspended)
		e.c.L.Strict = false
		e.c.Reconfigure(world.Options{DisableSwaps: w[1] == "1", DisableMultiSwaps: w[2] == "1"})
		e.c.L.Strict = true
		return "ok"
	case "given":
		if len(w) != 3 {
			return "bad-op"
		}
		n, err := strconv.ParseInt(w[2], 10, 64)
		if err != nil || n < 0 {
			return "bad-op"
		}
		// the counter is kept under the upper-case channel name
		k := rawKey(e.c, "2d", strings.ToUpper(w[1]))
		if n == 0 {
			delete(e.c.L.State, k)
		} else {
			e.c.L.State[k] = big.NewInt(n).Bytes()
		}
		return "ok"
	case "putrec":
		if len(w) != 3 || (w[1] != "s" && w[1] != "m") {
			return "bad-op"
		}
		multi := w[1] == "m"
		id, owner, f, assets, amount, ok := e.parseRec(multi, w[2])
		if !ok {
			return "bad-op"
		}
		idb, _ := hex.DecodeString(id)
		var data []byte
		typ := "swaps"
		if multi {
			typ = "multi_swap"
			data, _ = proto.Marshal(&fpb.MultiSwap{Id: idb, Creator: owner.AddrRaw, Owner: owner.AddrRaw, Token: f[2], Assets: assets, From: f[3], To: f[4], Hash: fbHash(f[5]), Timeout: 1})
		} else {
			data, _ = proto.Marshal(&fpb.Swap{Id: idb, Creator: owner.AddrRaw, Owner: owner.AddrRaw, Token: f[2], Amount: amount.Bytes(), From: f[3], To: f[4], Hash: fbHash(f[5]), Timeout: 1})
		}
		e.c.L.State[rawKey(e.c, typ, id)] = data
		return "ok"
	case "fbatch":
		if len(w) != 6 {
			return "bad-op"
		}
		b := &fpb.Batch{}
		nIDs := 0
		if w[1] != "-" {
			for _, s := range strings.Split(w[1], ",") {
				id, ok := e.ids[s]
				if !ok {
					id = hex.EncodeToString([]byte("unknown-" + s))
				}
				x, _ := hex.DecodeString(id)
				b.TxIDs = append(b.TxIDs, x)
				nIDs++
			}
		}
		split := func(s string) []string {
			if s == "-" {
				return nil
			}
			return strings.Split(s, ";")
		}
		for _, it := range split(w[2]) {
			id, owner, f, _, amount, ok := e.parseRec(false, it)
			if !ok {
				return "bad-op"
			}
			idb, _ := hex.DecodeString(id)
			b.Swaps = append(b.Swaps, &fpb.Swap{Id: idb, Creator: []byte("0000"), Owner: owner.AddrRaw, Token: f[2], Amount: amount.Bytes(), From: f[3], To: f[4], Hash: fbHash(f[5]), Timeout: 1})
		}
		for _, it := range split(w[4]) {
			id, owner, f, assets, _, ok := e.parseRec(true, it)
			if !ok {
				return "bad-op"
			}
			idb, _ := hex.DecodeString(id)
			b.MultiSwaps = append(b.MultiSwaps, &fpb.MultiSwap{Id: idb, Creator: []byte("0000"), Owner: owner.AddrRaw, Token: f[2], Assets: assets, From: f[3], To: f[4], Hash: fbHash(f[5]), Timeout: 1})
		}
		keys := func(s string) ([]*fpb.SwapKey, bool) {
			var out []*fpb.SwapKey
			for _, it := range split(s) {
				p := strings.Split(it, ":")
				if len(p) != 2 {
					return nil, false
				}
				idb, _ := hex.DecodeString(e.sid(p[0]))
				out = append(out, &fpb.SwapKey{Id: idb, Key: "key-" + p[1]})
			}
			return out, true
		}
		var ok bool
		if b.Keys, ok = keys(w[3]); !ok {
			return "bad-op"
		}
		if b.MultiSwapsKeys, ok = keys(w[5]); !ok {
			return "bad-op"
		}
		e.nontrivial = true
		r := e.c.ExecBatch(b)
		if r.Resp == nil || r.Event == nil {
			return "err:batch(" + strings.ReplaceAll(r.Res.Resp.Message, " ", "_") + ")"
		}
		if len(r.Resp.TxResponses) != nIDs || len(r.Event.Events) != nIDs {
			return fmt.Sprintf("err:shape(%d,%d)", len(r.Resp.TxResponses), len(r.Event.Events))
		}
		var parts []string
		for i := 0; i < nIDs; i++ {
			parts = append(parts, e.showResp(r.Resp.TxResponses[i], r.Event.Events[i]))
		}
		return orDash(parts, " | ") + " || " + e.showItems(r.Resp.SwapResponses) + " || " + e.showItems(r.Resp.SwapKeyResponses)
	case "ledger":
		var parts []string
		for k, v := range e.c.L.State {
			if len(v) == 0 {
				continue
			}
			if ck, kind, ok := e.fbKey(k); ok {
				switch kind {
				case 'G':
					parts = append(parts, ck+"="+balStr(v))
				default:
					parts = append(parts, ck+"="+e.recText(kind == 'M', v))
				}
				continue
			}
			ck, isBal, known := e.canonKey(k)
			if !known {
				continue
			}
			switch {
			case strings.HasPrefix(ck, "P:"):
				parts = append(parts, ck+"=1")
			case isBal:
				parts = append(parts, ck+"="+balStr(v))
			default:
				parts = append(parts, ck+"="+string(v))
			}
		}
		sort.Slice(parts, func(i, j int) bool {
			return strings.SplitN(parts[i], "=", 2)[0] < strings.SplitN(parts[j], "=", 2)[0]
		})
		return strings.Join(parts, ",")
	}
	return e.batchEx.Exec(op)
}

func genFBatch(c *Cfg, emit func([]string)) {
	nHist := 250
	if c.Thorough() {
		nHist = 6000
	}
	pick := func(xs ...string) string { return xs[c.Rng.Intn(len(xs))] }
	users := []string{"u0", "u1"}
	for i := 0; i < nHist; i++ {
		h := []string{"reset", "fund u0 100", "fund u1 50"}
		if c.Rng.Intn(3) == 0 {
			h = append(h, "cfg "+pick("0", "1")+" "+pick("0", "1"))
		}
		g := pick("0", "5", "29", "30", "50", "55", "100", "1000")
		if g != "0" {
			h = append(h, "given CC "+g)
		}
		// records begun here earlier (outgoing: token of this channel; or a reverse one: foreign token going home)
		var recS, recM []string // syms with a record that may exist
		for j := 0; j < c.Rng.Intn(3); j++ {
			sym := fmt.Sprintf("b%d", j)
			if c.Rng.Intn(2) == 0 {
				h = append(h, fmt.Sprintf("putrec s %s:%s:%s:%s:%s:k%s:%s", sym, pick(users...), pick("VT", "VT", "VT_G1", "CC"), "VT", pick("CC", "CC", "cc"), sym, pick("1", "7", "45")))
				recS = append(recS, sym)
			} else {
				h = append(h, fmt.Sprintf("putrec m %s:%s:%s:%s:%s:k%s:%s", sym, pick(users...), pick("VT", "VT", "CC"), "VT", pick("CC", "CC", "cc"), sym, pick("VT_g1=3", "VT_g1=3+VT_g2=4", "VT_g1=3+VT_g1=2", "-")))
				recM = append(recM, sym)
			}
		}
		nsub, nsw := 0, 0
		nb := 1 + c.Rng.Intn(3)
		for bi := 0; bi < nb; bi++ {
			// submissions for this batch
			var ids []string
			for j := 0; j < c.Rng.Intn(4); j++ {
				nsub++
				sym := fmt.Sprintf("t%d", nsub)
				switch c.Rng.Intn(5) {
				case 0:
					h = append(h, fmt.Sprintf("submit %s transfer %s %s:%s", sym, pick(users...), pick(users...), pick("1", "5", "60", "101")))
				case 1:
					h = append(h, fmt.Sprintf("submit %s script %s %s", sym, pick(users...), pick("put:x:1;get:x", "put:x:2;fail", "put:y:3;panic", "mv:u0:u1:5;put:z:9", "get:x;del:x", "mv:u1:u0:51")))
				default:
					h = append(h, fmt.Sprintf("submit %s script %s %s", sym, pick(users...), pick("put:x:a", "put:y:b;evt:e:1", "get:y", "del:y;get:y", "fail", "nop")))
				}
				ids = append(ids, sym)
			}
			if len(ids) > 0 && c.Rng.Intn(6) == 0 {
				ids = append(ids, ids[0]) // an id listed twice
			}
			if c.Rng.Intn(8) == 0 {
				ids = append(ids, "nosuch")
			}
			var sw, ks, ms, mk []string
			for j := 0; j < c.Rng.Intn(3); j++ {
				nsw++
				sym := fmt.Sprintf("a%d", nsw)
				// coming home (token of this channel, from CC - also spelled cc), foreign token arriving, token of neither channel
				sw = append(sw, fmt.Sprintf("%s:%s:%s:%s:VT:k%s:%s", sym, pick(users...), pick("VT", "VT", "VT_G1", "CC", "ZZ"), pick("CC", "CC", "cc"), sym, pick("1", "5", "29", "30", "31", "50", "0")))
				recS = append(recS, sym)
			}
			if len(sw) > 0 && c.Rng.Intn(5) == 0 {
				sw = append(sw, sw[0]) // the same answer twice in one batch
			}
			for j := 0; j < c.Rng.Intn(3); j++ {
				nsw++
				sym := fmt.Sprintf("a%d", nsw)
				ms = append(ms, fmt.Sprintf("%s:%s:%s:%s:VT:k%s:%s", sym, pick(users...), pick("VT", "VT", "CC", "ZZ", "VT_G1"), pick("CC", "CC", "cc"), sym,
					pick("VT_g1=3", "VT_g1=20+VT_g2=10", "VT_g1=29+VT_g2=1+VT_g1=1", "VT_g1=30+VT_g2=25+VT_g3=1", "VT_g1=5+VT_g1=5", "-", "VT_g1=0")))
				recM = append(recM, sym)
			}
			for j := 0; j < c.Rng.Intn(3) && len(recS) > 0; j++ {
				sym := recS[c.Rng.Intn(len(recS))]
				ks = append(ks, sym+":"+pick("k"+sym, "k"+sym, "wrong"))
			}
			for j := 0; j < c.Rng.Intn(3) && len(recM) > 0; j++ {
				sym := recM[c.Rng.Intn(len(recM))]
				mk = append(mk, sym+":"+pick("k"+sym, "k"+sym, "wrong"))
			}
			if c.Rng.Intn(10) == 0 {
				ks = append(ks, "nosuch:k")
			}
			if c.Rng.Intn(10) == 0 && len(recS) > 0 {
				mk = append(mk, recS[0]+":k"+recS[0]) // a swap's id in the multi-swap key list
			}
			h = append(h, fmt.Sprintf("fbatch %s %s %s %s %s", orDash(ids, ","), orDash(sw, ";"), orDash(ks, ";"), orDash(ms, ";"), orDash(mk, ";")), "ledger")
			if c.Rng.Intn(4) == 0 {
				h = append(h, "cfg "+pick("0", "1")+" "+pick("0", "1"))
			}
		}
		emit(h)
	}
	c.Rule = fmt.Sprintf("%d random histories of 1..3 whole batches on one chaincode instance: up to 3 submitted transactions (transfers, scripted bodies that write, read, fail, panic), ids listed twice and unknown ids, plus the robot's lists - swap and multi-swap answers (token coming home out of a given-out counter preset to 0..1000, the source channel also spelled in lower case; foreign token arriving; token of neither channel; the same answer twice; asset lists that the counter covers in part) and swap / multi-swap keys (right, wrong, unknown id, for records begun earlier and for answers of the same or an earlier batch, an id in the other kind's list) - under swap switches changed by re-initialisation between batches; after every batch the reply (per transaction: error class or writes/events/accounting/result; per robot item: error class or write list) and the whole ledger (balances, counters, pending ids, swap and multi-swap records decoded). non-trivial = every history; distinct = sha256", nHist)
	c.Extra = map[string]any{"histories": nHist}
}
