package drive

import (
	"encoding/json"
	"fmt"
	fpb "github.com/anoideaopen/foundation/proto"
	"github.com/golang/protobuf/proto" //nolint:staticcheck
	"strconv"
	"strings"

	"verifharness/trace"
	"verifharness/world"
)

func init() { Registry["C20"] = &Prop{Gen: genC20, New: func() Executor { return &c20ex{} }} }

const fromPrefix = "/transfer/from/"

type c20ex struct {
	base
	c *world.Chan
	n int
}

type ccts struct {
	Ccts []struct {
		ID string `json:"id"`
	} `json:"ccts"`
	Bookmark string `json:"bookmark"`
}

func okErr(e string) string {
	if e == "" {
		return "ok"
	}
	return "err"
}

func (e *c20ex) list(size, bm string) (ids []string, next string, err string) {
	p, errs := e.c.Query("channelTransfersFrom", size, bm)
	if errs != "" {
		return nil, "", errs
	}
	var r ccts
	if jerr := json.Unmarshal([]byte(p), &r); jerr != nil {
		return nil, "", "decode: " + jerr.Error()
	}
	for _, c := range r.Ccts {
		ids = append(ids, c.ID)
	}
	return ids, r.Bookmark, ""
}

func (e *c20ex) Exec(op string) string {
	w := strings.Fields(op)
	if len(w) == 0 {
		return "bad-op"
	}
	if w[0] == "reset" {
		wd := theWorld()
		e.c = wd.AddChannel("VT", world.Options{})
		if s := e.c.Do(wd.Issuer, "emit", wd.Users[0].Addr, "1000000"); s != "" {
			return "err:" + s
		}
		e.n = 0
		return "ok"
	}
	if e.c == nil {
		return "bad-op"
	}
	wd := theWorld()
	arg := func(i int) string {
		if i < len(w) {
			return dec(w[i])
		}
		return ""
	}
	switch w[0] {
	case "mk":
		e.n++
		return okErr(e.c.Do(wd.Users[0], "channelTransferByCustomer", arg(1), "CC", "VT", "1"))
	case "mkbin":
		// a record written by an early version of the library: binary protobuf instead of JSON
		// (channelTransferFrom and the robot functions still read it)
		e.n++
		k := fromPrefix + arg(1)
		if len(e.c.L.State[k]) != 0 {
			return "err"
		}
		b, _ := proto.Marshal(&fpb.CCTransfer{Id: arg(1), From: "VT", To: "CC", Token: "VT", User: wd.Users[0].AddrRaw, Amount: []byte{1}, ForwardDirection: true})
		e.c.L.State[k] = b
		return "ok"
	case "commit":
		return okErr(e.c.RobotNB("commitCCTransferFrom", arg(1)))
	case "cancel":
		return okErr(e.c.RobotBatched("cancelCCTransferFrom", arg(1)))
	case "del":
		return okErr(e.c.RobotNB("deleteCCTransferFrom", arg(1)))
	case "raw":
		e.c.L.State[arg(1)] = []byte(`{"id":"RAW"}`)
		return "ok"
	case "get":
		_, errs := e.c.Query("channelTransferFrom", arg(1))
		if errs != "" {
			return "no"
		}
		return "yes"
	case "list":
		ids, bm, errs := e.list(arg(1), arg(2))
		if errs != "" {
			return "err"
		}
		e.nontrivial = e.nontrivial || len(ids) > 0
		return "ids:" + trace.Enc(strings.Join(ids, ",")) + ";bm:" + trace.Enc(bm)
	case "walk":
		var all []string
		bm := ""
		for page := 0; ; page++ {
			if page > e.n+3 {
				return "loop"
			}
			ids, next, errs := e.list(arg(1), bm)
			if errs != "" {
				return "err"
			}
			all = append(all, ids...)
			if next == "" {
				break
			}
			bm = next
		}
		e.nontrivial = e.nontrivial || len(all) > 1
		return strings.Join(all, ",")
	}
	return "bad-op"
}

func genC20(c *Cfg, emit func([]string)) {
	nHist, maxRec := 250, 12
	if c.Thorough() {
		nHist, maxRec = 3000, 40
	}
	rawKeys := []string{"/transfer/from", "/transfer/from0", "/transfer/fron/zz", "/transfer/to/a1", "/transfer/to/zz", "/transfer/", "zzz", "/transfer/from.", "/transfer/frpm/a"}
	for i := 0; i < nHist; i++ {
		h := []string{"reset"}
		nrec := c.Rng.Intn(maxRec + 1)
		var ids []string
		live := map[string]bool{}
		committed := map[string]bool{}
		for _, rk := range rawKeys {
			if c.Rng.Intn(2) == 0 {
				h = append(h, "raw "+rk)
			}
		}
		for j := 0; j < nrec; j++ {
			id := fmt.Sprintf("%c%d", 'a'+rune(c.Rng.Intn(6)), c.Rng.Intn(30))
			if c.Rng.Intn(12) == 0 && len(ids) > 0 {
				id = ids[c.Rng.Intn(len(ids))] // duplicate id
			}
			ids = append(ids, id)
			h = append(h, "mk "+id)
			live[id] = true
			// random life-cycle steps on earlier records
			for k := 0; k < c.Rng.Intn(3); k++ {
				x := ids[c.Rng.Intn(len(ids))]
				switch c.Rng.Intn(4) {
				case 0:
					h = append(h, "commit "+x)
					committed[x] = live[x]
				case 1:
					h = append(h, "cancel "+x)
					if live[x] && !committed[x] {
						delete(live, x)
					}
				case 2:
					h = append(h, "del "+x)
					if live[x] && committed[x] {
						delete(live, x)
						delete(committed, x)
					}
				case 3:
					h = append(h, "get "+x)
				}
			}
		}
		n := len(live)
		// all page sizes 1..n+1 (capped in quick) by full walks
		sizes := n + 1
		if !c.Thorough() && sizes > 6 {
			sizes = 6
		}
		for s := 1; s <= sizes; s++ {
			h = append(h, "walk "+strconv.Itoa(s))
		}
		if n+1 > sizes {
			h = append(h, "walk "+strconv.Itoa(n+1), "walk "+strconv.Itoa(n))
		}
		// page sizes at and beyond the 32-bit boundary of the ledger API
		if c.Rng.Intn(3) == 0 {
			h = append(h, "walk "+[]string{"2147483647", "2147483648", "4294967296", "4294967297", "9223372036854775807"}[c.Rng.Intn(5)])
		}
		// single pages with good, foreign and bad bookmarks, bad sizes
		bms := []string{"-", fromPrefix, fromPrefix + "b", fromPrefix + "zzzz", "/transfer/to/a1", "/transfer/from", "x", "/transfer/fron/zz"}
		for _, id := range ids {
			if c.Rng.Intn(3) == 0 {
				bms = append(bms, fromPrefix+id)
			}
		}
		for k := 0; k < 6; k++ {
			size := []string{"1", "2", "3", "0", "-1", "100"}[c.Rng.Intn(6)]
			h = append(h, "list "+size+" "+bms[c.Rng.Intn(len(bms))])
		}
		emit(h)
	}
	// ids at the edges of the code space: Latin-1, the last BMP code points, the first and the last
	// supplementary-plane characters (U+10FFFF is Go's utf8.MaxRune), emoji; key order is code-point order
	edge := []string{"\u00ff1", "\u0800a", "\ufffd", "\uffffy", "\U00010000x", "\U0001F6001", "\U0010fffe", "\U0010ffffz", "\U0010ffff", "~", "\u007f", "z\U0010ffff"}
	nEdge := 30
	if c.Thorough() {
		nEdge = 300
	}
	for i := 0; i < nEdge; i++ {
		h := []string{"reset"}
		var ids []string
		for j := 0; j < 2+c.Rng.Intn(6); j++ {
			id := edge[c.Rng.Intn(len(edge))]
			if c.Rng.Intn(4) == 0 {
				id = fmt.Sprintf("%c%d", 'a'+rune(c.Rng.Intn(3)), c.Rng.Intn(5))
			}
			ids = append(ids, id)
			h = append(h, "mk "+id)
		}
		h = append(h, "walk 1", "walk 2", "walk 3", "walk 100")
		for _, id := range ids {
			if c.Rng.Intn(3) == 0 {
				h = append(h, "get "+id, "list 2 "+fromPrefix+id)
			}
		}
		emit(h)
	}
	// records in the old binary encoding between JSON ones
	for i := 0; i < 6; i++ {
		h := []string{"reset"}
		var ids []string
		for j := 0; j < 3+c.Rng.Intn(5); j++ {
			id := fmt.Sprintf("%c%d", 'a'+rune(c.Rng.Intn(4)), j)
			ids = append(ids, id)
			if c.Rng.Intn(2) == 0 {
				h = append(h, "mkbin "+id, "get "+id)
			} else {
				h = append(h, "mk "+id)
			}
		}
		h = append(h, "walk 1", "walk 2", "walk 3", "walk 100", "commit "+ids[0], "del "+ids[0], "walk 2")
		emit(h)
	}
	// ids that a path-cleaning key constructor would rewrite (".", "..", inner "..", trailing or
	// doubled slashes): each must still be listed under the key prefix+id
	dirty := []string{".", "a/../b", "x/", "a//b", "../to/x", "./a", "a/.", "..", "a/./b"}
	nDirty := 40
	if c.Thorough() {
		nDirty = 400
	}
	for i := 0; i < nDirty; i++ {
		h := []string{"reset"}
		var ids []string
		for j := 0; j < 1+c.Rng.Intn(4); j++ {
			id := dirty[c.Rng.Intn(len(dirty))]
			if c.Rng.Intn(3) == 0 {
				id = fmt.Sprintf("%c%d", 'a'+rune(c.Rng.Intn(3)), c.Rng.Intn(5))
			}
			ids = append(ids, id)
			h = append(h, "mk "+id, "get "+id)
		}
		h = append(h, "walk 1", "walk 2", "walk 10")
		for _, id := range ids {
			if c.Rng.Intn(2) == 0 {
				h = append(h, "commit "+id, "del "+id, "get "+id, "walk 3")
			}
		}
		emit(h)
	}
	c.Rule = fmt.Sprintf("%d random histories: 0..%d origin records created through channelTransferByCustomer (ids from a 180-value pool, duplicates), committed/cancelled/deleted at random through the real robot functions, next to unrelated keys sorting just before/after the prefix; then full walks following bookmarks for page sizes 1..n+1 and single pages with existing, foreign and invalid bookmarks and sizes {1,2,3,0,-1,100}; non-trivial = some listing returned >= 2 records; distinct = sha256 of op+output; plus a class of histories whose ids contain '.', '..' or extra slashes, and a class whose ids start with characters at the edges of the code space (U+FFFF, U+10000, U+10FFFE, U+10FFFF, emoji)", nHist, maxRec)
	c.Extra = map[string]any{"histories": nHist, "max_records": maxRec}
}
