package drive

import (
	"encoding/hex"
	"fmt"
	"github.com/btcsuite/btcutil/base58"
	"math/rand"
	"os"
	"strings"

	"verifharness/simpeer"
	"verifharness/world"

	fpb "github.com/anoideaopen/foundation/proto"
	"github.com/golang/protobuf/proto" //nolint:staticcheck
	"github.com/hyperledger/fabric-protos-go/msp"
)

// C14 — no input can crash the chaincode process. The real executor runs in a child process
// (see child.go): a death or a missing reply is observed by the parent, confirmed by re-running
// the killing history alone, and reported. A panic that leaves Init/Invoke on the calling
// goroutine is reported as ESCAPED (the Fabric shim has no recover, so it would kill the process).

func init() {
	Registry["C14"] = &Prop{Gen: genC14, New: func() Executor { return newProxy("C14") }}
	Inner["C14"] = func() Executor { return &c14in{} }
}

type c14in struct {
	base
	c *world.Chan
}

func (e *c14in) creator(name string) []byte {
	wd := theWorld()
	switch name {
	case "robot":
		return wd.Robot.Creator
	case "admin":
		return wd.Admin.Creator
	case "client":
		return wd.Client.Creator
	case "none":
		return nil
	case "garbage":
		return []byte{0x0a, 0x03, 'x', 'y', 'z', 0x12, 0xff}
	case "badpem":
		b, _ := proto.Marshal(&msp.SerializedIdentity{Mspid: "m", IdBytes: []byte("-----BEGIN CERTIFICATE-----\nAAAA\n-----END CERTIFICATE-----\n")})
		return b
	case "nopem":
		b, _ := proto.Marshal(&msp.SerializedIdentity{Mspid: "m", IdBytes: []byte("not a pem block")})
		return b
	}
	return nil
}

func unhexAll(xs []string) ([]string, bool) {
	out := make([]string, len(xs))
	for i, x := range xs {
		if x == "-" {
			continue
		}
		b, err := hex.DecodeString(x)
		if err != nil {
			return nil, false
		}
		out[i] = string(b)
	}
	return out, true
}

func (e *c14in) user(name string) *simpeer.User {
	wd := theWorld()
	switch name {
	case "issuer":
		return wd.Issuer
	case "admin":
		return wd.AdminU
	case "feeSetter":
		return wd.FeeSet
	case "feeAddrSetter":
		return wd.FeeASet
	}
	for _, u := range wd.Users {
		if u.Name == name {
			return u
		}
	}
	return nil
}

func class(r *simpeer.Result) string {
	if r.Panic != nil {
		return "escaped"
	}
	if r.Resp.Status >= 400 {
		m := r.Resp.Message
		switch {
		case strings.Contains(m, "panic"):
			return "err-panic-recovered"
		case strings.Contains(m, "unauthorized") || strings.Contains(m, "creator") || strings.Contains(m, "SKI"):
			return "err-identity"
		case strings.Contains(m, "incorrect number") || strings.Contains(m, "arguments"):
			return "err-arity"
		case strings.Contains(m, "method") && strings.Contains(m, "not found"):
			return "err-nomethod"
		case strings.Contains(m, "acl") || strings.Contains(m, "ACL"):
			return "err-acl"
		case strings.Contains(m, "unmarshal") || strings.Contains(m, "proto") || strings.Contains(m, "json") || strings.Contains(m, "decode"):
			return "err-decode"
		}
		return "err-other"
	}
	return "ok"
}

func (e *c14in) reply(what string, r *simpeer.Result) string {
	if r.Panic != nil {
		e.flag("process_death", strings.ReplaceAll(fmt.Sprintf("panic escaped %s on the shim's goroutine (no recover there): %v", what, r.Panic), "\n", " "))
		return "ESCAPED"
	}
	return "replied\t" + what + ":" + class(r)
}

func (e *c14in) Exec(op string) string {
	w := strings.Fields(op)
	if len(w) == 0 {
		return "bad-op"
	}
	wd := theWorld()
	if w[0] == "reset" {
		wd.ACL.Force = ""
		wd.ACL.ByKeys = map[string]*simpeer.ACLEntry{}
		e.c = wd.AddChannel("VT", world.Options{})
		for _, u := range wd.Users[:2] {
			e.c.Do(wd.Issuer, "emit", u.Addr, "1000")
		}
		return "ok"
	}
	if e.c == nil {
		return "bad-op"
	}
	defer func() { wd.ACL.Force = "" }()
	switch w[0] {
	case "init":
		if len(w) < 2 {
			return "bad-op"
		}
		args, ok := unhexAll(w[2:])
		if !ok {
			return "bad-op"
		}
		r := e.c.Init(e.creator(w[1]), simpeer.NewTxID(), args...)
		out := e.reply("init", r)
		// whatever Init did, later operations of this history need a working configuration
		if r.Committed {
			e.c.Init(wd.Admin.Creator, simpeer.NewTxID(), e.c.Cfg)
		}
		return out
	case "call":
		if len(w) < 4 {
			return "bad-op"
		}
		fn, err := hex.DecodeString(w[3])
		if err != nil && w[3] != "-" {
			return "bad-op"
		}
		args, ok := unhexAll(w[4:])
		if !ok {
			return "bad-op"
		}
		if w[2] != "ok" {
			wd.ACL.Force = w[2]
		}
		r := e.c.Invoke(e.creator(w[1]), simpeer.NewTxID(), string(fn), args...)
		return e.reply("call", r)
	case "signed":
		// signed <route> <acl> <fn> <signer> <hexarg>*
		if len(w) < 5 || e.user(w[4]) == nil {
			return "bad-op"
		}
		args, ok := unhexAll(w[5:])
		if !ok {
			return "bad-op"
		}
		signedArgs := e.c.Signed(e.user(w[4]), w[3], args...)
		if w[2] != "ok" {
			wd.ACL.Force = w[2]
		}
		switch w[1] {
		case "task":
			data, _ := proto.Marshal(&fpb.ExecuteTasksRequest{Tasks: []*fpb.Task{{Id: simpeer.NewTxID(), Method: w[3], Args: signedArgs}}})
			return e.reply("signed-task", e.c.Invoke(wd.Client.Creator, simpeer.NewTxID(), "executeTasks", string(data)))
		case "direct":
			id := simpeer.NewTxID()
			r := e.c.Invoke(wd.Client.Creator, id, w[3], signedArgs...)
			if r.Panic != nil || !r.OK() {
				return e.reply("signed-direct", r)
			}
			if _, pending := e.c.L.State[pendingKey(e.c, id)]; pending {
				idb, _ := hex.DecodeString(id)
				data, _ := proto.Marshal(&fpb.Batch{TxIDs: [][]byte{idb}})
				return e.reply("signed-batch", e.c.Invoke(wd.Robot.Creator, simpeer.NewTxID(), "batchExecute", string(data)))
			}
			return e.reply("signed-direct", r)
		}
		return "bad-op"
	case "items":
		// items <batch|task> <script>*: one request, one scripted body per item; '+' stands for ';'
		if len(w) < 3 {
			return "bad-op"
		}
		scripts := w[2:]
		var r *simpeer.Result
		switch w[1] {
		case "task":
			var tasks []*fpb.Task
			for _, s := range scripts {
				signer := wd.Users[0]
				if s == "aclpanic" {
					// an item whose *validation* panics: the access-control service answers this signer's
					// key check with status OK and a response that carries no address
					signer, s = wd.Users[3], "put:z:9"
					r0 := wd.ACL.DefaultResponse([]string{signer.PubB58}, 0)
					r0.Address = nil
					wd.ACL.ByKeys[signer.PubB58] = &simpeer.ACLEntry{Mode: simpeer.ACLOk, Resp: r0}
				}
				tasks = append(tasks, &fpb.Task{Id: simpeer.NewTxID(), Method: "script", Args: e.c.Signed(signer, "script", strings.ReplaceAll(s, "+", ";"))})
			}
			data, _ := proto.Marshal(&fpb.ExecuteTasksRequest{Tasks: tasks})
			r = e.c.Invoke(wd.Client.Creator, simpeer.NewTxID(), "executeTasks", string(data))
		case "batch":
			b := &fpb.Batch{}
			for _, s := range scripts {
				id, sub := e.c.Submit("script", e.c.Signed(wd.Users[0], "script", strings.ReplaceAll(s, "+", ";")))
				if !sub.OK() {
					return "err:submit"
				}
				idb, _ := hex.DecodeString(id)
				b.TxIDs = append(b.TxIDs, idb)
			}
			data, _ := proto.Marshal(b)
			r = e.c.Invoke(wd.Robot.Creator, simpeer.NewTxID(), "batchExecute", string(data))
		default:
			return "bad-op"
		}
		if r.Panic != nil {
			return e.reply("items", r)
		}
		if !r.OK() {
			if os.Getenv("VERIF_DEBUG") != "" {
				return "replied request-failed " + strings.ReplaceAll(r.Resp.Message, "\n", " ")
			}
			return "replied request-failed"
		}
		resp := &fpb.BatchResponse{}
		if err := proto.Unmarshal(r.Resp.Payload, resp); err != nil {
			return "replied undecodable"
		}
		var outs []string
		for _, tr := range resp.TxResponses {
			if tr.GetError() != nil {
				outs = append(outs, "err")
			} else {
				outs = append(outs, "ok")
			}
		}
		return "replied " + strings.Join(outs, ",")
	case "swaps":
		// swaps <kind>*: a batch whose swap / multi-swap / key sections carry malformed entries
		b := &fpb.Batch{}
		n := 0
		for _, k := range w[1:] {
			n++
			switch k {
			case "swap-empty":
				b.Swaps = append(b.Swaps, &fpb.Swap{})
			case "swap-noowner":
				b.Swaps = append(b.Swaps, &fpb.Swap{Id: []byte{1}, Token: "VT", From: "CC", To: "VT", Amount: []byte{5}})
			case "swap-shortowner":
				b.Swaps = append(b.Swaps, &fpb.Swap{Id: []byte{2}, Owner: []byte{1, 2}, Token: "VT", From: "CC", To: "VT", Amount: []byte{5}})
			case "swap-notoken":
				b.Swaps = append(b.Swaps, &fpb.Swap{Id: []byte{3}, Owner: wd.Users[0].AddrRaw, From: "CC", To: "VT"})
			case "mswap-empty":
				b.MultiSwaps = append(b.MultiSwaps, &fpb.MultiSwap{})
			case "mswap-nilasset":
				b.MultiSwaps = append(b.MultiSwaps, &fpb.MultiSwap{Id: []byte{4}, Owner: wd.Users[0].AddrRaw, Token: "VT", From: "CC", To: "VT", Assets: []*fpb.Asset{{}}})
			case "mswap-shortowner":
				b.MultiSwaps = append(b.MultiSwaps, &fpb.MultiSwap{Id: []byte{5}, Owner: []byte{9}, Token: "VT", From: "CC", To: "VT", Assets: []*fpb.Asset{{Group: "VT_G", Amount: []byte{1}}}})
			case "key-empty":
				b.Keys = append(b.Keys, &fpb.SwapKey{})
			case "key-unknown":
				b.Keys = append(b.Keys, &fpb.SwapKey{Id: []byte{7, 7}, Key: "k"})
			case "mkey-empty":
				b.MultiSwapsKeys = append(b.MultiSwapsKeys, &fpb.SwapKey{})
			case "mkey-unknown":
				b.MultiSwapsKeys = append(b.MultiSwapsKeys, &fpb.SwapKey{Id: []byte{8, 8}, Key: "k"})
			default:
				return "bad-op"
			}
		}
		data, _ := proto.Marshal(b)
		r := e.c.Invoke(wd.Robot.Creator, simpeer.NewTxID(), "batchExecute", string(data))
		if r.Panic != nil {
			return e.reply("swaps", r)
		}
		if !r.OK() {
			return "replied request-failed"
		}
		resp := &fpb.BatchResponse{}
		if err := proto.Unmarshal(r.Resp.Payload, resp); err != nil {
			return "replied undecodable"
		}
		return fmt.Sprintf("replied %d", len(resp.SwapResponses)+len(resp.SwapKeyResponses))
	}
	return "bad-op"
}

func pendingKey(c *world.Chan, txid string) string {
	st := &simpeer.Stub{L: c.L}
	k, _ := st.CreateCompositeKey("batchTransactions", []string{txid})
	return k
}

// ---------------------------------------------------------------------------- generator

func hx(s string) string {
	if s == "" {
		return "-"
	}
	return hex.EncodeToString([]byte(s))
}

var c14fns = []string{"", "nosuch", "batchExecute", "executeTasks", "swapDone", "multiSwapDone", "createIndex",
	"createCCTransferTo", "deleteCCTransferTo", "commitCCTransferFrom", "cancelCCTransferFrom", "deleteCCTransferFrom",
	"transfer", "emit", "balanceOf", "allowedBalanceOf", "metadata", "swapBegin", "swapCancel", "swapGet", "multiSwapBegin", "multiSwapGet",
	"lockTokenBalance", "unlockTokenBalance", "getLockedTokenBalance", "channelTransferByCustomer", "channelTransferByAdmin",
	"channelTransferFrom", "channelTransfersFrom", "channelTransferTo", "healthCheck", "healthCheckNb", "getNonce", "nameOfFiles", "srcFile", "srcPartFile",
	"buildInfo", "coreChaincodeIDName", "systemEnv", "setFee", "setRate", "predictFee", "getFeeTransfer", "transferBalance", "script", "poke", "whoAmIQ",
	"allowedIndustrialBalanceTransfer", "industrialBalanceOf", "buyToken", "buyBack", "documentsList", "groupBalanceOf"}

func genC14(c *Cfg, emit func([]string)) {
	defer StopChild()
	rng := c.Rng
	addr := "2d53vh1v3QihVSGbJcGhLuEDbZHdAe5oSYGZSPu9SgVfcWc2ha"
	protoSamples := func() []string {
		task, _ := proto.Marshal(&fpb.ExecuteTasksRequest{Tasks: []*fpb.Task{{Id: "aa", Method: "transfer", Args: []string{"", "vt", "vt"}}}})
		task0, _ := proto.Marshal(&fpb.ExecuteTasksRequest{Tasks: []*fpb.Task{{Id: "ab", Method: "transfer"}}})
		task1, _ := proto.Marshal(&fpb.ExecuteTasksRequest{Tasks: []*fpb.Task{{}, {Id: "ac", Method: "nosuch", Args: []string{"x"}}}})
		batch, _ := proto.Marshal(&fpb.Batch{TxIDs: [][]byte{{1, 2, 3}, {}, []byte("zz")}})
		sw, _ := proto.Marshal(&fpb.Batch{Swaps: []*fpb.Swap{{}}, Keys: []*fpb.SwapKey{{}}, MultiSwaps: []*fpb.MultiSwap{{}}, MultiSwapsKeys: []*fpb.SwapKey{{}}})
		cct := `{"id":"x","from":"VT","to":"CC","token":"VT","user":"AA==","amount":"AQ=="}`
		return []string{string(task), string(task0), string(task1), string(batch), string(sw), string(task[:len(task)/2]), string(batch[:3]), cct, `{"id":"x"}`}
	}()
	// checksum-valid base58check strings whose payload is not an address: empty, 3, 31 and 33 bytes
	shortAddrs := []string{base58.CheckEncode([]byte{}, 0), base58.CheckEncode([]byte{1, 2, 3}, 0),
		base58.CheckEncode(make([]byte, 31), 0), base58.CheckEncode(make([]byte, 33), 0), base58.CheckEncode(make([]byte, 32), 7)}
	values := func() string {
		switch rng.Intn(16) {
		case 14, 15:
			return shortAddrs[rng.Intn(len(shortAddrs))]
		case 0:
			return ""
		case 1:
			return "1"
		case 2:
			return "-1"
		case 3:
			return "340282366920938463463374607431768211456"
		case 4:
			return addr
		case 5:
			return "vt"
		case 6:
			return "VT"
		case 7:
			return string([]byte{0xff, 0xfe, 0x00, 0x80})
		case 8:
			return strings.Repeat("A", 5000)
		case 9:
			return `{"assets":[{"group":"VT_G","amount":"1"}]}`
		case 10:
			return `{"id":"L1","address":"` + addr + `","token":"VT","amount":"5","reason":"r"}`
		case 11:
			return protoSamples[rng.Intn(len(protoSamples))]
		case 12:
			return "1700000000001"
		}
		b := make([]byte, 1+rng.Intn(40))
		rng.Read(b)
		return string(b)
	}
	creators := []string{"robot", "admin", "client", "client", "none", "garbage", "badpem", "nopem"}
	acls := []string{"ok", "ok", "ok", "status", "empty", "garbled", "noaddr", "emptyaddr", "shortaddr", "badbatch", "status503", "timeout"}
	signers := []string{"u0", "u1", "issuer", "admin", "feeSetter"}
	pick := func(xs []string) string { return xs[rng.Intn(len(xs))] }
	vec := func(n int) []string {
		out := make([]string, n)
		for i := range out {
			out[i] = hx(values())
		}
		return out
	}
	// arity of each method (without the sender), from the real router: used to aim at the bodies
	arity := map[string]int{}
	{
		cc, _ := world.NewInstance()
		for _, fn := range c14fns {
			if m := cc.Router().Method(fn); m != "" {
				n := cc.Router().ArgCount(m)
				if cc.Router().AuthRequired(m) {
					n--
				}
				arity[fn] = n
			}
		}
	}
	argc := func(fn string, max int) int {
		if n, ok := arity[fn]; ok && rng.Intn(5) < 3 {
			return n
		}
		return rng.Intn(max + 1)
	}
	per := 40
	nHist := 60
	if c.Thorough() {
		nHist = 4000
	}
	// (1) every entry point with every argument count 0..8, all creators round-robin — systematic part
	{
		var h []string
		i := 0
		for _, fn := range c14fns {
			for n := 0; n <= 8; n++ {
				if len(h) == 0 {
					h = []string{"reset"}
				}
				h = append(h, strings.TrimSpace(fmt.Sprintf("call %s %s %s %s", creators[i%len(creators)], acls[(i/3)%len(acls)], hx(fn), strings.Join(vec(n), " "))))
				i++
				if len(h) > per {
					emit(h)
					h = nil
				}
			}
		}
		if len(h) > 1 {
			emit(h)
		}
	}
	// (2) correctly signed requests with arbitrary method arguments (reach argument conversion and
	// the method bodies), on the direct/batched route and as tasks, under every ACL fault
	{
		var h []string
		for _, fn := range c14fns[12:] {
			for n := 0; n <= 6; n++ {
				for _, route := range []string{"direct", "task"} {
					if len(h) == 0 {
						h = []string{"reset"}
					}
					h = append(h, strings.TrimSpace(fmt.Sprintf("signed %s %s %s %s %s", route, pick(acls), fn, pick(signers), strings.Join(vec(n), " "))))
					if len(h) > per {
						emit(h)
						h = nil
					}
				}
			}
		}
		if len(h) > 1 {
			emit(h)
		}
	}
	// (2') address parameters given checksum-valid base58check strings whose payload is no address, in
	// correctly shaped signed requests on both routes
	{
		h := []string{"reset"}
		for _, sa := range shortAddrs {
			for _, route := range []string{"direct", "task"} {
				h = append(h, fmt.Sprintf("signed %s ok emit issuer %s %s", route, hx(sa), hx("1")),
					fmt.Sprintf("signed %s ok transfer u0 %s %s %s", route, hx(sa), hx("1"), hx("ref")),
					fmt.Sprintf("signed %s ok setFeeAddress feeAddrSetter %s", route, hx(sa)),
					fmt.Sprintf("signed %s ok balanceOf u0 %s", route, hx(sa)))
			}
		}
		emit(h)
	}
	// (3) Init with every argument count and content class, every creator
	{
		h := []string{"reset"}
		for _, cr := range creators {
			for n := 0; n <= 7; n++ {
				h = append(h, strings.TrimSpace(fmt.Sprintf("init %s %s", cr, strings.Join(vec(n), " "))))
			}
		}
		cfgs := []string{"{}", "null", "[]", `{"contract":null}`, `{"contract":{}}`, `{"contract":{"symbol":"VT","robotSKI":"zz"}}`, `{"token":{}}`,
			`{"contract":{"symbol":"VT","robotSKI":"aa","admin":{}},"token":{"issuer":null}}`, `{"contract":{"options":{"disabled_functions":[null]}}}`, "{", `{"contract":{"symbol":1}}`,
			"", " ", "\n", "\t \n", "  {}", "{} ", "\x00", "0", "\"\"", "[", "}", "\ufeff{}", "{\"contract\":"}
		for _, cfg := range cfgs {
			h = append(h, "init admin "+hx(cfg))
		}
		emit(h)
	}
	// (4) item isolation: scripted bodies that succeed, fail and panic, in batches and task lists
	scripts := []string{"put:a:1", "put:b:2+evt:e:1", "fail", "panic", "put:c:3+panic", "put:d:4+fail", "get:a", "nop"}
	nItems := 40
	if c.Thorough() {
		nItems = 3000
	}
	{
		h := []string{"reset"}
		for i := 0; i < nItems; i++ {
			n := 1 + rng.Intn(5)
			var ss []string
			for j := 0; j < n; j++ {
				ss = append(ss, pick(scripts))
			}
			route := pick([]string{"batch", "task"})
			if route == "task" && rng.Intn(3) == 0 {
				ss[rng.Intn(len(ss))] = "aclpanic" // an item that panics while it is being validated
			}
			h = append(h, "items "+route+" "+strings.Join(ss, " "))
			if len(h) > 12 {
				emit(h)
				h = []string{"reset"}
			}
		}
		kinds := []string{"swap-empty", "swap-noowner", "swap-shortowner", "swap-notoken", "mswap-empty", "mswap-nilasset", "mswap-shortowner", "key-empty", "key-unknown", "mkey-empty", "mkey-unknown"}
		for _, k := range kinds {
			h = append(h, "swaps "+k)
		}
		for i := 0; i < 12; i++ {
			n := 2 + rng.Intn(4)
			var ks []string
			for j := 0; j < n; j++ {
				ks = append(ks, pick(kinds))
			}
			h = append(h, "swaps "+strings.Join(ks, " "))
		}
		emit(h)
	}
	// (5) random mix
	for i := 0; i < nHist; i++ {
		h := []string{"reset"}
		for j := 0; j < per; j++ {
			switch rng.Intn(3) {
			case 0:
				h = append(h, strings.TrimSpace(fmt.Sprintf("call %s %s %s %s", pick(creators), pick(acls), hx(pick(c14fns)), strings.Join(vec(rng.Intn(9)), " "))))
			case 1:
				h = append(h, strings.TrimSpace(fmt.Sprintf("signed %s %s %s", pick([]string{"direct", "task"}), pick(acls), func() string {
					f := pick(c14fns[12:])
					return f + " " + pick(signers) + " " + strings.Join(vec(argc(f, 6)), " ")
				}())))
			case 2:
				// structured task lists with too few / too many arguments (the shape of the repaired defect)
				k := rng.Intn(6)
				req := &fpb.ExecuteTasksRequest{}
				for t := 0; t < 1+rng.Intn(3); t++ {
					args := make([]string, k)
					for a := range args {
						args[a] = values()
					}
					req.Tasks = append(req.Tasks, &fpb.Task{Id: fmt.Sprintf("%02x", rng.Intn(256)), Method: pick(c14fns[12:]), Args: args})
				}
				data, _ := proto.Marshal(req)
				h = append(h, fmt.Sprintf("call %s %s %s %s", pick(creators), pick(acls), hx("executeTasks"), hx(string(data))))
			}
		}
		emit(h)
	}
	c.Rule = "every entry point (55 function names incl. unknown and empty) x argument counts 0..8 x 8 creator kinds x 10 access-control behaviours with values from {empty, small and huge numbers, negative, address, checksum-valid base58check strings with payloads of 0, 3, 31, 33 bytes, names, non-UTF-8, 5 kB, JSON, whole and truncated protobufs, random bytes}; correctly signed requests with arbitrary method arguments on the direct/batched and task routes; Init with 0..7 arguments and malformed JSON configurations; batches and task lists of scripted items that succeed, fail and panic (in their body, or - task lists - while being validated: an access-control answer without an address); malformed swap / multi-swap / key sections; the chaincode runs in a child process whose death or silence is observed by the parent and confirmed by re-running the history alone. non-trivial = any history beyond the reset; distinct = sha256"
	c.Extra = map[string]any{"reply_classes": ChildStats()}
	_ = rand.Int
}
