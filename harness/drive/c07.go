package drive

import (
	"encoding/hex"
	"encoding/json"
	"fmt"
	"golang.org/x/crypto/sha3"
	"sort"
	"strconv"
	"strings"
	"time"

	"verifharness/simpeer"
	"verifharness/world"

	fpb "github.com/anoideaopen/foundation/proto"
	"github.com/golang/protobuf/proto" //nolint:staticcheck
)

// C07 — the property's own experiment. One long-lived chaincode instance A receives every
// proposal of the history (committed ones and ones that are simulated and dropped). Every
// proposal is additionally simulated (a) on a freshly created instance B over the same committed
// state and (b) a second time on A; status, message, payload, write-set and event of the three
// simulations must be byte-identical. The observed output is A's result class, which the Lean
// model (an instance that carries its memory along) and the Lean spec (a fresh instance for every
// proposal) both predict.

func init() { Registry["C07"] = &Prop{Gen: genC07, New: func() Executor { return &c07ex{} }} }

type c07ex struct {
	base
	c     *world.Chan
	fresh int

	tracing    bool
	swapSeq    int
	forceNonce string // nonce of the next signed request (op future)
	futureSeq  int64
}

func (e *c07ex) user(name string) *simpeer.User {
	w := theWorld()
	switch name {
	case "I":
		return w.Issuer
	case "F":
		return (&c19ex{}).user("F")
	}
	for _, u := range w.Users {
		if u.Name == name {
			return u
		}
	}
	return nil
}

func canonResult(r *simpeer.Result) string {
	var b strings.Builder
	if r.Panic != nil {
		fmt.Fprintf(&b, "panic:%v", r.Panic)
		return b.String()
	}
	fmt.Fprintf(&b, "status=%d msg=%q payload=%x", r.Resp.Status, r.Resp.Message, r.Resp.Payload)
	for _, w := range r.Stub.WriteSet() {
		fmt.Fprintf(&b, " w[%q]=%x/%v", w.Key, w.Value, w.IsDelete)
	}
	if r.Stub.Event != nil {
		fmt.Fprintf(&b, " ev[%s]=%x", r.Stub.Event.EventName, r.Stub.Event.Payload)
	}
	vk := make([]string, 0, len(r.Stub.VPWrites))
	for k := range r.Stub.VPWrites {
		vk = append(vk, k)
	}
	sort.Strings(vk)
	for _, k := range vk {
		fmt.Fprintf(&b, " vp[%q]=%x", k, r.Stub.VPWrites[k])
	}
	return b.String()
}

func firstDiff(a, b string) string {
	n := len(a)
	if len(b) < n {
		n = len(b)
	}
	i := 0
	for i < n && a[i] == b[i] {
		i++
	}
	lo := i - 60
	if lo < 0 {
		lo = 0
	}
	cut := func(s string) string {
		hi := i + 80
		if hi > len(s) {
			hi = len(s)
		}
		if lo > len(s) {
			return ""
		}
		return s[lo:hi]
	}
	return fmt.Sprintf("at byte %d: %q vs %q", i, cut(a), cut(b))
}

// triple simulates one proposal on A, on a fresh B and on A again, compares, and commits A's
// simulation when asked to (and when it succeeded).
func (e *c07ex) triple(creator []byte, fn string, args []string, commit bool, what string) *simpeer.Result {
	txid := simpeer.NewTxID()
	a := e.c.CC
	tok := e.c.Token
	rA := e.c.Simulate(creator, txid, fn, args...)
	cc, t := world.NewInstance()
	e.c.CC, e.c.Token = cc, t
	rB := e.c.Simulate(creator, txid, fn, args...)
	e.c.CC, e.c.Token = a, tok
	rA2 := e.c.Simulate(creator, txid, fn, args...)
	e.fresh++
	ca, cb, ca2 := canonResult(rA), canonResult(rB), canonResult(rA2)
	if ca != cb {
		e.flag("instance_divergence", strings.ReplaceAll(what+": long-lived vs fresh instance differ "+firstDiff(ca, cb), "\n", " "))
	} else if ca != ca2 {
		e.flag("repeat_divergence", strings.ReplaceAll(what+": two runs on the same instance differ "+firstDiff(ca, ca2), "\n", " "))
	}
	if commit && rA.OK() {
		if err := rA.Stub.Commit(); err == nil {
			rA.Committed = true
		}
	}
	return rA
}

// call executes one signed user call by the chosen route; returns per-task error text ("" = ok).
func (e *c07ex) call(mode string, u *simpeer.User, fn string, args ...string) string {
	wd := theWorld()
	commit := mode[0] == 'c'
	signed := e.c.Signed(u, fn, args...)
	if e.forceNonce != "" {
		signed = e.c.SignedN(u, e.forceNonce, fn, args...)
		e.forceNonce = ""
	}
	var r *simpeer.Result
	var resp *fpb.BatchResponse
	if mode[1] == 't' {
		data, _ := proto.Marshal(&fpb.ExecuteTasksRequest{Tasks: []*fpb.Task{{Id: simpeer.NewTxID(), Method: fn, Args: signed}}})
		r = e.triple(wd.Client.Creator, "executeTasks", []string{string(data)}, commit, mode+" "+fn)
	} else {
		// the submission is an ordinary committed proposal; the batch is the proposal under test
		sub := e.triple(wd.Client.Creator, fn, signed, true, mode+" submit "+fn)
		if !sub.OK() {
			return "submit: " + sub.Resp.Message
		}
		id, _ := hex.DecodeString(sub.Stub.TxID)
		data, _ := proto.Marshal(&fpb.Batch{TxIDs: [][]byte{id}})
		r = e.triple(wd.Robot.Creator, "batchExecute", []string{string(data)}, commit, mode+" batch "+fn)
	}
	if !r.OK() {
		return "request: " + r.Resp.Message
	}
	resp = &fpb.BatchResponse{}
	if err := proto.Unmarshal(r.Resp.Payload, resp); err != nil || len(resp.TxResponses) != 1 {
		return "decode"
	}
	if er := resp.TxResponses[0].GetError(); er != nil {
		return er.GetError()
	}
	return ""
}

func (e *c07ex) query(fn string, args ...string) (string, bool) {
	r := e.triple(theWorld().Client.Creator, fn, args, false, "query "+fn)
	if !r.OK() {
		return r.Resp.Message, false
	}
	return string(r.Resp.Payload), true
}

func (e *c07ex) Exec(op string) string {
	w := strings.Fields(op)
	if len(w) == 0 {
		return "bad-op"
	}
	wd := theWorld()
	if w[0] == "reset" {
		for k := range wd.ACL.UserIDs {
			delete(wd.ACL.UserIDs, k)
		}
		if c07OrigRobot == nil {
			c07OrigRobot, c07AltRobot = wd.Robot, simpeer.NewIdentity("platformMSP", "client")
		}
		wd.Robot = c07OrigRobot
		e.tracing = false
		e.c = wd.AddChannel("VT", world.Options{})
		return "ok"
	}
	if e.c == nil {
		return "bad-op"
	}
	if w[0] == "tracing" {
		// the configuration names a trace collector: spans get real, process-local ids from now on
		e.tracing = true
		e.c.Reconfigure(world.Options{Tracing: true})
		return "ok"
	}
	if w[0] == "rerobot" {
		// the robot's certificate is rotated: the channel is initialised again naming the other robot
		// identity, and from now on that one sends the batches. The process must follow the stored
		// configuration, like a fresh one does.
		if wd.Robot == c07OrigRobot {
			wd.Robot = c07AltRobot
		} else {
			wd.Robot = c07OrigRobot
		}
		e.c.Reconfigure(world.Options{Tracing: e.tracing})
		return "ok"
	}
	if w[0] == "trace" {
		// the client's trace context travelling in the transient map of every following proposal
		if len(w) != 2 {
			return "bad-op"
		}
		tp := []byte("00-0af7651916cd43dd8448eb211c80319c-b7ad6b7169203331-01")
		switch w[1] {
		case "0":
			e.c.Transient = nil
		case "1":
			e.c.Transient = map[string][]byte{"traceparent": tp}
		case "2":
			e.c.Transient = map[string][]byte{"traceparent": tp, "tracestate": []byte("rojo=00f067aa0ba902b7,congo=t61rcWkgMzE")}
		case "3":
			e.c.Transient = map[string][]byte{"traceparent": tp, "baggage": []byte("userId=alice")}
		case "4":
			e.c.Transient = map[string][]byte{"traceparent": tp, "tracestate": []byte("rojo=1"), "baggage": []byte("userId=alice,serverNode=DF28,isProduction=false")}
		default:
			return "bad-op"
		}
		return "ok"
	}
	if w[0] == "bal" {
		var parts []string
		for _, n := range []string{"I", "F", "u0", "u1", "u2"} {
			p, _ := e.c.Query("balanceOf", e.user(n).Addr)
			parts = append(parts, n+"="+strings.Trim(p, "\""))
		}
		return strings.Join(parts, ",")
	}
	mode := w[0]
	if mode == "xb" || mode == "xt" {
		// several transfers f -> t in one request, committed
		if len(w) < 4 || e.user(w[1]) == nil || e.user(w[2]) == nil {
			return "bad-op"
		}
		e.nontrivial = true
		from, to := e.user(w[1]), e.user(w[2])
		var r *simpeer.Result
		if mode == "xt" {
			var tasks []*fpb.Task
			for _, a := range w[3:] {
				tasks = append(tasks, &fpb.Task{Id: simpeer.NewTxID(), Method: "transfer", Args: e.c.Signed(from, "transfer", to.Addr, a, "ref")})
			}
			data, _ := proto.Marshal(&fpb.ExecuteTasksRequest{Tasks: tasks})
			r = e.triple(wd.Client.Creator, "executeTasks", []string{string(data)}, true, "xt")
		} else {
			b := &fpb.Batch{}
			for _, a := range w[3:] {
				sub := e.triple(wd.Client.Creator, "transfer", e.c.Signed(from, "transfer", to.Addr, a, "ref"), true, "xb submit")
				if !sub.OK() {
					return "err:submit"
				}
				id, _ := hex.DecodeString(sub.Stub.TxID)
				b.TxIDs = append(b.TxIDs, id)
			}
			data, _ := proto.Marshal(b)
			r = e.triple(wd.Robot.Creator, "batchExecute", []string{string(data)}, true, "xb")
		}
		if !r.OK() {
			return "err:request"
		}
		resp := &fpb.BatchResponse{}
		if err := proto.Unmarshal(r.Resp.Payload, resp); err != nil || len(resp.TxResponses) != len(w)-3 {
			return "err:decode"
		}
		var outs []string
		for _, tr := range resp.TxResponses {
			if tr.GetError() != nil {
				outs = append(outs, "err")
			} else {
				outs = append(outs, "ok")
			}
		}
		return strings.Join(outs, ",")
	}
	if len(mode) != 2 || (mode[0] != 'c' && mode[0] != 'd') || (mode[1] != 'b' && mode[1] != 't') || len(w) < 2 {
		return "bad-op"
	}
	a := w[2:]
	u := func(i int) *simpeer.User {
		if i < len(a) {
			return e.user(a[i])
		}
		return nil
	}
	switch w[1] {
	case "fund":
		if len(a) != 2 || u(0) == nil {
			return "bad-op"
		}
		return okErr(e.call(mode, wd.Issuer, "emit", u(0).Addr, a[1]))
	case "setfee":
		if len(a) != 4 {
			return "bad-op"
		}
		e.nontrivial = true
		return okErr(e.call(mode, wd.FeeSet, "setFee", a[0], a[1], a[2], a[3]))
	case "setfeeaddr":
		if len(a) != 1 || u(0) == nil {
			return "bad-op"
		}
		return okErr(e.call(mode, wd.FeeASet, "setFeeAddress", u(0).Addr))
	case "setrate":
		if len(a) != 3 {
			return "bad-op"
		}
		return okErr(e.call(mode, wd.Issuer, "setRate", a[0], a[1], a[2]))
	case "transfer":
		if len(a) != 3 || u(0) == nil || u(1) == nil {
			return "bad-op"
		}
		e.nontrivial = true
		return okErr(e.call(mode, u(0), "transfer", u(1).Addr, a[2], "ref"))
	case "swapbegin":
		// a swap begun (escrow taken, the swap announced in the reply of its batch); later requests on
		// the same instance must answer as a fresh instance does - nothing of this one may linger
		if len(a) != 2 || u(0) == nil {
			return "bad-op"
		}
		e.nontrivial = true
		e.swapSeq++
		hs := sha3.Sum256([]byte(fmt.Sprintf("c07-key-%d", e.swapSeq)))
		return okErr(e.call(mode, u(0), "swapBegin", "VT", "CC", a[1], hex.EncodeToString(hs[:])))
	case "future":
		// a request whose nonce (a client's clock reading in ms) is ahead of this machine's clock by the
		// given number of ms: acceptance depends on the sender's stored window only, never on the wall
		// clock of whoever simulates. The sender is used by nothing else in the history.
		if len(a) != 1 {
			return "bad-op"
		}
		d, err := strconv.ParseInt(a[0], 10, 64)
		if err != nil {
			return "bad-op"
		}
		e.futureSeq++
		e.forceNonce = strconv.FormatInt(time.Now().UnixMilli()+d+e.futureSeq, 10)
		return okErr(e.call(mode, wd.Users[3], "script", "nop"))
	case "bad":
		// requests that fail, each for another reason: the refusal (its text included) is part of the
		// result and has to be the same bytes on every instance
		if len(a) != 2 || u(0) == nil {
			return "bad-op"
		}
		hash := strings.Repeat("ab", 32)
		other := wd.Users[1].Addr
		if u(0) == wd.Users[1] {
			other = wd.Users[2].Addr
		}
		switch a[1] {
		case "mswap-exp":
			return okErr(e.call(mode, u(0), "multiSwapBegin", "VT", `{"assets":[{"group":"VT","amount":"1e3"}]}`, "CC", hash))
		case "mswap-neg":
			return okErr(e.call(mode, u(0), "multiSwapBegin", "VT", `{"assets":[{"group":"VT","amount":"-5"}]}`, "CC", hash))
		case "mswap-second":
			return okErr(e.call(mode, u(0), "multiSwapBegin", "VT", `{"assets":[{"group":"VT","amount":"1"},{"group":"VT_2","amount":"x"},{"group":"VT_3","amount":"2"}]}`, "CC", hash))
		case "mswap-empty":
			return okErr(e.call(mode, u(0), "multiSwapBegin", "VT", `{"assets":[]}`, "CC", hash))
		case "mswap-huge":
			return okErr(e.call(mode, u(0), "multiSwapBegin", "VT", `{"assets":[{"group":"VT","amount":"99999999999999999999999999"},{"group":"VT_2","amount":"1"}]}`, "CC", hash))
		case "swap-amount":
			return okErr(e.call(mode, u(0), "swapBegin", "VT", "CC", "1x", hash))
		case "swap-huge":
			return okErr(e.call(mode, u(0), "swapBegin", "VT", "CC", "99999999999999999999999999", hash))
		case "swap-hash":
			return okErr(e.call(mode, u(0), "swapBegin", "VT", "CC", "1", "zz"))
		case "transfer-neg":
			return okErr(e.call(mode, u(0), "transfer", other, "-1", "ref"))
		case "transfer-word":
			return okErr(e.call(mode, u(0), "transfer", other, "ten", "ref"))
		case "transfer-zero":
			return okErr(e.call(mode, u(0), "transfer", other, "0", "ref"))
		case "transfer-self":
			return okErr(e.call(mode, u(0), "transfer", u(0).Addr, "1", "ref"))
		case "transfer-huge":
			return okErr(e.call(mode, u(0), "transfer", other, "99999999999999999999999999", "ref"))
		case "transfer-addr":
			return okErr(e.call(mode, u(0), "transfer", "not-an-address", "1", "ref"))
		case "emit-stranger":
			return okErr(e.call(mode, u(0), "emit", other, "5"))
		case "setrate-stranger":
			return okErr(e.call(mode, u(0), "setRate", "buyToken", "USD", "100000000"))
		case "setrate-word":
			return okErr(e.call(mode, wd.Issuer, "setRate", "buyToken", "USD", "much"))
		case "setfee-stranger":
			return okErr(e.call(mode, u(0), "setFee", "VT", "1", "0", "0"))
		case "lock-json":
			return okErr(e.call(mode, wd.AdminU, "lockTokenBalance", `{"id":"L1","address":"`+other+`","token":"VT","amount":"-1","reason":"r"}`))
		case "script-fail":
			return okErr(e.call(mode, u(0), "script", "put:k1:v;fail"))
		}
		return "bad-op"
	case "multi":
		// a scripted body with many writes and events: exercises the sorted write / event lists
		if len(a) != 1 {
			return "bad-op"
		}
		n, err := strconv.Atoi(a[0])
		if err != nil || n < 0 || n > 40 {
			return "bad-op"
		}
		var steps []string
		for i := 0; i < n; i++ {
			k := (i*7 + 3) % (n + 1)
			steps = append(steps, fmt.Sprintf("put:k%02d:v%d", k, i), fmt.Sprintf("evt:e%02d:x%d", k, i))
		}
		return okErr(e.call(mode, wd.Users[0], "script", strings.Join(steps, ";")))
	case "meta":
		p, ok := e.query("metadata")
		if !ok {
			return "err"
		}
		return canonMeta(p, func(addr string) string {
			for _, n := range []string{"I", "F", "u0", "u1", "u2"} {
				if e.user(n).Addr == addr {
					return n
				}
			}
			return addr
		})
	case "predict":
		if len(a) != 1 {
			return "bad-op"
		}
		p, ok := e.query("predictFee", a[0])
		if !ok {
			return "err"
		}
		return jsonField(p, "fee")
	}
	return "bad-op"
}

// the two robot identities of op rerobot (the world's own, restored at every reset, and another one)
var c07OrigRobot, c07AltRobot *simpeer.Identity

var badKinds = []string{"mswap-exp", "mswap-neg", "mswap-second", "mswap-empty", "mswap-huge", "swap-amount", "swap-huge", "swap-hash",
	"transfer-neg", "transfer-word", "transfer-zero", "transfer-self", "transfer-huge", "transfer-addr", "emit-stranger",
	"setrate-stranger", "setrate-word", "setfee-stranger", "lock-json", "script-fail"}

func genC07(c *Cfg, emit func([]string)) {
	nHist, maxSteps := 60, 14
	if c.Thorough() {
		nHist, maxSteps = 1500, 30
	}
	users := []string{"u0", "u1", "u2"}
	pick := func(xs ...string) string { return xs[c.Rng.Intn(len(xs))] }
	amt := func() string { return pick("1", "7", "100", "1000", "5000", "100000") }
	for i := 0; i < nHist; i++ {
		h := []string{"reset"}
		// most histories start on a ledger without metadata (the interesting case); some fund first
		if c.Rng.Intn(3) == 0 {
			h = append(h, "cb fund "+pick(users...)+" 100000")
		}
		n := 4 + c.Rng.Intn(maxSteps)
		if c.Rng.Intn(2) == 0 {
			h = append(h, "trace "+pick("1", "2", "3", "4"))
			if c.Rng.Intn(2) == 0 {
				h = append(h, "tracing on")
			}
		}
		for j := 0; j < n; j++ {
			if c.Rng.Intn(14) == 0 {
				h = append(h, "rerobot")
			}
			mode := pick("cb", "ct", "db", "dt", "dt", "db")
			switch c.Rng.Intn(17) {
			case 15, 16:
				h = append(h, mode+" swapbegin "+pick(users...)+" "+pick("1", "7", "100", "100000"))
			case 14:
				h = append(h, mode+" future "+pick("0", "30000", "2000000", "7200000", "86400000"))
			case 12, 13:
				h = append(h, mode+" bad "+pick(users...)+" "+pick(badKinds...))
			case 0, 1:
				h = append(h, mode+" fund "+pick(users...)+" "+amt())
			case 2, 3:
				// valid and invalid fee settings (unknown currency, share above 100 %, floor above cap)
				h = append(h, mode+" setfee "+pick("VT", "VT", "USD", "XYZ")+" "+pick("0", "500000", "100000000", "100000001")+" "+pick("0", "1", "10")+" "+pick("0", "5", "100"))
			case 4:
				h = append(h, mode+" setfeeaddr "+pick("F", "u2"))
			case 5:
				h = append(h, mode+" setrate "+pick("buyToken", "buyBack")+" "+pick("USD", "VT")+" "+pick("0", "100000000", "250000000"))
			case 6, 7, 8:
				h = append(h, mode+" transfer "+pick(users...)+" "+pick(users...)+" "+amt())
			case 9:
				h = append(h, mode+" multi "+strconv.Itoa(2+c.Rng.Intn(12)))
			case 10:
				h = append(h, pick("xb", "xt")+" "+pick(users...)+" "+pick(users...)+" "+amt()+" "+amt()+" "+amt())
			case 11:
				h = append(h, "dt predict "+amt())
			}
			if c.Rng.Intn(3) == 0 {
				h = append(h, "dt meta")
			}
		}
		h = append(h, "dt meta", "bal")
		emit(h)
	}
	c.Rule = "random histories of committed and simulated-and-dropped proposals (emit, setFee valid/invalid, setFeeAddress, setRate, transfer, multi-write scripts, multi-transfer requests, swap begins, rotations of the robot's certificate by re-initialisation, queries, requests whose nonce is 0 s .. 1 day ahead of this machine's clock, and 20 kinds of failing requests: malformed / negative / oversized amounts and asset lists of swaps, multi-swaps, transfers and locks, strangers calling issuer methods, failing scripts) on both routes; every proposal is simulated on the long-lived instance, on a fresh instance and again on the long-lived one and the three results are compared byte for byte; non-trivial = contains a setFee or a transfer"
}

func jsonField(p, field string) string {
	var m map[string]json.RawMessage
	if err := json.Unmarshal([]byte(p), &m); err != nil {
		return "err:decode"
	}
	return strings.Trim(string(m[field]), "\"")
}

// canonMeta renders the metadata reply the way the model's showMeta does.
func canonMeta(p string, nameOf func(string) string) string {
	var m struct {
		Em  json.Number `json:"total_emission"`
		Fee *struct {
			Address  string       `json:"address"`
			Currency string       `json:"currency"`
			Fee      *json.Number `json:"fee"`
			Floor    *json.Number `json:"floor"`
			Cap      *json.Number `json:"cap"`
		} `json:"fee"`
		Rates []struct {
			Deal string      `json:"deal_type"`
			Cur  string      `json:"currency"`
			Rate json.Number `json:"rate"`
		} `json:"rates"`
	}
	d := json.NewDecoder(strings.NewReader(p))
	d.UseNumber()
	if err := d.Decode(&m); err != nil {
		return "err:decode:" + err.Error()
	}
	num := func(n *json.Number) string {
		if n == nil {
			return "0"
		}
		return strings.Trim(n.String(), "\"")
	}
	fee, addr := "false//0/0/0", "-"
	if m.Fee != nil {
		if m.Fee.Fee != nil {
			fee = "true/" + m.Fee.Currency + "/" + num(m.Fee.Fee) + "/" + num(m.Fee.Floor) + "/" + num(m.Fee.Cap)
		}
		if m.Fee.Address != "" {
			addr = nameOf(m.Fee.Address)
		}
	}
	var rs []string
	for _, r := range m.Rates {
		rs = append(rs, r.Deal+":"+r.Cur+":"+strings.Trim(r.Rate.String(), "\""))
	}
	em := strings.Trim(m.Em.String(), "\"")
	if em == "" {
		em = "0"
	}
	return "em=" + em + " fee=" + fee + " addr=" + addr + " rates=" + strings.Join(rs, ",")
}
