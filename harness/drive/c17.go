package drive

import (
	"encoding/hex"
	"encoding/json"
	"fmt"
	"runtime"
	"sort"
	"strconv"
	"strings"
	"sync"
	"time"

	"verifharness/simpeer"
	"verifharness/world"

	fpb "github.com/anoideaopen/foundation/proto"
	"github.com/golang/protobuf/proto" //nolint:staticcheck
)

// C17 — several invocations run on ONE chaincode instance, each on its own goroutine with its own
// simulated transaction. The scripted bodies stop at a harness scheduler immediately before every
// GetStub(); the schedule (a list of thread indices) decides who takes the next step. Every
// invocation's result (reply, write-set, event) is compared with the same invocation run alone on
// the same committed state.

var agedTo int

func init() { Registry["C17"] = &Prop{Gen: genC17, New: func() Executor { return &c17ex{} }} }

type c17ex struct {
	base
	c *world.Chan

	sharedTask    string // task id shared by the taskS invocations of one conc op
	sharedPending string // pending request shared by the batchS invocations of one conc op
}

func curGoid() int {
	var buf [64]byte
	n := runtime.Stack(buf[:], false)
	f := strings.Fields(strings.TrimPrefix(string(buf[:n]), "goroutine "))
	id, _ := strconv.Atoi(f[0])
	return id
}

// stepLimit: how long an invocation may take to reach its next switch point or its end (a request
// that never does is the finding; generous, so that a loaded machine is not mistaken for one)
var stepLimit = 150 * time.Second // set from OpTimeout in common.go's init

type c17inv struct {
	kind, script string
	creator      []byte
	fn           string
	args         []string
	txid         string
	ids          []string // the transaction ids this invocation's own context reports
}

// prepare builds the proposal of one invocation (committing what must exist beforehand).
func (e *c17ex) prepare(i int, spec string) (*c17inv, bool) {
	wd := theWorld()
	p := strings.SplitN(spec, "=", 2)
	if len(p) != 2 {
		return nil, false
	}
	inv := &c17inv{kind: p[0], script: strings.ReplaceAll(p[1], "+", ";"), txid: simpeer.NewTxID()}
	if inv.script == "-" {
		inv.script = ""
	}
	u := wd.Users[i%len(wd.Users)]
	switch inv.kind {
	case "nb":
		inv.creator, inv.fn, inv.args = wd.Client.Creator, "scriptNb", e.c.Signed(u, "scriptNb", inv.script)
		inv.ids = []string{inv.txid}
	case "q":
		// a query: read-only context; two identical queries in flight are still two transactions
		inv.creator, inv.fn, inv.args = wd.Client.Creator, "poke", e.c.SignedN(wd.Users[0], "1700000000001", "poke", inv.script)
		inv.ids = []string{inv.txid}
	case "task":
		tid := simpeer.NewTxID()
		data, _ := proto.Marshal(&fpb.ExecuteTasksRequest{Tasks: []*fpb.Task{{Id: tid, Method: "script", Args: e.c.Signed(u, "script", inv.script)}}})
		inv.creator, inv.fn, inv.args = wd.Client.Creator, "executeTasks", []string{string(data)}
		inv.ids = []string{inv.txid, tid}
	case "taskS":
		// a task list whose task carries the SAME task id as the other taskS invocations of this op
		// (the client picks task ids): still its own transaction
		data, _ := proto.Marshal(&fpb.ExecuteTasksRequest{Tasks: []*fpb.Task{{Id: e.sharedTask, Method: "script", Args: e.c.Signed(u, "script", inv.script)}}})
		inv.creator, inv.fn, inv.args = wd.Client.Creator, "executeTasks", []string{string(data)}
		inv.ids = []string{inv.txid, e.sharedTask}
	case "batchS":
		// two batch proposals in flight naming the same pending request (a robot re-sending its batch)
		if e.sharedPending == "" {
			id, r := e.c.Submit("script", e.c.Signed(u, "script", inv.script))
			if !r.OK() {
				return nil, false
			}
			e.sharedPending = id
		}
		idb, _ := hex.DecodeString(e.sharedPending)
		data, _ := proto.Marshal(&fpb.Batch{TxIDs: [][]byte{idb}})
		inv.creator, inv.fn, inv.args = wd.Robot.Creator, "batchExecute", []string{string(data)}
		inv.ids = []string{inv.txid, e.sharedPending}
	case "xfer":
		// a transfer (with the committed fee setting) executed by a batch; script = amount
		id, r := e.c.Submit("transfer", e.c.Signed(wd.Users[0], "transfer", wd.Users[1].Addr, inv.script, "ref"))
		if !r.OK() {
			return nil, false
		}
		idb, _ := hex.DecodeString(id)
		data, _ := proto.Marshal(&fpb.Batch{TxIDs: [][]byte{idb}})
		inv.creator, inv.fn, inv.args = wd.Robot.Creator, "batchExecute", []string{string(data)}
		inv.ids = []string{inv.txid, id}
	case "fee":
		// a batch that changes the fee setting (share in 1e-8; only simulated): script = share
		id, r := e.c.Submit("setFee", e.c.Signed(wd.FeeSet, "setFee", "VT", inv.script, "0", "0"))
		if !r.OK() {
			return nil, false
		}
		idb, _ := hex.DecodeString(id)
		data, _ := proto.Marshal(&fpb.Batch{TxIDs: [][]byte{idb}})
		inv.creator, inv.fn, inv.args = wd.Robot.Creator, "batchExecute", []string{string(data)}
		inv.ids = []string{inv.txid, id}
	case "batch":
		id, r := e.c.Submit("script", e.c.Signed(u, "script", inv.script))
		if !r.OK() {
			return nil, false
		}
		idb, _ := hex.DecodeString(id)
		data, _ := proto.Marshal(&fpb.Batch{TxIDs: [][]byte{idb}})
		inv.creator, inv.fn, inv.args = wd.Robot.Creator, "batchExecute", []string{string(data)}
		inv.ids = []string{inv.txid, id}
	case "done":
		inv.creator, inv.fn, inv.args = wd.Client.Creator, "swapDone", []string{"00ff" + strconv.Itoa(i), "nokey"}
	case "init":
		// a re-initialisation proposal with ANOTHER configuration (symbol ZZ, swaps disabled), only
		// simulated: the invocations in flight keep the configuration they loaded
		inv.creator, inv.fn = wd.Admin.Creator, "\x00init"
		inv.args = []string{wd.ConfigJSON("ZZ", world.Options{DisableSwaps: true, DisableMultiSwaps: true})}
	default:
		return nil, false
	}
	return inv, true
}

// observe renders what the model predicts: the values the body read and its writes to script keys.
func observe(inv *c17inv, r *simpeer.Result) string {
	if r == nil {
		return "hung"
	}
	if r.Panic != nil {
		return "panic"
	}
	if inv.kind == "done" {
		if r.OK() {
			return "done-ok"
		}
		return "done-err"
	}
	if inv.kind == "init" {
		return "init"
	}
	if !r.OK() {
		return "err"
	}
	result := ""
	switch inv.kind {
	case "nb", "q":
		result = string(r.Resp.Payload)
	default:
		if r.Stub.Event != nil {
			ev := &fpb.BatchEvent{}
			if err := proto.Unmarshal(r.Stub.Event.Payload, ev); err == nil && len(ev.Events) == 1 {
				if ev.Events[0].GetError() != nil {
					return "err"
				}
				result = string(ev.Events[0].GetResult())
			}
		}
	}
	var rs string
	if err := json.Unmarshal([]byte(result), &rs); err != nil {
		rs = strings.Trim(result, "\"")
	}
	var reads []string
	if rs != "" {
		for _, h := range strings.Split(rs, "|") {
			b, _ := hex.DecodeString(h)
			v := string(b)
			if len(v) == 32 && isHex(v) { // a transaction id: mine or somebody else's
				v = "OTHER"
				for _, own := range inv.ids {
					if own == string(b) {
						v = "SELF"
					}
				}
			}
			reads = append(reads, "["+v+"]")
		}
	}
	var ws []string
	for _, w := range r.Stub.WriteSet() {
		if strings.HasPrefix(w.Key, "k") {
			ws = append(ws, w.Key+"="+string(w.Value))
		}
	}
	sort.Strings(ws)
	return "reads=" + strings.Join(reads, ",") + ";w=" + strings.Join(ws, ",")
}

// sim simulates one invocation (nothing is committed): Invoke, or Init for the kind "init"
func (e *c17ex) sim(inv *c17inv) *simpeer.Result {
	if inv.kind == "init" {
		return e.c.SimInit(inv.creator, inv.txid, inv.args...)
	}
	return e.c.Simulate(inv.creator, inv.txid, inv.fn, inv.args...)
}

func isHex(s string) bool {
	_, err := hex.DecodeString(s)
	return err == nil
}

func (e *c17ex) Exec(op string) string {
	w := strings.Fields(op)
	if len(w) == 0 {
		return "bad-op"
	}
	wd := theWorld()
	switch w[0] {
	case "reset":
		e.c = wd.AddChannel("VT", world.Options{})
		return "ok"
	case "feeprep":
		// committed: a funded sender, a fee collector, a 1 % transfer fee
		if e.c == nil {
			return "bad-op"
		}
		for _, s := range []string{e.c.Do(wd.Issuer, "emit", wd.Users[0].Addr, "1000000"), e.c.Do(wd.FeeASet, "setFeeAddress", wd.Users[2].Addr),
			e.c.Do(wd.FeeSet, "setFee", "VT", "1000000", "0", "0")} {
			if s != "" {
				return "err " + s
			}
		}
		return "ok"
	case "seed":
		if e.c == nil || len(w) != 3 {
			return "bad-op"
		}
		e.c.L.State[w[1]] = []byte(w[2])
		return "ok"
	case "age":
		// an old process: the shim starts one goroutine per transaction, so goroutine ids grow with
		// uptime; burn ids until the runtime has handed out at least n of them
		if len(w) != 2 {
			return "bad-op"
		}
		n, err := strconv.Atoi(w[1])
		if err != nil || n < 0 || n > 50000000 {
			return "bad-op"
		}
		for agedTo < n {
			var wg sync.WaitGroup
			k := 20000
			wg.Add(k)
			for i := 0; i < k; i++ {
				go wg.Done()
			}
			wg.Wait()
			agedTo += k
		}
		return "ok"
	case "conc":
		if e.c == nil || len(w) < 4 || len(w) > 5 {
			return "bad-op"
		}
		var sched []int
		if w[1] != "-" {
			for _, ch := range w[1] {
				if ch < '0' || int(ch-'0') >= len(w)-2 {
					return "bad-op"
				}
				sched = append(sched, int(ch-'0'))
			}
		}
		n := len(w) - 2
		invs := make([]*c17inv, n)
		e.sharedTask, e.sharedPending = simpeer.NewTxID(), ""
		libPoints := false // switch points inside library code (every stub operation) for the token kinds
		for i := 0; i < n; i++ {
			if strings.HasPrefix(w[2+i], "xfer=") || strings.HasPrefix(w[2+i], "fee=") {
				libPoints = true
			}
		}
		for i := 0; i < n; i++ {
			inv, ok := e.prepare(i, w[2+i])
			if !ok {
				return "bad-op"
			}
			invs[i] = inv
		}
		e.nontrivial = true
		// ---- reference: each invocation alone on the same committed state (nothing is committed)
		e.c.Token.Hook = nil
		solo := make([]*simpeer.Result, n)
		for i, inv := range invs {
			// (with a limit: an invocation that waits for something another, abandoned invocation
			// holds must not stop the harness)
			ch := make(chan *simpeer.Result, 1)
			go func(inv *c17inv) { ch <- e.sim(inv) }(inv)
			var ok bool
			if solo[i], ok = waitTicks(ch, stepLimit); !ok {
				e.flag("no_reply", "an invocation run alone did not finish within "+stepLimit.String())
				Hung = true // whatever holds it may hold the next one too: nothing further is run
				return "hung"
			}
		}
		// ---- concurrent run under the schedule
		var mu sync.Mutex
		idx := map[int]int{} // goroutine id -> thread index
		arrived := make(chan int, n)
		resume := make([]chan struct{}, n)
		finished := make([]bool, n)
		results := make([]*simpeer.Result, n)
		for i := range resume {
			resume[i] = make(chan struct{})
		}
		e.c.Token.Hook = func(string) {
			mu.Lock()
			i, ok := idx[curGoid()]
			mu.Unlock()
			if !ok {
				return
			}
			arrived <- i
			<-resume[i]
		}
		if libPoints {
			e.c.StubHook = e.c.Token.Hook
			defer func() { e.c.StubHook = nil }()
		}
		doneCh := make(chan int, n)
		waitFor := func(i int) bool { // until thread i blocks at a hook or finishes
			ticks := int(stepLimit / time.Second) // counted in ticks of this process (see waitTicks)
			for {
				select {
				case j := <-arrived:
					if j == i {
						return true
					}
				case j := <-doneCh:
					finished[j] = true
					if j == i {
						return true
					}
				case <-time.After(time.Second):
					if ticks--; ticks <= 0 {
						return false
					}
				}
			}
		}
		hung := false
		for i, inv := range invs {
			i, inv := i, inv
			go func() {
				mu.Lock()
				idx[curGoid()] = i
				mu.Unlock()
				results[i] = e.sim(inv)
				mu.Lock()
				delete(idx, curGoid())
				mu.Unlock()
				doneCh <- i
			}()
			if !waitFor(i) {
				hung = true
			}
		}
		step := func(i int) {
			if finished[i] || hung {
				return
			}
			resume[i] <- struct{}{}
			if !waitFor(i) {
				hung = true
			}
		}
		for _, i := range sched {
			step(i)
		}
		for rounds := 0; rounds < 2000 && !hung; rounds++ {
			all := true
			for i := 0; i < n; i++ {
				if !finished[i] {
					all = false
					step(i)
				}
			}
			if all {
				break
			}
		}
		e.c.Token.Hook = nil
		if hung {
			e.flag("no_reply", "an invocation neither reached its next switch point nor finished within "+stepLimit.String()+" under schedule "+w[1])
			Hung = true
			return "hung"
		}
		var outs []string
		for i, inv := range invs {
			if a, b := canonResult(results[i]), canonResult(solo[i]); a != b {
				e.flag("isolation_broken", strings.ReplaceAll(fmt.Sprintf("invocation %d (%s) under schedule %s differs from its solo run %s", i, inv.kind, w[1], firstDiff(a, b)), "\n", " "))
			}
			outs = append(outs, observe(inv, results[i]))
		}
		return strings.Join(outs, " | ")
	}
	return "bad-op"
}

func genC17(c *Cfg, emit func([]string)) {
	scripts2 := []string{"put:k1:a+get:k1", "get:k1+put:k1:b", "put:k2:c+id", "id+get:k1", "put:k1:e+evt:n:v"}
	kinds := []string{"nb", "batch", "task", "q"}
	// all interleavings of the hook points of the given step counts
	var interleave func(counts []int) []string
	interleave = func(counts []int) []string {
		total := 0
		for _, x := range counts {
			total += x
		}
		if total == 0 {
			return []string{""}
		}
		var out []string
		for i, x := range counts {
			if x > 0 {
				counts[i]--
				for _, rest := range interleave(counts) {
					out = append(out, strconv.Itoa(i)+rest)
				}
				counts[i]++
			}
		}
		return out
	}
	count := 0
	var h []string
	add := func(line string) {
		if len(h) == 0 {
			h = []string{"reset", "seed k1 x0", "seed k2 y0"}
		}
		h = append(h, line)
		count++
		if len(h) >= 12 {
			emit(h)
			h = nil
		}
	}
	// (a) two invocations, every pair of kinds, every schedule of their 2+2 switch points
	for _, ka := range kinds {
		for _, kb := range kinds {
			for si, sa := range scripts2 {
				sb := scripts2[(si+1)%len(scripts2)]
				if !c.Thorough() && (si+len(ka)+len(kb))%2 == 1 {
					continue
				}
				for _, sch := range interleave([]int{2, 2}) {
					add(fmt.Sprintf("conc %s %s=%s %s=%s", sch, ka, sa, kb, sb))
				}
			}
		}
	}
	// (a') two byte-identical queries in flight: each must answer from its own transaction
	for _, sc := range []string{"id+get:k1", "get:k1+id", "id+id"} {
		for _, sch := range interleave([]int{2, 2}) {
			add(fmt.Sprintf("conc %s q=%s q=%s", sch, sc, sc))
		}
	}
	// (a'') a re-initialisation with another configuration simulated while invocations are in flight:
	// they keep the configuration they loaded (symbol VT)
	for _, ka := range kinds {
		for _, sc := range []string{"sym+sym", "sym+put:k1:a", "get:k1+sym"} {
			for _, sch := range []string{"0", "00", "01", "10", "001", "010"} {
				add(fmt.Sprintf("conc %s %s=%s init=-", sch, ka, sc))
			}
			add(fmt.Sprintf("conc 0102 %s=%s init=- %s=%s", ka, sc, kinds[(len(sc)+1)%len(kinds)], sc))
		}
	}
	// (a''') two requests in flight carrying the same inner id: task lists with the same (client-picked)
	// task id, batches naming the same pending request
	for _, k := range []string{"taskS", "batchS"} {
		for si, sa := range scripts2 {
			for _, sch := range interleave([]int{2, 2}) {
				sb := scripts2[(si+2)%len(scripts2)]
				if k == "batchS" {
					sb = sa // the one pending request both batches name
				}
				add(fmt.Sprintf("conc %s %s=%s %s=%s", sch, k, sa, k, sb))
			}
		}
	}
	if len(h) > 0 {
		emit(h)
		h = nil
	}
	// (a'''') library code under the scheduler: a transfer with the committed 1 % fee and a merely
	// simulated batch that sets another fee, switching at every state read / write / ACL call; the
	// one runs k steps, then the other runs to its end, then the rest
	nk := 12
	if c.Thorough() {
		nk = 60
	}
	for k := 0; k <= nk; k++ {
		for _, first := range []string{"0", "1"} {
			other := map[string]string{"0": "1", "1": "0"}[first]
			sch := strings.Repeat(first, k) + strings.Repeat(other, 80)
			emit([]string{"reset", "feeprep", fmt.Sprintf("conc %s xfer=1000 fee=%s", sch, []string{"10000000", "0", "50000000"}[k%3]),
				fmt.Sprintf("conc %s xfer=%s xfer=777", sch, []string{"1000", "100000"}[k%2])})
			count += 2
		}
	}
	// (b) with a swap completion (installs and removes its context without switch points) in between
	for _, ka := range kinds {
		for _, sch := range []string{"0", "01", "010", "100", "001"} {
			add(fmt.Sprintf("conc %s %s=%s done=-", sch, ka, scripts2[0]))
		}
	}
	// (c) three invocations, schedules of 2+2+2 switch points (exhaustive in the thorough tier)
	all3 := interleave([]int{2, 2, 2})
	n3 := 60
	if c.Thorough() {
		n3 = len(all3) * 6
	}
	for i := 0; i < n3; i++ {
		sch := all3[c.Rng.Intn(len(all3))]
		if c.Thorough() {
			sch = all3[i%len(all3)]
		}
		ks := []string{kinds[c.Rng.Intn(4)], kinds[c.Rng.Intn(4)], kinds[c.Rng.Intn(4)]}
		add(fmt.Sprintf("conc %s %s=%s %s=%s %s=%s", sch, ks[0], scripts2[c.Rng.Intn(5)], ks[1], scripts2[c.Rng.Intn(5)], ks[2], scripts2[c.Rng.Intn(5)]))
	}
	// (d) longer bodies
	long := []string{"put:k1:a+get:k1+put:k2:b+get:k2", "get:k1+get:k2+put:k1:z+get:k1"}
	nl := 30
	if c.Thorough() {
		nl = 600
	}
	all44 := interleave([]int{4, 4})
	for i := 0; i < nl; i++ {
		add(fmt.Sprintf("conc %s %s=%s %s=%s", all44[c.Rng.Intn(len(all44))], kinds[c.Rng.Intn(4)], long[0], kinds[c.Rng.Intn(4)], long[1]))
	}
	if len(h) > 3 {
		emit(h)
	}
	h = nil
	// (e) the same on an old process: more than 10^6 (thorough: 10^7) goroutines served before, so
	// that goroutine ids have seven (eight) digits and neighbouring invocations share a long prefix
	age := "1000000"
	if c.Thorough() {
		age = "10000000"
	}
	for _, ka := range kinds {
		for _, kb := range kinds {
			hh := []string{"reset", "seed k1 x0", "seed k2 y0", "age " + age}
			for _, sch := range interleave([]int{2, 2}) {
				hh = append(hh, fmt.Sprintf("conc %s %s=%s %s=%s", sch, ka, scripts2[0], kb, scripts2[1]))
				count++
			}
			hh = append(hh, fmt.Sprintf("conc %s %s=%s %s=%s %s=%s", all3[c.Rng.Intn(len(all3))], ka, scripts2[2], kb, scripts2[3], ka, scripts2[4]))
			count++
			emit(hh)
		}
	}
	c.Exhaustive = true
	c.Rule = fmt.Sprintf("%d concurrent runs on one chaincode instance: (a) two invocations, every pair of kinds {immediate method, batchExecute, executeTasks, query} x scripted bodies of two operations each (state put/get, event, or reporting the context's transaction id), ALL %d interleavings of their switch points (one immediately before every GetStub()); (a''') two requests in flight with the same inner id (task lists with the same task id, batches naming the same pending request); (a'''') library code under the scheduler: a batched transfer with a committed 1 % fee against a merely simulated batch setting another fee, and against another transfer, with a switch point at every state read, state write and access-control call, the one running k steps before the other runs to its end; (a'') a re-initialisation proposal with another configuration simulated in between (bodies report the configuration in force); (b) a swap completion running in between; (c) three invocations under schedules of 2+2+2 switch points (%s); (d) bodies of four operations under sampled schedules; (e) every pair of kinds under all schedules again on an aged process (goroutine ids beyond 10^6, thorough 10^7). Each invocation runs on its own goroutine with its own simulated transaction; reply, write-set and event are compared with the same invocation run alone. non-trivial = every concurrent run; distinct = sha256", count, len(interleave([]int{2, 2})), map[bool]string{true: "all 90, six kind/body assignments each", false: "60 sampled"}[c.Thorough()])
	c.Extra = map[string]any{"concurrent_runs": count}
}
