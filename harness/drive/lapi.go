package drive

import (
	"encoding/json"
	"fmt"
	"math/big"
	"sort"
	"strings"

	"verifharness/simpeer"
	"verifharness/world"

	"github.com/btcsuite/btcutil/base58"
)

// LAPI: the balance API of core/ledger/balances.go (27 mutating functions), each call one batched
// transaction of the harness token; balances and reverse-index entries are read back from the
// ledger's composite keys.

func init() {
	Registry["LAPI"] = &Prop{Gen: genLAPI, New: func() Executor { return &lapiEx{} }}
}

type lapiEx struct {
	base
	c *world.Chan
}

func (e *lapiEx) user(name string) *simpeer.User {
	for _, x := range theWorld().Users {
		if x.Name == name {
			return x
		}
	}
	return nil
}

func (e *lapiEx) symOfAddr(raw []byte) string {
	if len(raw) == 0 {
		return "-"
	}
	s := base58.CheckEncode(raw[1:], raw[0])
	for _, x := range theWorld().Users {
		if x.Addr == s {
			return x.Name
		}
	}
	return "?" + s
}

func (e *lapiEx) call(script string) string {
	wd := theWorld()
	id, r := e.c.Submit("ledgerApi", e.c.Signed(wd.Users[0], "ledgerApi", script))
	if !r.OK() {
		return "err"
	}
	return e.batchResult(id)
}

func (e *lapiEx) batchResult(id string) string {
	b := e.c.ExecIDs(id)
	if b.Resp == nil || len(b.Resp.TxResponses) != 1 {
		return "err"
	}
	if b.Resp.TxResponses[0].GetError() != nil {
		return "err"
	}
	var recs []string
	if b.Event != nil && len(b.Event.Events) == 1 {
		for _, a := range b.Event.Events[0].GetAccounting() {
			recs = append(recs, fmt.Sprintf("%s|%s|%s|%s", encS(a.GetToken()), e.symOfAddr(a.GetSender()), e.symOfAddr(a.GetRecipient()), new(big.Int).SetBytes(a.GetAmount()).String()))
		}
	}
	sort.Strings(recs)
	if len(recs) == 0 {
		return "ok -"
	}
	return "ok " + strings.Join(recs, ";")
}

func encS(s string) string {
	if s == "" {
		return "-"
	}
	return s
}

func (e *lapiEx) Exec(op string) string {
	w := strings.Fields(op)
	if len(w) == 0 {
		return "bad-op"
	}
	wd := theWorld()
	switch w[0] {
	case "reset":
		e.c = wd.AddChannel("VT", world.Options{})
		return "ok"
	case "api":
		if len(w) != 6 || e.c == nil || e.user(w[2]) == nil {
			return "bad-op"
		}
		b := ""
		if w[3] != "-" {
			if e.user(w[3]) == nil {
				return "bad-op"
			}
			b = e.user(w[3]).Addr
		}
		e.nontrivial = true
		return e.call(strings.Join([]string{w[1], e.user(w[2]).Addr, b, dec(w[4]), w[5]}, "|"))
	case "apim":
		if len(w) != 5 || e.c == nil || e.user(w[2]) == nil {
			return "bad-op"
		}
		b := ""
		if w[3] != "-" {
			if e.user(w[3]) == nil {
				return "bad-op"
			}
			b = e.user(w[3]).Addr
		}
		e.nontrivial = true
		return e.call(strings.Join([]string{w[1], e.user(w[2]).Addr, b, dec(w[4])}, "|"))
	case "tait":
		// token.TxAllowedIndustrialBalanceTransfer, signed by the first user
		if len(w) != 4 || e.c == nil || e.user(w[1]) == nil || e.user(w[2]) == nil {
			return "bad-op"
		}
		type ja struct {
			Group  string `json:"group,omitempty"`
			Amount string `json:"amount,omitempty"`
		}
		as := []ja{}
		if w[3] != "-" {
			for _, it := range strings.Split(w[3], ",") {
				q := strings.SplitN(it, ":", 2)
				as = append(as, ja{Group: q[0], Amount: q[1]})
			}
		}
		raw, _ := json.Marshal(as)
		e.nontrivial = true
		id, r := e.c.Submit("allowedIndustrialBalanceTransfer", e.c.Signed(e.user(w[1]), "allowedIndustrialBalanceTransfer", e.user(w[2]).Addr, string(raw), "ref"))
		if !r.OK() {
			return "err"
		}
		return e.batchResult(id)
	case "dump":
		if e.c == nil {
			return "bad-op"
		}
		return e.dump()
	}
	return "bad-op"
}

func (e *lapiEx) dump() string {
	snap := e.c.L.Snapshot()
	kinds := map[string]bool{"2b": true, "2c": true, "2e": true, "2f": true}
	name := func(addr string) string {
		for _, x := range theWorld().Users {
			if x.Addr == addr {
				return x.Name
			}
		}
		return "?" + addr
	}
	var prim, inv []string
	for k, v := range snap {
		if len(v) == 0 || !strings.HasPrefix(k, "\x00") {
			continue
		}
		parts := strings.Split(strings.Trim(k, "\x00"), "\x00")
		val := new(big.Int).SetBytes(v).String()
		switch {
		case kinds[parts[0]] && (len(parts) == 2 || len(parts) == 3):
			tok := ""
			if len(parts) == 3 {
				tok = parts[2]
			}
			prim = append(prim, fmt.Sprintf("%s/%s/%s=%s", parts[0], name(parts[1]), encS(tok), val))
		case parts[0] == "inverse_balance" && len(parts) == 4 && kinds[parts[1]]:
			inv = append(inv, fmt.Sprintf("%s/%s/%s=%s", parts[1], name(parts[3]), encS(parts[2]), val))
		}
	}
	// canonical order = the model's: kind, user, token
	sort.Strings(prim)
	sort.Strings(inv)
	j := func(l []string) string {
		if len(l) == 0 {
			return "-"
		}
		return strings.Join(l, ",")
	}
	return "p:" + j(prim) + ";i:" + j(inv)
}

var lapiSingle = []string{"tokenAdd", "tokenAddWithReason", "tokenAddWithTicker", "tokenSub", "tokenSubWithTicker",
	"tokenTransfer", "tokenLock", "tokenUnlock", "tokenTransferLocked", "tokenBurnLocked",
	"indAdd", "indSub", "indTransfer", "indLock", "indUnlock", "indTransferLocked", "indBurnLocked",
	"allowedAdd", "allowedSub", "allowedTransfer", "allowedLock", "allowedUnlock", "allowedTransferLocked", "allowedBurnLocked"}
var lapiMulti = []string{"allowedIndAdd", "allowedIndSub", "allowedIndTransfer"}

func genLAPI(c *Cfg, emit func([]string)) {
	n := 150
	if c.Thorough() {
		n = 3000
	}
	users := []string{"u0", "u1", "u2"}
	pick := func(xs []string) string { return xs[c.Rng.Intn(len(xs))] }
	tokArg := func(fn string) string {
		switch {
		case strings.HasPrefix(fn, "ind"), strings.HasSuffix(fn, "WithTicker"):
			return pick([]string{"G1", "VT_G1", "X_Y_G2", "G2", "VT_G2", "-", "VT"})
		case strings.HasPrefix(fn, "allowed"):
			return pick([]string{"USD", "EUR", "G1", "BA_02"})
		}
		return "-"
	}
	amt := func() string { return pick([]string{"0", "1", "5", "30", "100", "100", "101", "250", "-1"}) }
	// (a) every function once on a funded state, with a dump after each call
	for rep := 0; rep < 3; rep++ {
		h := []string{"reset", "api tokenAdd u0 - - 100", "api indAdd u0 - G1 100", "api allowedAdd u0 - USD 100",
			"api tokenLock u0 - - 40", "api indLock u0 - VT_G1 40", "api allowedLock u0 - USD 40", "dump"}
		fns := append(append([]string{}, lapiSingle...), lapiMulti...)
		c.Rng.Shuffle(len(fns), func(a, b int) { fns[a], fns[b] = fns[b], fns[a] })
		for _, fn := range fns {
			if strings.HasPrefix(fn, "allowedInd") {
				h = append(h, fmt.Sprintf("apim %s u0 u1 USD:%s,G1:%s", fn, pick([]string{"1", "5", "70"}), pick([]string{"0", "2"})), "dump")
				continue
			}
			h = append(h, fmt.Sprintf("api %s u0 u1 %s %s", fn, tokArg(fn), pick([]string{"1", "5", "30"})), "dump")
		}
		emit(h)
	}
	// (b) random histories
	for i := 0; i < n; i++ {
		h := []string{"reset"}
		steps := 8 + c.Rng.Intn(25)
		for s := 0; s < steps; s++ {
			if c.Rng.Intn(9) == 0 {
				fn := pick(lapiMulti)
				var as []string
				for k := c.Rng.Intn(4); k > 0; k-- {
					as = append(as, pick([]string{"USD", "EUR", "G1"})+":"+pick([]string{"0", "1", "5", "30", "100", "101"}))
				}
				l := "-"
				if len(as) > 0 {
					l = strings.Join(as, ",")
				}
				h = append(h, fmt.Sprintf("apim %s %s %s %s", fn, pick(users), pick(users), l), "dump")
				continue
			}
			if c.Rng.Intn(14) == 0 {
				var as []string
				for k := 1 + c.Rng.Intn(3); k > 0; k-- {
					as = append(as, pick([]string{"USD", "EUR", "G1"})+":"+pick([]string{"0", "1", "5", "30", "100", "-1"}))
				}
				h = append(h, fmt.Sprintf("tait %s %s %s", pick(users), pick(users), strings.Join(as, ",")), "dump")
				continue
			}
			fn := pick(lapiSingle)
			// bias towards funding early
			if s < 4 {
				fn = pick([]string{"tokenAdd", "indAdd", "allowedAdd", "tokenAddWithTicker", "allowedAdd", "indAdd"})
			}
			h = append(h, fmt.Sprintf("api %s %s %s %s %s", fn, pick(users), pick(users), tokArg(fn), amt()), "dump")
		}
		emit(h)
	}
	c.Rule = fmt.Sprintf("(a) 3 histories calling every one of the 27 mutating functions of the balance API once on a funded state; (b) %d histories of 8..32 random calls (24 single-asset and 3 multi-asset functions plus the token's signed allowedIndustrialBalanceTransfer x 3 users incl. self-moves x token arguments with 0..2 underscores x amounts {-1,0,1,5,30,100,101,250}); every call is one batched transaction; observed: error/ok with the accounting records of the batch event, and after every call every non-zero primary and reverse-index entry of the four balance kinds read from the ledger's composite keys. non-trivial = at least one call; distinct = sha256", n)
}
