package drive

import (
	"bufio"
	"bytes"
	"fmt"
	"io"
	"os"
	"os/exec"
	"strings"
	"sync"
	"time"
)

// A property whose executor must survive the death of the process under test runs its real
// executor (Inner) in a child process (`vh child <prop>`): the parent writes one op per line, the
// child answers one line per op, flushed. A missing answer means the chaincode process died (or
// hung): the killing history is re-run alone in a fresh child for confirmation and reported.

// Inner executors by property (run inside the child).
var Inner = map[string]func() Executor{}

// ServeChild is the child's main loop.
func ServeChild(prop string, in io.Reader, out io.Writer) {
	mk, ok := Inner[prop]
	if !ok {
		fmt.Fprintln(os.Stderr, "no inner executor for", prop)
		os.Exit(2)
	}
	// never outlive the parent: a child stuck inside a request of the code under test (a retry loop,
	// say) would otherwise keep a core and its memory for ever
	parent := os.Getppid()
	go func() {
		for {
			time.Sleep(time.Second)
			if os.Getppid() != parent {
				os.Exit(3)
			}
		}
	}()
	w := bufio.NewWriter(out)
	sc := bufio.NewScanner(in)
	sc.Buffer(make([]byte, 1<<20), 1<<26)
	var ex Executor
	for sc.Scan() {
		op := sc.Text()
		if strings.HasPrefix(op, "reset") || ex == nil {
			ex = mk()
		}
		res := ex.Exec(op)
		res = strings.NewReplacer("\n", " ", "\r", " ").Replace(res)
		fmt.Fprintf(w, "%s\n", res)
		w.Flush()
	}
}

type childProc struct {
	cmd    *exec.Cmd
	in     io.WriteCloser
	out    *bufio.Reader
	stderr *tailBuf
	lines  chan string
}

type tailBuf struct {
	mu sync.Mutex
	b  []byte
}

func (t *tailBuf) Write(p []byte) (int, error) {
	t.mu.Lock()
	t.b = append(t.b, p...)
	if len(t.b) > 6000 {
		t.b = t.b[len(t.b)-6000:]
	}
	t.mu.Unlock()
	return len(p), nil
}

func (t *tailBuf) String() string { t.mu.Lock(); defer t.mu.Unlock(); return string(t.b) }

func startChild(prop string) (*childProc, error) {
	cmd := exec.Command(os.Args[0], "child", prop)
	cmd.Env = append(os.Environ(), "GOTRACEBACK=single", "GOMEMLIMIT=3GiB")
	// (the child watches its parent and exits when it is gone, see ServeChild)
	in, err := cmd.StdinPipe()
	if err != nil {
		return nil, err
	}
	outp, err := cmd.StdoutPipe()
	if err != nil {
		return nil, err
	}
	tb := &tailBuf{}
	cmd.Stderr = tb
	if err := cmd.Start(); err != nil {
		return nil, err
	}
	c := &childProc{cmd: cmd, in: in, out: bufio.NewReaderSize(outp, 1<<20), stderr: tb, lines: make(chan string, 4)}
	go func() {
		for {
			l, err := c.out.ReadString('\n')
			if err != nil {
				close(c.lines)
				return
			}
			c.lines <- strings.TrimRight(l, "\n")
		}
	}()
	return c, nil
}

// ask sends one op; ok=false when the child died or did not answer in time.
func (c *childProc) ask(op string, timeout time.Duration) (string, bool, string) {
	if _, err := io.WriteString(c.in, op+"\n"); err != nil {
		return "", false, "write: " + err.Error()
	}
	select {
	case l, ok := <-c.lines:
		if !ok {
			_ = c.cmd.Wait()
			return "", false, fmt.Sprintf("child exited (%v)", c.cmd.ProcessState)
		}
		return l, true, ""
	case <-time.After(timeout):
		_ = c.cmd.Process.Kill()
		_ = c.cmd.Wait()
		return "", false, "no reply within " + timeout.String() + " (hung)"
	}
}

func (c *childProc) stop() {
	if c == nil {
		return
	}
	_ = c.in.Close()
	done := make(chan struct{})
	go func() { _ = c.cmd.Wait(); close(done) }()
	select {
	case <-done:
	case <-time.After(2 * time.Second):
		_ = c.cmd.Process.Kill()
	}
}

// proxy is the parent-side executor.
type proxy struct {
	base
	prop string
	hist []string
}

var (
	theChild   *childProc
	childStats = map[string]int{}
	childMu    sync.Mutex
)

// ChildStats returns the side-channel counters reported by the child (text after a tab).
func ChildStats() map[string]int { return childStats }

func newProxy(prop string) Executor { return &proxy{prop: prop} }

func (p *proxy) send(op string) (string, bool, string) {
	if theChild == nil {
		c, err := startChild(p.prop)
		if err != nil {
			return "", false, "cannot start child: " + err.Error()
		}
		theChild = c
	}
	return theChild.ask(op, 40*time.Second)
}

func (p *proxy) Exec(op string) string {
	if strings.HasPrefix(op, "reset") {
		p.hist = nil
	}
	p.hist = append(p.hist, op)
	if !strings.HasPrefix(op, "reset") {
		p.nontrivial = true
	}
	res, ok, why := p.send(op)
	if ok {
		if i := strings.IndexByte(res, '\t'); i >= 0 {
			childStats[res[i+1:]]++
			res = res[:i]
		}
		return res
	}
	// the process under test is gone: keep what it said, confirm in a fresh process, resume
	tail := ""
	if theChild != nil {
		tail = theChild.stderr.String()
		theChild = nil
	}
	confirmed := false
	if c, err := startChild(p.prop); err == nil {
		alive := true
		for _, h := range p.hist {
			if _, ok2, _ := c.ask(h, 40*time.Second); !ok2 {
				alive = false
				break
			}
		}
		confirmed = !alive
		if alive {
			c.stop()
		}
	}
	// a fresh child for what follows, brought to the state before the killing op
	if c, err := startChild(p.prop); err == nil {
		theChild = c
		for _, h := range p.hist[:len(p.hist)-1] {
			if _, ok2, _ := c.ask(h, 40*time.Second); !ok2 {
				theChild = nil
				break
			}
		}
	}
	first := firstPanicLine(tail)
	sig := "process_death"
	if strings.Contains(why, "hung") {
		sig = "no_reply"
		// one request that never replies is the finding; whatever makes it hang may make hundreds of
		// the remaining requests hang too, 40 s each: nothing further is run
		Hung = true
		StopChild()
	}
	p.flag(sig, fmt.Sprintf("%s; reproduced alone=%v; %s", why, confirmed, first))
	return "DEAD"
}

func firstPanicLine(stderr string) string {
	var out []string
	for _, l := range strings.Split(stderr, "\n") {
		if strings.HasPrefix(l, "panic:") || strings.HasPrefix(l, "fatal error:") || strings.Contains(l, "[recovered]") {
			out = append(out, strings.TrimSpace(l))
		}
		if strings.Contains(l, "/repo/") || strings.Contains(l, "foundation/") {
			if len(out) > 0 && len(out) < 4 {
				out = append(out, strings.TrimSpace(l))
			}
		}
	}
	b := bytes.Buffer{}
	for i, l := range out {
		if i > 0 {
			b.WriteString(" | ")
		}
		b.WriteString(l)
	}
	if b.Len() == 0 {
		return "(no panic text on stderr)"
	}
	return b.String()
}

// StopChild ends the child at the end of a run.
func StopChild() {
	if theChild != nil {
		theChild.stop()
		theChild = nil
	}
}
