package drive

import (
	"encoding/hex"
	"encoding/json"
	"fmt"
	"sort"
	"strings"
	"time"

	"verifharness/simpeer"
	"verifharness/world"

	fpb "github.com/anoideaopen/foundation/proto"
	"github.com/golang/protobuf/proto" //nolint:staticcheck
	"golang.org/x/crypto/sha3"
	"google.golang.org/protobuf/types/known/timestamppb"
)

func wd0() *world.World { return theWorld() }

func init() { Registry["C11"] = &Prop{Gen: genC11, New: func() Executor { return &c11ex{} }} }

type c11ex struct {
	base
	c    *world.Chan
	o    world.Options
	open map[string]string // "s" / "m" -> id of the swap / multi-swap begun last
}

// methodTable renders the reflect router's table of the harness token: name:fn:kind:auth
func methodTable() (string, map[string][3]string) {
	cc, _ := world.NewInstance()
	r := cc.Router()
	var items []string
	info := map[string][3]string{}
	for method, fn := range r.Handlers() {
		kind := "query"
		if r.IsTransaction(method) {
			kind = "tx"
		} else if r.IsInvoke(method) {
			kind = "nbtx"
		}
		auth := "0"
		if r.AuthRequired(method) {
			auth = "1"
		}
		items = append(items, method+":"+fn+":"+kind+":"+auth)
		info[fn] = [3]string{method, kind, fmt.Sprint(r.ArgCount(method))}
	}
	sort.Strings(items)
	return strings.Join(items, ","), info
}

func classifyGate(e string) string {
	switch {
	case e == "":
		return "pass"
	case strings.Contains(e, "unauthorised"), strings.Contains(e, "unauthorized"), strings.Contains(e, "platform admin only"):
		return "unauthorized"
	case strings.Contains(e, "swap is disabled"):
		return "swapsOff"
	case strings.Contains(e, "not found") && strings.Contains(e, "method"):
		return "notfound"
	case strings.Contains(e, "validating creator"), strings.Contains(e, "failed to get creator"), strings.Contains(e, "creator is nil"):
		return "creator"
	case strings.Contains(e, "sender address is missing"):
		return "nosender"
	case strings.Contains(e, "loading raw config"), strings.Contains(e, "config bytes is empty"):
		return "noconfig"
	}
	return "pass"
}

func businessDiff(a, b map[string][]byte) bool {
	skip := func(k string) bool {
		return strings.HasPrefix(k, "\x00batchTransactions\x00") || strings.HasPrefix(k, "\x002a\x00")
	}
	for k, v := range a {
		if skip(k) {
			continue
		}
		if string(b[k]) != string(v) {
			return true
		}
	}
	for k := range b {
		if skip(k) {
			continue
		}
		if _, ok := a[k]; !ok {
			return true
		}
	}
	return false
}

var ouIdents = map[string]*simpeer.Identity{}

func (e *c11ex) ident(name string) []byte {
	w := theWorld()
	switch name {
	case "robot":
		return w.Robot.Creator
	case "admincert":
		return w.Admin.Creator
	case "client":
		return w.Client.Creator
	case "none":
		return nil
	}
	if strings.HasPrefix(name, "ou:") {
		// a certificate with the given organisational units (not the robot's key)
		if id, ok := ouIdents[name]; ok {
			return id.Creator
		}
		id := simpeer.NewIdentity("platformMSP", strings.Split(name[3:], "+")...)
		ouIdents[name] = id
		return id.Creator
	}
	return []byte("garbage-not-a-serialized-identity")
}

func (e *c11ex) argsFor(fn string, argc int, auth bool) []string {
	w := theWorld()
	u0, u1 := w.Users[0].Addr, w.Users[1].Addr
	switch fn {
	case "lockTokenBalance", "unlockTokenBalance", "lockAllowedBalance", "unlockAllowedBalance":
		return []string{fmt.Sprintf(`{"id":"L1","address":"%s","token":"VT","amount":"1","reason":"r"}`, u0)}
	case "transferBalance":
		d, _ := json.Marshal(&fpb.TransferRequest{
			RequestId: "R1", Basis: fpb.TransferBasis_TRANSFER_BASIS_INHERITANCE, AdministratorId: wd0().AdminU.Addr,
			DocumentType: fpb.DocumentType_DOCUMENT_TYPE_INHERITANCE, DocumentNumber: "1",
			DocumentDate: timestamppb.New(time.Unix(1700000000, 0)), DocumentHashes: []string{"h"},
			FromAddress: u0, ToAddress: u1, Amount: "1", Reason: "r", BalanceType: fpb.BalanceType_BALANCE_TYPE_TOKEN})
		return []string{string(d)}
	case "channelTransferByAdmin":
		return []string{"id1", "CC", u0, "VT", "1"}
	case "transfer":
		return []string{u1, "1", "r"}
	case "swapBegin":
		return []string{"VT", "CC", "1", strings.Repeat("ab", 32)}
	case "multiSwapBegin":
		return []string{"VT", `{"assets":[{"group":"VT","amount":"1"}]}`, "CC", strings.Repeat("ab", 32)}
	case "createCCTransferTo":
		return []string{`{"id":"x1","from":"CC","to":"VT","token":"CC","user":"","amount":"AQ==","forward_direction":true}`}
	case "batchExecute":
		d, _ := proto.Marshal(&fpb.Batch{})
		return []string{string(d)}
	case "createIndex":
		return []string{"Token"}
	}
	n := argc
	if auth {
		n = argc - 1
	}
	out := make([]string, n)
	for i := range out {
		out[i] = "nop"
	}
	return out
}

func lowerFirst(s string) string {
	if s == "" {
		return s
	}
	return strings.ToLower(s[:1]) + s[1:]
}

func (e *c11ex) Exec(op string) string {
	w := strings.Fields(op)
	if len(w) == 0 {
		return "bad-op"
	}
	wd := theWorld()
	switch w[0] {
	case "reset":
		e.c = nil
		return "ok"
	case "methods":
		return "ok"
	case "cfg":
		if len(w) != 6 {
			return "bad-op"
		}
		o := world.Options{NoOptions: w[5] != "1", DisableSwaps: w[3] == "1", DisableMultiSwaps: w[4] == "1"}
		if w[2] != "-" {
			o.Disabled = strings.Split(w[2], "+")
		}
		save := wd.Robot.SKIHex
		if w[1] == "hash" {
			wd.Robot.SKIHex = wd.Robot.HashHex // configure the certificate hash instead of the key id
		}
		e.c = wd.AddChannel("VT", o)
		e.o = o
		wd.Robot.SKIHex = save
		return "ok"
	case "openswap":
		// a swap (s) or multi-swap (m) begun by a funded user under the configuration in force
		if len(w) != 2 || e.c == nil || (w[1] != "s" && w[1] != "m") {
			return "bad-op"
		}
		if e.open == nil {
			e.open = map[string]string{}
		}
		u := wd.Users[0]
		h := sha3.Sum256([]byte("key-" + w[1]))
		id := simpeer.NewTxID()
		var args []string
		fn := "swapBegin"
		if w[1] == "s" {
			if r := e.c.Do(wd.Issuer, "emit", u.Addr, "5"); r != "" {
				return "err fund"
			}
			args = e.c.Signed(u, fn, "VT", "CC", "5", hex.EncodeToString(h[:]))
		} else {
			fn = "multiSwapBegin"
			if r := e.c.Do(wd.Issuer, "emitIndustrial", u.Addr, "5", "VT_g1"); r != "" {
				return "err fund"
			}
			args = e.c.Signed(u, fn, "VT", `{"assets":[{"group":"VT_g1","amount":"5"}]}`, "CC", hex.EncodeToString(h[:]))
		}
		if r := e.c.Invoke(wd.Client.Creator, id, fn, args...); !r.OK() {
			return "err"
		}
		if b := e.c.ExecIDs(id); b.Resp == nil || len(b.Resp.TxResponses) != 1 || b.Resp.TxResponses[0].GetError() != nil {
			return "err"
		}
		e.open[w[1]] = id
		return "ok"
	case "recfg":
		// the channel is initialised again with other swap switches (everything else as before)
		if len(w) != 3 || e.c == nil {
			return "bad-op"
		}
		e.o.DisableSwaps, e.o.DisableMultiSwaps = w[1] == "1", w[2] == "1"
		e.c.Reconfigure(e.o)
		return "ok"
	case "keys", "answers":
		// the robot's lists in a batch: keys completing the open swap at its origin, or the answer to a
		// swap begun elsewhere. n = replies in the batch response, e = of which errors, rec = record on the ledger
		if len(w) != 3 || e.c == nil || (w[1] != "s" && w[1] != "m") {
			return "bad-op"
		}
		typ := map[string]string{"s": "swaps", "m": "multi_swap"}[w[1]]
		b := &fpb.Batch{}
		var id string
		if w[0] == "keys" {
			id = e.open[w[1]]
			if id == "" {
				id = "00"
			}
			idb, _ := hex.DecodeString(id)
			k := &fpb.SwapKey{Id: idb, Key: map[string]string{"right": "key-" + w[1]}[w[2]] + map[string]string{"wrong": "nokey"}[w[2]]}
			if w[1] == "s" {
				b.Keys = append(b.Keys, k)
			} else {
				b.MultiSwapsKeys = append(b.MultiSwapsKeys, k)
			}
		} else {
			id = simpeer.NewTxID()
			idb, _ := hex.DecodeString(id)
			h := sha3.Sum256([]byte("k"))
			if w[1] == "s" {
				b.Swaps = append(b.Swaps, &fpb.Swap{Id: idb, Creator: []byte("0000"), Owner: wd.Users[0].AddrRaw, Token: "CC", Amount: []byte{3}, From: "CC", To: "VT", Hash: h[:], Timeout: 1})
			} else {
				b.MultiSwaps = append(b.MultiSwaps, &fpb.MultiSwap{Id: idb, Creator: []byte("0000"), Owner: wd.Users[0].AddrRaw, Token: "CC",
					Assets: []*fpb.Asset{{Group: "CC_g1", Amount: []byte{3}}}, From: "CC", To: "VT", Hash: h[:], Timeout: 1})
			}
		}
		e.nontrivial = true
		r := e.c.ExecBatch(b)
		if r.Resp == nil {
			return "err batch"
		}
		rs := r.Resp.SwapKeyResponses
		if w[0] == "answers" {
			rs = r.Resp.SwapResponses
		}
		ne := 0
		for _, x := range rs {
			if x.GetError() != nil {
				ne++
			}
		}
		rec := 0
		for k := range e.c.L.State {
			if strings.HasPrefix(k, "\x00"+typ+"\x00"+id+"\x00") {
				rec = 1
			}
		}
		return fmt.Sprintf("n=%d e=%d rec=%d", len(rs), ne, rec)
	case "readmin":
		// the channel is initialised again (same instance, same options) with another admin address
		if len(w) != 2 || e.c == nil {
			return "bad-op"
		}
		orig := wd.AdminU
		switch w[1] {
		case "issuer":
			wd.AdminU = wd.Issuer
		case "u0":
			wd.AdminU = wd.Users[2]
		}
		e.c.Reconfigure(e.o)
		wd.AdminU = orig
		return "ok"
	case "init":
		if len(w) != 2 || e.c == nil {
			return "bad-op"
		}
		before := e.c.L.Snapshot()
		r := e.c.Init(e.ident(w[1]), simpeer.NewTxID(), e.c.Cfg)
		if r.OK() {
			return "ok"
		}
		if !sameState(before, e.c.L.Snapshot()) {
			return "refused dirty"
		}
		return "refused clean"
	case "call":
		if len(w) != 5 || e.c == nil {
			return "bad-op"
		}
		identN, route, fn, senderN := w[1], w[2], w[3], w[4]
		_, info := methodTable()
		mi, known := info[fn]
		// another spelling of a registered name (capital first letter, the Go method name): the
		// arguments are the ones the registered function would take, the name stays as spelled
		canon := fn
		if !known {
			for _, alt := range []string{lowerFirst(fn), lowerFirst(strings.TrimPrefix(strings.TrimPrefix(strings.TrimPrefix(fn, "NBTx"), "Tx"), "Query")), strings.ToLower(fn[:1]) + fn[1:]} {
				if _, ok := info[alt]; ok && alt != fn {
					canon, mi, known = alt, info[alt], true
					break
				}
			}
		}
		auth := false
		argc := 0
		if known {
			fmt.Sscan(mi[2], &argc)
			cc, _ := world.NewInstance()
			auth = cc.Router().AuthRequired(mi[0])
		}
		var sender *simpeer.User
		switch senderN {
		case "admin":
			sender = wd.AdminU
		case "issuer":
			sender = wd.Issuer
		case "u0":
			sender = wd.Users[2]
		}
		args := e.argsFor(canon, argc, auth)
		if auth && sender != nil {
			args = e.c.Signed(sender, fn, args...)
		} else if canon == "swapDone" || canon == "multiSwapDone" {
			args = []string{"00", "k"}
		} else if !known && canon != "batchExecute" && canon != "createIndex" {
			args = []string{"x"}
		}
		before := e.c.L.Snapshot()
		e.nontrivial = true
		var errText string
		creator := e.ident(identN)
		switch route {
		case "direct":
			r := e.c.Invoke(creator, simpeer.NewTxID(), fn, args...)
			if r.Panic != nil {
				errText = "panic"
			} else if !r.OK() {
				errText = r.Resp.Message
			}
		case "batch":
			id := simpeer.NewTxID()
			r := e.c.Invoke(creator, id, fn, args...)
			if !r.OK() {
				errText = r.Resp.Message
				break
			}
			b := e.c.ExecIDs(id)
			if b.Resp == nil || len(b.Resp.TxResponses) != 1 {
				errText = "batch failed " + b.Res.Resp.Message
				break
			}
			errText = b.Resp.TxResponses[0].GetError().GetError()
		case "task":
			data, _ := proto.Marshal(&fpb.ExecuteTasksRequest{Tasks: []*fpb.Task{{Id: hex.EncodeToString([]byte(simpeer.NewTxID()))[:32], Method: fn, Args: args}}})
			r := e.c.Invoke(creator, simpeer.NewTxID(), "executeTasks", string(data))
			if !r.OK() {
				errText = r.Resp.Message
				break
			}
			br := &fpb.BatchResponse{}
			if err := proto.Unmarshal(r.Resp.Payload, br); err != nil || len(br.TxResponses) != 1 {
				errText = "tasks failed"
				break
			}
			errText = br.TxResponses[0].GetError().GetError()
		default:
			return "bad-op"
		}
		cl := classifyGate(errText)
		if cl == "pass" {
			return "pass"
		}
		if businessDiff(before, e.c.L.Snapshot()) {
			return cl + " dirty"
		}
		return cl + " clean"
	}
	return "bad-op"
}

func genC11(c *Cfg, emit func([]string)) {
	table, info := methodTable()
	pool := []string{"script", "scriptNS", "scriptNb", "scriptNbNS", "poke", "pokeNS", "transfer", "swapBegin", "swapCancel", "swapGet",
		"multiSwapBegin", "multiSwapCancel", "multiSwapGet", "lockTokenBalance", "unlockTokenBalance", "lockAllowedBalance",
		"unlockAllowedBalance", "transferBalance", "channelTransferByAdmin", "healthCheck", "healthCheckNb", "balanceOf", "nosuchfn"}
	entry := []string{"batchExecute", "createIndex", "swapDone", "multiSwapDone", "createCCTransferTo", "deleteCCTransferTo",
		"commitCCTransferFrom", "cancelCCTransferFrom", "deleteCCTransferFrom"}
	idents := []string{"robot", "admincert", "client", "none", "garbage"}
	// organisational units around "admin": only a unit equal to it (in any letter case) may initialise
	ouVariants := []string{"ou:Admin", "ou:ADMIN", "ou:client+admin", "ou:administrators", "ou:nonadmin", "ou:admin-readonly",
		"ou:sysadmin+client", "ou:adm", "ou:admi", "ou:admin2", "ou:_admin", "ou:peer+Administrator", "ou:admın"}
	senders := []string{"admin", "issuer", "u0"}
	disPool := []string{"TxTransfer", "TxScript", "NBTxScriptNb", "QueryPoke", "TxLockTokenBalance", "TxSwapBegin"}
	nCfg := 12
	if c.Thorough() {
		nCfg = 64
	}
	total := 0
	for ci := 0; ci < nCfg; ci++ {
		var dis []string
		mask := ci
		if !c.Thorough() {
			mask = c.Rng.Intn(64)
		}
		for i, m := range disPool {
			if mask&(1<<i) != 0 {
				dis = append(dis, m)
			}
		}
		swaps, mswaps, hasopts := c.Rng.Intn(2), c.Rng.Intn(2), 1
		if ci%7 == 6 {
			hasopts = 0
		}
		h := []string{"reset", "methods " + table,
			fmt.Sprintf("cfg %s %s %d %d %d", []string{"ski", "hash"}[ci%2], orDash(dis, "+"), swaps, mswaps, hasopts)}
		for _, id := range append(append([]string{}, idents...), ouVariants...) {
			h = append(h, "init "+id)
		}
		// entry points x identities
		for _, fn := range entry {
			for _, id := range idents {
				route := "direct"
				if mi, ok := info[fn]; ok && mi[1] == "tx" {
					route = "batch"
				}
				h = append(h, fmt.Sprintf("call %s %s %s -", id, route, fn))
				total++
			}
		}
		// other spellings of the privileged and of the disabled names: no such function is registered,
		// so none of them reaches a method - least of all past the identity or the disabled test
		for _, fn := range append(append([]string{}, entry...), "executeTasks", "transfer", "script", "scriptNb", "lockTokenBalance", "swapBegin", "multiSwapBegin", "poke") {
			alts := []string{strings.ToUpper(fn[:1]) + fn[1:]}
			if mi, ok := info[fn]; ok && c.Rng.Intn(2) == 0 {
				alts = append(alts, mi[0])
			}
			if c.Rng.Intn(3) == 0 {
				alts = append(alts, strings.ToUpper(fn))
			}
			for _, alt := range alts {
				for _, id := range []string{"client", "robot"} {
					routes := []string{"direct", "batch", "task"}
					for _, route := range routes {
						if route != "direct" && c.Rng.Intn(2) == 0 {
							continue
						}
						h = append(h, fmt.Sprintf("call %s %s %s %s", id, route, alt, senders[c.Rng.Intn(3)]))
						total++
					}
				}
			}
		}
		// methods x routes x senders (creator: ordinary client, sometimes others)
		for _, fn := range pool {
			mi, known := info[fn]
			routes := []string{"direct", "task"}
			if known && mi[1] == "tx" {
				routes = []string{"batch", "task"}
			}
			for _, route := range routes {
				ss := senders
				if !c.Thorough() {
					ss = []string{senders[c.Rng.Intn(3)], "admin"}
				}
				for _, s := range ss {
					id := "client"
					if c.Rng.Intn(6) == 0 {
						id = idents[c.Rng.Intn(len(idents))]
					}
					h = append(h, fmt.Sprintf("call %s %s %s %s", id, route, fn, s))
					total++
				}
			}
		}
		// the admin address changes by a later initialisation of the same instance: the admin-only
		// methods follow the configuration in force (first an admin-only call, so that anything the
		// instance remembers about the admin is there), back and forth
		for _, adm := range []string{"issuer", "admin", "u0"} {
			h = append(h, "readmin "+adm)
			for _, fn := range []string{"lockTokenBalance", "lockAllowedBalance", "unlockTokenBalance"} {
				for _, s := range senders {
					h = append(h, fmt.Sprintf("call client batch %s %s", fn, s))
					total++
				}
			}
		}
		// swaps begun while enabled, the switches changed by a re-initialisation, then the robot's
		// batch lists (keys, answers): refused while the switch in force is off, whatever was begun before
		for _, k := range []string{"s", "m"} {
			h = append(h, "recfg 0 0", "openswap "+k, "keys "+k+" wrong")
			x, y := "1", "0"
			if k == "m" {
				x, y = "0", "1"
			}
			h = append(h, "recfg "+x+" "+y, "keys "+k+" wrong", "keys "+k+" right", "answers "+k+" new", "keys "+map[string]string{"s": "m", "m": "s"}[k]+" right",
				"answers "+map[string]string{"s": "m", "m": "s"}[k]+" new", "recfg "+y+" "+x, "keys "+k+" right", "keys "+k+" right", "answers "+k+" new", "recfg 1 1", "answers "+k+" new", "keys "+k+" right")
			total += 10
		}
		emit(h)
	}
	c.Rule = fmt.Sprintf("%d configurations (subsets of a 6-function disabled pool, swap and multi-swap switches, with and without an options section, robot configured by key id or by certificate hash) x { 9 entry points x 5 caller identities (robot, admin-OU cert, ordinary cert, no creator, garbage creator); 23 functions (scripted tx/nbtx/query bodies with and without sender, transfer, swap and multi-swap methods, the 6 admin-only methods, unknown function) x routes (direct or batched submission+execution, task execution) x signed senders (admin, issuer, stranger) }: %d calls; plus re-initialisations of the same instance with another admin address followed by the admin-only methods under the old and the new admin; plus other spellings (capital first letter, Go method name, upper case) of the entry points and of privileged / disabled functions on every route, which must be unknown functions; plus swaps and multi-swaps begun while enabled, the switches turned off and on by re-initialisations, and the robot's key and answer lists in batches under each; plus Init under every identity and under certificates whose organisational units are near-misses of 'admin' (substrings, superstrings, other letter case, several units). Observed: refusal class / pass, and the business-ledger diff on refusal. non-trivial = every configuration history; distinct = sha256", nCfg, total)
	c.Extra = map[string]any{"configurations": nCfg, "calls": total}
}
