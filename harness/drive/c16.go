package drive

import (
	"fmt"
	"math/big"
	"strconv"
	"strings"

	"verifharness/simpeer"
	"verifharness/world"

	"github.com/anoideaopen/foundation/core/balance"
	"github.com/anoideaopen/foundation/core/cachestub"
	"github.com/hyperledger/fabric-chaincode-go/shim"
)

func init() { Registry["C16"] = &Prop{Gen: genC16, New: func() Executor { return &c16ex{} }} }

type c16ex struct {
	base
	c *world.Chan
}

func kindOf(s string) balance.BalanceType {
	n, _ := strconv.ParseUint(s, 16, 8)
	return balance.BalanceType(n)
}

var kindNames = map[string]string{"2b": "Token", "2c": "Allowed", "2d": "Given", "2e": "TokenLocked",
	"2f": "AllowedLocked", "31": "AllowedExternalLocked", "32": "TokenExternalLocked"}

// apply runs f on a fresh simulated transaction — directly on the peer stub (mode d), or through
// the batch and transaction cache layers (mode b) — and commits on success.
func (e *c16ex) apply(mode string, f func(stub shim.ChaincodeStubInterface) error) string {
	st := e.c.Simulate(nil, simpeer.NewTxID(), "noop").Stub
	st2 := &simpeer.Stub{L: e.c.L, TxID: st.TxID, Channel: e.c.Channel}
	if mode == "b" {
		b := cachestub.NewBatchCacheStub(st2)
		tx := b.NewTxCacheStub("t")
		if err := f(tx); err != nil {
			return "err"
		}
		tx.Commit()
		if err := b.Commit(); err != nil {
			return "err"
		}
	} else if err := f(st2); err != nil {
		return "err"
	}
	_ = st2.Commit()
	return "ok"
}

func (e *c16ex) Exec(op string) string {
	w := strings.Fields(op)
	if len(w) == 0 {
		return "bad-op"
	}
	if w[0] == "reset" {
		e.c = theWorld().AddChannel("VT", world.Options{})
		return "ok"
	}
	if e.c == nil {
		return "bad-op"
	}
	amt := func(s string) *big.Int { n, _ := new(big.Int).SetString(s, 10); return n }
	switch w[0] {
	case "add", "sub":
		if len(w) != 6 || amt(w[5]) == nil {
			return "bad-op"
		}
		e.nontrivial = true
		return e.apply(w[1], func(s shim.ChaincodeStubInterface) error {
			if w[0] == "add" {
				return balance.Add(s, kindOf(w[2]), w[3], dec(w[4]), amt(w[5]))
			}
			return balance.Sub(s, kindOf(w[2]), w[3], dec(w[4]), amt(w[5]))
		})
	case "move":
		if len(w) != 8 || amt(w[7]) == nil {
			return "bad-op"
		}
		e.nontrivial = true
		return e.apply(w[1], func(s shim.ChaincodeStubInterface) error {
			return balance.Move(s, kindOf(w[2]), w[3], kindOf(w[4]), w[5], dec(w[6]), amt(w[7]))
		})
	case "legacy":
		if len(w) != 5 || amt(w[4]) == nil {
			return "bad-op"
		}
		attrs := []string{w[2]}
		if dec(w[3]) != "" {
			attrs = append(attrs, dec(w[3]))
		}
		k, _ := shim.CreateCompositeKey(w[1], attrs)
		if amt(w[4]).Sign() == 0 {
			delete(e.c.L.State, k)
		} else {
			e.c.L.State[k] = amt(w[4]).Bytes()
		}
		return "ok"
	case "index":
		if len(w) != 2 {
			return "bad-op"
		}
		before := e.c.L.Snapshot()
		r := e.c.Invoke(theWorld().Client.Creator, simpeer.NewTxID(), "createIndex", kindNames[w[1]])
		if !r.OK() {
			return "err"
		}
		// building the index must not change any balance: primaries untouched
		after := e.c.L.Snapshot()
		for k, v := range before {
			if !strings.HasPrefix(k, "\x00inverse_balance\x00") && string(after[k]) != string(v) {
				e.flag("create_index_changed_balance", fmt.Sprintf("key %q changed by createIndex %s", k, w[1]))
			}
		}
		for k := range after {
			if _, ok := before[k]; !ok && !strings.HasPrefix(k, "\x00inverse_balance\x00") && !strings.HasPrefix(k, "\x00balance_index_created\x00") {
				e.flag("create_index_changed_balance", fmt.Sprintf("key %q created by createIndex %s", k, w[1]))
			}
		}
		return "ok"
	case "owners":
		if len(w) != 3 {
			return "bad-op"
		}
		st := &simpeer.Stub{L: e.c.L, TxID: "00", Channel: e.c.Channel}
		l, err := balance.ListOwnersByToken(st, kindOf(w[1]), w[2])
		if err != nil {
			return "err"
		}
		var parts []string
		for _, tb := range l {
			parts = append(parts, tb.Address+"="+tb.Balance.String())
		}
		return strings.Join(parts, ",")
	case "get":
		if len(w) != 4 {
			return "bad-op"
		}
		st := &simpeer.Stub{L: e.c.L, TxID: "00", Channel: e.c.Channel}
		v, err := balance.Get(st, kindOf(w[1]), w[2], dec(w[3]))
		if err != nil {
			return "err"
		}
		return v.String()
	}
	return "bad-op"
}

func genC16(c *Cfg, emit func([]string)) {
	nHist, maxSteps := 400, 25
	if c.Thorough() {
		nHist, maxSteps = 20000, 40
	}
	addrs := []string{"alice", "bob", "carol"}
	tokens := []string{"USD", "EUR", "VT_g1"}
	kinds := []string{"2b", "2c", "2d", "2e", "2f", "31", "32"} // all seven balance kinds
	// amounts whose big-endian bytes happen to be text: digits, "10", "-1", "{}", `""`, "[]", "true", "null"
	textual := []string{"48", "52", "57", "12592", "11569", "31613", "8738", "23389", "1953658213", "1853189228"}
	pick := func(xs []string) string { return xs[c.Rng.Intn(len(xs))] }
	check := func(h []string) []string {
		for _, k := range kinds {
			for _, t := range tokens {
				for _, a := range addrs {
					h = append(h, fmt.Sprintf("get %s %s %s", k, a, t))
				}
				h = append(h, fmt.Sprintf("owners %s %s", k, t))
			}
		}
		return h
	}
	for i := 0; i < nHist; i++ {
		h := []string{"reset"}
		legacy := c.Rng.Intn(3) == 0
		if legacy {
			// balances written before indexing existed: primaries only
			for j := 0; j < 2+c.Rng.Intn(6); j++ {
				am := fmt.Sprint(1 + c.Rng.Intn(50))
				if c.Rng.Intn(4) == 0 {
					am = pick(textual)
				}
				h = append(h, fmt.Sprintf("legacy %s %s %s %s", pick(kinds), pick(addrs), pick(tokens), am))
			}
			// sometimes ordinary writes of the same kinds come first (a chaincode upgraded to the
			// indexing version keeps working before the migration call is made)
			if c.Rng.Intn(2) == 0 {
				for j := 0; j < 1+c.Rng.Intn(3); j++ {
					h = append(h, fmt.Sprintf("add %s %s %s %s %s", pick([]string{"d", "b"}), pick(kinds), pick(addrs), pick(tokens), pick([]string{"1", "5", "10"})))
				}
			}
			for _, k := range kinds {
				h = append(h, "index "+k)
			}
			h = check(h)
		}
		n := 3 + c.Rng.Intn(maxSteps)
		for j := 0; j < n; j++ {
			mode := pick([]string{"d", "b"})
			k, a, t := pick(kinds), pick(addrs), pick(tokens)
			if c.Rng.Intn(8) == 0 {
				t = "-" // balance without a token component: no inverse entry
			}
			amt := pick([]string{"1", "2", "5", "10", "0", "-1", "100", "7"})
			switch c.Rng.Intn(4) {
			case 0, 1:
				h = append(h, fmt.Sprintf("add %s %s %s %s %s", mode, k, a, t, amt))
			case 2:
				// sub that often takes the balance exactly to zero and back
				h = append(h, fmt.Sprintf("sub %s %s %s %s %s", mode, k, a, t, amt))
			case 3:
				k2, a2 := pick(kinds), pick(addrs)
				if k2 == k && a2 == a {
					// source = destination: on a real peer a transaction does not read its own writes, so
					// Sub-then-Add on one key is only meaningful through the cache layers (as the library uses it)
					mode = "b"
				}
				h = append(h, fmt.Sprintf("move %s %s %s %s %s %s %s", mode, k, a, k2, a2, t, amt))
			}
			if c.Rng.Intn(5) == 0 {
				tk := pick(tokens)
				kk := pick(kinds)
				for _, a := range addrs {
					h = append(h, fmt.Sprintf("get %s %s %s", kk, a, tk))
				}
				h = append(h, fmt.Sprintf("owners %s %s", kk, tk))
			}
		}
		if c.Rng.Intn(4) == 0 {
			h = append(h, "index "+pick(kinds))
		}
		h = check(h)
		emit(h)
	}
	// large legacy data sets: an index builder that reads in pages must not lose a record at a page
	// boundary (sizes around 500 and 1000, the usual page sizes, and one above 2 pages)
	bulks := [][2]string{{"2b", "501"}, {"2c", "1100"}}
	if c.Thorough() {
		bulks = [][2]string{{"2b", "499"}, {"2b", "500"}, {"2b", "501"}, {"2c", "1000"}, {"2c", "1001"}, {"2e", "1100"}, {"2d", "2051"}, {"2b", "101"}, {"2c", "257"}}
	}
	for _, bk := range bulks {
		n, _ := strconv.Atoi(bk[1])
		h := []string{"reset"}
		for j := 0; j < n; j++ {
			h = append(h, fmt.Sprintf("legacy %s h%05d USD %d", bk[0], j, 1+j%97))
		}
		h = append(h, "legacy "+bk[0]+" h00007 EUR 5", "index "+bk[0])
		for j := 0; j < n; j++ {
			h = append(h, fmt.Sprintf("get %s h%05d USD", bk[0], j))
		}
		h = append(h, "owners "+bk[0]+" USD", "owners "+bk[0]+" EUR")
		emit(h)
	}
	c.Rule = fmt.Sprintf("%d random histories of 3..%d add/sub/move operations (amounts incl. 0, -1, exactly-to-zero and back) over 3 addresses x 3 tokens (+ token-less balances) x all 7 balance kinds, each executed either directly on the peer stub or through the batch+transaction cache layers; one third start from legacy data (primaries only; amounts also such that their stored bytes are digits, brackets or words), sometimes followed by ordinary writes, then createIndex for every kind; ListOwnersByToken compared with direct reads of every (kind, token, address) after random steps and for the full matrix at the end; createIndex's ledger diff restricted to balance keys; plus legacy data sets of 500..2000 records of one kind indexed at once and listed in full. non-trivial = contains a mutation; distinct = sha256", nHist, maxSteps+2)
	c.Extra = map[string]any{"histories": nHist}
}
