package drive

import (
	"encoding/hex"
	"encoding/json"
	"fmt"
	"math/big"
	"strings"
	"time"

	"verifharness/simpeer"
	"verifharness/world"

	fpb "github.com/anoideaopen/foundation/proto"
	"golang.org/x/crypto/sha3"
	"google.golang.org/protobuf/types/known/timestamppb"
)

func init() { Registry["C06"] = &Prop{Gen: genC06, New: func() Executor { return &c06ex{} }} }

type c06ex struct {
	base
	c     *world.Chan
	swaps map[string]string // sym -> swap id (tx id)
}

func (e *c06ex) u(name string) *simpeer.User {
	for _, x := range theWorld().Users {
		if x.Name == name {
			return x
		}
	}
	return nil
}

func (e *c06ex) Exec(op string) string {
	w := strings.Fields(op)
	if len(w) == 0 {
		return "bad-op"
	}
	wd := theWorld()
	if w[0] == "reset" {
		e.c = wd.AddChannel("VT", world.Options{})
		e.swaps = map[string]string{}
		return "ok"
	}
	if e.c == nil {
		return "bad-op"
	}
	need := func(n int, users ...int) bool {
		if len(w) != n {
			return false
		}
		for _, i := range users {
			if e.u(w[i]) == nil {
				return false
			}
		}
		return true
	}
	switch w[0] {
	case "emit":
		if !need(3, 1) {
			return "bad-op"
		}
		e.nontrivial = true
		return okErr(e.c.Do(wd.Issuer, "emit", e.u(w[1]).Addr, w[2]))
	case "burn":
		if !need(3, 1) {
			return "bad-op"
		}
		return okErr(e.c.Do(wd.Issuer, "burn", e.u(w[1]).Addr, w[2]))
	case "setfee":
		if !need(2) {
			return "bad-op"
		}
		return okErr(e.c.Do(wd.FeeSet, "setFee", "VT", w[1], "0", "0"))
	case "setfeeaddr":
		if !need(2, 1) {
			return "bad-op"
		}
		return okErr(e.c.Do(wd.FeeASet, "setFeeAddress", e.u(w[1]).Addr))
	case "transfer":
		if !need(4, 1, 2) {
			return "bad-op"
		}
		return okErr(e.c.Do(e.u(w[1]), "transfer", e.u(w[2]).Addr, w[3], "ref"))
	case "tx2":
		// two transfers in ONE task list (or one batch): each is all-or-nothing on its own; what a
		// failed one had already moved must not ride along with the next
		if !need(8, 2, 3, 5, 6) {
			return "bad-op"
		}
		a1 := e.c.Signed(e.u(w[2]), "transfer", e.u(w[3]).Addr, w[4], "ref")
		a2 := e.c.Signed(e.u(w[5]), "transfer", e.u(w[6]).Addr, w[7], "ref")
		out := []string{"err", "err"}
		if w[1] == "tasks" {
			b := e.c.ExecTasks(&fpb.Task{Id: simpeer.NewTxID(), Method: "transfer", Args: a1}, &fpb.Task{Id: simpeer.NewTxID(), Method: "transfer", Args: a2})
			if b.Resp == nil || len(b.Resp.TxResponses) != 2 {
				return "err,err"
			}
			for i, tr := range b.Resp.TxResponses {
				if tr.GetError() == nil {
					out[i] = "ok"
				}
			}
			return strings.Join(out, ",")
		}
		// batch: a request refused at submission is not listed
		var ids []string
		var pos []int
		for i, a := range [][]string{a1, a2} {
			if id, r := e.c.Submit("transfer", a); r.OK() {
				ids = append(ids, id)
				pos = append(pos, i)
			}
		}
		if len(ids) > 0 {
			b := e.c.ExecIDs(ids...)
			if b.Resp == nil || len(b.Resp.TxResponses) != len(ids) {
				return "err,err"
			}
			for j, tr := range b.Resp.TxResponses {
				if tr.GetError() == nil {
					out[pos[j]] = "ok"
				}
			}
		}
		return strings.Join(out, ",")
	case "force":
		if !need(4, 1, 2) {
			return "bad-op"
		}
		d, _ := json.Marshal(&fpb.TransferRequest{
			RequestId: simpeer.NewTxID(), Basis: fpb.TransferBasis_TRANSFER_BASIS_INHERITANCE, AdministratorId: wd.AdminU.Addr,
			DocumentType: fpb.DocumentType_DOCUMENT_TYPE_INHERITANCE, DocumentNumber: "1",
			DocumentDate: timestamppb.New(time.Unix(1700000000, 0)), DocumentHashes: []string{"h"},
			FromAddress: e.u(w[1]).Addr, ToAddress: e.u(w[2]).Addr, Amount: w[3], Reason: "r", BalanceType: fpb.BalanceType_BALANCE_TYPE_TOKEN})
		return okErr(e.c.Do(wd.AdminU, "transferBalance", string(d)))
	case "lock":
		if !need(4, 2) {
			return "bad-op"
		}
		req, _ := json.Marshal(map[string]string{"id": w[1], "address": e.u(w[2]).Addr, "token": "VT", "amount": w[3], "reason": "r"})
		return okErr(e.c.Do(wd.AdminU, "lockTokenBalance", string(req)))
	case "swapbegin":
		if !need(4, 2) {
			return "bad-op"
		}
		if _, dup := e.swaps[w[1]]; dup {
			return "err"
		}
		h := sha3.Sum256([]byte("key-" + w[1]))
		id, r := e.c.Submit("swapBegin", e.c.Signed(e.u(w[2]), "swapBegin", "VT", "CC", w[3], hex.EncodeToString(h[:])))
		if !r.OK() {
			return "err"
		}
		b := e.c.ExecIDs(id)
		if b.Resp == nil || b.Resp.TxResponses[0].GetError() != nil {
			return "err"
		}
		e.swaps[w[1]] = id
		return "ok"
	case "swapanswer":
		// the robot's answer to a swap that brings units home from the other channel: they leave the
		// given-out counter and wait in the answered record for the key (or for a cancel)
		if !need(4, 2) {
			return "bad-op"
		}
		if _, dup := e.swaps[w[1]]; dup {
			return "err"
		}
		amt, okn := new(big.Int).SetString(w[3], 10)
		if !okn || amt.Sign() <= 0 {
			return "err"
		}
		id := simpeer.NewTxID()
		idb, _ := hex.DecodeString(id)
		h := sha3.Sum256([]byte("key-" + w[1]))
		b := e.c.ExecBatch(&fpb.Batch{Swaps: []*fpb.Swap{{Id: idb, Creator: []byte("0000"), Owner: e.u(w[2]).AddrRaw, Token: "VT",
			Amount: amt.Bytes(), From: "CC", To: "VT", Hash: h[:], Timeout: 1}}})
		if b.Resp == nil || len(b.Resp.SwapResponses) != 1 || b.Resp.SwapResponses[0].GetError() != nil {
			return "err"
		}
		e.swaps[w[1]] = id
		return "ok"
	case "swapanswerf":
		// the robot's answer to a swap that brings a *foreign* grouped token (CC_G1, of channel CC) here:
		// nothing of this channel's token is involved; on completion the owner gets an allowed balance
		if !need(4, 2) {
			return "bad-op"
		}
		if _, dup := e.swaps[w[1]]; dup {
			return "err"
		}
		amt, okn := new(big.Int).SetString(w[3], 10)
		if !okn || amt.Sign() <= 0 {
			return "err"
		}
		id := simpeer.NewTxID()
		idb, _ := hex.DecodeString(id)
		h := sha3.Sum256([]byte("key-" + w[1]))
		b := e.c.ExecBatch(&fpb.Batch{Swaps: []*fpb.Swap{{Id: idb, Creator: []byte("0000"), Owner: e.u(w[2]).AddrRaw, Token: "CC_G1",
			Amount: amt.Bytes(), From: "CC", To: "VT", Hash: h[:], Timeout: 1}}})
		if b.Resp == nil || len(b.Resp.SwapResponses) != 1 || b.Resp.SwapResponses[0].GetError() != nil {
			return "err"
		}
		e.swaps[w[1]] = id
		return "ok"
	case "swapuserdone":
		if !need(2) {
			return "bad-op"
		}
		id, ok := e.swaps[w[1]]
		if !ok {
			id = "00ff"
		}
		if r := e.c.Invoke(wd.Client.Creator, simpeer.NewTxID(), "swapDone", id, "key-"+w[1]); !r.OK() {
			return "err"
		}
		delete(e.swaps, w[1])
		return "ok"
	case "swapcancel":
		if !need(2) {
			return "bad-op"
		}
		id, ok := e.swaps[w[1]]
		if !ok {
			id = "00ff"
		}
		s := e.c.Do(wd.Users[2], "swapCancel", id)
		if s == "" {
			delete(e.swaps, w[1])
		}
		return okErr(s)
	case "swaprobotdone":
		if !need(2) {
			return "bad-op"
		}
		id, ok := e.swaps[w[1]]
		if !ok {
			id = "00ff"
		}
		idb, _ := hex.DecodeString(id)
		b := e.c.ExecBatch(&fpb.Batch{Keys: []*fpb.SwapKey{{Id: idb, Key: "key-" + w[1]}}})
		if b.Resp == nil || len(b.Resp.SwapKeyResponses) != 1 || b.Resp.SwapKeyResponses[0].GetError() != nil {
			return "err"
		}
		delete(e.swaps, w[1])
		return "ok"
	case "chfrom":
		if !need(4, 2) {
			return "bad-op"
		}
		return okErr(e.c.Do(e.u(w[2]), "channelTransferByCustomer", w[1], "CC", "VT", w[3]))
	case "chcancel":
		if !need(2) {
			return "bad-op"
		}
		return okErr(e.c.RobotBatched("cancelCCTransferFrom", w[1]))
	case "dump":
		q := func(fn string, args ...string) string {
			p, _ := e.c.Query(fn, args...)
			return strings.Trim(p, "\"")
		}
		var tk, lk []string
		for _, n := range []string{"u0", "u1", "u2"} {
			tk = append(tk, n+"="+q("balanceOf", e.u(n).Addr))
			lk = append(lk, n+"="+q("lockedBalanceOf", e.u(n).Addr))
		}
		// given-out counter: raw ledger key
		st := &simpeer.Stub{L: e.c.L}
		gk, _ := st.CreateCompositeKey("2d", []string{"CC"})
		given := new(big.Int).SetBytes(e.c.L.State[gk]).String()
		esc := new(big.Int)
		for _, id := range e.swaps {
			p, errs := e.c.Query("swapGet", id)
			if errs != "" {
				continue
			}
			var r struct {
				Amount []byte `json:"amount"`
				Token  string `json:"token"`
			}
			// (records of a foreign token hold none of this channel's units)
			if json.Unmarshal([]byte(p), &r) == nil && strings.Split(r.Token, "_")[0] == "VT" {
				esc.Add(esc, new(big.Int).SetBytes(r.Amount))
			}
		}
		// units of this channel's token in grouped form (none is ever emitted here), and the allowed
		// balances of the foreign token CC_G1
		grp := new(big.Int)
		var al []string
		for _, n := range []string{"u0", "u1", "u2"} {
			p, _ := e.c.Query("industrialBalanceOf", e.u(n).Addr)
			var m map[string]string
			if json.Unmarshal([]byte(p), &m) == nil {
				for _, v := range m {
					grp.Add(grp, bigOf(v))
				}
			}
			al = append(al, n+"="+q("allowedBalanceOf", e.u(n).Addr, "CC_G1"))
		}
		var md struct {
			Total string `json:"total_emission"`
		}
		_ = json.Unmarshal([]byte(q("metadata")), &md)
		if md.Total == "" {
			md.Total = "0"
		}
		return fmt.Sprintf("tok:%s;lck:%s;given=%s;escrow=%s;grp=%s;alw:%s;emission=%s", strings.Join(tk, ","), strings.Join(lk, ","), given, esc.String(), grp.String(), strings.Join(al, ","), md.Total)
	}
	return "bad-op"
}

func genC06(c *Cfg, emit func([]string)) {
	nHist, maxSteps := 250, 15
	if c.Thorough() {
		nHist, maxSteps = 8000, 30
	}
	users := []string{"u0", "u1", "u2"}
	pick := func(xs []string) string { return xs[c.Rng.Intn(len(xs))] }
	// directed: units given out (cross-channel transfer, completed swap), then swaps coming home
	// answered out of the counter and closed each way: by the key, by a cancel, twice, under-funded
	for _, give := range []string{"chfrom T1 u0 500", "swapbegin S1 u0 500;swaprobotdone S1"} {
		for _, closing := range [][]string{{"swapcancel R1"}, {"swapuserdone R1"}, {"swapcancel R1", "swapcancel R1"}, {"swapuserdone R1", "swapcancel R1"},
			{"swapcancel R1", "swapuserdone R1"}, {"swapanswer R2 u2 493", "swapanswer R3 u2 1", "swapcancel R2", "swapanswer R3 u2 1", "swapcancel R1", "swapuserdone R3"}} {
			h := []string{"reset", "emit u0 1000", "dump"}
			for _, g := range strings.Split(give, ";") {
				h = append(h, g, "dump")
			}
			h = append(h, "swapanswer R0 u1 501", "dump", "swapanswer R1 u1 7", "dump", "swapanswerf R4 u2 450", "dump")
			for _, x := range closing {
				h = append(h, x, "dump")
			}
			h = append(h, "swapuserdone R4", "dump", "swapanswerf R5 u2 3", "swapcancel R5", "dump", "chcancel T1", "dump")
			emit(h)
		}
	}
	// directed: in one request, a transfer that moves its amount and then cannot pay its fee (fails as a
	// whole) followed by transfers that succeed - on both routes, first / middle position
	for _, route := range []string{"tasks", "batch"} {
		for _, amt := range []string{"1000", "995", "991"} {
			emit([]string{"reset", "emit u0 1000", "emit u1 1000", "setfeeaddr u2", "setfee 1000000", "dump",
				fmt.Sprintf("tx2 %s u0 u1 %s u1 u0 5", route, amt), "dump", fmt.Sprintf("tx2 %s u1 u0 7 u0 u1 %s", route, amt), "dump",
				fmt.Sprintf("tx2 %s u0 u1 %s u0 u1 3", route, amt), "dump", "transfer u1 u0 1", "dump"})
		}
	}
	for i := 0; i < nHist; i++ {
		h := []string{"reset"}
		base := pick([]string{"1000", "5", "340282366920938463463374607431768211456", "115792089237316195423570985008687907853269984665640564039457584007913129639936"})
		bal := map[string]*big.Int{}
		b0, _ := new(big.Int).SetString(base, 10)
		for _, u := range users[:2] {
			h = append(h, "emit "+u+" "+base)
			bal[u] = new(big.Int).Set(b0)
		}
		h = append(h, "dump")
		// half of the histories charge a transfer fee, collected by one of the accounts that also
		// send transfers (so the fee leg can be a self-move)
		switch c.Rng.Intn(4) {
		case 0:
			h = append(h, "setfeeaddr "+pick(users), "setfee "+pick([]string{"1000000", "50000000", "100000000"}))
		case 1:
			h = append(h, "setfee 10000000") // fee configured, address missing: every transfer must fail cleanly
		}
		nsw, nch, nlk, nrs := 0, 0, 0, 0
		n := 3 + c.Rng.Intn(maxSteps)
		amount := func(u string) string {
			b := bal[u]
			if b == nil {
				b = big.NewInt(0)
			}
			switch c.Rng.Intn(8) {
			case 0:
				return "0"
			case 1:
				return "1"
			case 2:
				return b.String() // exactly the (approximate) balance
			case 3:
				return new(big.Int).Add(b, big.NewInt(1)).String()
			case 4:
				if b.Sign() > 0 {
					return new(big.Int).Sub(b, big.NewInt(1)).String()
				}
				return "1"
			case 5:
				return "-1"
			case 6:
				return "18446744073709551617" // 2^64+1
			}
			return fmt.Sprint(1 + c.Rng.Intn(300))
		}
		for j := 0; j < n; j++ {
			u, v := pick(users), pick(users)
			switch c.Rng.Intn(14) {
			case 12:
				// a swap coming home: answered out of what was given out before
				// (named R..: the robot's key list is for records begun here, S.., only - a key list naming an
				// answered copy is robot content off protocol, see DESIGN 10.11)
				nrs++
				h = append(h, fmt.Sprintf("swapanswer R%d %s %s", nrs, u, pick([]string{"1", "2", "7", amount(u), "300"})))
			case 13:
				if c.Rng.Intn(3) == 0 {
					nrs++
					h = append(h, fmt.Sprintf("swapanswerf R%d %s %s", nrs, u, pick([]string{"1", "7", "450"})))
					break
				}
				h = append(h, pick([]string{fmt.Sprintf("swapuserdone R%d", 1+c.Rng.Intn(nrs+1)), fmt.Sprintf("swapuserdone S%d", 1+c.Rng.Intn(nsw+1)),
					fmt.Sprintf("swapcancel R%d", 1+c.Rng.Intn(nrs+1))}))
			case 11:
				if c.Rng.Intn(2) == 0 {
					h = append(h, "setfeeaddr "+u)
				} else {
					h = append(h, "setfee "+pick([]string{"0", "1", "2500000", "100000000", "100000001"}))
				}
			case 0:
				h = append(h, "emit "+u+" "+amount(u))
			case 1:
				h = append(h, "burn "+u+" "+amount(u))
			case 2:
				h = append(h, "transfer "+u+" "+v+" "+amount(u))
			case 3:
				if c.Rng.Intn(2) == 0 {
					h = append(h, "transfer "+u+" "+v+" "+amount(u))
				} else {
					// two transfers in one task list / batch; the first often not fully funded once the fee is due
					u2, v2 := pick(users), pick(users)
					h = append(h, fmt.Sprintf("tx2 %s %s %s %s %s %s %s", pick([]string{"tasks", "batch"}), u, v, amount(u), u2, v2, pick([]string{"1", "2", "7"})))
				}
			case 4:
				h = append(h, "force "+u+" "+v+" "+amount(u))
			case 5:
				nlk++
				h = append(h, fmt.Sprintf("lock K%d %s %s", nlk, u, amount(u)))
			case 6:
				nsw++
				a := amount(u)
				if a == "0" {
					a = "3"
				}
				h = append(h, fmt.Sprintf("swapbegin S%d %s %s", nsw, u, a))
			case 7:
				h = append(h, fmt.Sprintf("swapcancel S%d", 1+c.Rng.Intn(nsw+1)))
			case 8:
				h = append(h, fmt.Sprintf("swaprobotdone S%d", 1+c.Rng.Intn(nsw+1)))
			case 9:
				nch++
				id := fmt.Sprintf("T%d", nch)
				if c.Rng.Intn(6) == 0 && nch > 1 {
					id = "T1"
				}
				h = append(h, fmt.Sprintf("chfrom %s %s %s", id, u, amount(u)))
			case 10:
				h = append(h, fmt.Sprintf("chcancel T%d", 1+c.Rng.Intn(nch+1)))
			}
			h = append(h, "dump")
		}
		emit(h)
	}
	c.Rule = fmt.Sprintf("%d random histories of 3..%d operations through Invoke (emit, burn, transfer with and without a fee leg (fee collector among the senders), two transfers in one task list or batch, forced transfer by the admin, external lock, swap begin / cancel / robot completion, answered swaps coming home (out of the given-out counter) and their completion by key or cancel, answered swaps bringing a foreign grouped token (completion credits an allowed balance, never units of this channel), cross-channel transfer from / cancel) over 3 accounts incl. self, amounts {0, 1, balance-1, balance, balance+1, -1, 2^64+1, random small} on funding {5, 1000, 2^128, 2^256}; after every step: all spendable and locked balances, the given-out counter, the escrow of open swaps, grouped units of the own token, allowed balances of the foreign token and total_emission; non-trivial = at least one emission; distinct = sha256", nHist, maxSteps+2)
	c.Extra = map[string]any{"histories": nHist}
}
