package drive

import (
	"bytes"
	"crypto/rand"
	"fmt"
	"regexp"
	"strconv"
	"strings"

	"verifharness/simpeer"
	"verifharness/world"

	fpb "github.com/anoideaopen/foundation/proto"
	"github.com/btcsuite/btcutil/base58"
)

// authEx executes `auth` ops: one signed request in symbol space ({K0} keys, {S0} signatures),
// realised with real keys and signatures and sent through one of the three routes.
type authEx struct {
	base
	c     *world.Chan
	keys  map[string]*simpeer.User // "K0:ed" -> user
	addrs map[string][]byte        // "A0" -> raw address
	junk  map[string]string
	// signatures already produced in this history, by key symbol and signed bytes: a request that
	// re-uses an earlier signature carries the very same bytes (GOST signatures are randomised)
	sigBytes map[string]string
}

var keyPool = map[string]*simpeer.User{}
var addrPool = map[string][]byte{}

func ktProto(s string) fpb.KeyType {
	switch s {
	case "secp":
		return fpb.KeyType_secp256k1
	case "gost":
		return fpb.KeyType_gost
	}
	return fpb.KeyType_ed25519
}

func poolKey(sym, kt string) *simpeer.User {
	k := sym + ":" + kt
	if u, ok := keyPool[k]; ok {
		return u
	}
	u := simpeer.NewUser(k, ktProto(kt))
	keyPool[k] = u
	return u
}

func poolAddr(sym string) []byte {
	if a, ok := addrPool[sym]; ok {
		return a
	}
	a := make([]byte, 32)
	_, _ = rand.Read(a)
	addrPool[sym] = a
	return a
}

var symRe = regexp.MustCompile(`\{[KS][0-9]+\}`)

func classifyAuthErr(e string) string {
	switch {
	case strings.Contains(e, "incorrect number of arguments"), strings.Contains(e, "incorrect number of keys or signs"):
		return "count"
	case strings.Contains(e, "should be signed"):
		return "unsigned"
	case strings.Contains(e, "incorrect chaincode name"), strings.Contains(e, "incorrect channel name"):
		return "env"
	case strings.Contains(e, "blacklisted"), strings.Contains(e, "graylisted"):
		return "listed"
	case strings.Contains(e, "not enough valid signatures"):
		return "threshold"
	case strings.Contains(e, "incorrect signature"), strings.Contains(e, "invalid key type"), strings.Contains(e, "error validating signature"):
		return "sig"
	case strings.Contains(e, "acl says no"), strings.Contains(e, "empty response"), strings.Contains(e, "proto:"), strings.Contains(e, "unexpected EOF"), strings.Contains(e, "cannot parse"):
		return "acl"
	case strings.Contains(e, "incorrect nonce format"):
		return "nonceformat"
	case strings.Contains(e, "strconv.ParseUint"):
		return "nonce"
	}
	return otherClass(e)
}

func (e *authEx) Exec(op string) string {
	w := strings.Fields(op)
	if len(w) == 0 {
		return "bad-op"
	}
	wd := theWorld()
	if w[0] == "reset" {
		e.c = wd.AddChannel("VT", world.Options{})
		return "ok"
	}
	if w[0] != "auth" || len(w) < 10 || e.c == nil {
		return "bad-op"
	}
	route, fn, envcc, envch, acl, argsS, sigsS, keysS := w[1], w[2], dec(w[4]), dec(w[5]), w[6], w[7], w[8], w[9]
	// key material
	keyOf := map[string]*simpeer.User{}
	if keysS != "-" {
		for _, it := range strings.Split(keysS, ";") {
			p := strings.SplitN(it, "=", 2)
			if len(p) == 2 {
				keyOf[p[0]] = poolKey(p[0], p[1])
			}
		}
	}
	realise := func(s string) string {
		return symRe.ReplaceAllStringFunc(s, func(m string) string {
			if u, ok := keyOf[m]; ok {
				return u.PubB58
			}
			return m
		})
	}
	// signatures
	sigReal := map[string]string{}
	if sigsS != "-" {
		for _, it := range strings.Split(sigsS, ";") {
			p := strings.SplitN(it, "=", 2)
			if len(p) != 2 {
				return "bad-op"
			}
			switch {
			case p[1] == "b":
				sigReal[p[0]] = ""
			case p[1] == "n":
				sigReal[p[0]] = "0OIl+/not-base58"
			case p[1] == "j":
				j := make([]byte, 64)
				_, _ = rand.Read(j)
				sigReal[p[0]] = base58.Encode(j)
			case strings.HasPrefix(p[1], "v."):
				q := strings.SplitN(p[1], ".", 4)
				if len(q) != 4 {
					return "bad-op"
				}
				u, ok := keyOf[q[2]]
				if !ok {
					return "bad-op"
				}
				if e.sigBytes == nil {
					e.sigBytes = map[string]string{}
				}
				ck := q[2] + "|" + q[1] + "|" + realise(q[3])
				if old, ok := e.sigBytes[ck]; ok {
					sigReal[p[0]] = old
				} else {
					sigReal[p[0]] = u.Sign([]byte(realise(q[3])))
					e.sigBytes[ck] = sigReal[p[0]]
				}
			default:
				return "bad-op"
			}
		}
	}
	var args []string
	var realKeys []string
	if argsS != "-" {
		for _, a := range strings.Split(argsS, ",") {
			a = dec(a)
			if s, ok := sigReal[a]; ok {
				args = append(args, s)
				continue
			}
			args = append(args, realise(a))
		}
	}
	// ACL programming: the reply is given for whatever key list the chaincode will ask about
	wd.ACL.ByKeys = map[string]*simpeer.ACLEntry{}
	argc, _ := strconv.Atoi(w[3])
	expected := argc - 1 + 4
	if len(args) >= expected && (len(args)-expected)%2 == 0 && len(args) > expected {
		n := (len(args) - expected) / 2
		realKeys = args[expected : expected+n]
	}
	if route == "legacy" {
		// args = plain arguments, keys, signatures
		realKeys = nil
		if n := (len(args) - (argc - 1)) / 2; n > 0 {
			realKeys = args[argc-1 : argc-1+n]
		}
	}
	entry := &simpeer.ACLEntry{}
	ap := strings.Split(acl, ":")
	switch ap[0] {
	case "status":
		entry.Mode = simpeer.ACLStatus500
	case "empty":
		entry.Mode = simpeer.ACLEmpty
	case "garbled":
		entry.Mode = simpeer.ACLGarbled
	case "ok":
		if len(ap) != 5 {
			return "bad-op"
		}
		var kts []fpb.KeyType
		if ap[2] != "-" {
			for _, k := range strings.Split(ap[2], "+") {
				kts = append(kts, ktProto(k))
			}
		}
		n, _ := strconv.Atoi(ap[3])
		resp := &fpb.AclResponse{
			Address: &fpb.SignedAddress{
				Address:         &fpb.Address{Address: poolAddr(ap[1]), IsMultisig: multisigFlag(ap[4], len(realKeys) > 1)},
				SignaturePolicy: &fpb.SignaturePolicy{N: uint32(n)},
			},
			KeyTypes: kts,
		}
		if ap[4][0] == '1' {
			resp.Account = &fpb.AccountInfo{KycHash: "k", BlackListed: ap[4][1] == '1', GrayListed: ap[4][2] == '1'}
		}
		if len(ap[4]) > 3 && ap[4][3] == '1' {
			resp.Address.SignedTx = []string{"tx-a"}
		}
		if len(ap[4]) > 4 && ap[4][4] == '1' {
			resp.Address.SignaturePolicy.ReplaceKeysSignedTx = []string{"rtx-a"}
		}
		entry.Mode, entry.Resp = simpeer.ACLOk, resp
	default:
		return "bad-op"
	}
	if realKeys != nil {
		wd.ACL.ByKeys[strings.Join(realKeys, "/")] = entry
	}
	// environment: the peer says which chaincode/channel this is
	e.c.CCName, e.c.Channel = envcc, envch
	defer func() { e.c.CCName, e.c.Channel = "vt", "vt" }()
	before := e.c.L.Snapshot()
	e.nontrivial = true
	var errText, result string
	switch route {
	case "batch":
		id, r := e.c.Submit(fn, args)
		if !r.OK() {
			errText = r.Resp.Message
			if r.Panic != nil {
				errText = "panic"
			}
			break
		}
		before = e.c.L.Snapshot() // the pending record is the legitimate effect of a submission
		b := e.c.ExecIDs(id)
		if b.Resp == nil || len(b.Resp.TxResponses) != 1 {
			errText = "batch failed: " + b.Res.Resp.Message
			break
		}
		if x := b.Resp.TxResponses[0].GetError(); x != nil {
			errText = x.GetError()
		} else if b.Event != nil {
			result = string(b.Event.Events[0].GetResult())
		}
	case "task":
		b := e.c.ExecTasks(&fpb.Task{Id: simpeer.NewTxID(), Method: fn, Args: args})
		if b.Resp == nil || len(b.Resp.TxResponses) != 1 {
			errText = "tasks failed: " + b.Res.Resp.Message
			break
		}
		if x := b.Resp.TxResponses[0].GetError(); x != nil {
			errText = x.GetError()
		} else if b.Event != nil {
			result = string(b.Event.Events[0].GetResult())
		}
	case "task2":
		// the request is the second task of a list whose first task is somebody else's valid request
		// for this very chaincode and channel: nothing established for the first may carry over
		first := wd.Users[3]
		before = e.c.L.Snapshot()
		firstArgs := e.c.Signed(first, "whoAmI")
		b := e.c.ExecTasks(&fpb.Task{Id: simpeer.NewTxID(), Method: "whoAmI", Args: firstArgs},
			&fpb.Task{Id: simpeer.NewTxID(), Method: fn, Args: args})
		if b.Resp == nil || len(b.Resp.TxResponses) != 2 {
			errText = "tasks failed: " + b.Res.Resp.Message
			break
		}
		if x := b.Resp.TxResponses[1].GetError(); x != nil {
			errText = x.GetError()
			// what the first task legitimately wrote is not this request's effect
			after := e.c.L.Snapshot()
			if b.Resp.TxResponses[0].GetError() == nil {
				for _, w := range b.Resp.TxResponses[0].GetWrites() {
					before[w.GetKey()] = after[w.GetKey()]
				}
				nk := "\x002a\x00" + first.Addr + "\x00" // the first sender's nonce window
				before[nk] = after[nk]
			}
		} else if b.Event != nil {
			result = string(b.Event.Events[1].GetResult())
		}
	case "nb", "legacy":
		r := e.c.Invoke(wd.Client.Creator, simpeer.NewTxID(), fn, args...)
		if !r.OK() {
			errText = r.Resp.Message
			if r.Panic != nil {
				errText = "panic"
			}
		} else {
			result = string(r.Resp.Payload)
		}
	default:
		return "bad-op"
	}
	if errText != "" {
		after := e.c.L.Snapshot()
		state := "clean"
		if !sameState(before, after) && classifyAuthErr(errText) != "nonceformat" {
			state = "dirty" // (a nonce-format error comes after authentication: the pending record is consumed)
		}
		return "err " + classifyAuthErr(errText) + " " + state
	}
	// who acted? whoami returns the address; echo does not, so read the authenticated sender's mark
	who := strings.Trim(result, "\"")
	if !strings.HasPrefix(fn, "whoami") && !strings.HasPrefix(fn, "whoAmI") && !strings.HasPrefix(fn, "legacy") {
		who = ""
	}
	for sym, raw := range addrPool {
		if who == base58.CheckEncode(raw[1:], raw[0]) {
			return "ok " + sym
		}
	}
	if who == "" {
		// sender not observable through this method: report the ACL's address symbol if any
		if ap[0] == "ok" {
			return "ok " + ap[1]
		}
	}
	return "ok ?" + who
}

// multisigFlag: the sixth flag character says what the ACL reports in Address.is_multisig:
// absent/'0' = consistent with the key count, '1' = false, '2' = true. The flag is informational:
// the number of signatures needed follows from the key list and the policy, not from it.
func multisigFlag(flags string, dflt bool) bool {
	if len(flags) > 5 {
		switch flags[5] {
		case '1':
			return false
		case '2':
			return true
		}
	}
	return dflt
}

func sameState(a, b map[string][]byte) bool {
	if len(a) != len(b) {
		return false
	}
	for k, v := range a {
		if !bytes.Equal(v, b[k]) {
			return false
		}
	}
	return true
}

var _ = fmt.Sprint
