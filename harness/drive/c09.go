package drive

import (
	"encoding/hex"
	"encoding/json"
	"fmt"
	"math/big"
	"sort"
	"strconv"
	"strings"

	"verifharness/simpeer"
	"verifharness/world"

	fpb "github.com/anoideaopen/foundation/proto"
	"golang.org/x/crypto/sha3"
)

func init() { Registry["C09"] = &Prop{Gen: genC09, New: func() Executor { return &c09ex{} }} }

type c09ex struct {
	base
	a, b   *world.Chan
	direct bool
	ids    map[string]string
	begun  map[string]bool
	to     string // the destination as the owner spells it
}

func (e *c09ex) u(name string) *simpeer.User {
	for _, x := range theWorld().Users {
		if x.Name == name {
			return x
		}
	}
	return nil
}

func (e *c09ex) sym() string {
	if e.direct {
		return "VT"
	}
	return "CC"
}

func (e *c09ex) id(sym string) string {
	if id, ok := e.ids[sym]; ok {
		return id
	}
	e.ids[sym] = simpeer.NewTxID()
	return e.ids[sym]
}

type c09asset struct {
	Group  string `json:"group"`
	Amount string `json:"amount"`
}

func (e *c09ex) assets(s string) ([]c09asset, []*fpb.Asset, bool) {
	var js []c09asset
	var pa []*fpb.Asset
	if s == "-" {
		return js, pa, true
	}
	for _, ga := range strings.Split(s, "+") {
		p := strings.Split(ga, ":")
		if len(p) != 2 {
			return nil, nil, false
		}
		n, ok := new(big.Int).SetString(p[1], 10)
		if !ok {
			return nil, nil, false
		}
		g := e.sym() + "_" + p[0]
		js = append(js, c09asset{g, p[1]})
		if n.Sign() >= 0 {
			pa = append(pa, &fpb.Asset{Group: g, Amount: n.Bytes()})
		} else {
			return js, nil, true
		}
	}
	return js, pa, true
}

func (e *c09ex) Exec(op string) string {
	w := strings.Fields(op)
	if len(w) == 0 {
		return "bad-op"
	}
	wd := theWorld()
	if w[0] == "reset" {
		// reset d|r [lc | <given>]: "lc" = the owner spells the destination channel in lower case (forward
		// swaps only); <given> = what the home channel has given out to the other one before (default 1000000)
		if len(w) != 2 && len(w) != 3 {
			return "bad-op"
		}
		e.to = "CC"
		given := int64(1000000)
		if len(w) == 3 {
			if w[2] == "lc" && w[1] == "d" {
				e.to = "cc"
			} else if n, err := strconv.ParseInt(w[2], 10, 64); err == nil && n >= 0 {
				given = n
			} else {
				return "bad-op"
			}
		}
		e.direct = w[1] == "d"
		e.a = wd.AddChannel("VT", world.Options{})
		e.b = wd.AddChannel("CC", world.Options{})
		e.a.Clock, e.b.Clock = 1000, 1000
		if given > 0 {
			e.b.L.State[rawKey(e.b, "2d", "VT")] = big.NewInt(given).Bytes()
		}
		e.ids, e.begun = map[string]string{}, map[string]bool{}
		return "ok"
	}
	if e.a == nil {
		return "bad-op"
	}
	key := func(sym, k string) string {
		switch k {
		case "right":
			return "key-" + sym
		// the preimage with blanks around it is another byte string: a wrong key
		case "rightws":
			return "key-" + sym + " "
		case "wsright":
			return " key-" + sym
		case "rightnl":
			return "key-" + sym + "\n"
		}
		return "wrong-" + sym
	}
	switch w[0] {
	case "fund":
		if len(w) != 4 || e.u(w[1]) == nil {
			return "bad-op"
		}
		if e.direct {
			return okErr(e.a.Do(wd.Issuer, "emitIndustrial", e.u(w[1]).Addr, w[3], "VT_"+w[2]))
		}
		return okErr(e.a.Do(wd.Issuer, "emitAllowed", e.u(w[1]).Addr, "CC_"+w[2], w[3]))
	case "tickA", "tickB":
		n, err := strconv.Atoi(w[1])
		if err != nil {
			return "bad-op"
		}
		if w[0] == "tickA" {
			e.a.Clock += int64(n)
		} else {
			e.b.Clock += int64(n)
		}
		return "ok"
	case "abandon":
		return "ok"
	case "begin":
		if len(w) != 5 || e.u(w[2]) == nil {
			return "bad-op"
		}
		js, _, ok := e.assets(w[3])
		if !ok {
			return "err"
		}
		if js == nil {
			js = []c09asset{}
		}
		aj, _ := json.Marshal(map[string]any{"assets": js})
		h := sha3.Sum256([]byte(key(w[1], "right")))
		args := e.a.Signed(e.u(w[2]), "multiSwapBegin", e.sym(), string(aj), e.to, hex.EncodeToString(h[:]))
		id := e.id(w[1])
		e.nontrivial = true
		if w[4] == "task" || e.begun[w[1]] {
			e.begun[w[1]] = true
			b := e.a.ExecTasks(&fpb.Task{Id: id, Method: "multiSwapBegin", Args: args})
			if b.Resp == nil || len(b.Resp.TxResponses) != 1 || b.Resp.TxResponses[0].GetError() != nil {
				return "err"
			}
			return "ok"
		}
		e.begun[w[1]] = true
		r := e.a.Invoke(wd.Client.Creator, id, "multiSwapBegin", args...)
		if !r.OK() {
			return "err"
		}
		b := e.a.ExecIDs(id)
		if b.Resp == nil {
			return "err"
		}
		// what the robot is told: the batch reply must announce exactly the swaps that were begun
		failed := b.Resp.TxResponses[0].GetError() != nil
		if n := len(b.Resp.GetCreatedMultiSwap()); failed && n != 0 {
			e.flag("failed_begin_announced", "a multiSwapBegin that failed is listed in CreatedMultiSwap of the batch reply (the robot would answer it on the other channel)")
		} else if !failed && n != 1 {
			e.flag("begun_not_announced", fmt.Sprintf("a successful multiSwapBegin is announced %d times in CreatedMultiSwap", n))
		}
		if failed {
			return "err"
		}
		return "ok"
	case "answer":
		if len(w) != 4 || e.u(w[2]) == nil {
			return "bad-op"
		}
		_, pa, ok := e.assets(w[3])
		if !ok || (pa == nil && w[3] != "-") {
			return "err"
		}
		idb, _ := hex.DecodeString(e.id(w[1]))
		h := sha3.Sum256([]byte(key(w[1], "right")))
		b := e.b.ExecBatch(&fpb.Batch{MultiSwaps: []*fpb.MultiSwap{{Id: idb, Creator: []byte("0000"), Owner: e.u(w[2]).AddrRaw, Token: e.sym(),
			Assets: pa, From: "VT", To: e.to, Hash: h[:], Timeout: 1}}})
		if b.Resp == nil || len(b.Resp.SwapResponses) != 1 || b.Resp.SwapResponses[0].GetError() != nil {
			return "err"
		}
		return "ok"
	case "done", "doneU":
		if len(w) != 3 {
			return "bad-op"
		}
		id := e.id(w[1])
		if w[0] == "doneU" {
			id = strings.ToUpper(id) // the id in upper case names no record
		}
		r := e.b.Invoke(wd.Client.Creator, simpeer.NewTxID(), "multiSwapDone", id, key(w[1], w[2]))
		if !r.OK() {
			return "err"
		}
		want := "VT\t" + id + "\t" + key(w[1], w[2])
		if r.Stub.Event != nil && string(r.Stub.Event.Payload) == want {
			return "ok key-published"
		}
		return "ok no-key-event"
	case "doneA":
		if len(w) != 3 {
			return "bad-op"
		}
		if r := e.a.Invoke(wd.Client.Creator, simpeer.NewTxID(), "multiSwapDone", e.id(w[1]), key(w[1], w[2])); !r.OK() {
			return "err"
		}
		return "ok"
	case "rdone":
		if len(w) != 3 {
			return "bad-op"
		}
		idb, _ := hex.DecodeString(e.id(w[1]))
		b := e.a.ExecBatch(&fpb.Batch{MultiSwapsKeys: []*fpb.SwapKey{{Id: idb, Key: key(w[1], w[2])}}})
		if b.Resp == nil || len(b.Resp.SwapKeyResponses) != 1 || b.Resp.SwapKeyResponses[0].GetError() != nil {
			return "err"
		}
		return "ok"
	case "cancelA", "cancelB":
		if len(w) != 3 || e.u(w[2]) == nil {
			return "bad-op"
		}
		c := e.a
		if w[0] == "cancelB" {
			c = e.b
		}
		return okErr(c.Do(e.u(w[2]), "multiSwapCancel", e.id(w[1])))
	case "cancelAU", "cancelBU":
		if len(w) != 3 || e.u(w[2]) == nil {
			return "bad-op"
		}
		c := e.a
		if w[0] == "cancelBU" {
			c = e.b
		}
		return okErr(c.Do(e.u(w[2]), "multiSwapCancel", strings.ToUpper(e.id(w[1]))))
	case "dump":
		grp := func(c *world.Chan, addr, g string, industrial bool, tokSym string) string {
			if industrial {
				p, _ := c.Query("industrialBalanceOf", addr)
				var m map[string]string
				_ = json.Unmarshal([]byte(p), &m)
				if v, ok := m[g]; ok {
					return v
				}
				return "0"
			}
			p, _ := c.Query("allowedBalanceOf", addr, tokSym+"_"+g)
			return strings.Trim(p, "\"")
		}
		var as, bs []string
		for _, n := range []string{"u0", "u1"} {
			for _, g := range []string{"g1", "g2"} {
				addr := e.u(n).Addr
				as = append(as, n+"."+g+"="+grp(e.a, addr, g, e.direct, "CC"))
				bs = append(bs, n+"."+g+"="+grp(e.b, addr, g, !e.direct, "VT"))
			}
		}
		gA := new(big.Int).SetBytes(e.a.L.State[rawKey(e.a, "2d", "CC")]).String()
		gB := new(big.Int).SetBytes(e.b.L.State[rawKey(e.b, "2d", "VT")]).String()
		var syms []string
		for s := range e.ids {
			syms = append(syms, s)
		}
		sort.Strings(syms)
		var ra, rb []string
		for _, s := range syms {
			if _, errs := e.a.Query("multiSwapGet", e.ids[s]); errs == "" {
				ra = append(ra, s)
			}
			if _, errs := e.b.Query("multiSwapGet", e.ids[s]); errs == "" {
				rb = append(rb, s)
			}
		}
		return fmt.Sprintf("A:%s;B:%s;gA=%s;gB=%s;recA=%s;recB=%s", strings.Join(as, ","), strings.Join(bs, ","), gA, gB, orDash(ra, ","), orDash(rb, ","))
	}
	return "bad-op"
}

func genC09(c *Cfg, emit func([]string)) {
	nRand := 500
	if c.Thorough() {
		nRand = 20000
	}
	lists := []string{"g1:30", "g1:30+g2:20", "g1:30+g2:20+g1:5", "g1:30+g1:20", "g2:51", "g1:100+g2:50", "g1:101+g2:1", "g1:1+g2:51", "-", "g1:0", "g1:-1+g2:5"}
	users := []string{"u0", "u1"}
	for i := 0; i < nRand; i++ {
		dir := []string{"d", "r"}[c.Rng.Intn(2)]
		reset := "reset " + dir
		switch {
		case dir == "d" && c.Rng.Intn(3) == 0:
			reset += " lc"
		case dir == "r" && c.Rng.Intn(2) == 0:
			// the home channel has given out less than the lists ask back: an answer is all or nothing
			reset += " " + []string{"0", "29", "30", "40", "49", "50", "55", "80"}[c.Rng.Intn(8)]
		}
		h := []string{reset, "fund u0 g1 100", "fund u0 g2 50", "fund u1 g1 40"}
		type sw struct{ sym, user, as string }
		var sws []sw
		n := 4 + c.Rng.Intn(12)
		for j := 0; j < n; j++ {
			if len(sws) == 0 || c.Rng.Intn(5) == 0 {
				s := sw{fmt.Sprintf("m%d", len(sws)+1), users[c.Rng.Intn(2)], lists[c.Rng.Intn(len(lists))]}
				h = append(h, fmt.Sprintf("begin %s %s %s %s", s.sym, s.user, s.as, []string{"batch", "task"}[c.Rng.Intn(2)]))
				sws = append(sws, s)
			} else {
				s := sws[c.Rng.Intn(len(sws))]
				switch c.Rng.Intn(14) {
				case 12:
					h = append(h, []string{"doneU " + s.sym + " right", "cancelAU " + s.sym + " " + s.user, "cancelBU " + s.sym + " " + s.user}[c.Rng.Intn(3)])
				case 13:
					h = append(h, []string{"done ", "done ", "rdone "}[c.Rng.Intn(3)]+s.sym+" "+[]string{"rightws", "wsright", "rightnl"}[c.Rng.Intn(3)])
				case 0, 1, 2:
					h = append(h, fmt.Sprintf("answer %s %s %s", s.sym, s.user, s.as))
				case 3, 4:
					h = append(h, "done "+s.sym+" "+[]string{"right", "right", "wrong"}[c.Rng.Intn(3)])
				case 5:
					h = append(h, "rdone "+s.sym+" "+[]string{"right", "wrong"}[c.Rng.Intn(2)])
				case 6:
					h = append(h, "cancelA "+s.sym+" "+[]string{s.user, s.user, "u1", "u0"}[c.Rng.Intn(4)])
				case 7:
					h = append(h, "cancelB "+s.sym+" "+[]string{s.user, "u1"}[c.Rng.Intn(2)])
				case 8:
					h = append(h, "tickA "+[]string{"10799", "10800", "1", "20000"}[c.Rng.Intn(4)])
				case 9:
					h = append(h, "tickB "+[]string{"299", "300", "1000"}[c.Rng.Intn(3)])
				case 10:
					h = append(h, fmt.Sprintf("begin %s %s g1:1 task", s.sym, users[c.Rng.Intn(2)]))
				case 11:
					h = append(h, []string{"done nosuch right", "doneA " + s.sym + " right", "doneA " + s.sym + " right", "doneA " + s.sym + " wrong"}[c.Rng.Intn(4)])
				}
			}
			h = append(h, "dump")
		}
		emit(h)
	}
	// directed schedules: exact timeout edge, foreign/early cancel, repeated completion, completion
	// after cancel, partial funding of the 2nd / 3rd asset
	for _, dir := range []string{"d", "r"} {
		emit([]string{"reset " + dir, "fund u0 g1 100", "fund u0 g2 50", "begin m1 u0 g1:30+g2:20 batch", "dump",
			"cancelA m1 u1", "cancelA m1 u0", "tickA 10799", "cancelA m1 u0", "dump", "tickA 1", "cancelA m1 u0", "dump", "cancelA m1 u0"})
		emit([]string{"reset " + dir, "fund u0 g1 100", "fund u0 g2 50", "begin m1 u0 g1:30+g2:51 batch", "dump", "begin m2 u0 g1:30+g2:50+g1:71 task", "dump", "begin m3 u0 g1:30+g2:50+g1:70 task", "dump"})
		emit([]string{"reset " + dir, "fund u0 g1 100", "begin m1 u0 g1:30 batch", "doneA m1 right", "dump", "answer m1 u0 g1:30", "doneA m1 right", "dump", "done m1 right", "dump", "doneA m1 right", "dump"})
		if dir == "r" {
			for _, g := range []string{"0", "29", "30", "49", "50", "54", "55"} {
				emit([]string{"reset r " + g, "fund u0 g1 100", "fund u0 g2 50", "begin m1 u0 g1:30+g2:20+g1:5 batch", "dump", "answer m1 u0 g1:30+g2:20+g1:5", "dump", "done m1 right", "dump", "rdone m1 right", "dump"})
			}
		} else {
			emit([]string{"reset d lc", "fund u0 g1 100", "fund u0 g2 50", "begin m1 u0 g1:30+g2:20 batch", "dump", "answer m1 u0 g1:30+g2:20", "dump", "done m1 right", "dump", "rdone m1 right", "dump"})
		}
		emit([]string{"reset " + dir, "fund u0 g1 100", "begin m1 u0 g1:30 batch", "answer m1 u0 g1:30", "done m1 rightws", "done m1 wsright", "done m1 rightnl", "dump",
			"doneU m1 right", "dump", "cancelBU m1 u0", "cancelAU m1 u0", "tickA 20000", "cancelAU m1 u0", "dump", "rdone m1 rightnl", "done m1 right", "rdone m1 rightws", "dump", "rdone m1 right", "dump"})
		emit([]string{"reset " + dir, "fund u0 g1 100", "begin m1 u0 g1:30 batch", "answer m1 u0 g1:30", "done m1 wrong", "done m1 right", "dump", "done m1 right", "rdone m1 wrong", "rdone m1 right", "dump", "rdone m1 right", "cancelB m1 u0", "tickB 1000", "cancelB m1 u0"})
	}
	c.Rule = fmt.Sprintf("%d random histories: multi-swaps of 1..3 assets (also the same group twice, empty list, zero and negative amounts, 2nd/3rd asset under-funded by 1) begun through batches and task lists (incl. a second begin under an open id), answered, completed with right/wrong keys on the destination and (never allowed) on the origin record, completed or cancelled under the id in upper case (no such record), completed with the preimage padded by a blank or line feed (a wrong key), cancelled by creator or stranger on the origin record and on the answered copy, with the destination channel spelled in lower case by the owner (forward swaps) and with a home channel that has given out less than a reverse list asks back (answer all-or-nothing: 0, one short of the first asset, between the assets, one short of the total), with the two peer clocks moved to just before / exactly at / after the timeouts; plus directed schedules for the timeout edge and repeated completion; balances of 2 owners x 2 groups on both channels, given counters and records after every step. non-trivial = contains a begin; distinct = sha256", nRand)
	c.Extra = map[string]any{"random": nRand}
}
