package drive

import (
	"fmt"
	"strings"

	"verifharness/simpeer"
	"verifharness/trace"

	"github.com/anoideaopen/foundation/core/cachestub"
)

func init() { Registry["C12"] = &Prop{Gen: genC12, New: func() Executor { return &c12ex{} }} }

// c12ex drives the real cachestub types over a simulated-peer ledger.
type c12ex struct {
	base
	l    *simpeer.Ledger
	stub *simpeer.Stub
	b    *cachestub.BatchCacheStub
	tx   *cachestub.TxCacheStub
	n    int
}

func (e *c12ex) Exec(op string) string {
	w := strings.Fields(op)
	arg := func(i int) string {
		if i < len(w) {
			return dec(w[i])
		}
		return ""
	}
	if len(w) == 0 {
		return "bad-op"
	}
	if w[0] != "reset" && e.b == nil {
		return "bad-op"
	}
	switch w[0] {
	case "reset":
		e.l = simpeer.NewLedger()
		if arg(1) != "" {
			for _, kv := range strings.Split(arg(1), ",") {
				p := strings.SplitN(kv, "=", 2)
				if len(p) == 2 {
					e.l.State[p[0]] = []byte(dec(p[1]))
				}
			}
		}
		e.stub = &simpeer.Stub{L: e.l, TxID: "00", Channel: "c"}
		e.b = cachestub.NewBatchCacheStub(e.stub)
		e.tx = nil
		return "ok"
	case "tx", "tdiscard":
		e.n++
		e.tx = e.b.NewTxCacheStub(fmt.Sprintf("t%d", e.n))
		return "ok"
	}
	if e.tx == nil {
		e.tx = e.b.NewTxCacheStub("t0")
	}
	switch w[0] {
	case "fault":
		// the next read of this key that reaches the ledger fails (a peer-side error)
		if e.l.FailGet == nil {
			e.l.FailGet = map[string]int{}
		}
		e.l.FailGet[arg(1)]++
		return "ok"
	case "tget":
		v, err := e.tx.GetState(arg(1))
		if err != nil {
			return "err"
		}
		return "v:" + trace.Enc(string(v))
	case "bget":
		v, err := e.b.GetState(arg(1))
		if err != nil {
			return "err"
		}
		return "v:" + trace.Enc(string(v))
	case "tput":
		e.nontrivial = true
		_ = e.tx.PutState(arg(1), []byte(arg(2)))
		return "ok"
	case "tdel":
		e.nontrivial = true
		_ = e.tx.DelState(arg(1))
		return "ok"
	case "bput":
		e.nontrivial = true
		_ = e.b.PutState(arg(1), []byte(arg(2)))
		return "ok"
	case "bdel":
		e.nontrivial = true
		_ = e.b.DelState(arg(1))
		return "ok"
	case "tcommit":
		ws, _ := e.tx.Commit()
		var parts []string
		for _, x := range ws {
			if x.GetIsDeleted() {
				parts = append(parts, x.GetKey()+"=DEL")
			} else {
				parts = append(parts, x.GetKey()+"="+trace.Enc(string(x.GetValue())))
			}
		}
		e.n++
		e.tx = e.b.NewTxCacheStub(fmt.Sprintf("t%d", e.n))
		return strings.Join(parts, ";")
	case "bcommit":
		if err := e.b.Commit(); err != nil {
			return "err"
		}
		_ = e.stub.Commit()
		// a second commit of the same stub would re-apply; give the batch a fresh stub view
		e.stub = &simpeer.Stub{L: e.l, TxID: "00", Channel: "c"}
		return dumpMap(e.l.State)
	}
	return "bad-op"
}

func c12alphabet(keys, vals []string) []string {
	var a []string
	for _, k := range keys {
		a = append(a, "tget "+k, "tdel "+k, "bget "+k, "bdel "+k)
		for _, v := range vals {
			a = append(a, "tput "+k+" "+trace.Enc(v), "bput "+k+" "+trace.Enc(v))
		}
	}
	return append(a, "tcommit", "tdiscard")
}

func genC12(c *Cfg, emit func([]string)) {
	alpha := c12alphabet([]string{"ka", "kb"}, []string{"", "a", "L"})
	maxLen, nRandom := 3, 60000
	if c.Thorough() {
		maxLen, nRandom = 5, 1000000
	}
	inits := []string{"-", "ka=L", "ka=L,kb=M"}
	var rec func(ini string, prefix []string, depth int)
	rec = func(ini string, prefix []string, depth int) {
		h := append([]string{"reset " + ini, "tx"}, prefix...)
		emit(append(h, "bcommit"))
		if depth == maxLen {
			return
		}
		for _, o := range alpha {
			rec(ini, append(prefix[:len(prefix):len(prefix)], o), depth+1)
		}
	}
	for _, ini := range inits {
		rec(ini, nil, 0)
	}
	// one key, deeper: transaction-level ops only, values include the ledger's own value (writing the
	// original value back after somebody else changed it is a write like any other)
	alpha1 := []string{"tget ka", "tdel ka", "tput ka -", "tput ka a", "tput ka L", "bget ka", "tcommit", "tdiscard"}
	depth1 := 6
	if c.Thorough() {
		depth1 = 7
	}
	var rec1 func(ini string, prefix []string)
	rec1 = func(ini string, prefix []string) {
		if len(prefix) == depth1 {
			h := append([]string{"reset " + ini, "tx"}, prefix...)
			emit(append(h, "tget ka", "bcommit"))
			return
		}
		for _, o := range alpha1 {
			rec1(ini, append(prefix[:len(prefix):len(prefix)], o))
		}
	}
	for _, ini := range []string{"-", "ka=L"} {
		rec1(ini, nil)
	}
	// a failed ledger read is reported to the caller and remembered by nobody: every sequence of 4
	// (thorough 5) ops on one key with one injected read fault somewhere
	alphaF := []string{"tget ka", "bget ka", "tput ka a", "tdel ka", "tcommit", "tdiscard", "fault ka"}
	depthF := 4
	if c.Thorough() {
		depthF = 5
	}
	var recF func(ini string, prefix []string)
	recF = func(ini string, prefix []string) {
		if len(prefix) == depthF {
			h := append([]string{"reset " + ini, "tx"}, prefix...)
			emit(append(h, "tget ka", "tget ka", "bcommit"))
			return
		}
		for _, o := range alphaF {
			recF(ini, append(prefix[:len(prefix):len(prefix)], o))
		}
	}
	for _, ini := range []string{"-", "ka=L"} {
		recF(ini, nil)
	}
	keys5 := []string{"ka", "kb", "kc", "kd", "ke"}
	alpha5 := c12alphabet(keys5, []string{"", "a", "b", "cc"})
	for _, k := range keys5 {
		alpha5 = append(alpha5, "tput "+k+" L"+k, "bput "+k+" L"+k, "tput "+k+" L"+k) // the ledger's initial value
	}
	for i := 0; i < nRandom; i++ {
		n := 4 + c.Rng.Intn(14)
		var kvs []string
		for _, k := range keys5 {
			if c.Rng.Intn(2) == 0 {
				kvs = append(kvs, k+"=L"+k)
			}
		}
		h := []string{"reset " + trace.Enc(strings.Join(kvs, ",")), "tx"}
		prevKey := ""
		for j := 0; j < n; j++ {
			o := alpha5[c.Rng.Intn(len(alpha5))]
			f := strings.Fields(o)
			if len(f) > 1 && prevKey != "" && c.Rng.Intn(3) == 0 {
				f[1] = prevKey // revisit the previous key: shadowing cases
				o = strings.Join(f, " ")
			}
			if len(f) > 1 {
				prevKey = f[1]
			}
			if c.Rng.Intn(25) == 0 && len(f) > 1 {
				h = append(h, "fault "+f[1])
			}
			h = append(h, o)
		}
		emit(append(h, "bcommit"))
	}
	c.Rule = fmt.Sprintf("all op sequences of length <= %d over {tget,tdel,bget,bdel,tput,bput}x{ka,kb}x{'',a,L} + tcommit/tdiscard from 3 initial ledgers (this part exhaustive), all sequences of exactly %d transaction-level ops on one key over {read, delete, put '', put a, put the ledger's own value, batch-level read, commit, discard} from 2 initial ledgers (exhaustive), all sequences of ops on one key with injected ledger-read faults (a failed read is an error for its caller and is remembered by nobody), plus %d random sequences (4..17 ops, 5 keys, 1/3 of ops revisit the previous key, occasional read faults); each history ends with the batch commit and a ledger dump; non-trivial = contains a write; distinct = distinct sha256 of op+output text", maxLen, depth1, nRandom)
	c.Extra = map[string]any{"exhaustive_part_max_len": maxLen, "random_sequences": nRandom}
}
