package drive

import (
	"bytes"
	"encoding/hex"
	"fmt"
	"sort"
	"strings"

	"verifharness/simpeer"
	"verifharness/world"
)

// C18 — configuration integrity. Histories of initialisations (JSON configurations built from a
// field tree with mutations, legacy positional arguments, callers with different certificates)
// interleaved with probes that reveal the configuration in force.

func init() { Registry["C18"] = &Prop{Gen: genC18, New: func() Executor { return &c18ex{} }} }

type c18ex struct {
	base
	p   *simpeer.Peer
	ids map[string]*simpeer.Identity
	sub map[string]string // symbol -> real value
}

func (e *c18ex) real(s string) string {
	s = strings.NewReplacer("%20", " ", "%0a", "\n").Replace(s)
	if v, ok := e.sub[s]; ok {
		return v
	}
	return s
}

func (e *c18ex) symbolic(s string) string {
	for k, v := range e.sub {
		if v == s {
			return k
		}
	}
	return s
}

func jstr(s string) string {
	var b strings.Builder
	b.WriteByte('"')
	for _, r := range s {
		switch {
		case r == '"' || r == '\\':
			b.WriteByte('\\')
			b.WriteRune(r)
		case r < 0x20:
			fmt.Fprintf(&b, "\\u%04x", r)
		default:
			b.WriteRune(r)
		}
	}
	b.WriteByte('"')
	return b.String()
}

// renderJSON builds the JSON text from the item list (see Driver/C18.lean for the same parsing).
func (e *c18ex) renderJSON(items []string) (string, bool) {
	kv := map[string]string{}
	var extras []string
	for _, it := range items {
		i := strings.IndexByte(it, '=')
		if i <= 0 {
			return "", false
		}
		k, v := it[:i], it[i+1:]
		if k == "x" || k == "d" {
			extras = append(extras, k+"="+v)
			continue
		}
		kv[k] = v
	}
	alt := kv["alt"] == "1"
	name := func(camel, snake string) string {
		if alt {
			return snake
		}
		return camel
	}
	has := func(x string) bool {
		for _, e := range extras {
			if e == x {
				return true
			}
		}
		return false
	}
	// scalar string member
	str := func(field, v string) (string, bool) {
		switch {
		case v == "" || v == "~":
			return "", true
		case v == "null":
			return jstr(field) + ":null", true
		case v == "#":
			return jstr(field) + ":5", true
		case v == "{}":
			return jstr(field) + ":{}", true
		case strings.HasPrefix(v, "="):
			return jstr(field) + ":" + jstr(e.real(v[1:])), true
		}
		return "", false
	}
	wallet := func(field, v string, unknownInside bool) (string, bool) {
		switch {
		case v == "" || v == "~":
			return "", true
		case v == "null":
			return jstr(field) + ":null", true
		case v == "#":
			return jstr(field) + ":5", true
		case v == "{}":
			if unknownInside {
				return jstr(field) + `:{"bogus":1}`, true
			}
			return jstr(field) + ":{}", true
		case strings.HasPrefix(v, "="):
			inner := `"address":` + jstr(e.real(v[1:]))
			if unknownInside {
				inner += `,"bogus":1`
			}
			return jstr(field) + ":{" + inner + "}", true
		}
		return "", false
	}
	obj := func(field, v string, members []string) (string, bool) {
		switch v {
		case "", "~":
			return "", true
		case "null":
			return jstr(field) + ":null", true
		case "#":
			return jstr(field) + ":5", true
		case "{}":
			return jstr(field) + ":{}", true
		case "obj":
			var ms []string
			for _, m := range members {
				if m != "" {
					ms = append(ms, m)
				}
			}
			return jstr(field) + ":{" + strings.Join(ms, ",") + "}", true
		}
		return "", false
	}
	ok := true
	m := func(s string, good bool) string {
		if !good {
			ok = false
		}
		return s
	}
	var cMembers []string
	cMembers = append(cMembers, m(str("symbol", kv["cs"])))
	if has("d=cs") {
		cMembers = append(cMembers, m(str("symbol", kv["cs"])))
	}
	cMembers = append(cMembers, m(str("robotSKI", kv["cr"])))
	cMembers = append(cMembers, m(wallet("admin", kv["ca"], has("x=ca"))))
	if d, okd := kv["cd"]; okd && d != "" && d != "~" {
		var fs []string
		for _, f := range strings.Split(d, ",") {
			fs = append(fs, jstr(f))
		}
		cMembers = append(cMembers, jstr("options")+":{"+jstr(name("disabledFunctions", "disabled_functions"))+":["+strings.Join(fs, ",")+"]}")
	}
	if has("x=c") {
		cMembers = append(cMembers, `"bogus":"1"`)
	}
	var tMembers []string
	tMembers = append(tMembers, m(str("name", kv["tn"])))
	tMembers = append(tMembers, m(wallet("issuer", kv["ti"], has("x=ti"))))
	if has("d=ti") {
		tMembers = append(tMembers, m(wallet("issuer", kv["ti"], false)))
	}
	tMembers = append(tMembers, m(wallet(name("feeSetter", "fee_setter"), kv["tf"], false)))
	tMembers = append(tMembers, m(wallet(name("feeAddressSetter", "fee_address_setter"), kv["tg"], false)))
	tMembers = append(tMembers, m(wallet("redeemer", kv["tr"], false)))
	if has("x=t") {
		tMembers = append(tMembers, `"bogus":true`)
	}
	var top []string
	top = append(top, m(obj("contract", kv["c"], cMembers)))
	top = append(top, m(obj("token", kv["t"], tMembers)))
	if has("x=top") {
		top = append(top, `"bogus":{}`)
	}
	if has("d=c") {
		top = append(top, m(obj("contract", kv["c"], cMembers)))
	}
	var ms []string
	for _, t := range top {
		if t != "" {
			ms = append(ms, t)
		}
	}
	return "{" + strings.Join(ms, ",") + "}", ok
}

func (e *c18ex) Exec(op string) string {
	w := strings.Fields(op)
	if len(w) == 0 {
		return "bad-op"
	}
	wd := theWorld()
	if w[0] == "reset" {
		if len(w) != 2 {
			return "bad-op"
		}
		cc, _ := world.NewInstance()
		e.p = &simpeer.Peer{Channel: w[1], CCName: w[1], L: simpeer.NewLedger(), CC: cc, ACL: wd.ACL, Clock: 1700000000}
		if e.ids == nil {
			e.ids = map[string]*simpeer.Identity{
				"admin": wd.Admin, "client": wd.Client,
				"Admin": simpeer.NewIdentity("platformMSP", "Admin"),
				"both":  simpeer.NewIdentity("platformMSP", "client", "admin"),
				"other": simpeer.NewIdentity("platformMSP", "peer", "administrator"),
			}
			// robot keys used as symbols a0 / b0: like the symbols, the real values must not be usable
			// as base58 addresses (they contain the digit 0)
			ski := func() string {
				for {
					id := simpeer.NewIdentity("platformMSP", "client")
					if strings.Contains(id.SKIHex, "0") {
						return id.SKIHex
					}
				}
			}
			e.sub = map[string]string{"a0": ski(), "b0": ski(),
				"A1": wd.AdminU.Addr, "A2": wd.Users[0].Addr, "S1": wd.Issuer.Addr, "F1": wd.FeeSet.Addr, "G1": wd.FeeASet.Addr}
		}
		return "ok"
	}
	if e.p == nil {
		return "bad-op"
	}
	switch w[0] {
	case "initother":
		// the same initialisation executed by ANOTHER chaincode process over the same ledger (as on
		// a peer that did not serve the earlier invocations); the long-lived process answers the next
		// probe and must follow what is stored
		old := e.p.CC
		cc, _ := world.NewInstance()
		e.p.CC = cc
		out := e.Exec("init " + strings.Join(w[1:], " "))
		e.p.CC = old
		return out
	case "init":
		if len(w) < 3 {
			return "bad-op"
		}
		var creator []byte
		switch w[1] {
		case "none":
		case "garbage":
			creator = []byte{1, 2, 3, 4}
		default:
			id, ok := e.ids[w[1]]
			if !ok {
				return "bad-op"
			}
			creator = id.Creator
		}
		var args []string
		sentJSON := ""
		switch w[2] {
		case "json":
			js, ok := e.renderJSON(w[3:])
			if !ok {
				return "bad-op"
			}
			args, sentJSON = []string{js}, js
		case "pos":
			for _, a := range w[3:] {
				if a == "-" {
					args = append(args, "")
				} else if strings.HasPrefix(a, "=") {
					args = append(args, e.real(a[1:]))
				} else {
					return "bad-op"
				}
			}
		case "raw":
			if len(w) != 4 {
				return "bad-op"
			}
			b, err := hex.DecodeString(w[3])
			if err != nil && w[3] != "-" {
				return "bad-op"
			}
			args = []string{string(b)}
		default:
			return "bad-op"
		}
		e.nontrivial = true
		before := append([]byte(nil), e.p.L.State["__config"]...)
		r := e.p.Init(creator, simpeer.NewTxID(), args...)
		after := e.p.L.State["__config"]
		if r.Panic != nil {
			return "panic"
		}
		if r.OK() {
			if sentJSON != "" && string(after) != sentJSON {
				return "ok stored-different"
			}
			if len(after) == 0 {
				return "ok nothing-stored"
			}
			return "ok stored"
		}
		if !bytes.Equal(before, after) {
			return "err CHANGED"
		}
		return "err kept"
	case "probe":
		// a fresh instance and the long-lived one must agree (C07); the long-lived one answers
		r := e.p.Simulate(wd.Client.Creator, simpeer.NewTxID(), "cfgDump")
		if r.Panic != nil {
			return "panic"
		}
		if !r.OK() {
			if strings.Contains(r.Resp.Message, "config bytes is empty") {
				return "refused"
			}
			return "err:" + strings.ReplaceAll(r.Resp.Message, " ", "_")
		}
		out := strings.Trim(string(r.Resp.Payload), "\"")
		var parts []string
		for _, f := range strings.Fields(out) {
			i := strings.IndexByte(f, '=')
			v := f[i+1:]
			if f[:i] == "dis" && v != "" {
				ds := strings.Split(v, ",")
				sort.Strings(ds)
				v = strings.Join(ds, ",")
			}
			parts = append(parts, f[:i]+"="+e.symbolic(v))
		}
		return strings.Join(parts, " ")
	}
	return "bad-op"
}

func genC18(c *Cfg, emit func([]string)) {
	rng := c.Rng
	pick := func(xs ...string) string { return xs[rng.Intn(len(xs))] }
	valid := func() map[string]string {
		return map[string]string{"c": "obj", "cs": "=" + pick("VT", "VT", "CC", "AB1-2X"), "cr": "=" + pick("a0", "b0"), "ca": "=" + pick("A1", "A2"),
			"t": "obj", "tn": "=tok", "ti": "=" + pick("S1", "A2"), "tf": pick("=F1", "~"), "tg": pick("=G1", "~")}
	}
	render := func(m map[string]string, extras ...string) string {
		var ks []string
		for k := range m {
			ks = append(ks, k)
		}
		sort.Strings(ks)
		var out []string
		for _, k := range ks {
			out = append(out, k+"="+m[k])
		}
		out = append(out, extras...)
		return strings.Join(out, " ")
	}
	strMut := map[string][]string{
		"cs": {"~", "null", "#", "=", "=vt", "=V", "=1VT", "=VT-", "=V-T", "=VT-A-B", "=VT_A", "=ÀB", "=VT1", "=ABC-9", "=VT%20"},
		"cr": {"~", "null", "#", "=", "=A1B2", "=xyz", "=0123456789abcdef", "=ab%20cd", "=a0%0a"},
		"ca": {"~", "null", "#", "{}", "=", "=0OIl", "=A1%20", "=A-1", "=A2"},
		"ti": {"~", "null", "#", "{}", "=", "=0OIl", "=S1", "=l1"},
		"tf": {"~", "null", "#", "{}", "=", "=0", "=F1"},
		"tg": {"~", "null", "#", "{}", "=I", "=G1"},
		"tr": {"~", "{}", "=O", "=A2"},
		"tn": {"~", "null", "#", "=", "=x"},
		"c":  {"~", "null", "#", "{}"},
		"t":  {"~", "null", "#", "{}"},
	}
	creators := []string{"admin", "admin", "admin", "Admin", "both", "client", "other", "none", "garbage"}
	// (a) field-wise mutation: every mutation of every field, each in a history
	//     valid -> probe -> mutated (by admin) -> probe -> valid2 -> probe
	var fields []string
	for f := range strMut {
		fields = append(fields, f)
	}
	sort.Strings(fields)
	for _, f := range fields {
		for _, mv := range strMut[f] {
			v0 := valid()
			m := valid()
			m[f] = mv
			h := []string{"reset vt", "probe", "init admin json " + render(v0), "probe", "init " + pick("admin", "both", "Admin") + " json " + render(m), "probe"}
			if rng.Intn(2) == 0 {
				h = append(h, "init admin json "+render(valid()), "probe")
			}
			emit(h)
		}
	}
	// (b) structural mutations: unknown and duplicate members, alternate spelling, disabled functions
	for _, ex := range []string{"x=c", "x=t", "x=top", "x=ca", "x=ti", "d=cs", "d=ti", "d=c", "alt=1", "cd=transfer,swapBegin", "cd=metadata"} {
		v0 := valid()
		v0["tf"], v0["tg"] = "=F1", "=G1"
		emit([]string{"reset vt", "init admin json " + render(valid()), "probe", "init admin json " + render(v0, ex), "probe"})
		emit([]string{"reset vt", "init admin json " + render(v0, ex), "probe"})
	}
	// (c) callers
	for _, cr := range creators {
		emit([]string{"reset vt", "init " + cr + " json " + render(valid()), "probe", "init admin json " + render(valid()), "probe", "init " + cr + " json " + render(valid()), "probe"})
		emit([]string{"reset vt", "init admin json " + render(valid()), "probe", "initother " + cr + " json " + render(valid()), "probe", "initother admin json " + render(valid()), "probe", "init admin json " + render(valid()), "probe"})
	}
	// (d) not JSON at all / JSON of another shape
	for _, raw := range []string{"", "{", "null", "[]", "5", "\"x\"", "{}", "{\"contract\":[]}", "{\"contract\":{\"symbol\":[\"VT\"]}}"} {
		emit([]string{"reset vt", "init admin json " + render(valid()), "init admin raw " + hx(raw), "probe"})
		emit([]string{"reset vt", "init admin raw " + hx(raw), "probe"})
	}
	// (e) legacy positional arguments, per known and unknown channel, 0..6 arguments
	chans := []string{"nft", "dcdac", "ndm", "rub", "it", "ct", "hermitage", "dcrsb", "minetoken", "invclass", "vote", "nmmmulti", "invmulti", "dcmulti",
		"curaed", "curbhd", "curtry", "currub", "curusd", "otf", "vt", "fiat", "NFT"}
	argv := func() string {
		return pick("=x", "=a0", "=b0", "=A1", "=A2", "=S1", "=F1", "=G1", "-", "=0OIl", "=XYZ")
	}
	for _, ch := range chans {
		for n := 0; n <= 6; n++ {
			reps := 1
			if n >= 3 && n <= 5 {
				reps = 3
			}
			for r := 0; r < reps; r++ {
				var as []string
				for i := 0; i < n; i++ {
					if i == 1 && rng.Intn(3) > 0 {
						as = append(as, pick("=a0", "=b0"))
					} else if i >= 2 && rng.Intn(3) > 0 {
						as = append(as, pick("=A1", "=A2", "=S1", "=F1", "=G1"))
					} else {
						as = append(as, argv())
					}
				}
				emit([]string{"reset " + ch, strings.TrimSpace("init " + pick("admin", "admin", "client") + " pos " + strings.Join(as, " ")), "probe"})
			}
		}
	}
	// (e') the same with exactly one EMPTY argument at each position, all others well-formed (an empty
	// issuer, admin, key or fee address must be refused wherever the legacy mapper requires it), as a
	// first initialisation and over a stored configuration
	for _, ch := range chans {
		for n := 2; n <= 5; n++ {
			for hole := 0; hole < n; hole++ {
				var as []string
				for i := 0; i < n; i++ {
					switch {
					case i == hole:
						as = append(as, "-")
					case i == 1:
						as = append(as, "=a0")
					case i >= 2:
						as = append(as, []string{"=A1", "=A2", "=S1", "=F1"}[(i-2)%4])
					default:
						as = append(as, "=x")
					}
				}
				line := "init admin pos " + strings.Join(as, " ")
				if hole%2 == 0 {
					emit([]string{"reset " + ch, line, "probe"})
				} else {
					emit([]string{"reset " + ch, "init admin json " + render(valid()), "probe", line, "probe"})
				}
			}
		}
	}
	// (f) random histories of up to 5 initialisations with several mutations at once
	nRand := 150
	if c.Thorough() {
		nRand = 6000
	}
	for i := 0; i < nRand; i++ {
		h := []string{"reset " + pick("vt", "vt", "nft", "otf")}
		for j := 0; j < 1+rng.Intn(5); j++ {
			m := valid()
			for k := 0; k < rng.Intn(3); k++ {
				f := fields[rng.Intn(len(fields))]
				m[f] = strMut[f][rng.Intn(len(strMut[f]))]
			}
			var ex []string
			if rng.Intn(8) == 0 {
				ex = append(ex, pick("x=c", "x=t", "x=top", "d=cs", "alt=1", "cd=transfer"))
			}
			h = append(h, pick("init ", "init ", "init ", "initother ")+pick(creators...)+" json "+render(m, ex...), "probe")
		}
		emit(h)
	}
	c.Rule = "JSON configurations built from a field tree: (a) every listed mutation (absent, null, wrong JSON kind, empty object, empty string, ill-formatted variants around each pattern) of every field of a valid configuration, each preceded and followed by valid initialisations and probes; (b) unknown and duplicate members at every level, alternate field spelling, disabled-function lists; (c) 9 caller certificates (admin OU, mixed-case OU, several OUs, other OU, none, garbage); (d) arguments that are not JSON or JSON of another shape; (e) legacy positional arguments for all 20 known channel names and unknown ones with 0..6 arguments, and with exactly one empty argument at every position; (f) random histories of up to 5 initialisations with several simultaneous mutations, a quarter of them executed by another chaincode process over the same ledger while the long-lived one answers the probes. Observed: Init reply, ledger key __config before/after (stored exactly as given / kept), and the configuration in force on the next invocation (symbol, robot key, admin, issuer, fee setter, disabled functions). non-trivial = contains an initialisation; distinct = sha256"
}
