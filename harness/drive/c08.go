package drive

import (
	"encoding/hex"
	"fmt"
	"math/big"
	"sort"
	"strings"

	"verifharness/simpeer"
	"verifharness/world"

	fpb "github.com/anoideaopen/foundation/proto"
	"golang.org/x/crypto/sha3"
)

func init() { Registry["C08"] = &Prop{Gen: genC08, New: func() Executor { return &c08ex{} }} }

type c08ex struct {
	base
	a, b   *world.Chan
	direct bool
	mode   string            // d: direct plain (VT), g: direct grouped (VT_G1), r: reverse plain (CC), h: reverse grouped (CC_G1)
	ids    map[string]string // sym -> swap id (hex)
	begun  map[string]bool
	to     string // the destination as the owner spells it ("CC", or "cc": channel names are matched in upper case)
}

func (e *c08ex) u(name string) *simpeer.User {
	for _, x := range theWorld().Users {
		if x.Name == name {
			return x
		}
	}
	return nil
}

func (e *c08ex) token() string {
	switch e.mode {
	case "g":
		return "VT_G1"
	case "h":
		return "CC_G1"
	}
	if e.direct {
		return "VT"
	}
	return "CC"
}

func (e *c08ex) key(sym, k string) string {
	switch k {
	case "right":
		return "key-" + sym
	// the preimage with blanks around it is another byte string: a wrong key
	case "rightws":
		return "key-" + sym + " "
	case "wsright":
		return " key-" + sym
	case "rightnl":
		return "key-" + sym + "\n"
	}
	return "wrong-" + sym
}

// id returns the (pre-assigned) swap id of a symbol: the transaction id its begin will carry.
func (e *c08ex) id(sym string) string {
	if id, ok := e.ids[sym]; ok {
		return id
	}
	e.ids[sym] = simpeer.NewTxID()
	return e.ids[sym]
}

func (e *c08ex) Exec(op string) string {
	w := strings.Fields(op)
	if len(w) == 0 {
		return "bad-op"
	}
	wd := theWorld()
	if w[0] == "reset" {
		if len(w) != 2 && !(len(w) == 3 && w[2] == "lc" && (w[1] == "d" || w[1] == "g")) {
			return "bad-op"
		}
		e.to = "CC"
		if len(w) == 3 {
			e.to = "cc"
		}
		e.mode = w[1]
		e.direct = w[1] == "d" || w[1] == "g"
		e.a = wd.AddChannel("VT", world.Options{})
		e.b = wd.AddChannel("CC", world.Options{})
		e.b.L.State[rawKey(e.b, "2d", "VT")] = big.NewInt(1000000).Bytes()
		e.ids = map[string]string{}
		e.begun = map[string]bool{}
		return "ok"
	}
	if e.a == nil {
		return "bad-op"
	}
	bal := func(c *world.Chan, fn string, args ...string) string {
		p, _ := c.Query(fn, args...)
		return strings.Trim(p, "\"")
	}
	switch w[0] {
	case "fund":
		if len(w) != 3 || e.u(w[1]) == nil {
			return "bad-op"
		}
		if e.mode == "g" {
			return okErr(e.a.Do(wd.Issuer, "emitIndustrial", e.u(w[1]).Addr, w[2], "G1"))
		}
		if e.direct {
			return okErr(e.a.Do(wd.Issuer, "emit", e.u(w[1]).Addr, w[2]))
		}
		return okErr(e.a.Do(wd.Issuer, "emitAllowed", e.u(w[1]).Addr, e.token(), w[2]))
	case "begin":
		if len(w) != 5 || e.u(w[2]) == nil {
			return "bad-op"
		}
		sym := w[1]
		h := sha3.Sum256([]byte(e.key(sym, "right")))
		args := e.a.Signed(e.u(w[2]), "swapBegin", e.token(), e.to, w[3], hex.EncodeToString(h[:]))
		e.nontrivial = true
		id := e.id(sym)
		if w[4] == "task" || e.begun[sym] {
			// the task route lets the caller pick the id — also the id of an existing swap
			e.begun[sym] = true
			b := e.a.ExecTasks(&fpb.Task{Id: id, Method: "swapBegin", Args: args})
			if b.Resp == nil || len(b.Resp.TxResponses) != 1 || b.Resp.TxResponses[0].GetError() != nil {
				return "err"
			}
			return "ok"
		}
		e.begun[sym] = true
		r := e.a.Invoke(wd.Client.Creator, id, "swapBegin", args...)
		if !r.OK() {
			return "err"
		}
		b := e.a.ExecIDs(id)
		if b.Resp == nil {
			return "err"
		}
		failed := b.Resp.TxResponses[0].GetError() != nil
		if n := len(b.Resp.GetCreatedSwaps()); failed && n != 0 {
			e.flag("failed_begin_announced", "a swapBegin that failed is listed in CreatedSwaps of the batch reply (the robot would answer it on the other channel)")
		} else if !failed && n != 1 {
			e.flag("begun_not_announced", fmt.Sprintf("a successful swapBegin is announced %d times in CreatedSwaps", n))
		}
		if failed {
			return "err"
		}
		return "ok"
	case "beginbad":
		// a begin the chaincode must refuse whatever the state: a token (plain or grouped) that belongs to
		// neither channel. (A destination equal to the own channel is NOT refused by the code, and the
		// property does not ask for it: tried, dropped.)
		if len(w) != 5 || e.u(w[2]) == nil {
			return "bad-op"
		}
		h := sha3.Sum256([]byte(e.key(w[1], "right")))
		tok, to := e.token(), "CC"
		switch w[4] {
		case "badtoken":
			tok = "ZZ"
		case "badtoken2":
			tok = "ZZ_G1"
		default:
			return "bad-op"
		}
		id := simpeer.NewTxID()
		r := e.a.Invoke(wd.Client.Creator, id, "swapBegin", e.a.Signed(e.u(w[2]), "swapBegin", tok, to, w[3], hex.EncodeToString(h[:]))...)
		if !r.OK() {
			return "err"
		}
		b := e.a.ExecIDs(id)
		if b.Resp == nil || b.Resp.TxResponses[0].GetError() != nil {
			if b.Resp != nil && len(b.Resp.GetCreatedSwaps()) != 0 {
				e.flag("failed_begin_announced", "a swapBegin that failed is listed in CreatedSwaps of the batch reply")
			}
			return "err"
		}
		return "ok"
	case "answer":
		if len(w) != 4 || e.u(w[2]) == nil {
			return "bad-op"
		}
		amt, ok := new(big.Int).SetString(w[3], 10)
		if !ok || amt.Sign() < 0 {
			return "err"
		}
		idb, _ := hex.DecodeString(e.id(w[1]))
		h := sha3.Sum256([]byte(e.key(w[1], "right")))
		b := e.b.ExecBatch(&fpb.Batch{Swaps: []*fpb.Swap{{Id: idb, Creator: []byte("0000"), Owner: e.u(w[2]).AddrRaw, Token: e.token(),
			Amount: amt.Bytes(), From: "VT", To: e.to, Hash: h[:], Timeout: 1}}})
		if b.Resp == nil || len(b.Resp.SwapResponses) != 1 || b.Resp.SwapResponses[0].GetError() != nil {
			return "err"
		}
		return "ok"
	case "done", "doneA", "doneU", "doneAU":
		if len(w) != 3 {
			return "bad-op"
		}
		c := e.b
		if strings.HasPrefix(w[0], "doneA") {
			c = e.a
		}
		id := e.id(w[1])
		if strings.HasSuffix(w[0], "U") {
			// the id in upper case names no record
			id = strings.ToUpper(id)
		}
		r := c.Invoke(wd.Client.Creator, simpeer.NewTxID(), "swapDone", id, e.key(w[1], w[2]))
		if !r.OK() {
			return "err"
		}
		want := "VT\t" + id + "\t" + e.key(w[1], w[2])
		if r.Stub.Event != nil && r.Stub.Event.EventName == "key" && string(r.Stub.Event.Payload) == want {
			return "ok key-published"
		}
		return "ok no-key-event"
	case "rdone":
		if len(w) != 3 {
			return "bad-op"
		}
		idb, _ := hex.DecodeString(e.id(w[1]))
		b := e.a.ExecBatch(&fpb.Batch{Keys: []*fpb.SwapKey{{Id: idb, Key: e.key(w[1], w[2])}}})
		if b.Resp == nil || len(b.Resp.SwapKeyResponses) != 1 || b.Resp.SwapKeyResponses[0].GetError() != nil {
			return "err"
		}
		return "ok"
	case "cancelA":
		return okErr(e.a.Do(wd.Users[2], "swapCancel", e.id(w[1])))
	case "cancelB":
		return okErr(e.b.Do(wd.Users[2], "swapCancel", e.id(w[1])))
	case "cancelAU":
		return okErr(e.a.Do(wd.Users[2], "swapCancel", strings.ToUpper(e.id(w[1]))))
	case "cancelBU":
		return okErr(e.b.Do(wd.Users[2], "swapCancel", strings.ToUpper(e.id(w[1]))))
	case "dump":
		var as, bs []string
		stray := new(big.Int)
		for _, n := range []string{"u0", "u1"} {
			addr := e.u(n).Addr
			switch e.mode {
			case "d":
				as = append(as, n+"="+bal(e.a, "balanceOf", addr))
				bs = append(bs, n+"="+bal(e.b, "allowedBalanceOf", addr, "VT"))
			case "g":
				as = append(as, n+"="+groupBal(e.a, addr))
				bs = append(bs, n+"="+bal(e.b, "allowedBalanceOf", addr, "VT_G1"))
				stray.Add(stray, bigOf(bal(e.a, "balanceOf", addr)))
				stray.Add(stray, bigOf(bal(e.b, "allowedBalanceOf", addr, "VT")))
			case "r":
				as = append(as, n+"="+bal(e.a, "allowedBalanceOf", addr, "CC"))
				bs = append(bs, n+"="+bal(e.b, "balanceOf", addr))
			default:
				as = append(as, n+"="+bal(e.a, "allowedBalanceOf", addr, "CC_G1"))
				bs = append(bs, n+"="+groupBal(e.b, addr))
				stray.Add(stray, bigOf(bal(e.b, "balanceOf", addr)))
				stray.Add(stray, bigOf(bal(e.a, "allowedBalanceOf", addr, "CC")))
			}
		}
		gA := new(big.Int).SetBytes(e.a.L.State[rawKey(e.a, "2d", "CC")]).String()
		gB := new(big.Int).SetBytes(e.b.L.State[rawKey(e.b, "2d", "VT")]).String()
		var syms []string
		for s := range e.ids {
			syms = append(syms, s)
		}
		sort.Strings(syms)
		var ra, rb []string
		for _, s := range syms {
			if _, errs := e.a.Query("swapGet", e.ids[s]); errs == "" {
				ra = append(ra, s)
			}
			if _, errs := e.b.Query("swapGet", e.ids[s]); errs == "" {
				rb = append(rb, s)
			}
		}
		return fmt.Sprintf("A:%s;B:%s;gA=%s;gB=%s;recA=%s;recB=%s;x=%s", strings.Join(as, ","), strings.Join(bs, ","), gA, gB, orDash(ra, ","), orDash(rb, ","), stray.String())
	}
	return "bad-op"
}

// completions and cancellations naming the swap with its id in upper case: no such record
var upperOps = []string{"doneU s1 right", "doneAU s1 right", "cancelAU s1", "cancelBU s1", "done s1 rightws", "done s1 wsright", "done s1 rightnl", "rdone s1 rightws", "rdone s1 rightnl"}

// lcOf: in the direct modes the owner may spell the destination channel in lower case
func lcOf(c *Cfg, dir string) string {
	if (dir == "d" || dir == "g") && c.Rng.Intn(3) == 0 {
		return " lc"
	}
	return ""
}

func genC08(c *Cfg, emit func([]string)) {
	depth := 3
	if c.Thorough() {
		depth = 5
	}
	alpha := []string{"begin s1 u0 45 batch", "answer s1 u0 45", "done s1 right", "done s1 wrong", "rdone s1 right", "rdone s1 wrong", "cancelA s1", "cancelB s1", "doneA s1 right"}
	for _, dir := range []string{"d", "r", "g", "h"} {
		var rec func(prefix []string, d int)
		rec = func(prefix []string, d int) {
			if d == depth {
				h := []string{"reset " + dir, "fund u0 100"}
				for _, p := range prefix {
					h = append(h, p, "dump")
				}
				emit(h)
				return
			}
			for _, a := range alpha {
				rec(append(prefix[:len(prefix):len(prefix)], a), d+1)
			}
		}
		if c.Thorough() || dir == "d" || dir == "r" {
			rec(nil, 0)
		}
		if !c.Thorough() {
			for i := 0; i < 700; i++ {
				h := []string{"reset " + dir + lcOf(c, dir), "fund u0 100"}
				for j := 0; j < depth+3; j++ {
					if c.Rng.Intn(8) == 0 {
						h = append(h, upperOps[c.Rng.Intn(len(upperOps))], "dump")
					}
					h = append(h, alpha[c.Rng.Intn(len(alpha))], "dump")
				}
				emit(h)
			}
		}
	}
	// two concurrent swaps by different users, both routes, id collision through the task route,
	// robot content off protocol, restarts anywhere
	nRand := 500
	if c.Thorough() {
		nRand = 20000
	}
	for i := 0; i < nRand; i++ {
		dir := []string{"d", "r", "g", "h"}[c.Rng.Intn(4)]
		h := []string{"reset " + dir + lcOf(c, dir), "fund u0 100", "fund u1 60"}
		type sw struct {
			sym, user string
			amt       int
		}
		var sws []sw
		n := 4 + c.Rng.Intn(12)
		for j := 0; j < n; j++ {
			if c.Rng.Intn(12) == 0 {
				h = append(h, fmt.Sprintf("beginbad x%d %s %d %s", j, []string{"u0", "u1"}[c.Rng.Intn(2)], []int{1, 45, 100}[c.Rng.Intn(3)], []string{"badtoken", "badtoken2"}[c.Rng.Intn(2)]), "dump")
			}
			if len(sws) == 0 || c.Rng.Intn(5) == 0 {
				sym := fmt.Sprintf("s%d", len(sws)+1)
				u := []string{"u0", "u1"}[c.Rng.Intn(2)]
				amt := []int{1, 45, 60, 100, 101}[c.Rng.Intn(5)]
				h = append(h, fmt.Sprintf("begin %s %s %d %s", sym, u, amt, []string{"batch", "task"}[c.Rng.Intn(2)]))
				sws = append(sws, sw{sym, u, amt})
			} else {
				s := sws[c.Rng.Intn(len(sws))]
				switch c.Rng.Intn(11) {
				case 10:
					h = append(h, strings.Replace(upperOps[c.Rng.Intn(len(upperOps))], "s1", s.sym, 1))
				case 0, 1:
					u, a := s.user, s.amt
					if c.Rng.Intn(6) == 0 {
						a++
					}
					h = append(h, fmt.Sprintf("answer %s %s %d", s.sym, u, a))
				case 2, 3:
					h = append(h, "done "+s.sym+" "+[]string{"right", "right", "wrong"}[c.Rng.Intn(3)])
				case 4:
					h = append(h, "rdone "+s.sym+" "+[]string{"right", "wrong"}[c.Rng.Intn(2)])
				case 5:
					h = append(h, "cancelB "+s.sym)
				case 6:
					h = append(h, "cancelA "+s.sym)
				case 7:
					// a second begin under the id of this swap (only possible through the task route)
					o := []string{"u0", "u1"}[c.Rng.Intn(2)]
					h = append(h, fmt.Sprintf("begin %s %s 1 task", s.sym, o))
				case 8:
					h = append(h, "doneA "+s.sym+" right")
				case 9:
					h = append(h, "done nosuch right")
				}
			}
			h = append(h, "dump")
		}
		emit(h)
	}
	c.Rule = fmt.Sprintf("(a) every sequence of %d steps over {begin, answer, user completion with right/wrong key on either channel, robot completion with right/wrong key, cancel on A, cancel on B} on one swap in both directions (exhaustive%s); (b) %d random histories with two concurrent swaps by different owners, begin through batches and task lists, a second begin under the id of an open swap (task route), begins with a token of neither channel, robot content off protocol, completions and cancellations naming the swap id in upper case (no such record), keys that are the preimage with a blank or a line feed around it (wrong keys), the destination channel spelled in lower case by the owner (direct swaps; counters stay under the upper-case name); two real chaincode instances; after every step balances of both owners on both channels, both given counters and the records visible through swapGet; the published key event is checked on completion. non-trivial = contains a begin; distinct = sha256", depth, map[bool]string{true: "", false: ", plus 1400 random walks of depth+3"}[c.Thorough()], nRand)
	c.Extra = map[string]any{"walk_depth": depth, "random": nRand}
}
