package drive

import (
	"encoding/hex"
	"encoding/json"
	"fmt"
	"math/big"
	"regexp"
	"sort"
	"strings"

	"verifharness/simpeer"
	"verifharness/trace"
	"verifharness/world"

	fpb "github.com/anoideaopen/foundation/proto"
	"github.com/btcsuite/btcutil/base58"
)

func init() {
	Registry["C04"] = &Prop{Gen: genC04, New: func() Executor { return &batchEx{} }}
	Registry["C05"] = &Prop{Gen: genC05, New: func() Executor { return &batchEx{} }}
}

type batchEx struct {
	base
	c    *world.Chan
	ids  map[string]string // sym -> tx id
	syms map[string]string // tx id -> sym
}

var plainKeyRe = regexp.MustCompile(`^[xyz][0-9]?$`)

func (e *batchEx) user(name string) *simpeer.User {
	for _, u := range theWorld().Users {
		if u.Name == name {
			return u
		}
	}
	return nil
}

func (e *batchEx) symOfAddr(raw []byte) string {
	for _, u := range theWorld().Users {
		if string(u.AddrRaw) == string(raw) {
			return u.Name
		}
	}
	if len(raw) == 0 {
		return "-"
	}
	return "?" + base58.Encode(raw)[:6]
}

// realScript replaces user symbols in mv steps by addresses.
func (e *batchEx) realScript(s string) string {
	if s == "-" {
		return ""
	}
	steps := strings.Split(s, ";")
	for i, st := range steps {
		p := strings.Split(st, ":")
		if p[0] == "mv" && len(p) == 4 {
			if a, b := e.user(p[1]), e.user(p[2]); a != nil && b != nil {
				steps[i] = "mv:" + a.Addr + ":" + b.Addr + ":" + p[3]
			}
		}
	}
	return strings.Join(steps, ";")
}

func (e *batchEx) canonKey(k string) (string, bool, bool) { // key, isBalance, known
	if strings.HasPrefix(k, "\x002b\x00") {
		parts := strings.Split(k, "\x00")
		if len(parts) >= 3 {
			for _, u := range theWorld().Users {
				if u.Addr == parts[2] {
					return "B:" + u.Name, true, true
				}
			}
		}
		return "", true, false
	}
	if strings.HasPrefix(k, "\x00batchTransactions\x00") {
		id := strings.Split(k, "\x00")[2]
		if s, ok := e.syms[id]; ok {
			return "P:" + s, false, true
		}
		return "", false, false
	}
	if plainKeyRe.MatchString(k) {
		return k, false, true
	}
	return "", false, false
}

func classifyTxErr(s string) string {
	switch {
	case strings.Contains(s, "not found") && strings.Contains(s, "transaction"):
		return "notfound"
	case strings.Contains(s, "unknown method"), strings.Contains(s, "method") && strings.Contains(s, "not found"):
		return "unknown"
	case strings.Contains(s, "panic"):
		return "panic"
	case strings.Contains(s, "sender address is missing"):
		return "nosender"
	}
	return "failed"
}

func (e *batchEx) showResp(tr *fpb.TxResponse, ev *fpb.BatchTxEvent) string {
	if tr.GetError() != nil {
		return "err:" + classifyTxErr(tr.GetError().GetError())
	}
	var ws []string
	for _, w := range tr.GetWrites() {
		k, isBal, known := e.canonKey(w.GetKey())
		if !known {
			k = "?" + strings.ReplaceAll(w.GetKey(), "\x00", "|")
		}
		switch {
		case w.GetIsDeleted():
			ws = append(ws, k+"=DEL")
		case isBal:
			ws = append(ws, k+"="+trace.Enc(balStr(w.GetValue())))
		default:
			ws = append(ws, k+"="+trace.Enc(string(w.GetValue())))
		}
	}
	sort.Slice(ws, func(i, j int) bool { return strings.SplitN(ws[i], "=", 2)[0] < strings.SplitN(ws[j], "=", 2)[0] })
	var evs, acc []string
	for _, x := range ev.GetEvents() {
		evs = append(evs, x.GetName()+"="+string(x.GetValue()))
	}
	sort.Strings(evs)
	for _, a := range ev.GetAccounting() {
		acc = append(acc, fmt.Sprintf("%s>%s:%s", e.symOfAddr(a.GetSender()), e.symOfAddr(a.GetRecipient()), new(big.Int).SetBytes(a.GetAmount()).String()))
	}
	sort.Strings(acc)
	var res string
	_ = json.Unmarshal(ev.GetResult(), &res)
	var reads []string
	if res != "" || strings.Contains(string(ev.GetResult()), "|") {
		for _, h := range strings.Split(res, "|") {
			b, _ := hex.DecodeString(h)
			reads = append(reads, trace.Enc(e.canonVal(string(b))))
		}
	}
	return "ok w=" + orDash(ws, ";") + " e=" + orDash(evs, ";") + " a=" + orDash(acc, ";") + " r=" + orDash(reads, ";")
}

func (e *batchEx) canonVal(s string) string { return s }

// methodArgs: a scripted method takes the script; `transfer` takes "to:amount"
func (e *batchEx) methodArgs(method, raw, script string) []string {
	if method == "transfer" {
		p := strings.Split(raw, ":")
		if len(p) == 2 && e.user(p[0]) != nil {
			return []string{e.user(p[0]).Addr, p[1], "ref"}
		}
		return []string{"bad", "1", "ref"}
	}
	return []string{script}
}

func balStr(b []byte) string {
	if len(b) == 0 {
		return ""
	}
	return new(big.Int).SetBytes(b).String()
}

func (e *batchEx) Exec(op string) string {
	w := strings.Fields(op)
	if len(w) == 0 {
		return "bad-op"
	}
	wd := theWorld()
	if w[0] == "reset" {
		e.c = wd.AddChannel("VT", world.Options{})
		e.c.L.Strict = true // CouchDB rules: empty keys are refused at commit
		e.ids, e.syms = map[string]string{}, map[string]string{}
		return "ok"
	}
	if e.c == nil {
		return "bad-op"
	}
	switch w[0] {
	case "fund":
		if len(w) != 3 || e.user(w[1]) == nil {
			return "bad-op"
		}
		return okErr(e.c.Do(wd.Issuer, "emit", e.user(w[1]).Addr, w[2]))
	case "submit":
		if len(w) != 5 {
			return "bad-op"
		}
		sym, method, sender, script := w[1], w[2], w[3], e.realScript(w[4])
		if _, dup := e.ids[sym]; dup {
			return "bad-op"
		}
		args := []string{script}
		if method == "script" || method == "transfer" {
			u := e.user(sender)
			if u == nil {
				return "bad-op"
			}
			args = e.c.Signed(u, method, e.methodArgs(method, w[4], script)...)
		}
		id := simpeer.NewTxID()
		listed := id
		if strings.HasPrefix(sym, "O") {
			// an id with an odd number of hex digits is no transaction id: the submission is refused
			id = id[:len(id)-1]
			listed = hex.EncodeToString([]byte("odd-" + sym)) // no batch can name it: batches carry whole bytes
		}
		if strings.HasPrefix(sym, "U") {
			// a transaction id in UPPER-case hex (accepted by the id check): its record is stored under
			// that spelling, while a batch derives the key from the id's bytes, i.e. in lower case —
			// such a record is never found, never executed, never consumed
			id = "AB" + strings.ToUpper(id[2:])
			listed = strings.ToLower(id)
		}
		before := e.c.L.Snapshot()
		r := e.c.Invoke(wd.Client.Creator, id, method, args...)
		after := e.c.L.Snapshot()
		changed := 0
		for k, v := range after {
			if string(before[k]) != string(v) {
				changed++
			}
		}
		for k := range before {
			if _, ok := after[k]; !ok {
				changed++
			}
		}
		e.ids[sym], e.syms[id] = listed, sym
		if listed != id {
			e.syms[id] = "^" + sym
		}
		if r.OK() {
			return fmt.Sprintf("ok keys=%d", changed)
		}
		return fmt.Sprintf("err keys=%d", changed)
	case "disable":
		// the channel is initialised again with these methods disabled ("-" = none): requests recorded
		// before stay pending, and a batch listing them still consumes them
		if len(w) != 2 {
			return "bad-op"
		}
		o := world.Options{}
		if w[1] != "-" {
			o.Disabled = strings.Split(w[1], "+")
		}
		e.c.L.Strict = false
		e.c.Reconfigure(o)
		e.c.L.Strict = true
		return "ok"
	case "batch":
		var ids []string
		for _, s := range w[1:] {
			id, ok := e.ids[s]
			if !ok {
				id = hex.EncodeToString([]byte("unknown-" + s))
				// unknown ids of unusual lengths: empty, one byte, three bytes, very long
				switch s {
				case "z0":
					id = ""
				case "z1":
					id = "07"
				case "z3":
					id = "010203"
				case "zL":
					id = strings.Repeat("ab", 300)
				}
			}
			ids = append(ids, id)
		}
		e.nontrivial = true
		b := e.c.ExecIDs(ids...)
		if b.Resp == nil || b.Event == nil {
			return "err:batch(" + strings.ReplaceAll(b.Res.Resp.Message, " ", "_") + ")"
		}
		if len(b.Resp.TxResponses) != len(ids) || len(b.Event.Events) != len(ids) {
			return fmt.Sprintf("err:shape(%d,%d)", len(b.Resp.TxResponses), len(b.Event.Events))
		}
		var parts []string
		for i := range ids {
			parts = append(parts, e.showResp(b.Resp.TxResponses[i], b.Event.Events[i]))
		}
		return strings.Join(parts, " | ")
	case "tasks":
		var tasks []*fpb.Task
		for _, t := range w[1:] {
			p := strings.Split(t, ",")
			if len(p) != 4 {
				return "bad-op"
			}
			script := e.realScript(p[3])
			args := []string{script}
			if p[1] == "script" || p[1] == "transfer" {
				u := e.user(p[2])
				if u == nil {
					return "bad-op"
				}
				args = e.c.Signed(u, p[1], e.methodArgs(p[1], p[3], script)...)
			}
			tasks = append(tasks, &fpb.Task{Id: simpeer.NewTxID(), Method: p[1], Args: args})
		}
		e.nontrivial = true
		if len(tasks) == 0 {
			return ""
		}
		b := e.c.ExecTasks(tasks...)
		if b.Resp == nil || b.Event == nil {
			return "err:tasks(" + strings.ReplaceAll(b.Res.Resp.Message, " ", "_") + ")"
		}
		if len(b.Resp.TxResponses) != len(tasks) || len(b.Event.Events) != len(tasks) {
			return fmt.Sprintf("err:shape(%d,%d)", len(b.Resp.TxResponses), len(b.Event.Events))
		}
		var parts []string
		for i := range tasks {
			parts = append(parts, e.showResp(b.Resp.TxResponses[i], b.Event.Events[i]))
		}
		return strings.Join(parts, " | ")
	case "ledger":
		var parts []string
		for k, v := range e.c.L.State {
			ck, isBal, known := e.canonKey(k)
			if !known || len(v) == 0 {
				continue
			}
			switch {
			case strings.HasPrefix(ck, "P:"):
				parts = append(parts, ck+"=1")
			case isBal:
				parts = append(parts, ck+"="+balStr(v))
			default:
				parts = append(parts, ck+"="+string(v))
			}
		}
		sort.Slice(parts, func(i, j int) bool {
			return strings.SplitN(parts[i], "=", 2)[0] < strings.SplitN(parts[j], "=", 2)[0]
		})
		return strings.Join(parts, ",")
	}
	return "bad-op"
}

// ---- generators -------------------------------------------------------------------------------

func randScript(c *Cfg, users []string) string {
	keys := []string{"x", "y", "z"}
	vals := []string{"1", "2", "ab", ""}
	n := c.Rng.Intn(7)
	var st []string
	for i := 0; i < n; i++ {
		switch c.Rng.Intn(9) {
		case 0, 1, 2:
			st = append(st, "put:"+keys[c.Rng.Intn(3)]+":"+vals[c.Rng.Intn(4)])
		case 3:
			st = append(st, "del:"+keys[c.Rng.Intn(3)])
		case 4, 5:
			st = append(st, "get:"+keys[c.Rng.Intn(3)])
		case 6:
			st = append(st, "evt:"+[]string{"e1", "e2"}[c.Rng.Intn(2)]+":"+vals[c.Rng.Intn(3)])
		case 7, 8:
			st = append(st, fmt.Sprintf("mv:%s:%s:%s", users[c.Rng.Intn(len(users))], users[c.Rng.Intn(len(users))], []string{"1", "5", "50", "100", "101", "0"}[c.Rng.Intn(6)]))
		}
	}
	// at least half of the failing scripts write before failing
	switch c.Rng.Intn(6) {
	case 0:
		st = append(st, []string{"fail", "fail", "failx", "faill:1500", "faill:1501", "faill:1502", "faill:40000", "faill:40001", "faill:40002"}[c.Rng.Intn(9)])
	case 1:
		st = append(st, "panic")
	}
	if len(st) == 0 {
		return "-"
	}
	return strings.Join(st, ";")
}

func genC04(c *Cfg, emit func([]string)) {
	nHist := 300
	maxTx := 6
	if c.Thorough() {
		nHist, maxTx = 12000, 10
	}
	users := []string{"u0", "u1", "u2"}
	// exhaustive family on one key: the key is absent or committed by an earlier batch; then every
	// sequence of 3 (thorough: 4) transactions over an alphabet of atomic bodies runs in ONE batch or
	// task list, followed by a reader. This is where a cache layer that mishandles
	// overwrite-then-delete, delete-then-put, failed writers or empty values shows.
	alphabet := []string{"put:x:2", "put:x:", "del:x", "get:x", "put:x:3;fail", "del:x;get:x", "put:x:4;get:x", "del:x;panic", "put:x:5;failx", "put:x:6;faill:1500", "put:x:7;faill:1501"}
	depth := 3
	if c.Thorough() {
		depth = 4
	}
	nExh := 0
	var rec func(prefix []string)
	rec = func(prefix []string) {
		if len(prefix) == depth {
			for _, initial := range []string{"", "put:x:1"} {
				for ri, route := range []string{"batch", "tasks"} {
					if !c.Thorough() && (nExh+ri)%2 == 1 {
						continue
					}
					h := []string{"reset"}
					if initial != "" {
						h = append(h, "submit s0 script u0 "+initial, "batch s0")
					}
					all := append(append([]string{}, prefix...), "get:x")
					if route == "batch" {
						var syms []string
						for j, sc := range all {
							sym := fmt.Sprintf("t%d", j+1)
							h = append(h, fmt.Sprintf("submit %s script %s %s", sym, users[j%3], sc))
							syms = append(syms, sym)
						}
						h = append(h, "batch "+strings.Join(syms, " "))
					} else {
						var ts []string
						for j, sc := range all {
							ts = append(ts, fmt.Sprintf("k%d,script,%s,%s", j+1, users[j%3], sc))
						}
						h = append(h, "tasks "+strings.Join(ts, " "))
					}
					h = append(h, "ledger")
					emit(h)
				}
				nExh++
			}
			return
		}
		for _, a := range alphabet {
			rec(append(append([]string{}, prefix...), a))
		}
	}
	rec(nil)
	for i := 0; i < nHist; i++ {
		h := []string{"reset"}
		for _, u := range users {
			if c.Rng.Intn(4) > 0 {
				h = append(h, "fund "+u+" 100")
			}
		}
		rounds := 1 + c.Rng.Intn(3)
		n := 0
		for r := 0; r < rounds; r++ {
			k := c.Rng.Intn(maxTx + 1)
			if c.Rng.Intn(2) == 0 {
				// batch route: submit then list (with duplicates / unknown ids now and then)
				var syms []string
				for j := 0; j < k; j++ {
					n++
					sym := fmt.Sprintf("t%d", n)
					method := "script"
					if c.Rng.Intn(5) == 0 {
						method = "scriptNS"
					}
					sc := randScript(c, users)
					if c.Rng.Intn(4) == 0 {
						method, sc = "transfer", fmt.Sprintf("%s:%s", users[c.Rng.Intn(3)], []string{"1", "5", "100", "101", "0"}[c.Rng.Intn(5)])
					}
					h = append(h, fmt.Sprintf("submit %s %s %s %s", sym, method, users[c.Rng.Intn(3)], sc))
					syms = append(syms, sym)
				}
				if len(syms) > 0 && c.Rng.Intn(4) == 0 {
					syms = append(syms, syms[c.Rng.Intn(len(syms))])
				}
				if c.Rng.Intn(4) == 0 {
					syms = append(syms, []string{"zz", "z0", "z1", "z3", "zL"}[c.Rng.Intn(5)])
				}
				c.Rng.Shuffle(len(syms), func(a, b int) { syms[a], syms[b] = syms[b], syms[a] })
				h = append(h, strings.TrimSpace("batch "+strings.Join(syms, " ")))
			} else {
				var ts []string
				for j := 0; j < k; j++ {
					n++
					method := "script"
					if c.Rng.Intn(8) == 0 {
						method = "scriptNS"
					}
					sc := randScript(c, users)
					if c.Rng.Intn(3) == 0 {
						// the library's own transfer: recipients are other tasks' signers
						method, sc = "transfer", fmt.Sprintf("%s:%s", users[c.Rng.Intn(3)], []string{"1", "5", "100", "101", "0"}[c.Rng.Intn(5)])
					}
					ts = append(ts, fmt.Sprintf("k%d,%s,%s,%s", n, method, users[c.Rng.Intn(3)], sc))
				}
				if len(ts) > 0 {
					h = append(h, "tasks "+strings.Join(ts, " "))
				}
			}
			h = append(h, "ledger")
		}
		emit(h)
	}
	c.Rule = fmt.Sprintf("(a) exhaustive on one key: every sequence of %d transactions over the bodies {put, put-empty, delete, read, put-then-fail, delete-then-read, put-then-read, delete-then-panic} plus a final reader, in one batch or task list, the key absent or committed beforehand (%d cases); (b) %d histories of 1..3 batches / task lists of 0..%d transactions by 3 senders who are also each other's recipients; bodies are scripts of 0..6 put/put-empty/delete/read/event/balance-move steps over 3 keys, one third ending in a failure or a panic after having written; batch id lists contain duplicates and unknown ids in shuffled order; observed per transaction: error class or sorted writes, events, accounting records and result, and the ledger (script keys, balances, pending records) after each batch. non-trivial = contains a batch or task list; distinct = sha256", depth, nExh, nHist, maxTx)
	c.Extra = map[string]any{"histories": nHist, "exhaustive_single_key": nExh}
}

func genC05(c *Cfg, emit func([]string)) {
	nHist := 300
	if c.Thorough() {
		nHist = 12000
	}
	users := []string{"u0", "u1", "u2"}
	for i := 0; i < nHist; i++ {
		h := []string{"reset", "fund u0 100", "fund u1 100"}
		var known, executed []string
		n := 0
		steps := 1 + c.Rng.Intn(12)
		for s := 0; s < steps; s++ {
			if c.Rng.Intn(2) == 0 || len(known) == 0 {
				n++
				sym := fmt.Sprintf("t%d", n)
				if c.Rng.Intn(8) == 0 {
					sym = fmt.Sprintf("U%d", n) // submitted under an upper-case hex transaction id
				} else if c.Rng.Intn(10) == 0 {
					sym = fmt.Sprintf("O%d", n) // submitted under an id with an odd number of hex digits
				}
				method := []string{"script", "script", "script", "scriptNS", "nosuch"}[c.Rng.Intn(5)]
				h = append(h, fmt.Sprintf("submit %s %s %s %s", sym, method, users[c.Rng.Intn(3)], randScript(c, users)), "ledger")
				if method != "nosuch" {
					known = append(known, sym)
				}
			} else {
				k := 1 + c.Rng.Intn(4)
				var syms []string
				for j := 0; j < k; j++ {
					switch c.Rng.Intn(6) {
					case 0:
						syms = append(syms, []string{"zz", "z0", "z1", "z3", "zL"}[c.Rng.Intn(5)])
					case 1:
						if len(executed) > 0 {
							syms = append(syms, executed[c.Rng.Intn(len(executed))]) // already executed (ok or failed)
						}
					case 2:
						if len(syms) > 0 {
							syms = append(syms, syms[len(syms)-1], syms[len(syms)-1]) // duplicate x3
						}
					default:
						syms = append(syms, known[c.Rng.Intn(len(known))])
					}
				}
				if len(syms) == 0 {
					continue
				}
				// now and then the configuration changes between submission and batch: the methods of
				// pending requests get disabled (and enabled again later)
				if c.Rng.Intn(5) == 0 {
					h = append(h, "disable "+[]string{"TxScript", "TxScript+TxScriptNS", "TxTransfer", "-"}[c.Rng.Intn(4)])
				}
				h = append(h, "batch "+strings.Join(syms, " "), "ledger")
				executed = append(executed, syms...)
			}
		}
		emit(h)
	}
	c.Rule = fmt.Sprintf("%d histories of 1..12 steps interleaving submissions (valid with/without sender, unknown function, some under upper-case hex transaction ids or ids with an odd number of hex digits; methods of pending requests disabled and re-enabled by re-initialisation between submission and batch) and batches whose id lists are multisets of fresh, already executed (succeeded or failed), duplicated (x2/x3) and unknown ids (also empty, 1-, 3- and 300-byte ids); observed: ledger diff of each submission (number of changed keys), per-id reply, and the ledger incl. presence of every pending record after each step. non-trivial = contains a batch; distinct = sha256", nHist)
	c.Extra = map[string]any{"histories": nHist}
}
