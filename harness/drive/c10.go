package drive

import (
	"encoding/json"
	"fmt"
	"github.com/golang/protobuf/proto" //nolint:staticcheck
	"google.golang.org/protobuf/encoding/protojson"
	"math/big"
	"sort"
	"strings"

	"verifharness/simpeer"
	"verifharness/world"

	fpb "github.com/anoideaopen/foundation/proto"
)

func init() { Registry["C10"] = &Prop{Gen: genC10, New: func() Executor { return &c10ex{} }} }

type c10ex struct {
	base
	a, b *world.Chan
	fwd  bool
	mode string // f: forward plain, g: forward grouped (VT_G1), b: backward plain, h: backward grouped (CC_G1)
	ids  map[string]bool
	two  bool              // grouped token named with two underscores
	sent map[string]string // "to:"/"cancel:" + transfer id -> tx id of the robot's last such request
}

func (e *c10ex) u(name string) *simpeer.User {
	for _, x := range theWorld().Users {
		if x.Name == name {
			return x
		}
	}
	return nil
}

func (e *c10ex) token() string {
	switch e.mode {
	case "g":
		if e.two {
			return "VT_X_G1" // the group is what follows the last underscore
		}
		return "VT_G1"
	case "h":
		if e.two {
			return "CC_X_G1"
		}
		return "CC_G1"
	}
	if e.fwd {
		return "VT"
	}
	return "CC"
}

// group balance G1 of an address (industrial balance), "0" when absent
func groupBal(c *world.Chan, addr string) string {
	p, _ := c.Query("industrialBalanceOf", addr)
	var m map[string]string
	if err := json.Unmarshal([]byte(p), &m); err != nil || m["G1"] == "" {
		return "0"
	}
	return m["G1"]
}

func rawKey(c *world.Chan, objectType string, attrs ...string) string {
	st := &simpeer.Stub{L: c.L}
	k, _ := st.CreateCompositeKey(objectType, attrs)
	return k
}

func (e *c10ex) Exec(op string) string {
	w := strings.Fields(op)
	if len(w) == 0 {
		return "bad-op"
	}
	wd := theWorld()
	if w[0] == "reset" {
		if len(w) != 2 && !(len(w) == 3 && w[2] == "2u" && (w[1] == "g" || w[1] == "h")) {
			return "bad-op"
		}
		e.mode = w[1]
		e.two = len(w) == 3
		e.fwd = w[1] == "f" || w[1] == "g"
		e.a = wd.AddChannel("VT", world.Options{})
		e.b = wd.AddChannel("CC", world.Options{})
		e.b.L.State[rawKey(e.b, "2d", "VT")] = big.NewInt(1000000).Bytes()
		e.ids = map[string]bool{}
		e.sent = map[string]string{}
		return "ok"
	}
	if e.a == nil {
		return "bad-op"
	}
	bal := func(c *world.Chan, fn string, args ...string) string {
		p, _ := c.Query(fn, args...)
		return strings.Trim(p, "\"")
	}
	switch w[0] {
	case "fund":
		if len(w) != 3 || e.u(w[1]) == nil {
			return "bad-op"
		}
		if e.mode == "g" {
			return okErr(e.a.Do(wd.Issuer, "emitIndustrial", e.u(w[1]).Addr, w[2], "G1"))
		}
		if e.fwd {
			return okErr(e.a.Do(wd.Issuer, "emit", e.u(w[1]).Addr, w[2]))
		}
		return okErr(e.a.Do(wd.Issuer, "emitAllowed", e.u(w[1]).Addr, e.token(), w[2]))
	case "fromadm":
		if len(w) != 4 || e.u(w[2]) == nil {
			return "bad-op"
		}
		e.ids[dec(w[1])] = true
		e.nontrivial = true
		return okErr(e.a.Do(wd.AdminU, "channelTransferByAdmin", dec(w[1]), "CC", e.u(w[2]).Addr, e.token(), w[3]))
	case "from", "fromlc":
		if len(w) != 4 || e.u(w[2]) == nil {
			return "bad-op"
		}
		e.ids[dec(w[1])] = true
		e.nontrivial = true
		dst := "CC"
		if w[0] == "fromlc" {
			dst = "cc" // the customer's own spelling of the destination channel
		}
		return okErr(e.a.Do(e.u(w[2]), "channelTransferByCustomer", dec(w[1]), dst, e.token(), w[3]))
	case "to":
		if len(w) != 4 || e.u(w[2]) == nil {
			return "bad-op"
		}
		amt, ok := new(big.Int).SetString(w[3], 10)
		if !ok || amt.Sign() < 0 {
			return "err"
		}
		e.ids[dec(w[1])] = true
		data, _ := json.Marshal(&fpb.CCTransfer{Id: dec(w[1]), From: "VT", To: "CC", Token: e.token(), User: e.u(w[2]).AddrRaw, Amount: amt.Bytes(), ForwardDirection: e.fwd})
		return okErr(e.robotBatched(e.b, "to:"+w[1], "createCCTransferTo", string(data)))
	case "commit":
		return okErr(e.a.RobotNB("commitCCTransferFrom", w[1]))
	case "delto":
		return okErr(e.b.RobotNB("deleteCCTransferTo", w[1]))
	case "delfrom":
		return okErr(e.a.RobotNB("deleteCCTransferFrom", w[1]))
	case "cancel":
		return okErr(e.robotBatched(e.a, "cancel:"+w[1], "cancelCCTransferFrom", w[1]))
	case "reto", "recancel":
		// the robot, restarted after its batch was committed, sends the same batch again: the request
		// it names was consumed by the first execution
		if len(w) != 2 {
			return "bad-op"
		}
		c, k := e.b, "to:"+w[1]
		if w[0] == "recancel" {
			c, k = e.a, "cancel:"+w[1]
		}
		id, ok := e.sent[k]
		if !ok {
			return "err"
		}
		b := c.ExecIDs(id)
		if b.Resp == nil || len(b.Resp.TxResponses) != 1 || b.Resp.TxResponses[0].GetError() != nil {
			return "err"
		}
		return "ok"
	case "rebin":
		// the records of this id as an early version of the library stored them: binary protobuf
		// instead of JSON (same content); every later step must treat them alike
		if len(w) != 2 {
			return "bad-op"
		}
		for _, c := range []*world.Chan{e.a, e.b} {
			for _, k := range []string{"/transfer/from/" + dec(w[1]), "/transfer/to/" + dec(w[1])} {
				v := c.L.State[k]
				if len(v) == 0 || v[0] != '{' {
					continue
				}
				tr := &fpb.CCTransfer{}
				if err := protojson.Unmarshal(v, tr); err != nil {
					continue
				}
				if bin, err := proto.Marshal(tr); err == nil {
					c.L.State[k] = bin
				}
			}
		}
		return "ok"
	case "tobad":
		// the robot's create-to with content the chaincode must refuse whatever the state: both ends the
		// same channel, neither end this channel, a token of neither channel, a direction flag that
		// contradicts the token
		if len(w) != 5 || e.u(w[2]) == nil {
			return "bad-op"
		}
		amt, ok := new(big.Int).SetString(w[3], 10)
		if !ok || amt.Sign() < 0 {
			return "err"
		}
		tr := &fpb.CCTransfer{Id: dec(w[1]), From: "VT", To: "CC", Token: e.token(), User: e.u(w[2]).AddrRaw, Amount: amt.Bytes(), ForwardDirection: e.fwd}
		switch w[4] {
		case "samech":
			tr.From = "CC"
		case "foreign":
			tr.From, tr.To = "XX", "YY"
		case "badtoken":
			tr.Token = "ZZ"
		case "wrongdir":
			tr.ForwardDirection = !tr.ForwardDirection
		default:
			return "bad-op"
		}
		data, _ := json.Marshal(tr)
		return okErr(e.b.RobotBatched("createCCTransferTo", string(data)))
	case "frombad":
		// initiations the chaincode must refuse: to its own channel, with a token of neither channel,
		// by the admin for himself, by somebody who is not the admin
		if len(w) != 5 || e.u(w[2]) == nil {
			return "bad-op"
		}
		switch w[4] {
		case "ownch":
			return okErr(e.a.Do(e.u(w[2]), "channelTransferByCustomer", dec(w[1]), "VT", e.token(), w[3]))
		case "badtoken":
			return okErr(e.a.Do(e.u(w[2]), "channelTransferByCustomer", dec(w[1]), "CC", "ZZ", w[3]))
		case "notadmin":
			return okErr(e.a.Do(e.u(w[2]), "channelTransferByAdmin", dec(w[1]), "CC", e.u(w[2]).Addr, e.token(), w[3]))
		case "adminself":
			return okErr(e.a.Do(wd.AdminU, "channelTransferByAdmin", dec(w[1]), "CC", wd.AdminU.Addr, e.token(), w[3]))
		}
		return "bad-op"
	case "xto", "xcommit", "xdelto", "xdelfrom", "xcancel":
		// the robot's steps attempted by an ordinary client certificate; whatever gets recorded is
		// then executed by the robot's next batch, as the robot executes every pending request it finds
		stranger := func(c *world.Chan, batched bool, fn string, args ...string) string {
			id := simpeer.NewTxID()
			r := c.Invoke(wd.Client.Creator, id, fn, args...)
			if !r.OK() {
				return "err"
			}
			if !batched {
				return "ok"
			}
			b := c.ExecIDs(id)
			if b.Resp == nil || len(b.Resp.TxResponses) != 1 || b.Resp.TxResponses[0].GetError() != nil {
				return "err"
			}
			return "ok"
		}
		switch w[0] {
		case "xto":
			if len(w) != 4 || e.u(w[2]) == nil {
				return "bad-op"
			}
			amt, ok := new(big.Int).SetString(w[3], 10)
			if !ok || amt.Sign() < 0 {
				return "err"
			}
			data, _ := json.Marshal(&fpb.CCTransfer{Id: dec(w[1]), From: "VT", To: "CC", Token: e.token(), User: e.u(w[2]).AddrRaw, Amount: amt.Bytes(), ForwardDirection: e.fwd})
			return stranger(e.b, true, "createCCTransferTo", string(data))
		case "xcommit":
			return stranger(e.a, false, "commitCCTransferFrom", w[1])
		case "xdelto":
			return stranger(e.b, false, "deleteCCTransferTo", w[1])
		case "xdelfrom":
			return stranger(e.a, false, "deleteCCTransferFrom", w[1])
		}
		return stranger(e.a, true, "cancelCCTransferFrom", w[1])
	case "dump":
		var as, bs []string
		stray := new(big.Int)
		for _, n := range []string{"u0", "u1"} {
			addr := e.u(n).Addr
			switch e.mode {
			case "f":
				as = append(as, n+"="+bal(e.a, "balanceOf", addr))
				bs = append(bs, n+"="+bal(e.b, "allowedBalanceOf", addr, "VT"))
			case "g":
				as = append(as, n+"="+groupBal(e.a, addr))
				bs = append(bs, n+"="+bal(e.b, "allowedBalanceOf", addr, e.token()))
				stray.Add(stray, bigOf(bal(e.a, "balanceOf", addr)))
				stray.Add(stray, bigOf(bal(e.b, "allowedBalanceOf", addr, "VT")))
			case "b":
				as = append(as, n+"="+bal(e.a, "allowedBalanceOf", addr, "CC"))
				bs = append(bs, n+"="+bal(e.b, "balanceOf", addr))
			default:
				as = append(as, n+"="+bal(e.a, "allowedBalanceOf", addr, e.token()))
				bs = append(bs, n+"="+groupBal(e.b, addr))
				stray.Add(stray, bigOf(bal(e.b, "balanceOf", addr)))
				stray.Add(stray, bigOf(bal(e.a, "allowedBalanceOf", addr, "CC")))
			}
		}
		gA := new(big.Int).SetBytes(e.a.L.State[rawKey(e.a, "2d", "CC")]).String()
		gB := new(big.Int).SetBytes(e.b.L.State[rawKey(e.b, "2d", "VT")]).String()
		var ids []string
		for id := range e.ids {
			ids = append(ids, id)
		}
		sort.Strings(ids)
		var fr, to []string
		for _, id := range ids {
			if id == "" {
				continue
			}
			if p, errs := e.a.Query("channelTransferFrom", id); errs == "" {
				var r struct {
					IsCommit bool `json:"isCommit"`
				}
				_ = json.Unmarshal([]byte(p), &r)
				st := "o"
				if r.IsCommit {
					st = "c"
				}
				fr = append(fr, id+":"+st)
			}
			if _, errs := e.b.Query("channelTransferTo", id); errs == "" {
				to = append(to, id)
			}
		}
		return fmt.Sprintf("A:%s;B:%s;gA=%s;gB=%s;from=%s;to=%s;x=%s", strings.Join(as, ","), strings.Join(bs, ","), gA, gB, orDash(fr, ","), orDash(to, ","), stray.String())
	}
	return "bad-op"
}

func bigOf(s string) *big.Int {
	n, ok := new(big.Int).SetString(s, 10)
	if !ok {
		return new(big.Int)
	}
	return n
}

// robotBatched: like Chan.RobotBatched, remembering the request's tx id under k
func (e *c10ex) robotBatched(c *world.Chan, k, fn string, args ...string) string {
	id := simpeer.NewTxID()
	r := c.Invoke(theWorld().Robot.Creator, id, fn, args...)
	if !r.OK() {
		return "submit: " + r.Resp.Message
	}
	e.sent[k] = id
	b := c.ExecIDs(id)
	if b.Resp == nil {
		return "batch: " + b.Res.Resp.Message
	}
	if er := b.Resp.TxResponses[0].GetError(); er != nil {
		return er.GetError()
	}
	return ""
}

func genC10(c *Cfg, emit func([]string)) {
	users := []string{"u0", "u1"}
	// (a) state-space walk: every sequence of steps up to a depth over one id (exhaustive), all
	// attempted in and out of turn
	depth := 4
	if c.Thorough() {
		depth = 5 // (depth 6 over the 8-step alphabet is 10^6 histories on two chaincode instances: hours)
	}
	alpha := []string{"from t1 u0 40", "fromlc t1 u0 40", "fromadm t1 u0 40", "to t1 u0 40", "commit t1", "delto t1", "delfrom t1", "cancel t1"}
	for _, dir := range []string{"f", "b", "g", "h"} {
		var rec func(prefix []string, d int)
		rec = func(prefix []string, d int) {
			if d == depth {
				h := []string{"reset " + dir, "fund u0 100"}
				for _, p := range prefix {
					h = append(h, p, "dump")
				}
				emit(h)
				return
			}
			for _, a := range alpha {
				rec(append(prefix[:len(prefix):len(prefix)], a), d+1)
			}
		}
		if c.Thorough() || dir == "f" {
			rec(nil, 0)
		} else {
			// backward: sampled
			for i := 0; i < 800; i++ {
				var p []string
				for j := 0; j < depth; j++ {
					p = append(p, alpha[c.Rng.Intn(len(alpha))])
				}
				h := []string{"reset " + dir, "fund u0 100"}
				for _, x := range p {
					h = append(h, x, "dump")
				}
				emit(h)
			}
		}
	}
	// (a') the robot's steps attempted by an ordinary client at every stage of a protocol run
	stages := [][]string{{}, {"from t1 u0 40"}, {"from t1 u0 40", "to t1 u0 40"}, {"from t1 u0 40", "to t1 u0 40", "commit t1"},
		{"from t1 u0 40", "to t1 u0 40", "commit t1", "delto t1"}}
	for _, dir := range []string{"f", "b", "g", "h"} {
		for _, st := range stages {
			for _, x := range []string{"xto t1 u0 40", "xcommit t1", "xdelto t1", "xdelfrom t1", "xcancel t1"} {
				h := []string{"reset " + dir, "fund u0 100"}
				for _, p := range st {
					h = append(h, p, "dump")
				}
				h = append(h, x, "dump", "to t1 u0 40", "dump", "commit t1", "dump", "cancel t1", "dump")
				emit(h)
			}
		}
	}
	// (a'''') the robot re-sending an executed batch (create-to, cancel) at every later stage - also
	// after the record that would refuse the repetition is gone, and after the id was legally reused
	for _, dir := range []string{"f", "b", "g", "h"} {
		full := []string{"from t1 u0 40", "to t1 u0 40", "commit t1", "delto t1", "delfrom t1"}
		for k := 2; k <= len(full); k++ {
			h := []string{"reset " + dir, "fund u0 100"}
			for _, p := range full[:k] {
				h = append(h, p, "dump")
			}
			h = append(h, "reto t1", "dump", "reto t1", "dump")
			for _, p := range full[k:] {
				h = append(h, p, "dump", "reto t1", "dump")
			}
			h = append(h, "from t1 u0 40", "dump", "reto t1", "dump")
			emit(h)
		}
		for _, tail := range [][]string{{}, {"from t1 u0 40"}, {"from t1 u0 40", "to t1 u0 40"}, {"from t1 u0 40", "to t1 u0 40", "commit t1"},
			{"from t1 u0 40", "to t1 u0 40", "commit t1", "delto t1", "delfrom t1"}, {"from t1 u0 30", "cancel t1"}} {
			h := []string{"reset " + dir, "fund u0 100", "from t1 u0 40", "dump", "cancel t1", "dump", "recancel t1", "dump"}
			for _, p := range tail {
				h = append(h, p, "dump", "recancel t1", "dump")
			}
			emit(h)
		}
	}
	// (a''') the records re-encoded in the old binary form at every stage, then every step again
	for _, dir := range []string{"f", "b", "g", "h"} {
		for _, st := range stages[1:] {
			for _, next := range alpha {
				h := []string{"reset " + dir, "fund u0 100"}
				for _, p := range st {
					h = append(h, p, "dump")
				}
				h = append(h, "rebin t1", "dump", next, "dump", "to t1 u0 40", "dump", "commit t1", "dump", "delto t1", "delfrom t1", "dump")
				emit(h)
			}
		}
	}
	// (a'') malformed initiations and create-to contents at every stage
	for _, dir := range []string{"f", "b", "g", "h"} {
		for _, st := range stages[:3] {
			h := []string{"reset " + dir, "fund u0 100"}
			for _, p := range st {
				h = append(h, p, "dump")
			}
			for _, v := range []string{"samech", "foreign", "badtoken", "wrongdir"} {
				h = append(h, "tobad t2 u0 40 "+v, "tobad t1 u0 40 "+v, "dump")
			}
			for _, v := range []string{"ownch", "badtoken", "notadmin", "adminself"} {
				h = append(h, "frombad t3 u0 40 "+v, "dump")
			}
			h = append(h, "to t1 u0 40", "dump")
			emit(h)
		}
	}
	// (b) two ids, two users, protocol runs interleaved with out-of-turn and repeated attempts,
	// wrong content in createTo, duplicate ids, robot stopping anywhere (prefixes)
	nRand := 600
	if c.Thorough() {
		nRand = 20000
	}
	// grouped tokens whose name has two underscores (the group is the last part): full runs, cancels, returns
	for _, dir := range []string{"g 2u", "h 2u"} {
		emit([]string{"reset " + dir, "fund u0 100", "from t1 u0 40", "dump", "cancel t1", "dump", "from t2 u0 40", "dump", "to t2 u0 40", "dump", "commit t2", "delto t2", "delfrom t2", "dump"})
		emit([]string{"reset " + dir, "fund u0 100", "fund u1 50", "from t1 u0 100", "to t1 u0 100", "dump", "from t2 u1 50", "cancel t2", "dump", "commit t1", "dump"})
	}
	for i := 0; i < nRand; i++ {
		dir := []string{"f", "b", "g", "h", "g 2u", "h 2u"}[c.Rng.Intn(6)]
		h := []string{"reset " + dir, "fund u0 100", "fund u1 50"}
		type tr struct {
			id, user string
			amt      int
		}
		var trs []tr
		n := 4 + c.Rng.Intn(12)
		for j := 0; j < n; j++ {
			if len(trs) == 0 || c.Rng.Intn(4) == 0 {
				id := fmt.Sprintf("t%d", 1+c.Rng.Intn(3))
				u := users[c.Rng.Intn(2)]
				amt := []int{0, 1, 40, 50, 100, 101}[c.Rng.Intn(6)]
				h = append(h, fmt.Sprintf("%s %s %s %d", []string{"from", "from", "fromadm", "fromlc"}[c.Rng.Intn(4)], id, u, amt))
				trs = append(trs, tr{id, u, amt})
			} else {
				t := trs[c.Rng.Intn(len(trs))]
				switch c.Rng.Intn(9) {
				case 7:
					h = append(h, "reto "+t.id)
				case 8:
					h = append(h, "recancel "+t.id)
				case 0, 1:
					u, a := t.user, t.amt
					if c.Rng.Intn(5) == 0 {
						u = users[c.Rng.Intn(2)] // robot off protocol: other user
					}
					if c.Rng.Intn(5) == 0 {
						a = a + 1
					}
					h = append(h, fmt.Sprintf("to %s %s %d", t.id, u, a))
				case 2:
					h = append(h, "commit "+t.id)
				case 3:
					h = append(h, "delto "+t.id)
				case 4:
					h = append(h, "delfrom "+t.id)
				case 5:
					h = append(h, "cancel "+t.id)
				case 6:
					h = append(h, "commit nosuch")
				}
			}
			h = append(h, "dump")
		}
		emit(h)
	}
	c.Rule = fmt.Sprintf("(a) every sequence of %d steps over {initiate, create-to, commit, delete-to, delete-from, cancel} on one id (forward direction exhaustively, backward %s): every step attempted in and out of turn and repeated, the robot stopping after any prefix; (a''') the records of the id re-encoded in the old binary form at every stage followed by every step; (a'''') the robot re-sending an executed create-to / cancel batch at every later stage, also after the records are gone and after the id was reused; (a') every robot step attempted by an ordinary client certificate at every stage of a run, in all 4 token shapes; grouped tokens also with two underscores in the name; (b) %d random histories over 3 ids x 2 users x both directions with duplicate ids, amounts {0,1,40,50,100,101}, off-protocol create-to content; two real chaincode instances on two simulated peers; after every step token/allowed balances of both users on both channels, both given counters and the records visible through channelTransferFrom/To. non-trivial = contains an initiation; distinct = sha256", depth, map[bool]string{true: "exhaustively", false: "sampled"}[c.Thorough()], nRand)
	c.Extra = map[string]any{"walk_depth": depth, "random": nRand}
}
