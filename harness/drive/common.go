// Package drive holds the per-property generators and executors (real code, in process).
//
// A property is driven by histories: lists of op lines in the line protocol. The generator only
// produces op lines; the executor interprets them against the real code and returns what it
// observed. So any history (generated, from the corpus, or a shrunk replay file) can be re-run.
package drive

import (
	"math/rand"
	"os"
	"sort"
	"strings"
	"time"

	"verifharness/trace"
)

// Cfg is what every generator receives.
type Cfg struct {
	Tier string // quick | thorough
	Seed int64
	Rng  *rand.Rand
	// filled by the generator:
	Rule       string
	Exhaustive bool
	Extra      map[string]any
}

func (c *Cfg) Thorough() bool { return c.Tier == "thorough" }

// Executor interprets op lines of one history against the real code.
type Executor interface {
	// Exec runs one op and returns the canonical observed output.
	Exec(op string) string
	// NonTrivial reports whether the history so far counts by the property's rule.
	NonTrivial() bool
	// Findings returns harness-side oracle findings (signature, detail) raised by this history.
	Findings() [][2]string
}

// Prop is one property's driver.
type Prop struct {
	Gen func(c *Cfg, emit func(history []string))
	New func() Executor
}

// Registry of property drivers.
var Registry = map[string]*Prop{}

// RunHistory executes one history and records it in the trace.
func RunHistory(p *Prop, t *trace.T, history []string) {
	if Hung {
		return
	}
	ex := p.New()
	for _, op := range history {
		out, ok := ExecTimed(ex, op)
		t.Op(op, out)
		if !ok {
			t.Violation("no_reply", "the request never produced a reply (no answer within "+OpTimeout.String()+"): "+op)
			t.End(true)
			return
		}
	}
	for _, f := range ex.Findings() {
		t.Violation(f[0], f[1])
	}
	t.End(ex.NonTrivial())
}

// OpTimeout bounds one op: every request must end with a reply. An op that does not return is
// recorded as "hang"; the code under test may then hold locks for ever, so nothing further is run
// in this process (Hung).
var (
	OpTimeout = 300 * time.Second
	Hung      bool
)

func init() {
	if v, err := time.ParseDuration(os.Getenv("VERIF_OP_TIMEOUT")); err == nil && v > 0 {
		OpTimeout = v
	}
	stepLimit = OpTimeout / 2
}

// ExecTimed runs one op under OpTimeout.
func ExecTimed(ex Executor, op string) (string, bool) {
	if Hung {
		return "hang", false
	}
	ch := make(chan string, 1)
	go func() { ch <- ex.Exec(op) }()
	if out, ok := waitTicks(ch, OpTimeout); ok {
		return out, true
	}
	Hung = true
	return "hang", false
}

// waitTicks waits for a value on ch for at most d, counted in one-second ticks of this process: a
// machine that is paused or starved for a minute costs one tick, not sixty, so it is not mistaken
// for a request that never returns.
func waitTicks[T any](ch <-chan T, d time.Duration) (T, bool) {
	var zero T
	for left := d; left > 0; left -= time.Second {
		step := time.Second
		if left < step {
			step = left
		}
		select {
		case v := <-ch:
			return v, true
		case <-time.After(step):
		}
	}
	return zero, false
}

type base struct {
	nontrivial bool
	findings   [][2]string
}

func (b *base) NonTrivial() bool        { return b.nontrivial }
func (b *base) Findings() [][2]string   { return b.findings }
func (b *base) flag(sig, detail string) { b.findings = append(b.findings, [2]string{sig, detail}) }

func dumpMap(m map[string][]byte) string {
	ks := make([]string, 0, len(m))
	for k := range m {
		ks = append(ks, k)
	}
	sort.Strings(ks)
	parts := make([]string, 0, len(ks))
	for _, k := range ks {
		if len(m[k]) == 0 {
			continue
		}
		parts = append(parts, k+"="+string(m[k]))
	}
	return strings.Join(parts, ",")
}

func dec(s string) string {
	if s == "-" {
		return ""
	}
	return s
}

// otherClass renders an error text the harness cannot classify as one token `other(...)`: letters,
// digits and underscores only (no separators of the line protocol), at most 60 characters. The
// comparison treats such a token as "some error" (see same_observation in ./check and looseEq in
// Driver/Common.lean): the properties speak of rejections and effects, not of message wording.
func otherClass(msg string) string {
	if len(msg) > 60 {
		msg = msg[:60]
	}
	b := []byte(msg)
	for i, ch := range b {
		if !(ch >= 'a' && ch <= 'z' || ch >= 'A' && ch <= 'Z' || ch >= '0' && ch <= '9') {
			b[i] = '_'
		}
	}
	return "other(" + string(b) + ")"
}
