package drive

import (
	"fmt"
	"strings"
)

func init() {
	Registry["C01"] = &Prop{Gen: genC01, New: func() Executor { return &authEx{} }}
	Registry["C03"] = &Prop{Gen: genC03, New: func() Executor { return &authEx{} }}
}

// symReq is a signed request in symbol space.
type symReq struct {
	route, fn string
	argc      int
	envcc     string
	envch     string
	acl       string
	args      []string
	sigs      []string // "S0=..." entries
	keys      []string // "{K0}=ed" entries
	tamper    string
}

func encArgs(a []string) string {
	if len(a) == 0 {
		return "-"
	}
	out := make([]string, len(a))
	for i, x := range a {
		if x == "" {
			out[i] = "-"
		} else {
			out[i] = x
		}
	}
	return strings.Join(out, ",")
}

func orDash(a []string, sep string) string {
	if len(a) == 0 {
		return "-"
	}
	return strings.Join(a, sep)
}

func (r symReq) line() string {
	l := fmt.Sprintf("auth %s %s %d %s %s %s %s %s %s", r.route, r.fn, r.argc, encS(r.envcc), encS(r.envch), r.acl, encArgs(r.args), orDash(r.sigs, ";"), orDash(r.keys, ";"))
	if r.tamper != "" {
		l += " " + r.tamper
	}
	return l
}

func fnFor(route, base string) string {
	if route == "nb" {
		return base + "Nb"
	}
	return base
}

var nonceCtr = uint64(1700000100000)

func freshNonce() string {
	nonceCtr += 3
	return fmt.Sprint(nonceCtr)
}

// sigStates of one signature slot
var sigStates = []string{"valid", "blank", "junk", "nonb58", "foreign", "othermsg"}

func genC01(c *Cfg, emit func([]string)) {
	kts := []string{"ed", "secp", "gost"}
	routes := []string{"batch", "task", "nb"}
	count := 0
	var batch []string
	flush := func() {
		if len(batch) > 0 {
			emit(append([]string{"reset"}, batch...))
			batch = nil
		}
	}
	add := func(r symReq) {
		batch = append(batch, r.line())
		count++
		if len(batch) >= 25 {
			flush()
		}
	}
	build := func(route, kt string, nsign int, states []string, acl string, dupKeys bool) symReq {
		fn := fnFor(route, "whoAmI")
		nonce := freshNonce()
		r := symReq{route: route, fn: fn, argc: 1, envcc: "vt", envch: "vt", acl: acl}
		keys := make([]string, nsign)
		for i := range keys {
			keys[i] = fmt.Sprintf("{K%d}", i)
			if dupKeys {
				keys[i] = "{K0}"
			}
		}
		seen := map[string]bool{}
		for _, k := range keys {
			if !seen[k] {
				r.keys = append(r.keys, k+"="+kt)
				seen[k] = true
			}
		}
		r.keys = append(r.keys, "{K9}="+kt)
		covered := append([]string{"", "vt", "vt", nonce}, keys...)
		msg := fn + strings.Join(covered, "")
		r.args = append(r.args, covered...)
		for i, st := range states {
			s := fmt.Sprintf("{S%d}", i)
			switch st {
			case "valid":
				r.sigs = append(r.sigs, fmt.Sprintf("%s=v.%s.%s.%s", s, kt, keys[i], msg))
			case "blank":
				s = ""
			case "junk":
				r.sigs = append(r.sigs, s+"=j")
			case "nonb58":
				r.sigs = append(r.sigs, s+"=n")
			case "foreign":
				r.sigs = append(r.sigs, fmt.Sprintf("%s=v.%s.{K9}.%s", s, kt, msg))
			case "member":
				// a genuine signature over this very request, but made by ANOTHER member of the list
				r.sigs = append(r.sigs, fmt.Sprintf("%s=v.%s.%s.%s", s, kt, keys[(i+1)%len(keys)], msg))
			case "othermsg":
				r.sigs = append(r.sigs, fmt.Sprintf("%s=v.%s.%s.%sX", s, kt, keys[i], msg))
			}
			r.args = append(r.args, s)
		}
		return r
	}
	aclOK := func(kt string, nsign, n int) string {
		ks := make([]string, nsign)
		for i := range ks {
			ks[i] = kt
		}
		return fmt.Sprintf("ok:A%d:%s:%d:100", nsign, strings.Join(ks, "+"), n)
	}
	// one signer: every state x every ACL answer x key type x route
	for _, kt := range kts {
		for _, route := range routes {
			for _, st := range sigStates {
				acls := []string{aclOK(kt, 1, 0), aclOK(kt, 1, 2), "status", "empty", "garbled",
					"ok:A1:" + kt + ":0:110", "ok:A1:" + kt + ":0:101", "ok:A1:" + kt + ":0:011", "ok:A1:-:0:100",
					"ok:A1:" + kt + ":0:10010"} // the ACL reports a pending key-change list for the address
				other := map[string]string{"ed": "secp", "secp": "gost", "gost": "ed"}[kt]
				acls = append(acls, "ok:A1:"+other+":0:100") // ACL claims another algorithm for this key
				for _, acl := range acls {
					add(build(route, kt, 1, []string{st}, acl, false))
				}
			}
		}
	}
	// two signers: every pair of states, thresholds 0(default=all),1,2
	for _, kt := range kts {
		for _, route := range routes {
			for _, s0 := range sigStates {
				for _, s1 := range sigStates {
					if !c.Thorough() && c.Rng.Intn(3) != 0 && s0 != "valid" && s1 != "valid" {
						continue
					}
					for _, n := range []int{0, 1, 2} {
						add(build(route, kt, 2, []string{s0, s1}, aclOK(kt, 2, n), false))
					}
					// multisig whose ACL reply carries key-change lists: a refused request must still write nothing
					add(build(route, kt, 2, []string{s0, s1}, strings.Replace(aclOK(kt, 2, 0), ":100", ":10011", 1), false))
				}
			}
		}
	}
	// one member's genuine signature also placed in other members' slots: each slot counts only for
	// its own key
	for _, kt := range kts {
		for _, route := range routes {
			for _, n := range []int{0, 1, 2} {
				add(build(route, kt, 2, []string{"valid", "member"}, aclOK(kt, 2, n), false))
				add(build(route, kt, 2, []string{"member", "valid"}, aclOK(kt, 2, n), false))
				add(build(route, kt, 2, []string{"member", "blank"}, aclOK(kt, 2, n), false))
			}
			for _, n := range []int{0, 2, 3} {
				add(build(route, kt, 3, []string{"valid", "member", "blank"}, aclOK(kt, 3, n), false))
				add(build(route, kt, 3, []string{"blank", "valid", "member"}, aclOK(kt, 3, n), false))
				add(build(route, kt, 3, []string{"member", "member", "member"}, aclOK(kt, 3, n), false))
			}
		}
	}
	// the ACL's is_multisig flag disagrees with the key list (the bundled mock ACL never sets it):
	// the required number of signatures must not depend on it
	for _, kt := range kts {
		for _, route := range routes {
			for _, st := range [][]string{{"valid", "blank"}, {"blank", "valid"}, {"valid", "valid"}, {"valid", "junk"}} {
				for _, n := range []int{0, 1, 2} {
					add(build(route, kt, 2, st, strings.Replace(aclOK(kt, 2, n), ":100", ":100001", 1), false))
				}
			}
			add(build(route, kt, 3, []string{"valid", "blank", "blank"}, strings.Replace(aclOK(kt, 3, 2), ":100", ":100001", 1), false))
			add(build(route, kt, 3, []string{"valid", "valid", "blank"}, strings.Replace(aclOK(kt, 3, 2), ":100", ":100001", 1), false))
			add(build(route, kt, 1, []string{"valid"}, strings.Replace(aclOK(kt, 1, 2), ":100", ":100002", 1), false))
			add(build(route, kt, 1, []string{"blank"}, strings.Replace(aclOK(kt, 1, 2), ":100", ":100002", 1), false))
		}
	}
	// a signature that was genuinely made, and accepted, for an earlier request of the same signer is
	// presented again with a different request (other nonce): it is a signature over another message
	for _, kt := range kts {
		for _, route := range routes {
			for _, route2 := range routes {
				flush()
				first := build(route, kt, 1, []string{"valid"}, aclOK(kt, 1, 0), false)
				add(first)
				second := build(route2, kt, 1, []string{"valid"}, aclOK(kt, 1, 0), false)
				// keep the second request's bytes, but carry the first request's signature
				second.sigs = []string{"{S0}=" + strings.SplitN(first.sigs[0], "=", 2)[1]}
				add(second)
				add(build(route2, kt, 1, []string{"valid"}, aclOK(kt, 1, 0), false)) // positive control
			}
		}
	}
	flush()
	// the backward-compatible helper CheckSign, called by a method that authenticates itself: every
	// listed key must sign (ed25519), over fn ++ argument ++ keys
	legacy := func(nsign int, states []string, acl string) symReq {
		fn := fmt.Sprintf("legacy%dNb", nsign)
		r := symReq{route: "legacy", fn: fn, argc: 2, envcc: "vt", envch: "vt", acl: acl}
		keys := make([]string, nsign)
		for i := range keys {
			keys[i] = fmt.Sprintf("{K%d}", i)
			r.keys = append(r.keys, keys[i]+"=ed")
		}
		r.keys = append(r.keys, "{K9}=ed")
		arg := "a" + freshNonce()
		msg := fn + arg + strings.Join(keys, "")
		r.args = append([]string{arg}, keys...)
		for i, st := range states {
			s := fmt.Sprintf("{S%d}", i)
			switch st {
			case "valid":
				r.sigs = append(r.sigs, fmt.Sprintf("%s=v.ed.%s.%s", s, keys[i], msg))
			case "blank":
				s = ""
			case "junk":
				r.sigs = append(r.sigs, s+"=j")
			case "nonb58":
				r.sigs = append(r.sigs, s+"=n")
			case "foreign":
				r.sigs = append(r.sigs, fmt.Sprintf("%s=v.ed.{K9}.%s", s, msg))
			case "othermsg":
				r.sigs = append(r.sigs, fmt.Sprintf("%s=v.ed.%s.%sX", s, keys[i], msg))
			}
			r.args = append(r.args, s)
		}
		return r
	}
	for _, st := range sigStates {
		for _, acl := range []string{aclOK("ed", 1, 0), "status", "empty", "garbled", "ok:A1:ed:0:101", "ok:A1:ed:0:100001"} {
			add(legacy(1, []string{st}, acl))
		}
	}
	for _, s0 := range sigStates {
		for _, s1 := range sigStates {
			add(legacy(2, []string{s0, s1}, aclOK("ed", 2, 1)))
		}
	}
	flush()
	// duplicate key listed twice with two valid signatures: must count as one signer
	for _, kt := range kts {
		for _, route := range routes {
			for _, n := range []int{0, 1, 2} {
				add(build(route, kt, 2, []string{"valid", "valid"}, aclOK(kt, 2, n), true))
				add(build(route, kt, 2, []string{"valid", "blank"}, aclOK(kt, 2, n), true))
			}
		}
	}
	// three signers
	n3 := 600
	if c.Thorough() {
		n3 = 0
		for _, kt := range kts {
			for _, route := range routes {
				for _, s0 := range sigStates {
					for _, s1 := range sigStates {
						for _, s2 := range sigStates {
							for _, n := range []int{0, 1, 2, 3} {
								add(build(route, kt, 3, []string{s0, s1, s2}, aclOK(kt, 3, n), false))
							}
						}
					}
				}
			}
		}
	}
	for i := 0; i < n3; i++ {
		kt := kts[c.Rng.Intn(3)]
		st := []string{sigStates[c.Rng.Intn(3)], sigStates[c.Rng.Intn(6)], sigStates[c.Rng.Intn(2)]}
		c.Rng.Shuffle(3, func(a, b int) { st[a], st[b] = st[b], st[a] })
		add(build(routes[c.Rng.Intn(3)], kt, 3, st, aclOK(kt, 3, c.Rng.Intn(4)), false))
	}
	// structural: no signature args, odd tail, wrong chaincode / channel
	for _, route := range routes {
		r := build(route, "ed", 1, []string{"valid"}, aclOK("ed", 1, 0), false)
		r2 := r
		r2.args = r.args[:4]
		add(r2)
		r3 := r
		r3.args = r.args[:5]
		add(r3)
		r4 := r
		r4.envcc = "other"
		add(r4)
		r5 := r
		r5.envch = "otherch"
		add(r5)
	}
	flush()
	c.Exhaustive = c.Thorough()
	c.Rule = fmt.Sprintf("%d signed requests of a sender-reporting method on the three routes (batched submission+execution, task list, immediate) x three key types with real keys and signatures: 1 signer: every signature state {valid, blank, junk base58, non-base58, valid by a foreign key, valid over another message} x 10 ACL answers {ok, ok with N, error status, empty, garbled, black-listed, grey-listed, listed-without-account, key-type list missing, other algorithm claimed}; 2 signers: state pairs x thresholds {default,1,2}; duplicate keys; 3 signers %s; missing/odd signature arguments; wrong chaincode/channel. Observed: reply class, authenticated sender, ledger diff on rejection. non-trivial = every request (each is a distinct decision); distinct = sha256 of op+output", count, map[bool]string{true: "exhaustively x thresholds 0..3", false: "sampled"}[c.Thorough()])
	c.Extra = map[string]any{"requests": count}
}

func genC03(c *Cfg, emit func([]string)) {
	routes := []string{"batch", "task", "nb"}
	kts := []string{"ed"}
	if c.Thorough() {
		kts = []string{"ed", "secp", "gost"}
	}
	count := 0
	var batch []string
	flush := func() {
		if len(batch) > 0 {
			emit(append([]string{"reset"}, batch...))
			batch = nil
		}
	}
	add := func(r symReq) {
		batch = append(batch, r.line())
		count++
		if len(batch) >= 25 {
			flush()
		}
	}
	type base struct {
		r      symReq
		msg    string
		nsign  int
		fields int // number of covered fields before the keys: reqid, cc, ch, a, b, nonce
	}
	mk := func(route, kt string, nsign int, a, b string) base {
		fn := fnFor(route, "echo")
		nonce := freshNonce()
		r := symReq{route: route, fn: fn, argc: 3, envcc: "vt", envch: "vt"}
		keys := make([]string, nsign)
		ks := make([]string, nsign)
		for i := range keys {
			keys[i] = fmt.Sprintf("{K%d}", i)
			r.keys = append(r.keys, keys[i]+"="+kt)
			ks[i] = kt
		}
		r.keys = append(r.keys, "{K9}="+kt)
		r.acl = fmt.Sprintf("ok:A%d:%s:0:100", nsign, strings.Join(ks, "+"))
		covered := append([]string{"rq", "vt", "vt", a, b, nonce}, keys...)
		msg := fn + strings.Join(covered, "")
		r.args = append(r.args, covered...)
		for i := range keys {
			s := fmt.Sprintf("{S%d}", i)
			r.sigs = append(r.sigs, fmt.Sprintf("%s=v.%s.%s.%s", s, kt, keys[i], msg))
			r.args = append(r.args, s)
		}
		return base{r, msg, nsign, 6}
	}
	clone := func(r symReq, op string) symReq {
		n := r
		n.args = append([]string(nil), r.args...)
		n.tamper = op
		return n
	}
	same := func(a, b []string) bool { return strings.Join(a, "\x00") == strings.Join(b, "\x00") }
	for _, kt := range kts {
		for _, route := range routes {
			for _, nsign := range []int{1, 2} {
				for _, ab := range [][2]string{{"100", "7ref"}, {"abc", "de"}, {"x", "y"}} {
					b := mk(route, kt, nsign, ab[0], ab[1])
					add(clone(b.r, "none")) // the untouched request is accepted
					emitT := func(t symReq) {
						if !same(t.args, b.r.args) || t.fn != b.r.fn || t.envcc != b.r.envcc || t.envch != b.r.envch {
							add(t)
						}
					}
					b2 := mk(route, kt, nsign, ab[0], ab[1]) // fresh nonce for each family to avoid replays
					_ = b2
					for i := 0; i < b.fields+nsign; i++ {
						fresh := func() base { return mk(route, kt, nsign, ab[0], ab[1]) }
						// substitute (same length / different length), truncate, extend
						for _, opn := range []string{"substitute", "substitute-len", "truncate", "extend"} {
							x := fresh()
							t := clone(x.r, opn)
							v := t.args[i]
							if strings.HasPrefix(v, "{K") {
								if opn != "substitute" {
									continue
								}
								t.args[i] = "{K9}" // another key in the signer list
							} else {
								switch opn {
								case "substitute":
									if v == "" {
										continue
									}
									t.args[i] = strings.Repeat("z", len(v))
								case "substitute-len":
									t.args[i] = v + "zz"
									if i == 5 {
										t.args[i] = "1700000099999"
									}
								case "truncate":
									if len(v) < 2 {
										continue
									}
									t.args[i] = v[:len(v)-1]
								case "extend":
									t.args[i] = v + "0"
								}
							}
							if same(t.args, x.r.args) {
								continue
							}
							add(t)
						}
						// swap with the next covered field
						if i+1 < b.fields+nsign {
							x := fresh()
							t := clone(x.r, "swap")
							t.args[i], t.args[i+1] = t.args[i+1], t.args[i]
							if !same(t.args, x.r.args) {
								add(t)
							}
						}
						// move k bytes across the boundary to the next plain field
						if i+1 < b.fields {
							x := fresh()
							v, nx := x.r.args[i], x.r.args[i+1]
							maxk := 1
							if c.Thorough() {
								maxk = 3
							}
							for k := 1; k <= maxk; k++ {
								if len(v) >= k {
									t := clone(mk(route, kt, nsign, ab[0], ab[1]).r, "boundary-shift")
									vv, nn := t.args[i], t.args[i+1]
									t.args[i], t.args[i+1] = vv[:len(vv)-k], vv[len(vv)-k:]+nn
									if i == 1 {
										t.envcc = t.args[1]
									}
									if i == 1 || i == 2 {
										t.envcc, t.envch = t.args[1], t.args[2] // deployed under the shifted names
									}
									emitT(t)
								}
								if len(nx) >= k {
									t := clone(mk(route, kt, nsign, ab[0], ab[1]).r, "boundary-shift")
									vv, nn := t.args[i], t.args[i+1]
									t.args[i], t.args[i+1] = vv+nn[:k], nn[k:]
									if i == 1 || i == 2 || i == 0 {
										t.envcc, t.envch = t.args[1], t.args[2]
									}
									emitT(t)
								}
							}
						}
					}
					// the original is seen (and accepted) by the process first, then altered copies of it
					// carrying the very same signatures: nothing remembered from the first may help the second
					{
						x := mk(route, kt, nsign, ab[0], ab[1])
						add(clone(x.r, "none"))
						for _, i := range []int{3, 4, 5} {
							t := clone(x.r, "after-original")
							if i == 5 {
								t.args[i] = "17000000" + t.args[i][8:12] + "9"
							} else {
								t.args[i] = t.args[i] + "q"
							}
							add(t)
						}
					}
					// drop / duplicate an argument
					for _, i := range []int{0, 3, 4, 5, 6} {
						x := mk(route, kt, nsign, ab[0], ab[1])
						t := clone(x.r, "drop")
						t.args = append(t.args[:i:i], t.args[i+1:]...)
						add(t)
						y := mk(route, kt, nsign, ab[0], ab[1])
						t2 := clone(y.r, "duplicate")
						t2.args = append(t2.args[:i+1:i+1], t2.args[i:]...)
						add(t2)
					}
					// re-order the signer keys (and their signatures)
					if nsign == 2 {
						x := mk(route, kt, nsign, ab[0], ab[1])
						t := clone(x.r, "reorder-signers")
						t.args[6], t.args[7] = t.args[7], t.args[6]
						t.args[8], t.args[9] = t.args[9], t.args[8]
						add(t)
					}
					// function name
					x := mk(route, kt, nsign, ab[0], ab[1])
					if route != "nb" {
						t := clone(x.r, "function")
						t.fn = "echoB"
						add(t)
					}
					if route == "task" {
						add(clone(mk("task2", kt, nsign, ab[0], ab[1]).r, "none")) // positive control of the two-task route
					}
					// the nonce written differently but denoting the same number
					for _, z := range []string{"0", "000"} {
						y := mk(route, kt, nsign, ab[0], ab[1])
						t := clone(y.r, "nonce-leading-zeros")
						t.args[5] = z + t.args[5]
						add(t)
					}
					// re-target: same bytes sent to another chaincode / channel
					for _, env := range [][2]string{{"other", "vt"}, {"vt", "other"}, {"v", "tvt"}, {"vtv", "t"},
						{"VT", "vt"}, {"vt", "VT"}, {"Vt", "vT"}, {"vt_", "vt"}, {"vt", "vt2"}, {"ｖｔ", "vt"},
						{"", "vt"}, {"vt", ""}, {"", ""}} { // (the peer's proposal names no chaincode / no channel at all)
						y := mk(route, kt, nsign, ab[0], ab[1])
						t := clone(y.r, "retarget")
						t.envcc, t.envch = env[0], env[1]
						add(t)
						if route == "task" {
							// ... and as the second task behind somebody else's valid request for this chaincode
							y2 := mk("task2", kt, nsign, ab[0], ab[1])
							t2 := clone(y2.r, "retarget")
							t2.envcc, t2.envch = env[0], env[1]
							add(t2)
						}
					}
				}
			}
		}
	}
	flush()
	c.Rule = fmt.Sprintf("%d requests: correctly signed requests of a 2-argument sender-requiring method (3 value pairs, 1 and 2 signers, 3 routes%s) mutated by every operator at every covered field position (request id, chaincode, channel, both method arguments, nonce, each signer key): substitute same/different length, truncate, extend, swap neighbours, move 1..k bytes across each adjacent boundary (both directions; for chaincode/channel names the peer is deployed under the shifted names), drop, duplicate, re-order signers, other function of the same shape, the nonce with leading zeros, re-target to other chaincode/channel names (alone and as the second task of a list whose first task is valid) incl. pairs with equal concatenation and names differing only in letter case, a suffix or Unicode width; untouched requests as positive controls. non-trivial = every request; distinct = sha256", count, map[bool]string{true: ", 3 key types", false: ""}[c.Thorough()])
	c.Extra = map[string]any{"requests": count}
}
