package drive

import (
	"encoding/json"
	"fmt"
	"strconv"
	"strings"

	"verifharness/simpeer"
	"verifharness/world"
)

func init() { Registry["C13"] = &Prop{Gen: genC13, New: func() Executor { return &c13ex{} }} }

type c13ex struct {
	base
	c *world.Chan
}

func (e *c13ex) who(name string) *simpeer.User {
	w := theWorld()
	switch name {
	case "admin":
		return w.AdminU
	case "issuer":
		return w.Issuer
	}
	for _, u := range w.Users {
		if u.Name == name {
			return u
		}
	}
	return nil
}

func (e *c13ex) Exec(op string) string {
	w := strings.Fields(op)
	if len(w) == 0 {
		return "bad-op"
	}
	wd := theWorld()
	if w[0] == "reset" {
		e.c = wd.AddChannel("VT", world.Options{})
		return "ok"
	}
	if e.c == nil {
		return "bad-op"
	}
	switch w[0] {
	case "fund":
		if len(w) != 5 || e.who(w[2]) == nil {
			return "bad-op"
		}
		if w[1] == "t" {
			return okErr(e.c.Do(wd.Issuer, "emit", e.who(w[2]).Addr, w[4]))
		}
		return okErr(e.c.Do(wd.Issuer, "emitAllowed", e.who(w[2]).Addr, w[3], w[4]))
	case "lock", "unlock":
		if len(w) != 7 || e.who(w[2]) == nil || e.who(w[4]) == nil {
			return "bad-op"
		}
		fn := map[string]string{"lockt": "lockTokenBalance", "unlockt": "unlockTokenBalance", "locka": "lockAllowedBalance", "unlocka": "unlockAllowedBalance"}[w[0]+w[1]]
		if fn == "" {
			return "bad-op"
		}
		req, _ := json.Marshal(map[string]string{"id": strings.ReplaceAll(w[3], "~", " "), "address": e.who(w[4]).Addr, "token": w[5], "amount": w[6], "reason": "r"})
		e.nontrivial = true
		return okErr(e.c.Do(e.who(w[2]), fn, string(req)))
	case "get":
		if len(w) != 3 {
			return "bad-op"
		}
		fn := "getLockedTokenBalance"
		if w[1] == "a" {
			fn = "getLockedAllowedBalance"
		}
		p, errs := e.c.Query(fn, strings.ReplaceAll(w[2], "~", " ")) // "~" in an id stands for a blank
		if errs != "" {
			return "none"
		}
		var r struct {
			Init string `json:"init_amount"`
			Cur  string `json:"current_amount"`
		}
		if err := json.Unmarshal([]byte(p), &r); err != nil {
			return "err:" + p
		}
		norm := func(s string) string {
			if n, err := strconv.ParseInt(s, 10, 64); err == nil {
				return strconv.FormatInt(n, 10)
			}
			return s
		}
		return norm(r.Cur) + "/" + norm(r.Init)
	case "bal":
		if len(w) != 3 || e.who(w[1]) == nil {
			return "bad-op"
		}
		a := e.who(w[1]).Addr
		q := func(fn string, args ...string) string {
			p, _ := e.c.Query(fn, args...)
			return strings.Trim(p, "\"")
		}
		return fmt.Sprintf("t:%s/%s a:%s/%s", q("balanceOf", a), q("lockedBalanceOf", a), q("allowedBalanceOf", a, w[2]), q("lockedAllowedBalanceOf", a, w[2]))
	}
	return "bad-op"
}

func genC13(c *Cfg, emit func([]string)) {
	nHist, maxSteps := 300, 20
	if c.Thorough() {
		nHist, maxSteps = 10000, 40
	}
	users := []string{"u0", "u1", "u2"}
	tokens := []string{"USD", "EUR", "BA_02"} // an allowed token id with a group suffix too
	pick := func(xs ...string) string { return xs[c.Rng.Intn(len(xs))] }
	for i := 0; i < nHist; i++ {
		h := []string{"reset"}
		for _, u := range users {
			if c.Rng.Intn(4) > 0 {
				h = append(h, "fund t "+u+" VT "+pick("100", "1000", "5000", "7"))
			}
			if c.Rng.Intn(3) > 0 {
				h = append(h, "fund a "+u+" "+pick(tokens...)+" "+pick("100", "500", "3"))
				h = append(h, "fund a "+u+" "+pick(tokens...)+" "+pick("100", "500"))
			}
		}
		type lk struct {
			kind, id, user, token string
			cur                   int
		}
		var locks []lk
		n := 4 + c.Rng.Intn(maxSteps)
		for j := 0; j < n; j++ {
			kind := pick("t", "a")
			signer := "admin"
			if c.Rng.Intn(10) == 0 {
				signer = pick("issuer", "u2")
			}
			switch r := c.Rng.Intn(10); {
			case r < 3 || len(locks) == 0:
				id := fmt.Sprintf("L%d", c.Rng.Intn(14))
				if c.Rng.Intn(8) == 0 {
					// an id with a blank before or after it is another id
					id = pick("L1~", "~L1", "L2~", "L1~~")
				}
				u, tk := pick(users...), pick(tokens...)
				amt := pick("1", "5", "7", "20", "50", "50", "100", "100", "101", "1000", "1001", "0", "-1", "340282366920938463463374607431768211456", "050", "+20", "0007")
				h = append(h, fmt.Sprintf("lock %s %s %s %s %s %s", kind, signer, id, u, tk, amt))
				if a, err := strconv.Atoi(strings.TrimPrefix(amt, "+")); err == nil && a > 0 {
					locks = append(locks, lk{kind, id, u, tk, a})
				}
			default:
				l := &locks[c.Rng.Intn(len(locks))]
				var amt string
				switch c.Rng.Intn(8) {
				case 0:
					amt = strconv.Itoa(l.cur) // exactly what (probably) remains
				case 1:
					amt = strconv.Itoa(l.cur + 1)
				case 2:
					amt = strconv.Itoa(l.cur - 1)
				case 3:
					amt = pick("0", "-1")
				default:
					amt = pick("1", "2", "3", "5", "10")
				}
				if c.Rng.Intn(6) == 0 {
					// the same number spelled differently: what counts is the amount, not its text
					if v, err := strconv.Atoi(amt); err == nil && v >= 0 {
						amt = pick("0", "00", "+") + amt
					}
				}
				u := l.user
				if c.Rng.Intn(12) == 0 {
					u = pick(users...) // a request naming another address (outside the property's hypothesis; mirrored)
				}
				id := l.id
				if c.Rng.Intn(15) == 0 {
					id = "nope"
				}
				reqTok := l.token
				if c.Rng.Intn(7) == 0 {
					reqTok = pick(tokens...) // the request names another token than the lock's: the lock's token counts
				}
				h = append(h, fmt.Sprintf("unlock %s %s %s %s %s %s", l.kind, signer, id, u, reqTok, amt))
				if a, err := strconv.Atoi(strings.TrimPrefix(amt, "+")); err == nil && a > 0 && a <= l.cur && signer == "admin" && u == l.user && id == l.id {
					l.cur -= a
				}
				h = append(h, "get "+l.kind+" "+l.id)
			}
			if c.Rng.Intn(2) == 0 {
				h = append(h, "bal "+pick(users...)+" "+pick(tokens...))
			}
		}
		for _, u := range users {
			for _, tk := range tokens {
				h = append(h, "bal "+u+" "+tk)
			}
		}
		for k := 0; k < 14; k++ {
			h = append(h, fmt.Sprintf("get t L%d", k), fmt.Sprintf("get a L%d", k))
		}
		for _, id := range []string{"L1~", "~L1", "L2~", "L1~~"} {
			h = append(h, "get t "+id, "get a "+id)
		}
		emit(h)
	}
	c.Rule = fmt.Sprintf("%d random histories of 4..%d lock / partial unlock / full unlock / over-unlock / duplicate-id / unknown-id / ids that differ by a blank before or after / zero and negative amount requests by admin and non-admin signers over 3 addresses x 3 tokens (one with a group suffix) x both balance kinds, amounts also spelled with leading zeros or a plus sign, unlock amounts around the remaining amount (cur-1, cur, cur+1); lock records and spendable/locked balances of both kinds read back after the steps and for all accounts at the end; non-trivial = contains a lock or unlock; distinct = sha256", nHist, maxSteps+3)
	c.Extra = map[string]any{"histories": nHist}
}
