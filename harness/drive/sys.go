package drive

import (
	"crypto/rand"
	"encoding/hex"
	"fmt"
	"os"
	"regexp"
	"sort"
	"strconv"
	"strings"

	"verifharness/simpeer"
	"verifharness/world"

	fpb "github.com/anoideaopen/foundation/proto"
	"github.com/btcsuite/btcutil/base58"
	"github.com/golang/protobuf/proto" //nolint:staticcheck
)

// SYS: the end-to-end pipeline (Foundation.System). One history = submissions, batches and task
// lists of signed token requests in symbol space, realised with real keys, signatures and
// addresses on one chaincode instance; after every state-changing op the harness can `dump` the
// balances, the emission, the pending ids and the stored nonce windows straight from the ledger.

func init() {
	Registry["SYS"] = &Prop{Gen: genSYS, New: func() Executor { return &sysEx{} }}
}

type sysEx struct {
	base
	c     *world.Chan
	keys  map[string]*simpeer.User
	txs   map[string]string // tx symbol -> real tx id
	txsym []string
	sig   map[string]string // signature symbol -> real signature text
}

var sysSymRe = regexp.MustCompile(`\{[KA][0-9I]+\}`)

func (e *sysEx) addrRaw(sym string) []byte {
	if sym == "{AI}" {
		return theWorld().Issuer.AddrRaw
	}
	return poolAddr(sym)
}

func addrString(raw []byte) string { return base58.CheckEncode(raw[1:], raw[0]) }

func (e *sysEx) realise(s string) string {
	return sysSymRe.ReplaceAllStringFunc(s, func(m string) string {
		if m[1] == 'K' {
			if u, ok := e.keys[m]; ok {
				return u.PubB58
			}
			return m
		}
		return addrString(e.addrRaw(m))
	})
}

type sysReq struct {
	fn   string
	args []string
	keys []string
	acl  *simpeer.ACLEntry
}

// realiseReq turns "fn~argc~acl~args~sigs~keys" into a real request and programs nothing yet.
func (e *sysEx) realiseReq(w string) (*sysReq, bool) {
	f := strings.Split(w, "~")
	if len(f) != 6 {
		return nil, false
	}
	fn, argcS, acl, argsS, sigsS, keysS := f[0], f[1], f[2], f[3], f[4], f[5]
	if keysS != "-" {
		for _, it := range strings.Split(keysS, ";") {
			p := strings.SplitN(it, "=", 2)
			if len(p) == 2 {
				if _, ok := e.keys[p[0]]; !ok {
					e.keys[p[0]] = poolKey("sys"+p[0], p[1])
				}
			}
		}
	}
	if sigsS != "-" {
		for _, it := range strings.Split(sigsS, ";") {
			p := strings.SplitN(it, "=", 2)
			if len(p) != 2 {
				return nil, false
			}
			if _, done := e.sig[p[0]]; done {
				continue // a replayed request carries the very same signature bytes
			}
			switch {
			case p[1] == "b":
				e.sig[p[0]] = ""
			case p[1] == "j":
				j := make([]byte, 64)
				_, _ = rand.Read(j)
				e.sig[p[0]] = base58.Encode(j)
			case strings.HasPrefix(p[1], "v."):
				q := strings.SplitN(p[1], ".", 4)
				if len(q) != 4 {
					return nil, false
				}
				u, ok := e.keys[q[2]]
				if !ok {
					return nil, false
				}
				e.sig[p[0]] = u.Sign([]byte(e.realise(q[3])))
			default:
				return nil, false
			}
		}
	}
	r := &sysReq{fn: fn}
	if argsS != "-" {
		for _, a := range strings.Split(argsS, ",") {
			a = dec(a)
			if s, ok := e.sig[a]; ok {
				r.args = append(r.args, s)
				continue
			}
			r.args = append(r.args, e.realise(a))
		}
	}
	argc, _ := strconv.Atoi(argcS)
	expected := argc - 1 + 4
	if len(r.args) > expected && (len(r.args)-expected)%2 == 0 {
		n := (len(r.args) - expected) / 2
		r.keys = r.args[expected : expected+n]
	}
	entry := &simpeer.ACLEntry{}
	ap := strings.Split(acl, ":")
	switch ap[0] {
	case "status":
		entry.Mode = simpeer.ACLStatus500
	case "empty":
		entry.Mode = simpeer.ACLEmpty
	case "garbled":
		entry.Mode = simpeer.ACLGarbled
	case "ok":
		if len(ap) != 5 {
			return nil, false
		}
		var kts []fpb.KeyType
		if ap[2] != "-" {
			for _, k := range strings.Split(ap[2], "+") {
				kts = append(kts, ktProto(k))
			}
		}
		n, _ := strconv.Atoi(ap[3])
		resp := &fpb.AclResponse{
			Address: &fpb.SignedAddress{
				Address:         &fpb.Address{Address: e.addrRaw(ap[1]), IsMultisig: len(r.keys) > 1},
				SignaturePolicy: &fpb.SignaturePolicy{N: uint32(n)},
			},
			KeyTypes: kts,
		}
		if ap[4][0] == '1' {
			resp.Account = &fpb.AccountInfo{KycHash: "k", BlackListed: ap[4][1] == '1', GrayListed: ap[4][2] == '1'}
		}
		entry.Mode, entry.Resp = simpeer.ACLOk, resp
	default:
		return nil, false
	}
	r.acl = entry
	return r, true
}

func (e *sysEx) program(rs ...*sysReq) {
	wd := theWorld()
	for _, r := range rs {
		if r.keys != nil {
			wd.ACL.ByKeys[strings.Join(r.keys, "/")] = r.acl
		}
	}
}

func classifySys(msg string) string {
	if os.Getenv("VERIF_RAWERR") != "" && msg != "" {
		fmt.Fprintln(os.Stderr, "RAW:", msg)
	}
	switch {
	case msg == "":
		return "ok"
	case strings.Contains(msg, "not found") && strings.Contains(msg, "method"):
		return "unknown"
	case strings.Contains(msg, "transaction") && strings.Contains(msg, "not found"):
		return "notfound"
	case strings.Contains(msg, "unauthorized: robotSKI"):
		return "unauthorized"
	case strings.Contains(msg, "incorrect nonce format"):
		return "nonce-format"
	case strings.Contains(msg, "less than"):
		return "nonce-old"
	case strings.Contains(msg, "already exists"):
		return "nonce-dup"
	case strings.Contains(msg, "validate arguments"), strings.Contains(msg, "validating arguments"),
		strings.Contains(msg, "validation failed"), strings.Contains(msg, "invalid argument value"),
		strings.Contains(msg, "negative number"):
		return "args"
	case strings.Contains(msg, "TxTransfer:"), strings.Contains(msg, "amount should be more than zero"),
		strings.Contains(msg, "insufficient"), msg == "unauthorized":
		return "failed"
	}
	if c := classifyAuthErr(msg); !strings.HasPrefix(c, "other(") {
		return "auth"
	}
	return otherClass(msg)
}

func (e *sysEx) txid(sym string) string {
	if id, ok := e.txs[sym]; ok {
		return id
	}
	id := simpeer.NewTxID()
	e.txs[sym] = id
	e.txsym = append(e.txsym, sym)
	return id
}

func batchItems(b *world.Batch) string {
	if b.Resp == nil {
		m := b.Res.Resp.Message
		if b.Res.Panic != nil {
			m = "panic"
		}
		return classifySys(m)
	}
	out := make([]string, 0, len(b.Resp.TxResponses))
	for _, r := range b.Resp.TxResponses {
		msg := ""
		if x := r.GetError(); x != nil {
			msg = x.GetError()
			if msg == "" {
				msg = "empty error"
			}
		}
		out = append(out, classifySys(msg))
	}
	if len(out) == 0 {
		return "-"
	}
	return strings.Join(out, ",")
}

func (e *sysEx) Exec(op string) string {
	w := strings.Fields(op)
	if len(w) == 0 {
		return "bad-op"
	}
	wd := theWorld()
	switch w[0] {
	case "reset":
		if len(w) != 2 {
			return "bad-op"
		}
		o := world.Options{}
		if w[1] != "-" {
			o.Disabled = strings.Split(w[1], ",")
		}
		e.c = wd.AddChannel("VT", o)
		e.keys, e.txs, e.sig, e.txsym = map[string]*simpeer.User{}, map[string]string{}, map[string]string{}, nil
		wd.ACL.ByKeys = map[string]*simpeer.ACLEntry{}
		// {A5} is black-listed, {A4} grey-listed: the account info says so to everybody who asks
		wd.ACL.Accounts[addrString(e.addrRaw("{A5}"))] = &fpb.AccountInfo{KycHash: "k", BlackListed: true}
		wd.ACL.Accounts[addrString(e.addrRaw("{A4}"))] = &fpb.AccountInfo{KycHash: "k", GrayListed: true}
		return "ok"
	case "submit":
		if len(w) != 3 || e.c == nil {
			return "bad-op"
		}
		r, ok := e.realiseReq(w[2])
		if !ok {
			return "bad-op"
		}
		e.program(r)
		e.nontrivial = true
		res := e.c.Invoke(wd.Client.Creator, e.txid(w[1]), r.fn, r.args...)
		if res.Panic != nil {
			return "panic"
		}
		if !res.OK() {
			return classifySys(res.Resp.Message)
		}
		return "ok"
	case "batch":
		if len(w) != 3 || e.c == nil {
			return "bad-op"
		}
		b := &fpb.Batch{}
		if w[2] != "-" {
			for _, s := range strings.Split(w[2], ",") {
				x, _ := hex.DecodeString(e.txid(s))
				b.TxIDs = append(b.TxIDs, x)
			}
		}
		data, _ := proto.Marshal(b)
		creator := wd.Robot.Creator
		if w[1] != "robot" {
			creator = wd.Client.Creator
		}
		res := e.c.Invoke(creator, simpeer.NewTxID(), "batchExecute", string(data))
		bb := &world.Batch{Res: res}
		if res.OK() {
			bb.Resp = &fpb.BatchResponse{}
			if err := proto.Unmarshal(res.Resp.Payload, bb.Resp); err != nil {
				return "other(unparsable-reply)"
			}
		}
		return batchItems(bb)
	case "tasks":
		if len(w) < 2 || e.c == nil {
			return "bad-op"
		}
		var tasks []*fpb.Task
		var rs []*sysReq
		for _, x := range w[1:] {
			r, ok := e.realiseReq(x)
			if !ok {
				return "bad-op"
			}
			rs = append(rs, r)
			tasks = append(tasks, &fpb.Task{Id: simpeer.NewTxID(), Method: r.fn, Args: r.args})
		}
		e.program(rs...)
		e.nontrivial = true
		return batchItems(e.c.ExecTasks(tasks...))
	case "dump":
		if e.c == nil {
			return "bad-op"
		}
		return e.dump()
	}
	return "bad-op"
}

var sysAddrs = []string{"{A0}", "{A1}", "{A2}", "{A3}", "{A4}", "{AI}"}

func compKey(prefix string, parts ...string) string {
	k := "\x00" + prefix + "\x00"
	for _, p := range parts {
		k += p + "\x00"
	}
	return k
}

func (e *sysEx) dump() string {
	snap := e.c.L.Snapshot()
	var bals, wins []string
	for _, a := range sysAddrs {
		as := addrString(e.addrRaw(a))
		p, errs := e.c.Query("balanceOf", as)
		if errs != "" {
			p = "err(" + errs + ")"
		}
		bals = append(bals, a+"="+strings.Trim(p, "\""))
		var ns []string
		if data := snap[compKey("2a", as)]; len(data) > 0 {
			n := &fpb.Nonce{}
			if err := proto.Unmarshal(data, n); err != nil {
				ns = append(ns, "undecodable")
			}
			for _, x := range n.GetNonce() {
				ns = append(ns, strconv.FormatUint(x, 10))
			}
		}
		if len(ns) == 0 {
			wins = append(wins, a+"=-")
		} else {
			wins = append(wins, a+"="+strings.Join(ns, "+"))
		}
	}
	em := "?"
	if p, errs := e.c.Query("metadata"); errs == "" {
		if i := strings.Index(p, "\"total_emission\":\""); i >= 0 {
			rest := p[i+len("\"total_emission\":\""):]
			if j := strings.IndexByte(rest, '"'); j >= 0 {
				em = rest[:j]
			}
		} else if i := strings.Index(p, "\"total_emission\":"); i >= 0 {
			rest := p[i+len("\"total_emission\":"):]
			j := 0
			for j < len(rest) && (rest[j] == '-' || (rest[j] >= '0' && rest[j] <= '9')) {
				j++
			}
			em = rest[:j]
		}
	}
	var pend []string
	known := map[string]bool{}
	for _, s := range e.txsym {
		if len(snap[compKey("batchTransactions", e.txs[s])]) > 0 {
			pend = append(pend, s)
		}
		known[compKey("batchTransactions", e.txs[s])] = true
	}
	var stray []string
	for k := range snap {
		if strings.HasPrefix(k, "\x00batchTransactions\x00") && !known[k] {
			stray = append(stray, "?"+hex.EncodeToString([]byte(k)))
		}
	}
	sort.Strings(stray)
	pend = append(pend, stray...)
	ps := "-"
	if len(pend) > 0 {
		ps = strings.Join(pend, ",")
	}
	return fmt.Sprintf("bal:%s;em=%s;pend:%s;win:%s", strings.Join(bals, ","), em, ps, strings.Join(wins, ","))
}

// ---------------------------------------------------------------- generator

type sysGen struct {
	c      *Cfg
	nonce  uint64
	nsig   int
	ntx    int
	issued []string // request words issued so far in this history (for verbatim replays)
	pend   []string // tx symbols believed pending
	used   []string // tx symbols already listed
	nonces map[string][]uint64
}

func (g *sysGen) pick(xs ...string) string { return xs[g.c.Rng.Intn(len(xs))] }

// request builds one request word. sender: address symbol; key: key symbol.
func (g *sysGen) request(fn, sender string, margs []string, nonce string, sigState, aclMode string) string {
	argc := len(margs) + 1
	key := "{K" + sender[2:len(sender)-1] + "}"
	if key == "{KI}" {
		key = "{K9}"
	}
	if sigState == "wrongkey" {
		key = "{K7}" // a key the ACL is told belongs to the sender, signed by somebody else's key below
	}
	// the ACL's answer is a function of the key list: faulty answers get key symbols of their own
	switch aclMode {
	case "status", "empty", "garbled":
		key = "{K6}"
	case "black":
		key, sender = "{K5}", "{A5}" // a listed account is listed for everybody: it has an address of its own
	case "grey":
		key, sender = "{K4}", "{A4}"
	}
	covered := append([]string{"", "vt", "vt"}, margs...)
	covered = append(covered, nonce, key)
	msg := fn + strings.Join(covered, "")
	g.nsig++
	s := fmt.Sprintf("{S%d}", g.nsig)
	sigs := "-"
	sigArg := s
	switch sigState {
	case "valid":
		sigs = fmt.Sprintf("%s=v.ed.%s.%s", s, key, msg)
	case "blank":
		sigArg = ""
	case "junk":
		sigs = s + "=j"
	case "othermsg":
		sigs = fmt.Sprintf("%s=v.ed.%s.%s", s, key, msg+"x")
	case "foreign", "wrongkey":
		sigs = fmt.Sprintf("%s=v.ed.{K8}.%s", s, msg)
	}
	acl := fmt.Sprintf("ok:%s:ed:0:100", sender)
	switch aclMode {
	case "status", "empty", "garbled":
		acl = aclMode
	case "black":
		acl = fmt.Sprintf("ok:%s:ed:0:110", sender)
	case "grey":
		acl = fmt.Sprintf("ok:%s:ed:0:101", sender)
	}
	args := append(append([]string{}, covered...), sigArg)
	return fmt.Sprintf("%s~%d~%s~%s~%s~%s", fn, argc, acl, encArgs(args), sigs, key+"=ed;{K8}=ed")
}

func (g *sysGen) freshNonce() uint64 {
	if g.c.Rng.Intn(5) == 0 {
		// a jump beyond the validity window: the stored window is pruned to this nonce alone
		g.nonce += uint64(50000 + g.c.Rng.Intn(3) - 1 + g.c.Rng.Intn(2)*10000)
		return g.nonce
	}
	g.nonce += uint64(1 + g.c.Rng.Intn(20000))
	return g.nonce
}

func (g *sysGen) nonceFor(sender string) string {
	seen := g.nonces[sender]
	var n uint64
	switch r := g.c.Rng.Intn(20); {
	case r < 12 || len(seen) == 0:
		n = g.freshNonce()
	case r < 14:
		n = seen[g.c.Rng.Intn(len(seen))] // duplicate of an earlier nonce of this sender
	case r < 16:
		n = seen[len(seen)-1] - 50000 + uint64(g.c.Rng.Intn(3)) - 1 // around the TTL edge
	case r < 17:
		n = seen[len(seen)-1] - 50001 - uint64(g.c.Rng.Intn(100000))
	case r < 18:
		return g.pick("999999999999", "10000000000000", "0", "abc", "", "0000000000000", "00000000000000000000", "01700000000001")
	default:
		n = seen[0] + uint64(g.c.Rng.Intn(40000)) // inside the window, unused with high probability
	}
	g.nonces[sender] = append(g.nonces[sender], n)
	return strconv.FormatUint(n, 10)
}

func (g *sysGen) randomRequest() string {
	sender := g.pick("{A0}", "{A0}", "{A1}", "{A2}", "{AI}")
	to := g.pick("{A0}", "{A1}", "{A2}", "{A3}", "{A1}", "{A2}")
	if g.c.Rng.Intn(25) == 0 {
		to = "notAnAddress"
	}
	if g.c.Rng.Intn(20) == 0 {
		to = g.pick("{A5}", "{A4}") // a black-listed recipient fails the argument check; a grey-listed one does not
	}
	amt := g.pick("1", "5", "40", "100", "150", "1000", "0", "-5", "x", "7")
	sig := "valid"
	if g.c.Rng.Intn(6) == 0 {
		sig = g.pick("blank", "junk", "othermsg", "foreign", "wrongkey")
	}
	acl := "ok"
	if g.c.Rng.Intn(12) == 0 {
		acl = g.pick("status", "empty", "garbled", "black", "grey")
	}
	fn := "transfer"
	switch r := g.c.Rng.Intn(12); {
	case r == 0:
		fn = "transferNb"
	case r == 1:
		fn = "emit"
	case r == 2 && g.c.Rng.Intn(3) == 0:
		fn = "noSuchFn"
	}
	nonce := g.nonceFor(sender)
	var w string
	if fn == "emit" {
		w = g.request(fn, sender, []string{to, amt}, nonce, sig, acl)
	} else {
		w = g.request(fn, sender, []string{to, amt, "ref"}, nonce, sig, acl)
	}
	g.issued = append(g.issued, w)
	return w
}

func (g *sysGen) someRequest() string {
	if len(g.issued) > 0 && g.c.Rng.Intn(4) == 0 {
		return g.issued[g.c.Rng.Intn(len(g.issued))] // verbatim replay
	}
	return g.randomRequest()
}

func (g *sysGen) tx() string {
	g.ntx++
	return fmt.Sprintf("t%d", g.ntx)
}

// directed histories: one signed request executed through one route and presented again, verbatim,
// through the same or the other route; and a request carrying the signature of an earlier, accepted
// request of the same signer.
func genSYSDirected(c *Cfg, emit func([]string)) int {
	count := 0
	via := func(g *sysGen, h []string, route, w string) []string {
		switch route {
		case "batch":
			t := g.tx()
			return append(h, "submit "+t+" "+w, "batch robot "+t, "dump")
		case "nb":
			return append(h, "submit "+g.tx()+" "+w, "dump")
		}
		return append(h, "tasks "+w, "dump")
	}
	for _, fn := range []string{"transfer", "emit", "transferNb"} {
		routes := []string{"batch", "task"}
		if fn == "transferNb" {
			routes = []string{"nb", "task"}
		}
		for _, r1 := range routes {
			for _, r2 := range routes {
				g := &sysGen{c: c, nonce: 1700000000000 + uint64(c.Rng.Intn(1000000)), nonces: map[string][]uint64{}}
				h := []string{"reset -"}
				h = via(g, h, "batch", g.request("emit", "{AI}", []string{"{A0}", "1000"}, strconv.FormatUint(g.freshNonce(), 10), "valid", "ok"))
				sender, margs := "{A0}", []string{"{A1}", "10", "ref"}
				if fn == "emit" {
					sender, margs = "{AI}", []string{"{A2}", "10"}
				}
				nonce := strconv.FormatUint(g.freshNonce(), 10)
				w := g.request(fn, sender, margs, nonce, "valid", "ok")
				h = via(g, h, r1, w)
				h = via(g, h, r2, w) // verbatim replay
				// a later request of somebody else moves the window on; then the replay once more
				h = via(g, h, "task", g.request("transfer", "{A1}", []string{"{A3}", "1", "ref"}, strconv.FormatUint(g.freshNonce(), 10), "valid", "ok"))
				h = via(g, h, r1, w)
				// the first request's signature under a request with another amount and nonce
				margs2 := append([]string{}, margs...)
				margs2[1] = "500"
				w2 := g.request(fn, sender, margs2, strconv.FormatUint(g.freshNonce(), 10), "valid", "ok")
				f1, f2 := strings.Split(w, "~"), strings.Split(w2, "~")
				sym1 := strings.SplitN(f1[4], "=", 2)[0]
				sym2 := strings.SplitN(f2[4], "=", 2)[0]
				f2[3] = strings.Replace(f2[3], sym2, sym1, 1)
				f2[4] = f1[4]
				h = via(g, h, r2, strings.Join(f2, "~"))
				// the same sender far ahead (the window is pruned to one entry again), replayed at once
				far := g.nonce + 60000 + uint64(g.c.Rng.Intn(3))
				g.nonce = far
				w3 := g.request(fn, sender, margs, strconv.FormatUint(far, 10), "valid", "ok")
				h = via(g, h, r1, w3)
				h = via(g, h, r2, w3)
				h = via(g, h, r1, w3)
				// a nonce that parses to zero / has leading zeros: never a 13-digit value
				for _, z := range []string{"0", "0000000000000", "0" + strconv.FormatUint(g.freshNonce(), 10)} {
					wz := g.request(fn, sender, margs, z, "valid", "ok")
					h = via(g, h, r1, wz)
					h = via(g, h, r2, wz)
				}
				// a black-listed recipient: the submission itself must be refused
				if fn != "emit" {
					h = via(g, h, r1, g.request(fn, sender, []string{"{A5}", "1", "ref"}, strconv.FormatUint(g.freshNonce(), 10), "valid", "ok"))
				}
				emit(h)
				count++
			}
		}
	}
	return count
}

func genSYS(c *Cfg, emit func([]string)) {
	n := 120
	if c.Thorough() {
		n = 1500
	}
	nd := genSYSDirected(c, emit)
	for i := 0; i < n; i++ {
		g := &sysGen{c: c, nonce: 1700000000000 + uint64(c.Rng.Intn(1000000)), nonces: map[string][]uint64{}}
		dis := "-"
		if i%10 == 9 {
			dis = g.pick("TxTransfer", "TxEmit", "NBTxTransferNb")
		}
		h := []string{"reset " + dis}
		// funding through the pipeline itself: the issuer emits to two users
		for _, u := range []string{"{A0}", "{A1}"} {
			t := g.tx()
			w := g.request("emit", "{AI}", []string{u, g.pick("100", "150", "1000")}, strconv.FormatUint(g.freshNonce(), 10), "valid", "ok")
			g.issued = append(g.issued, w)
			h = append(h, "submit "+t+" "+w)
			g.pend = append(g.pend, t)
		}
		h = append(h, "batch robot "+strings.Join(g.pend, ","), "dump")
		g.used, g.pend = g.pend, nil
		steps := 6 + c.Rng.Intn(14)
		for s := 0; s < steps; s++ {
			switch r := c.Rng.Intn(10); {
			case r < 5:
				t := g.tx()
				h = append(h, "submit "+t+" "+g.someRequest())
				g.pend = append(g.pend, t)
			case r < 8:
				var ids []string
				k := c.Rng.Intn(5)
				for j := 0; j < k; j++ {
					switch q := c.Rng.Intn(8); {
					case q < 5 && len(g.pend) > 0:
						ids = append(ids, g.pend[c.Rng.Intn(len(g.pend))])
					case q < 6 && len(g.used) > 0:
						ids = append(ids, g.used[c.Rng.Intn(len(g.used))])
					case q < 7:
						ids = append(ids, g.tx()) // never submitted
					default:
						if len(g.pend) > 0 {
							ids = append(ids, g.pend[0])
						}
					}
				}
				who := "robot"
				if c.Rng.Intn(6) == 0 {
					who = "client"
				}
				l := "-"
				if len(ids) > 0 {
					l = strings.Join(ids, ",")
				}
				h = append(h, "batch "+who+" "+l, "dump")
				if who == "robot" {
					g.used = append(g.used, ids...)
					var rest []string
					for _, p := range g.pend {
						listed := false
						for _, x := range ids {
							if x == p {
								listed = true
							}
						}
						if !listed {
							rest = append(rest, p)
						}
					}
					g.pend = rest
				}
			default:
				k := 1 + c.Rng.Intn(3)
				ws := make([]string, 0, k)
				for j := 0; j < k; j++ {
					ws = append(ws, g.someRequest())
				}
				h = append(h, "tasks "+strings.Join(ws, " "), "dump")
			}
		}
		h = append(h, "dump")
		emit(h)
	}
	c.Rule = fmt.Sprintf("%d directed histories (each of transfer/emit/immediate transfer executed through one route, replayed verbatim through the same and the other route, replayed again after the window moved, and its signature presented with an altered request) and %d histories of the whole request pipeline on one chaincode instance: funding by issuer emissions through batches, then 6..19 steps of {batched or immediate submission of a signed transfer/emit request, batchExecute over pending/duplicate/already-executed/unknown ids as robot or as another client, executeTasks with 1..3 requests}; requests: sender x recipient x amounts {0,1,5,7,40,100,150,1000,-5,non-numeric} x signature {valid, blank, junk, over another message, by a foreign key} x ACL {ok, error, empty, garbled, black/grey-listed}; nonces fresh / duplicate / at the TTL edge / too old / malformed / inside the window; a quarter of the requests are verbatim replays of earlier requests of the history (any route); every tenth history runs with one method disabled. Observed: reply class per item and, after every batch/task list, balances of 5 addresses, total emission, pending ids and the stored nonce windows read from the ledger. non-trivial = at least one submission or task list; distinct = sha256", nd, n)
}
