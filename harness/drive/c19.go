package drive

import (
	"encoding/json"
	"fmt"
	"math/big"
	"strings"

	"verifharness/simpeer"
	"verifharness/world"

	fbig "github.com/anoideaopen/foundation/core/types/big"
	fpb "github.com/anoideaopen/foundation/proto"
)

func init() { Registry["C19"] = &Prop{Gen: genC19, New: func() Executor { return &c19ex{} }} }

type c19ex struct {
	base
	c *world.Chan
}

var feeUser *simpeer.User

func (e *c19ex) user(name string) *simpeer.User {
	w := theWorld()
	switch name {
	case "I":
		return w.Issuer
	case "F":
		if feeUser == nil {
			feeUser = simpeer.NewUser("F", fpb.KeyType_ed25519)
			w.ACL.Register(feeUser)
		}
		return feeUser
	}
	for _, u := range w.Users {
		if u.Name == name {
			return u
		}
	}
	return nil
}

var c19names = []string{"I", "F", "u0", "u1", "u2", "u3"}
var c19curs = []string{"USD", "EUR"}

func (e *c19ex) Exec(op string) string {
	w := strings.Fields(op)
	if len(w) == 0 {
		return "bad-op"
	}
	wd := theWorld()
	if w[0] == "reset" {
		for k := range wd.ACL.UserIDs {
			delete(wd.ACL.UserIDs, k)
		}
		e.c = wd.AddChannel("VT", world.Options{})
		return "ok"
	}
	if e.c == nil {
		return "bad-op"
	}
	u := func(i int) *simpeer.User {
		if i < len(w) {
			return e.user(w[i])
		}
		return nil
	}
	need := func(n int) bool { return len(w) == n }
	switch w[0] {
	case "fund":
		if !need(3) || u(1) == nil {
			return "bad-op"
		}
		return okErr(e.c.Do(wd.Issuer, "emit", u(1).Addr, w[2]))
	case "fundalw":
		if !need(4) || u(1) == nil {
			return "bad-op"
		}
		return okErr(e.c.Do(wd.Issuer, "emitAllowed", u(1).Addr, w[2], w[3]))
	case "uid":
		if !need(3) || u(1) == nil {
			return "bad-op"
		}
		wd.ACL.UserIDs[u(1).Addr] = dec(w[2])
		return "ok"
	case "setfeeaddr":
		if !need(2) || u(1) == nil {
			return "bad-op"
		}
		return okErr(e.c.Do(wd.FeeASet, "setFeeAddress", u(1).Addr))
	case "setfee":
		if !need(5) {
			return "bad-op"
		}
		return okErr(e.c.Do(wd.FeeSet, "setFee", w[1], w[2], w[3], w[4]))
	case "setrate":
		if !need(4) {
			return "bad-op"
		}
		return okErr(e.c.Do(wd.Issuer, "setRate", w[1], w[2], w[3]))
	case "delrate":
		if !need(3) {
			return "bad-op"
		}
		return okErr(e.c.Do(wd.Issuer, "deleteRate", w[1], w[2]))
	case "setlimits":
		if !need(5) {
			return "bad-op"
		}
		return okErr(e.c.Do(wd.Issuer, "setLimits", w[1], w[2], w[3], w[4]))
	case "transfer":
		if !need(4) || u(1) == nil || u(2) == nil {
			return "bad-op"
		}
		e.nontrivial = true
		return okErr(e.c.Do(u(1), "transfer", u(2).Addr, w[3], "ref"))
	case "buy":
		if !need(4) || u(1) == nil {
			return "bad-op"
		}
		e.nontrivial = true
		return okErr(e.c.Do(u(1), "buyToken", w[2], w[3]))
	case "buyback":
		if !need(4) || u(1) == nil {
			return "bad-op"
		}
		e.nontrivial = true
		return okErr(e.c.Do(u(1), "buyBack", w[2], w[3]))
	case "predict":
		if !need(2) {
			return "bad-op"
		}
		p, errs := e.c.Query("predictFee", w[1])
		if errs != "" {
			return "err"
		}
		var r struct {
			Fee string `json:"fee"`
		}
		if err := json.Unmarshal([]byte(p), &r); err != nil || r.Fee == "" {
			return "err:decode:" + p
		}
		return r.Fee
	case "price":
		// proto.TokenRate.CalcPrice on its own: amount x rate / 10^8, rounded down, any magnitude
		if !need(3) {
			return "bad-op"
		}
		rt, ok1 := new(big.Int).SetString(w[1], 10)
		am, ok2 := new(big.Int).SetString(w[2], 10)
		if !ok1 || !ok2 || rt.Sign() < 0 || am.Sign() < 0 {
			return "bad-op"
		}
		return (&fpb.TokenRate{Rate: rt.Bytes()}).CalcPrice(&fbig.Int{Int: *am}, 8).String()
	case "inlimit":
		if !need(4) {
			return "bad-op"
		}
		mn, ok1 := new(big.Int).SetString(w[1], 10)
		mx, ok2 := new(big.Int).SetString(w[2], 10)
		am, ok3 := new(big.Int).SetString(w[3], 10)
		if !ok1 || !ok2 || !ok3 || mn.Sign() < 0 || mx.Sign() < 0 || am.Sign() < 0 {
			return "bad-op"
		}
		if (&fpb.TokenRate{Min: mn.Bytes(), Max: mx.Bytes()}).InLimit(&fbig.Int{Int: *am}) {
			return "yes"
		}
		return "no"
	case "feetransfer":
		if !need(4) || u(1) == nil || u(2) == nil {
			return "bad-op"
		}
		req, _ := json.Marshal(map[string]string{"sender_address": u(1).Addr, "recipient_address": u(2).Addr, "amount": w[3]})
		p, errs := e.c.Query("getFeeTransfer", string(req))
		if errs != "" {
			return "err"
		}
		var r struct {
			FeeAddress string `json:"fee_address"`
			Amount     string `json:"amount"`
			Currency   string `json:"currency"`
		}
		if err := json.Unmarshal([]byte(p), &r); err != nil {
			return "err:decode:" + p
		}
		fa := "?" + r.FeeAddress
		for _, n := range c19names {
			if e.user(n).Addr == r.FeeAddress {
				fa = n
			}
		}
		if r.Amount == "" {
			r.Amount = "0"
		}
		return r.Amount + "/" + r.Currency + "/" + fa
	case "bal":
		var parts []string
		for _, n := range c19names {
			a := e.user(n).Addr
			t, _ := e.c.Query("balanceOf", a)
			s := n + "=" + strings.Trim(t, "\"")
			for _, cur := range c19curs {
				x, _ := e.c.Query("allowedBalanceOf", a, cur)
				s += "/" + strings.Trim(x, "\"")
			}
			parts = append(parts, s)
		}
		return strings.Join(parts, ",")
	}
	return "bad-op"
}

func genC19(c *Cfg, emit func([]string)) {
	nHist := 500
	if c.Thorough() {
		nHist = 20000
	}
	unit := new(big.Int).Exp(big.NewInt(10), big.NewInt(8), nil)
	pick := func(xs ...string) string { return xs[c.Rng.Intn(len(xs))] }
	users := []string{"u0", "u1", "u2", "u3"}
	for i := 0; i < nHist; i++ {
		h := []string{"reset"}
		// --- configuration
		share := pick("0", "1", "500000", "2500000", "33333333", "100000000", "100000001", "99999999")
		floor := pick("0", "0", "1", "3", "10", "1000")
		cp := pick("0", "0", "5", "10", "1000", "2")
		feeCur := pick("VT", "VT", "USD", "EUR", "XXX")
		if c.Rng.Intn(3) > 0 {
			h = append(h, "setrate buyToken USD "+pick("100000000", "50000000", "250000000", "1", "0", "33333333"))
		}
		if c.Rng.Intn(3) == 0 {
			h = append(h, "setrate buyBack USD "+pick("100000000", "90000000", "3"))
		}
		if c.Rng.Intn(4) == 0 {
			h = append(h, "setrate buyToken EUR "+pick("120000000", "7"))
		}
		if c.Rng.Intn(3) == 0 {
			h = append(h, "setlimits "+pick("buyToken", "buyBack", "nope")+" "+pick("USD", "EUR")+" "+pick("0", "10", "100", "1000")+" "+pick("0", "50", "100", "5"))
		}
		if c.Rng.Intn(12) > 0 {
			h = append(h, "setfeeaddr "+pick("F", "F", "F", "u3", "u1"))
		}
		if c.Rng.Intn(8) > 0 {
			h = append(h, fmt.Sprintf("setfee %s %s %s %s", feeCur, share, floor, cp))
		}
		// --- user ids
		for _, u := range users {
			if c.Rng.Intn(3) == 0 {
				h = append(h, "uid "+u+" "+pick("A", "B", "-"))
			}
		}
		// --- funding
		base := pick("1000", "100000", "1000000000000", "340282366920938463463374607431768211456", "5")
		for _, u := range users[:3] {
			if c.Rng.Intn(5) > 0 {
				h = append(h, "fund "+u+" "+base)
			}
			if c.Rng.Intn(2) == 0 {
				h = append(h, "fundalw "+u+" "+pick("USD", "EUR")+" "+pick("0", "1", "5", "1000", "100000000000", "100000000000"))
			}
		}
		h = append(h, "fundalw I USD "+pick("0", "1000", "100000000000"))
		if c.Rng.Intn(4) > 0 {
			h = append(h, "fund I "+pick("100", "1000", "1000000"))
		}
		h = append(h, "bal")
		// --- break points of the fee: amounts around floor*10^8/share and cap*10^8/share
		var amts []string
		amts = append(amts, "1", "2", "7", "100", "999", "1000", "1001", base)
		sh, _ := new(big.Int).SetString(share, 10)
		if sh.Sign() > 0 {
			for _, lim := range []string{floor, cp} {
				l, _ := new(big.Int).SetString(lim, 10)
				bp := new(big.Int).Div(new(big.Int).Mul(l, unit), sh)
				for d := int64(-1); d <= 1; d++ {
					x := new(big.Int).Add(bp, big.NewInt(d))
					if x.Sign() > 0 {
						amts = append(amts, x.String())
					}
				}
			}
		}
		b, _ := new(big.Int).SetString(base, 10)
		amts = append(amts, new(big.Int).Sub(b, big.NewInt(1)).String(), new(big.Int).Add(b, big.NewInt(1)).String(), "0")
		nops := 3 + c.Rng.Intn(6)
		for j := 0; j < nops; j++ {
			switch c.Rng.Intn(10) {
			case 0:
				h = append(h, "buy "+pick(users...)+" "+pick("1", "10", "50", "100", "101", "1000", "0")+" "+pick("USD", "USD", "EUR"))
			case 1:
				h = append(h, "buyback "+pick(users...)+" "+pick("1", "10", "50", "100", "1000")+" USD")
			case 3:
				if c.Rng.Intn(3) == 0 {
					// a rate withdrawn (or set again) in the middle: later fees and deals must follow
					h = append(h, pick("delrate buyToken USD", "delrate buyBack USD", "delrate buyToken EUR", "delrate buyToken VT", "delrate nope USD", "setrate buyToken USD 50000000"))
				}
				f, t := pick(users...), pick("u0", "u1", "u2", "u3", "F", "I")
				h = append(h, "transfer "+f+" "+t+" "+amts[c.Rng.Intn(len(amts))])
			case 2:
				h = append(h, "predict "+amts[c.Rng.Intn(len(amts))])
				h = append(h, "feetransfer "+pick(users...)+" "+pick("u0", "u1", "u2", "u3", "F")+" "+amts[c.Rng.Intn(len(amts))])
			default:
				f, t := pick(users...), pick("u0", "u1", "u2", "u3", "F", "I")
				h = append(h, "transfer "+f+" "+t+" "+amts[c.Rng.Intn(len(amts))])
			}
			h = append(h, "bal")
		}
		emit(h)
	}
	// huge deals: amount x rate beyond 64 bits (prices must stay exact), both parties richly funded
	huge := []string{"4294967296", "100000000000", "200000000000", "18446744073709551615", "18446744073709551616", "184467440737095516160000001", "1000000000000000000000000000000"}
	rich := "1000000000000000000000000000000000000000000"
	nHuge := 0
	for _, rate := range []string{"100000000", "50000000", "250000000", "3", "99999999", "18446744073709551616"} {
		for k := 0; k < len(huge); k++ {
			if !c.Thorough() && (k+nHuge)%2 == 1 {
				continue
			}
			a1, a2 := huge[k], huge[(k+3)%len(huge)]
			emit([]string{"reset", "setrate buyToken USD " + rate, "setrate buyBack USD " + rate,
				"fund I " + rich, "fund u0 " + rich, "fundalw u0 USD " + rich, "fundalw I USD " + rich, "bal",
				"buy u0 " + a1 + " USD", "bal", "buyback u0 " + a2 + " USD", "bal", "buy u0 1 USD", "bal",
				"setfeeaddr F", "setfee USD 2500000 0 0", "predict " + a1, "transfer u0 u1 " + a2, "bal"})
			nHuge++
		}
	}
	// the fee setting replaced by another one, field by field down to zero: the setting in force is the
	// last one given, whatever it replaces (a removed cap no longer caps, a removed floor no longer raises,
	// a share of 0 charges nothing)
	for _, first := range []string{"1000000 3 5", "1000000 20 0", "50000000 0 7", "100000000 1 1000"} {
		for _, second := range []string{"0 0 0", "1000000 0 0", "1000000 3 0", "1000000 0 5", "0 3 5", "2000000 4 6", "1000000 3 5"} {
			emit([]string{"reset", "setfeeaddr F", "fund u0 100000", "setfee VT " + first, "predict 1000", "predict 100", "transfer u0 u1 1000", "bal",
				"setfee VT " + second, "predict 1000", "predict 100", "predict 1", "transfer u0 u1 1000", "bal", "transfer u0 u1 100", "bal",
				"setfee VT " + first, "predict 1000", "transfer u0 u1 1000", "bal"})
		}
	}
	// pure arithmetic on its own: prices and limit tests over magnitudes from 0 to beyond 2^128
	{
		bigs := []string{"0", "1", "2", "3", "7", "99999999", "100000000", "100000001", "4294967295", "4294967296", "18446744073709551615",
			"18446744073709551616", "340282366920938463463374607431768211455", "340282366920938463463374607431768211456", "12345678901234567890123456789"}
		rnd := func() string {
			b := new(big.Int).Rand(c.Rng, new(big.Int).Lsh(big.NewInt(1), uint(1+c.Rng.Intn(140))))
			return b.String()
		}
		val := func() string {
			if c.Rng.Intn(3) == 0 {
				return bigs[c.Rng.Intn(len(bigs))]
			}
			return rnd()
		}
		nPure := 4000
		if c.Thorough() {
			nPure = 200000
		}
		h := []string{"reset"}
		for i := 0; i < nPure; i++ {
			if i%2 == 0 {
				h = append(h, "price "+val()+" "+val())
			} else {
				mn, mx, a := val(), val(), val()
				switch c.Rng.Intn(4) {
				case 0:
					mx = "0"
				case 1:
					a = mn
				case 2:
					a = mx
				}
				h = append(h, "inlimit "+mn+" "+mx+" "+a)
			}
			if len(h) > 400 {
				emit(h)
				h = []string{"reset"}
			}
		}
		if len(h) > 1 {
			emit(h)
		}
	}
	// limits: every combination of a lower and an upper bound (0 = none) with amounts at bound-1, bound, bound+1
	nLim := 0
	for _, lim := range [][2]string{{"100", "0"}, {"0", "50"}, {"100", "200"}, {"0", "0"}, {"1", "1"}, {"100", "100"}} {
		for _, rate := range []string{"100000000", "250000000"} {
			h := []string{"reset", "setrate buyToken USD " + rate, "setrate buyBack USD " + rate,
				"setlimits buyToken USD " + lim[0] + " " + lim[1], "setlimits buyBack USD " + lim[0] + " " + lim[1],
				"fund I 100000", "fund u0 100000", "fundalw u0 USD 100000000", "fundalw I USD 100000000", "bal"}
			for _, a := range []string{"0", "1", "2", "49", "50", "51", "99", "100", "101", "199", "200", "201", "1000"} {
				h = append(h, "buy u0 "+a+" USD", "buyback u0 "+a+" USD")
			}
			// the price changes afterwards: the limits stay as they were set
			h = append(h, "bal", "setrate buyToken USD 50000000", "setrate buyBack USD 300000000")
			for _, a := range []string{"1", "49", "50", "51", "99", "100", "101", "200", "201"} {
				h = append(h, "buy u0 "+a+" USD", "buyback u0 "+a+" USD")
			}
			h = append(h, "bal")
			emit(h)
			nLim++
		}
	}
	c.Rule = fmt.Sprintf("fee settings replaced by other ones, field by field down to zero (28 directed histories); %d random histories: fee settings (share in {0,1,0.5%%,2.5%%,33.3%%,100%%,100%%+1}, floor, cap incl. 0 and cap<floor, own/foreign/unknown currency, rates, limits), user ids (same/different/none), funding {5,1000,1e5,1e12,2^128}, then 3..8 operations (transfer/buy/buyBack/predictFee) with amounts around every break point floor*1e8/share±1, cap*1e8/share±1, balance±1, 0; all balances (token, allowed USD/EUR) of 6 addresses dumped after every operation; non-trivial = contains a transfer/buy; distinct = sha256 of op+output; plus %d histories of huge deals (amounts 2^32..1e30 x rates incl. 2^64: every product beyond 64 bits) with richly funded parties; plus prices and limit tests computed on their own over magnitudes from 0 to beyond 2^128; plus %d histories walking amounts across every combination of a lower and an upper limit (0 = none)", nHist, nHuge, nLim)
	c.Extra = map[string]any{"histories": nHist}
}
