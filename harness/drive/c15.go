package drive

import (
	"fmt"
	"sort"
	"strings"

	"verifharness/simpeer"
	"verifharness/world"

	fpb "github.com/anoideaopen/foundation/proto"
	"github.com/golang/protobuf/proto" //nolint:staticcheck
)

func init() { Registry["C15"] = &Prop{Gen: genC15, New: func() Executor { return &c15ex{} }} }

type c15ex struct {
	base
	c *world.Chan
}

func effectsOf(st *simpeer.Stub, ignoreEvent string) string {
	var parts []string
	for _, w := range st.WriteSet() {
		parts = append(parts, "w="+strings.ReplaceAll(strings.ReplaceAll(w.Key, "\x00", "|"), " ", "_"))
	}
	if st.Event != nil && st.Event.EventName != ignoreEvent {
		parts = append(parts, "e="+st.Event.EventName)
	}
	var vk []string
	for k := range st.VPWrites {
		vk = append(vk, "vp="+k)
	}
	sort.Strings(vk)
	parts = append(parts, vk...)
	for _, p := range st.PrivWrites {
		parts = append(parts, "p="+strings.ReplaceAll(p, " ", "/"))
	}
	if len(parts) == 0 {
		return "clean"
	}
	return "dirty:" + strings.Join(parts, ",")
}

func (e *c15ex) Exec(op string) string {
	w := strings.Fields(op)
	if len(w) == 0 {
		return "bad-op"
	}
	wd := theWorld()
	if w[0] == "reset" {
		wd.ACL.ByKeys = map[string]*simpeer.ACLEntry{}
		e.c = wd.AddChannel("VT", world.Options{})
		e.c.Do(wd.Issuer, "emit", wd.Users[0].Addr, "1000")
		return "ok"
	}
	if e.c == nil {
		return "bad-op"
	}
	u := wd.Users[1]
	switch w[0] {
	case "q":
		if len(w) != 5 {
			return "bad-op"
		}
		route, fn, script, aclchange := w[1], w[2], dec(w[3]), w[4]
		wd.ACL.ByKeys = map[string]*simpeer.ACLEntry{}
		if aclchange == "1" {
			resp := wd.ACL.DefaultResponse([]string{u.PubB58}, 0)
			resp.Address.SignedTx = []string{"tx-a", "tx-b"}
			wd.ACL.ByKeys[u.PubB58] = &simpeer.ACLEntry{Mode: simpeer.ACLOk, Resp: resp}
		}
		defer func() { wd.ACL.ByKeys = map[string]*simpeer.ACLEntry{} }()
		withSender := fn == "poke" || fn == "whoAmIQ"
		args := []string{script}
		if fn == "whoAmIQ" || fn == "touch" {
			args = nil
		}
		if fn == "touch" && script == "extra" {
			args = []string{"surplus"}
		}
		if withSender {
			args = e.c.Signed(u, fn, args...)
		}
		e.nontrivial = true
		switch route {
		case "direct":
			r := e.c.Invoke(wd.Client.Creator, simpeer.NewTxID(), fn, args...)
			return effectsOf(r.Stub, "")
		case "taskmix1", "taskmix2":
			// the query shares one task list with a transaction that legitimately writes the key "txk";
			// whatever else the envelope writes (besides that key, the two senders' nonce records and
			// the executeTasks event) comes from the query
			txTask := &fpb.Task{Id: simpeer.NewTxID(), Method: "script", Args: e.c.Signed(wd.Users[2], "script", "put:txk:1")}
			qTask := &fpb.Task{Id: simpeer.NewTxID(), Method: fn, Args: args}
			tasks := []*fpb.Task{txTask, qTask}
			if route == "taskmix2" {
				tasks = []*fpb.Task{qTask, txTask}
			}
			data, _ := proto.Marshal(&fpb.ExecuteTasksRequest{Tasks: tasks})
			r := e.c.Invoke(wd.Client.Creator, simpeer.NewTxID(), "executeTasks", string(data))
			var parts []string
			for _, w := range r.Stub.WriteSet() {
				if w.Key == "txk" || w.Key == "\x002a\x00"+wd.Users[2].Addr+"\x00" {
					continue
				}
				parts = append(parts, "w="+strings.ReplaceAll(strings.ReplaceAll(w.Key, "\x00", "|"), " ", "_"))
			}
			var vk []string
			for k := range r.Stub.VPWrites {
				vk = append(vk, "vp="+k)
			}
			sort.Strings(vk)
			parts = append(parts, vk...)
			for _, p := range r.Stub.PrivWrites {
				parts = append(parts, "p="+strings.ReplaceAll(p, " ", "/"))
			}
			if r.OK() && r.Stub.Event != nil {
				ev := &fpb.BatchEvent{}
				if proto.Unmarshal(r.Stub.Event.Payload, ev) == nil {
					for i, x := range ev.Events {
						if tasks[i] == qTask && len(x.Events) > 0 {
							parts = append(parts, "e="+x.Events[0].GetName())
						}
					}
				}
			}
			if len(parts) == 0 {
				return "clean"
			}
			return "dirty:" + strings.Join(parts, ",")
		case "task":
			data, _ := proto.Marshal(&fpb.ExecuteTasksRequest{Tasks: []*fpb.Task{{Id: simpeer.NewTxID(), Method: fn, Args: args}}})
			r := e.c.Invoke(wd.Client.Creator, simpeer.NewTxID(), "executeTasks", string(data))
			eff := effectsOf(r.Stub, "executeTasks")
			// events reported for the task inside the envelope
			if r.OK() && r.Stub.Event != nil {
				ev := &fpb.BatchEvent{}
				if proto.Unmarshal(r.Stub.Event.Payload, ev) == nil && len(ev.Events) == 1 && len(ev.Events[0].Events) > 0 {
					if eff == "clean" {
						eff = "dirty:"
					} else {
						eff += ","
					}
					eff += "e=" + ev.Events[0].Events[0].GetName()
				}
			}
			return eff
		}
		return "bad-op"
	case "lib":
		if len(w) < 2 {
			return "bad-op"
		}
		var args []string
		if len(w) > 2 && w[2] != "-" {
			for _, a := range strings.Split(w[2], ",") {
				a = dec(a)
				a = strings.ReplaceAll(a, "$U0", wd.Users[0].Addr)
				args = append(args, a)
			}
		}
		e.nontrivial = true
		r := e.c.Invoke(wd.Client.Creator, simpeer.NewTxID(), w[1], args...)
		return effectsOf(r.Stub, "")
	}
	return "bad-op"
}

func genC15(c *Cfg, emit func([]string)) {
	steps := []string{"put:qk:qv", "put:qk:", "del:qk", "evt:qe:payload", "vp:qk:ep", "pput:col:qk:v", "pdel:col:qk", "ppurge:col:qk", "pvp:col:qk:ep", "get:qk"}
	count := 0
	h := []string{"reset"}
	add := func(l string) {
		h = append(h, l)
		count++
		if len(h) > 40 {
			emit(h)
			h = []string{"reset"}
		}
	}
	for _, route := range []string{"direct", "task"} {
		for _, fn := range []string{"poke", "pokeNS"} {
			for _, acl := range []string{"0", "1"} {
				// every single mutating operation, then combinations, also before a failure / panic
				for _, s := range steps {
					add(fmt.Sprintf("q %s %s %s %s", route, fn, s, acl))
					add(fmt.Sprintf("q %s %s %s;fail %s", route, fn, s, acl))
				}
				add(fmt.Sprintf("q %s %s %s %s", route, fn, strings.Join(steps, ";"), acl))
				add(fmt.Sprintf("q %s %s %s;panic %s", route, fn, strings.Join(steps[:4], ";"), acl))
				n := 10
				if c.Thorough() {
					n = 200
				}
				for i := 0; i < n; i++ {
					k := 1 + c.Rng.Intn(5)
					var ss []string
					for j := 0; j < k; j++ {
						ss = append(ss, steps[c.Rng.Intn(len(steps))])
					}
					add(fmt.Sprintf("q %s %s %s %s", route, fn, strings.Join(ss, ";"), acl))
				}
			}
		}
		add(fmt.Sprintf("q %s whoAmIQ - 1", route))
		add(fmt.Sprintf("q %s whoAmIQ - 0", route))
		// a query without any parameter (body = every kind of write), also with a surplus argument
		add(fmt.Sprintf("q %s touch - 0", route))
		add(fmt.Sprintf("q %s touch extra 0", route))
	}
	// a query in one task list with a transaction, in both orders
	for _, route := range []string{"taskmix1", "taskmix2"} {
		for _, acl := range []string{"0", "1"} {
			for _, s := range steps {
				add(fmt.Sprintf("q %s poke %s %s", route, s, acl))
			}
			add(fmt.Sprintf("q %s poke %s %s", route, strings.Join(steps, ";"), acl))
			add(fmt.Sprintf("q %s whoAmIQ - %s", route, acl))
		}
	}
	// every Query* function of the base contract and base token, valid and invalid arguments
	_, info := methodTable()
	var fns []string
	for fn, mi := range info {
		if mi[1] == "query" && fn != "poke" && fn != "pokeNS" && fn != "whoAmIQ" {
			fns = append(fns, fn)
		}
	}
	sort.Strings(fns)
	for _, fn := range fns {
		var argc int
		fmt.Sscan(info[fn][2], &argc)
		valid := make([]string, argc)
		for i := range valid {
			valid[i] = "$U0"
		}
		junk := make([]string, argc)
		for i := range junk {
			junk[i] = "x!"
		}
		add("lib " + fn + " " + orDash(valid, ","))
		add("lib " + fn + " " + orDash(junk, ","))
		add("lib " + fn + " -")
		if argc > 0 {
			num := make([]string, argc)
			for i := range num {
				num[i] = "1"
			}
			add("lib " + fn + " " + strings.Join(num, ","))
		}
	}
	emit(h)
	c.Rule = fmt.Sprintf("%d query invocations: scripted query bodies with and without a sender parameter issuing every mutating stub call (put, put-empty, delete, event, validation parameter, private put/delete/purge/validation) alone, combined, and before a failure or panic, on both routes (direct, task execution) and in one task list with a transaction (both orders), a query without any parameter, with an ACL answer that does / does not report changed keys; plus every Query* function of base contract and base token (%d functions) with address-shaped, numeric, junk and missing arguments. Observed: write-set, event, validation parameters and private-data mutations of the simulated transaction. non-trivial = every history; distinct = sha256", count, len(fns))
	c.Extra = map[string]any{"invocations": count, "library_queries": len(fns)}
}
